#!/bin/bash
# tools/try_seeded.sh <property> <dir with patch.diff demo.py notes.txt> <seeded-id> [tier]
# Confirms a seeded change in a scratch worktree (demo passes clean, fails patched), runs our check against it,
# and stores it under /verif/seeded/<seeded-id>/ with meta.json.
set -u
P=$1; D=$2; ID=$3; TIER=${4:-quick}
WT=/tmp/seedwt_$$
git -C /repo worktree add --detach $WT HEAD -q || exit 2
cd $WT
PYTHONPATH=$WT /venv/bin/python $D/demo.py >/tmp/seed_clean_$$.log 2>&1; CLEAN=$?
git apply $D/patch.diff || { echo "patch does not apply"; git -C /repo worktree remove --force $WT; exit 2; }
PYTHONPATH=$WT /venv/bin/python $D/demo.py >/tmp/seed_pat_$$.log 2>&1; PAT=$?
cd /verif
START=$(date +%s)
VERIF_REPO=$WT timeout 1500 ./check $P --tier $TIER > /tmp/seed_check_$$.log 2>&1; RC=$?
END=$(date +%s)
NV=$(grep -c '^VIOLATION' /tmp/seed_check_$$.log)
NOIN=$(grep '^VIOLATION' /tmp/seed_check_$$.log | grep -c 'no-failing-input-found')
mkdir -p /verif/seeded/$ID
cp $D/patch.diff $D/demo.py /verif/seeded/$ID/
[ -f $D/notes.txt ] && cp $D/notes.txt /verif/seeded/$ID/
grep -A1 '^VIOLATION' /tmp/seed_check_$$.log | head -12 > /verif/seeded/$ID/check_output.txt
tail -1 /tmp/seed_check_$$.log >> /verif/seeded/$ID/check_output.txt
/venv/bin/python - <<PY
import json
json.dump({"property":"$P","seeded_id":"$ID","demo_exit_clean":$CLEAN,"demo_exit_patched":$PAT,
 "check":"VERIF_REPO=<scratch worktree with patch> ./check $P --tier $TIER","check_exit":$RC,"violation_lines":$NV,
 "violations_without_input":$NOIN,"check_wall_s":$END-$START,
 "caught": bool($RC==1 and $NV>0)}, open("/verif/seeded/$ID/meta.json","w"), indent=1)
PY
echo "$ID: demo clean=$CLEAN patched=$PAT | check rc=$RC violations=$NV (no-input: $NOIN) in $((END-START))s"
rm -f replays/$P-*.json
git -C /repo worktree remove --force $WT
rm -f /tmp/seed_*_$$.log
