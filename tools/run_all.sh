#!/bin/bash
# tools/run_all.sh [quick|thorough] — run every check registered in MANIFEST.json sequentially; summary at the end
TIER=${1:-quick}
cd /verif
for p in $(/venv/bin/python -c "import json; print(' '.join(c['property_id'] for c in json.load(open('MANIFEST.json'))['checks']))"); do
  s=$(date +%s); timeout 3000 ./check $p --tier $TIER > /tmp/runall_$p.log 2>&1; rc=$?; e=$(date +%s)
  echo "$p rc=$rc $((e-s))s $(grep -c '^VIOLATION' /tmp/runall_$p.log) violations $(grep -c '^KNOWN-FINDING' /tmp/runall_$p.log) known | $(tail -1 /tmp/runall_$p.log | cut -c1-160)"
done
