#!/bin/bash
# runs the pinned test-suite command (BASELINE.json) in a scratch copy of /repo's HEAD and compares the set of passing tests
# with BASELINE.stable_pass.  Usage: tools/baseline_check.sh [ref]
REF=${1:-HEAD}
WT=/tmp/baseline_wt_$$
git -C /repo worktree add --detach $WT $REF -q || exit 2
cd $WT
PYTHONPATH=$WT timeout 3000 /venv/bin/python -m pytest -ra -q -p no:cacheprovider --timeout=900 --continue-on-collection-errors --junitxml=/tmp/baseline_$$.xml > /tmp/baseline_$$.log 2>&1
tail -1 /tmp/baseline_$$.log
/venv/bin/python - <<PY
import json, xml.etree.ElementTree as ET
base = set(json.load(open('/root/.vp/BASELINE.json'))['stable_pass'])
t = ET.parse('/tmp/baseline_$$.xml')
passed = set()
for tc in t.iter('testcase'):
    if not any(ch.tag in ('failure','error','skipped') for ch in tc):
        passed.add(tc.get('classname') + '::' + tc.get('name'))
print('baseline stable_pass:', len(base), ' passed now:', len(passed), ' missing from passed:', len(base - passed))
for x in sorted(base - passed)[:20]: print('  LOST', x)
PY
git -C /repo worktree remove --force $WT
rm -f /tmp/baseline_$$.xml /tmp/baseline_$$.log
