"""C04 — Bits arithmetic is exact unsigned arithmetic modulo 2^n.

proof   : Props/C04.v  (generated model of PythonBits.py == BitsSpec, for all n, values, operands)
tie     : T-gen (translators/py2coq_bits.py re-run on every check) + T-diff below
T-diff  : the real pymtl3 Bits objects vs BitsSpec evaluated by coqc (vm_compute); this also guards the
          translator and the Python<->Z operator identities, and is the witness search when a proof breaks.
"""
import operator, itertools
from common import *

WIDTHS_Q = [1, 2, 3, 7, 8, 16, 31, 32, 33, 64, 65, 128, 255, 256, 512, 1023]
WIDTHS_T = [1, 2, 3, 4, 5, 7, 8, 15, 16, 17, 31, 32, 33, 63, 64, 65, 127, 128, 129, 255, 256, 257, 384, 512, 513, 1022, 1023]

BIN = ['Add', 'Sub', 'Mul', 'And', 'Or', 'Xor', 'FloorDiv', 'Mod', 'LShift', 'RShift']
DUNDER = {'Add': '__add__', 'Sub': '__sub__', 'Mul': '__mul__', 'And': '__and__', 'Or': '__or__', 'Xor': '__xor__',
          'FloorDiv': '__floordiv__', 'Mod': '__mod__', 'LShift': '__lshift__', 'RShift': '__rshift__'}
RDUNDER = {'Add': '__radd__', 'Sub': '__rsub__', 'Mul': '__rmul__', 'And': '__rand__', 'Or': '__ror__', 'Xor': '__rxor__',
           'FloorDiv': '__rfloordiv__', 'Mod': '__rmod__'}
PYOP = {'Add': operator.add, 'Sub': operator.sub, 'Mul': operator.mul, 'And': operator.and_, 'Or': operator.or_,
        'Xor': operator.xor, 'FloorDiv': operator.floordiv, 'Mod': operator.mod, 'LShift': operator.lshift,
        'RShift': operator.rshift}
CMP = {'CEq': '__eq__', 'CNe': '__ne__', 'CLt': '__lt__', 'CLe': '__le__', 'CGt': '__gt__', 'CGe': '__ge__'}
PYCMP = {'CEq': operator.eq, 'CNe': operator.ne, 'CLt': operator.lt, 'CLe': operator.le, 'CGt': operator.gt, 'CGe': operator.ge}
# reflected forms that share the forward spec (commutative) vs. those with swapped operands
RSPEC = {'Add': 'BOp Add', 'Mul': 'BOp Mul', 'And': 'BOp And', 'Or': 'BOp Or', 'Xor': 'BOp Xor',
         'Sub': 'ROp Sub', 'FloorDiv': 'ROp FloorDiv', 'Mod': 'ROp Mod'}

def values(rng, n, k=3):
  top = (1 << n) - 1
  s = {0, 1, top, max(0, top - 1), 1 << (n - 1), max(0, (1 << (n - 1)) - 1), min(top, (1 << (n - 1)) + 1)}
  for _ in range(k): s.add(rng.getrandbits(n))
  return sorted(s)

def int_operands(rng, n):
  top = (1 << n) - 1
  s = {-(1 << (n - 1)) - 1, -(1 << (n - 1)), -1, 0, 1, 2, top - 1 if top > 1 else 0, top, top + 1, n - 1, n, n + 1}
  s.add(rng.getrandbits(n)); s.add(rng.getrandbits(max(1, n // 2)))
  return sorted(s)

def res_of(fn):
  """run the implementation; canonicalise to a Coq `res (Z*Z)` term + python tuple"""
  try:
    r = fn()
  except Exception as e:
    ec = err_class(e)
    return f'Err {ec}', ('err', ec)
  return r

def bits_res(r):
  nb, u = r.nbits, r._uint
  return f'Ok ({zlit(nb)}, {zlit(int(u))})', ('ok', nb, int(u))

def operand_term(o):
  if o[0] == 'bits': return f'(OBits {o[1]} {zlit(o[2])})'
  if o[0] == 'int': return f'(OInt {zlit(o[1])})'
  return 'OOther'

def run(ctx):
  setup_impl_path()
  from pymtl3.datatypes import Bits, mk_bits
  import pymtl3.datatypes.PythonBits as PB
  assert Bits is PB.Bits, 'the pure-Python Bits is not the one in use'
  rng = ctx.rng
  widths = WIDTHS_Q if ctx.tier == 'quick' else WIDTHS_T
  cases, meta = [], []

  def mk_operand(o):
    if o[0] == 'bits': return Bits(o[1], o[2])
    if o[0] == 'int': return o[1]
    return None

  def add(kind_term, n, a, o, got_term, what, nontrivial=True):
    cases.append(f'({kind_term}, {n}, {zlit(a)}, {operand_term(o)}, {got_term})')
    meta.append(what)
    ctx.count((kind_term, n, a, o), nontrivial, cls=kind_term.split()[0] + ':' + o[0] + (':err' if got_term.startswith('Err') else ''))

  def check_invariant(r, what):
    # stored value always in [0, 2^n), whatever the spec says
    if not (isinstance(r._uint, int) and 0 <= r._uint < (1 << r.nbits)):
      ctx.violation(f'C04:range:{what}', f'stored value out of range: {what} -> nbits={r.nbits} uint={r._uint}',
                    {'case': what, 'observed': [r.nbits, int(r._uint)]})

  # a result is a value of its own: updating it in place (a legal use: `hit = a == b; hit @= hit & en`) must not change what
  # the same operation returns afterwards (results that share a preallocated object would)
  nprobe = [0]
  def probe(r, again, what):
    if isinstance(r, tuple) or not hasattr(r, '_uint') or rng.random() > 0.03: return
    nprobe[0] += 1
    v, w = int(r._uint), r.nbits
    try:
      r @= (v ^ 1) if w == 1 else ((~v) & ((1 << w) - 1))
      r2 = again()
    except Exception as e:
      ctx.violation(f'C04:result-update:{type(e).__name__}', f'{what}: updating the returned value in place with @= raises {type(e).__name__}: {str(e)[:100]}', {'case': what}); return
    if int(r2._uint) != v or r2.nbits != w:
      ctx.violation('C04:shared-result', f'{what} returned Bits{w}({v}); after that RESULT object was updated in place with @=, the same operation on the same operands returns Bits{r2.nbits}({int(r2._uint)})',
                    {'case': what, 'first_result': v, 'second_result': int(r2._uint)})

  for n in widths:
    big = n > 64
    vals = values(rng, n, 2 if big else 4)
    if big and ctx.tier == 'quick': vals = vals[:2] + vals[-3:]
    for a in vals:
      try:
        x = Bits(n, a)
      except Exception as e:
        ctx.violation(f'C04:ctor-valid:{n}:{a}', f'Bits({n}, {a}) with 0 <= value < 2^{n} raises {type(e).__name__}: {str(e)[:120]}', {'n': n, 'value': a, 'error': repr(e)})
        continue
      # operands
      ops = [('bits', n, b) for b in (values(rng, n, 1)[:3] + values(rng, n, 1)[-2:])]
      ops += [('bits', n, rng.randrange(0, min(n + 2, 1 << n)))]           # small shift amounts
      for m in {1, max(1, n - 1), min(1023, n + 1)} - {n}:
        ops.append(('bits', m, rng.getrandbits(m)))
      ints = int_operands(rng, n)
      if big and ctx.tier == 'quick': ints = ints[:4] + ints[-4:]
      ops += [('int', k) for k in ints]
      ops.append(('other',))
      rot = 0
      for o in ops:
        rot += 1
        binsel = BIN if not big else [BIN[(rot * 3 + j) % len(BIN)] for j in range(3 if ctx.tier == 'quick' else 6)]
        cmpsel = list(CMP) if not big else [list(CMP)[(rot + j) % 6] for j in range(2 if ctx.tier == 'quick' else 4)]
        for op in binsel:
          y = mk_operand(o)
          r = res_of(lambda: getattr(x, DUNDER[op])(y))
          if not isinstance(r, tuple):
            check_invariant(r, f'{op} n={n} a={a} o={o}')
            if r is x or r is y:
              ctx.violation(f'C04:alias:{op}', f'Bits{n}({a}).{DUNDER[op]}({o}) returns one of its operands instead of a new value object (in-place updates would leak)', {'op': op, 'n': n, 'a': a, 'operand': o})
            t, _ = bits_res(r)
            probe(r, lambda: getattr(x, DUNDER[op])(y), f'Bits{n}({a}).{DUNDER[op]}({o})')
          else: t = r[0]
          add(f'BOp {op}', n, a, o, t, f'Bits{n}({a}).{DUNDER[op]}({o})')
          # Python-level dispatch (x op y) must agree with the dunder
          if o[0] != 'other':
            r2 = res_of(lambda: PYOP[op](x, y))
            t2 = r2[0] if isinstance(r2, tuple) else bits_res(r2)[0]
            if t2 != t:
              ctx.violation(f'C04:dispatch:{op}:{n}:{a}:{o}', f'x {op} y disagrees with {DUNDER[op]}: {t2} vs {t}',
                            {'op': op, 'n': n, 'a': a, 'operand': o, 'dunder': t, 'operator': t2})
          if op in RDUNDER and o[0] in ('int', 'other'):
            r = res_of(lambda: getattr(x, RDUNDER[op])(y))
            if not isinstance(r, tuple):
              check_invariant(r, f'r{op} n={n} a={a} o={o}')
              t, _ = bits_res(r)
            else: t = r[0]
            add(RSPEC[op], n, a, o, t, f'Bits{n}({a}).{RDUNDER[op]}({o})')
            if o[0] == 'int':
              r2 = res_of(lambda: PYOP[op](y, x))
              t2 = r2[0] if isinstance(r2, tuple) else bits_res(r2)[0]
              if t2 != t:
                ctx.violation(f'C04:rdispatch:{op}:{n}:{a}:{o}', f'k {op} x disagrees with {RDUNDER[op]}: {t2} vs {t}',
                              {'op': op, 'n': n, 'a': a, 'operand': o, 'dunder': t, 'operator': t2})
        for c in cmpsel:
          y = mk_operand(o)
          r = res_of(lambda: getattr(x, CMP[c])(y))
          t = r[0] if isinstance(r, tuple) else bits_res(r)[0]
          add(f'COp {c}', n, a, o, t, f'Bits{n}({a}).{CMP[c]}({o})')
          probe(r, lambda: getattr(x, CMP[c])(y), f'Bits{n}({a}).{CMP[c]}({o})')
      r = ~x
      check_invariant(r, f'invert n={n} a={a}')
      add('Inv', n, a, ('other',), bits_res(r)[0], f'~Bits{n}({a})')

  ctx.sample({'kind': 'binop', 'case': meta[0], 'coq': cases[0]})
  ctx.sample({'kind': 'binop', 'case': meta[len(meta)//2], 'coq': cases[len(cases)//2]})
  defs = '''
Inductive opk := BOp (o : binop) | ROp (o : binop) | COp (c : cmpop) | Inv.
Definition runk (k : opk) (n a : Z) (o : operand) : res (Z * Z) :=
  match k with BOp op => spec_binop op n a o | ROp op => spec_rbinop op n a o
             | COp c => spec_cmp c n a o | Inv => spec_invert n a end.
'''
  bad = ctx.coq_bad_indices('ops', 'Base.Prelude Bits.BitsSpec', defs, 'opk * Z * Z * operand * res (Z * Z)', cases,
                            "let '(k, n, a, o, e) := c in res_eqb pair_eqb (runk k n a o) e")
  for i in bad[:20]:
    exp = ctx.coq_eval('exp', 'Base.Prelude Bits.BitsSpec', defs,
                       ["(fun c : opk * Z * Z * operand * res (Z * Z) => let '(k, n, a, o, e) := c in runk k n a o) " + cases[i]])
    ctx.violation(f'C04:op:{meta[i]}', f'{meta[i]}: implementation gives {cases[i].rsplit(", ", 1)[-1][:-1][:120]}, spec gives {exp[0][:120]}',
                  {'case': meta[i], 'coq_case': cases[i], 'spec': exp[0]})

  # ---------------- construction, @=, <<=, _flip, int(), uint(), hash ----------------
  c2, m2 = [], []
  for n in [0, -1, 1024, 1025] + widths:
    srcs = [('int', k) for k in ([0, 1, -1, 5] if n < 1 or n > 1023 else
            [-(1 << (n-1)) - 1, -(1 << (n-1)), -(1 << (n-1)) + 1, -1, 0, 1, (1 << (n-1)), (1 << n) - 1, (1 << n), (1 << n) + 1,
             rng.getrandbits(n), -rng.getrandbits(max(1, n-1)), rng.getrandbits(n + 3)])]
    if 1 <= n <= 1023:
      srcs += [('bits', n, rng.getrandbits(n)), ('bits', min(1023, n + 1), rng.getrandbits(n)), ('bits', max(1, n - 1), 0), ('other',)]
    for o in srcs:
      for tr in (False, True):
        if o[0] != 'int' and tr: continue
        def f():
          y = Bits(o[1], o[2]) if o[0] == 'bits' else (o[1] if o[0] == 'int' else None)
          return Bits(n, y, trunc_int=tr)
        r = res_of(f)
        t = r[0] if isinstance(r, tuple) else bits_res(r)[0]
        if not isinstance(r, tuple): check_invariant(r, f'ctor n={n} v={o}')
        c2.append(f'(KInit {"true" if tr else "false"}, {zlit(n)}, 0, 0, {operand_term(o)}, {t.replace("Ok (", "Ok3 (") if False else t})')
        m2.append(f'Bits({n}, {o}, trunc_int={tr})')
        ctx.count(('init', n, o, tr), True, cls='init' + (':err' if t.startswith('Err') else ''))
      if 1 <= n <= 1023 and o[0] in ('int', 'bits', 'other'):
        for kind, meth in (('KImatmul', '__imatmul__'), ('KIlshift', '__ilshift__'), ('KImatmul', '__imatmul__'), ('KIlshift', '__ilshift__')):
          u0, nx0 = rng.getrandbits(n), rng.getrandbits(n)
          # second round: the assigned value equals the CURRENT value (or the pending next value)
          if len(c2) % 2 == 1 and o[0] in ('int', 'bits') and (o[0] == 'int' or o[1] == n):
            val = o[1] if o[0] == 'int' else o[2]
            if 0 <= val < (1 << n): u0 = val
            if rng.random() < 0.3: nx0 = u0
          def g():
            x = Bits(n, u0); x._next = nx0
            y = Bits(o[1], o[2]) if o[0] == 'bits' else (o[1] if o[0] == 'int' else None)
            r = getattr(x, meth)(y)
            assert r is x
            return x
          r = res_of(g)
          if isinstance(r, tuple): t = r[0]
          else:
            check_invariant(r, f'{meth} n={n} v={o}')
            t = f'Ok ({r.nbits}, {zlit(int(r._uint))}) (* next {int(r._next)} *)'
            # encode the triple through two pairs: (uint, next)
            t = f'Ok ({zlit(int(r._uint))}, {zlit(int(r._next))})'
          c2.append(f'({kind}, {n}, {zlit(u0)}, {zlit(nx0)}, {operand_term(o)}, {t})')
          m2.append(f'Bits{n}({u0}; next={nx0}).{meth}({o})')
          ctx.count((kind, n, o), True, cls=kind + (':err' if t.startswith('Err') else ''))
  # mk_bits / BitsN subclasses construct the same values
  import pymtl3.datatypes.bits_import as BI
  allN = sorted(set(BI._bitwidths)) + [256, 300, 1023]
  for n in allN:
    T = getattr(BI, f'Bits{n}', None) or mk_bits(n)
    if T.nbits != n or T.__name__ != f'Bits{n}':
      ctx.violation(f'C04:BitsN-class:{n}', f'Bits{n} class reports nbits={T.nbits} name={T.__name__}', {'n': n})
    # a Bits operand of the same / another width, with and without trunc_int (the generated class must behave like Bits(n, v))
    for (m_, tr_) in ((n, False), (max(1, n - 1), False), (min(1023, n + 1), False), (min(1023, n + 4), True), (max(1, n // 2), True)):
      vb = rng.getrandbits(m_)
      r = res_of(lambda: T(Bits(m_, vb), trunc_int=tr_))
      t = r[0] if isinstance(r, tuple) else bits_res(r)[0]
      c2.append(f'(KInit {"true" if tr_ else "false"}, {n}, 0, 0, (OBits {m_} {zlit(vb)}), {t})'); m2.append(f'Bits{n}(Bits{m_}({vb}), trunc_int={tr_})')
      ctx.count(('BitsN-bits', n, m_, tr_), True, cls='BitsN-class-bits-operand')
    ks = [0, (1 << n) - 1, -(1 << (n-1)), 1 << n] if n <= 64 or n in (255, 256, 384, 512, 1023) else [(1 << n) - 1, -(1 << (n-1)) - 1]
    for k in ks:
      r = res_of(lambda: T(k))
      t = r[0] if isinstance(r, tuple) else bits_res(r)[0]
      c2.append(f'(KInit false, {n}, 0, 0, (OInt {zlit(k)}), {t})'); m2.append(f'mk_bits({n})({k})')
      ctx.count(('mk_bits', n, k), True, cls='mk_bits')
  defs2 = '''
Inductive k2 := KInit (t : bool) | KImatmul | KIlshift.
Definition run2 (k : k2) (n u nx : Z) (v : operand) : res (Z * Z) :=
  match k with
  | KInit t => spec_init n v t
  | KImatmul => bind (spec_imatmul n u nx v) (fun r => Ok (snd (fst r), snd r))
  | KIlshift => bind (spec_ilshift n u nx v) (fun r => Ok (snd (fst r), snd r))
  end.
'''
  bad = ctx.coq_bad_indices('st', 'Base.Prelude Bits.BitsSpec', defs2, 'k2 * Z * Z * Z * operand * res (Z * Z)', c2,
                            "let '(k, n, u, nx, v, e) := c in res_eqb pair_eqb (run2 k n u nx v) e")
  for i in bad[:20]:
    exp = ctx.coq_eval('exp2', 'Base.Prelude Bits.BitsSpec', defs2, ["(fun c : k2 * Z * Z * Z * operand * res (Z * Z) => let '(k, n, u, nx, v, e) := c in run2 k n u nx v) " + c2[i]])
    ctx.violation(f'C04:state:{m2[i]}', f'{m2[i]}: implementation gives {c2[i].rsplit(", ", 1)[-1][:-1][:120]}, spec gives {exp[0][:120]}',
                  {'case': m2[i], 'coq_case': c2[i], 'spec': exp[0]})
  ctx.sample({'kind': 'ctor/assign', 'case': m2[3], 'coq': c2[3]})

  # _flip, int(), uint(), hash, clone, deepcopy, bool, index
  import copy
  c3, m3 = [], []
  for n in widths:
    for u in values(rng, n, 2):
      x = Bits(n, u); x._next = nx = rng.getrandbits(n)
      si, ui, hh = x.int(), x.uint(), hash(x)
      ok = (ui == u and int(x) == u and x.__index__() == u and hh == hash((n, u)) and bool(x) == (u != 0))
      cl, dc = x.clone(), copy.deepcopy(x)
      ok = ok and cl is not x and dc is not x and (cl.nbits, cl._uint, dc.nbits, dc._uint) == (n, u, n, u)
      cl @= (u ^ 1) if n > 1 or u == 0 else 0
      ok = ok and x._uint == u                 # clone does not alias
      x._flip()
      ok = ok and x._uint == nx
      if not ok:
        ctx.violation(f'C04:accessors:{n}:{u}', f'uint/int/hash/clone/_flip mismatch on Bits{n}({u})', {'n': n, 'u': u})
      c3.append(f'({n}, {zlit(u)}, {zlit(si)})'); m3.append(f'Bits{n}({u}).int()')
      ctx.count(('sint', n, u), True, cls='sint')
  bad = ctx.coq_bad_indices('sint', 'Base.Prelude Bits.BitsSpec', '', 'Z * Z * Z', c3,
                            "let '(n, u, e) := c in spec_sint n u =? e")
  for i in bad[:10]:
    ctx.violation(f'C04:sint:{m3[i]}', f'{m3[i]} differs from two\'s-complement value', {'case': m3[i], 'coq_case': c3[i]})
  ctx.extra['cases_ops'] = len(cases); ctx.extra['cases_state'] = len(c2); ctx.extra['cases_sint'] = len(c3)

def main(ctx):
  ctx.trusted += ['translators/py2coq_bits.py (fail-closed Python-ast -> Gallina translator; its output is what the theorems are about)',
                  'Python int <-> Coq Z operator identities (+,-,*,&,|,^,~,<<,>>,//,%), exercised by the T-diff on every run']
  ctx.assumptions += ['the pure-Python Bits (pymtl3/datatypes/PythonBits.py) is the implementation in use (no mamba / PyPy fast path in this environment)',
                      'string formatting methods (__repr__, bin, hex, to_vcd_str) are outside C04 (to_vcd_str is covered by C16)']
  ctx.build_props(gen_cmds=[[PY, 'translators/py2coq_bits.py', str(REPO), 'coq/theories/Gen/BitsGen.v']],
                  extra_models=['theories/Bits/BitsSpec.vo'])
  try:
    run(ctx)
  except Exception as e:
    ctx.note('correspondence crashed: ' + traceback.format_exc()[-1500:])
    ctx.violation('C04:harness-crash', f'correspondence could not run: {e!r}', {'traceback': traceback.format_exc()}, found_input=False)
  return ctx.finish(rule='cases = operator x width x stored value x operand (Bits same/other width, boundary and random ints, non-int), '
                         'plus ctor/@=/<<= sources around -2^(n-1) and 2^n-1; distinct = distinct (op,n,a,operand) tuples; '
                         'all are non-trivial (each evaluates a different spec instance); implementation result compared with BitsSpec by coqc vm_compute')
