"""C02 — within a cycle every reader runs after its writer, in every scheduler.

theorems (Props/C02.v):
  ivl_overlap_spec / fp_overlap_spec   two bit intervals / footprints intersect iff they share a bit
  sched_ok_sound     an observed evaluation pass accepted by the Coq acceptor runs every block exactly once, runs every
                     block that writes a bit before every other block that reads that bit unless an explicit constraint
                     inverts the pair, and honours every explicit constraint
  lin_ext_b_spec, perm_b_spec          the boolean checks mean what they say
tie: T-acc — the order in which update blocks and net blocks REALLY execute during sim_eval_combinational (traced with
     sys.setprofile) under every scheduling pass, together with bit-level footprints, is checked by sched_ok inside Coq;
     additionally the harness checks statically that every writer/reader pair with overlapping bits is ordered in
     pymtl3's constraint set (a missing edge means SimpleSchedulePass's shuffle can put the reader first).
partial: method (M) constraints are checked only as "the executed order is a linear extension of the constraint set
     GenDAGPass derived" on stdlib CL designs; the derivation of block constraints from method constraints is not modelled.
"""
from common import *
import functools
import sched_common as sc

# (written object, read object, needs_order)
def _allen(base, W):
  """(written, read, needs_order) for the 13 relative positions of two slices of one W-bit object, both directions"""
  p0, p1, p2, p3 = (0, 1, 2, 3) if W == 4 else (2, 3, 5, 6)
  sl = lambda a, b: f'{base}[{a}:{b}]'
  rel = [((0, p1), (p2, W), False),        # before
         ((0, p2), (p2, W), False),        # meets
         ((0, p2), (p1, W), True),         # overlaps
         ((p1, p2), (p1, p3), True),       # starts
         ((p1, p2), (p0, p3), True),       # during: the read strictly encloses the write on both sides
         ((p2, p3), (p0, p3), True),       # finishes
         ((p1, p3), (p1, p3), True)]       # equal
  out = []
  for (a, b, need) in rel:
    out.append((sl(*a), sl(*b), need))
    if a != b: out.append((sl(*b), sl(*a), need))
  return out

REL = [
  ('s.x', 's.x', True), ('s.x[2:6]', 's.x', True), ('s.x', 's.x[2:6]', True),
  ('s.x[3]', 's.x[2:5]', True), ('s.x[2:5]', 's.x[3]', True), ('s.x[3]', 's.x[4]', False), ('s.x[2]', 's.x[2:5]', True), ('s.x[4]', 's.x[2:5]', True), ('s.x[5]', 's.x[2:5]', False),
  ('s.p', 's.p.c', True), ('s.p.c', 's.p', True), ('s.p.p', 's.p.p.a', True), ('s.p.p.a', 's.p', True), ('s.p.p.b', 's.p.p', True),
  ('s.p.p.a', 's.p.c', False), ('s.p.p.a[0:4]', 's.p', True), ('s.p', 's.p.p.a[3]', True), ('s.p.p.a[0:4]', 's.p.p.b', False),
  ('s.q.v[1]', 's.q', True), ('s.q', 's.q.v[2]', True), ('s.q.v[1]', 's.q.v[1]', True), ('s.q.v[0]', 's.q.v[1]', False),
  ('s.q.v[2][0:2]', 's.q.v[2]', True), ('s.q.t', 's.q.v[0]', False),
] + _allen('s.x', 8) + _allen('s.p.p.a', 8) + _allen('s.q.v[2]', 4)
WIDTH = {'s.x': 8, 's.p': 16, 's.p.c': 4, 's.p.p': 12, 's.p.p.a': 8, 's.p.p.b': 4, 's.q': 14, 's.q.t': 2}
TYPE = {'s.p': 'Outer', 's.p.p': 'Pt', 's.q': 'Vec'}

def width(e):
  if e in WIDTH: return WIDTH[e]
  if e.startswith('s.q.v[') and e.count('[') == 1: return 4
  base, sl = e.rsplit('[', 1); sl = sl[:-1]
  if ':' in sl:
    a, b = sl.split(':'); return int(b) - int(a)
  return 1

def shaped_design(name, W, R, wkind, rkind, extra):
  L = ['s.x = Wire( 8 )', 's.p = Wire( Outer )', 's.q = Wire( Vec )', 's.i8 = InPort( 8 )', 's.o = OutPort( 16 )', 's.r = Wire( 16 )']
  ww, rw = width(W), width(R)
  # source for the writer
  if W in TYPE:
    L.append(f's.isrc = InPort( {TYPE[W]} )'); src = 's.isrc'
  else:
    L.append(f's.isrc = InPort( {ww} )'); src = 's.isrc'
  if wkind == 'blk':   L += ['@update', 'def A():', f'  {W} @= {src}']
  elif wkind == 'net': L += [f'connect( {W}, {src} )']
  # reader
  if R in TYPE:
    L.append(f's.osnk = OutPort( {TYPE[R]} )')
    rd_stmt_blk = f's.osnk @= {R}'; rd_stmt_ff = None
  else:
    L.append(f's.osnk = OutPort( {rw} )')
    rd_stmt_blk = f's.osnk @= {R}'
  if rkind == 'blk':   L += ['@update', 'def Bk():', f'  {rd_stmt_blk}']
  elif rkind == 'net': L += [f'connect( s.osnk, {R} )']
  elif rkind == 'ff':
    if R in TYPE: L += [f's.rr = Wire( {TYPE[R]} )', '@update_ff', 'def Bf():', f'  s.rr <<= {R}']
    else:         L += [f's.rr = Wire( {rw} )', '@update_ff', 'def Bf():', f'  s.rr <<= {R}']
  if extra == 'invert' and wkind == 'blk' and rkind == 'blk':
    L.append('s.add_constraints( U(Bk) < U(A) )')
  if extra == 'chain':
    L += ['@update', 'def C():', '  s.o @= zext( s.i8, 16 )', '@update', 'def D():', '  s.r @= s.o']
    if wkind == 'blk': L.append('s.add_constraints( U(D) < U(A) )')
  body = '\n'.join('    ' + l for l in L)
  return sc.STRUCT_SRC + f'\nclass {name}( Component ):\n  def construct( s ):\n{body}\n'

def func_design(name, rng):
  """writes and reads that happen inside @s.func helpers, 1..3 calls deep"""
  d1, d2 = rng.randrange(1, 4), rng.randrange(1, 4)
  L = ['s.in_ = InPort( 8 )', 's.w = Wire( 8 )', 's.v = Wire( 8 )', 's.out = OutPort( 8 )', 's.out2 = OutPort( 8 )']
  L += ['@s.func', 'def wf0( x ):', '  s.w @= x + 1']
  for k in range(1, d1): L += ['@s.func', f'def wf{k}( x ):', f'  wf{k-1}( x )']
  L += ['@s.func', 'def rf0():', '  s.out2 @= s.v ^ 5']
  for k in range(1, d2): L += ['@s.func', f'def rf{k}():', f'  rf{k-1}()']
  L += ['@update', 'def up_wr():', f'  wf{d1-1}( s.in_ )', '@update', 'def up_rd():', '  s.out @= s.w',
        '@update', 'def up_v():', '  s.v @= s.in_ + 3', '@update', 'def up_rf():', f'  rf{d2-1}()']
  # one value-returning helper (possibly through another helper) shared by several update blocks
  nshare = rng.randrange(2, 5); d3 = rng.randrange(1, 3)
  L += ['s.t = Wire( 8 )', '@update', 'def up_t():', '  s.t @= s.in_ ^ 9', '@s.func', 'def sh0():', '  return s.t + 1']
  for k in range(1, d3): L += ['@s.func', f'def sh{k}():', f'  return sh{k-1}() ^ 3']
  for k in range(nshare): L += [f's.so{k} = OutPort( 8 )', '@update', f'def up_s{k}():', f'  s.so{k} @= sh{d3-1}() + {k}']
  body = '\n'.join('    ' + l for l in L)
  return sc.STRUCT_SRC + f'\nclass {name}( Component ):\n  def construct( s ):\n{body}\n'

def fanout_design(name, rng):
  """one source signal driving several net sinks of different kinds (whole signals in the same component and in children,
  slices, struct fields); each sink is read by a block of its own; the source is written by a block"""
  w = rng.choice([4, 8])
  L = [f's.in_ = InPort( {w} )', f's.a = Wire( {w} )', '@update', 'def up_src():', '  s.a @= s.in_ + 1']
  k = 0
  kinds = rng.sample(['whole', 'whole2', 'slice', 'field', 'child', 'outport'], rng.randrange(2, 5))
  if not ({'slice', 'field'} & set(kinds)): kinds.append('slice')
  if not ({'whole', 'whole2', 'outport'} & set(kinds)): kinds.append('whole')
  rng.shuffle(kinds)
  for kd in kinds:
    k += 1
    if kd in ('whole', 'whole2'):
      L += [f's.b{k} = Wire( {w} )', f'connect( s.a, s.b{k} )' if rng.random() < 0.5 else f'connect( s.b{k}, s.a )', f's.o{k} = OutPort( {w} )', '@update', f'def up_rd{k}():', f'  s.o{k} @= s.b{k} ^ 1']
    elif kd == 'outport':
      L += [f's.p{k} = OutPort( {w} )', f'connect( s.a, s.p{k} )', f's.o{k} = OutPort( {w} )', '@update', f'def up_rd{k}():', f'  s.o{k} @= s.p{k} + 2']
    elif kd == 'slice':
      lo = rng.randrange(0, 4)
      L += [f's.c{k} = Wire( {w + 6} )', f'connect( s.a, s.c{k}[{lo}:{lo + w}] )', f'connect( s.c{k}[0:{lo}], 0 )' if lo else '', f'connect( s.c{k}[{lo + w}:{w + 6}], 0 )',
            f's.o{k} = OutPort( {w} )', '@update', f'def up_rd{k}():', f'  s.o{k} @= s.c{k}[{lo}:{lo + w}]']
    elif kd == 'field':
      L += [f's.s{k} = Wire( Pt )', f'connect( s.a{"[0:4]" if w == 8 else ""}, s.s{k}.b )', f'connect( s.s{k}.a, 0 )', f's.o{k} = OutPort( 4 )', '@update', f'def up_rd{k}():', f'  s.o{k} @= s.s{k}.b']
    else:
      L += [f's.ch{k} = Inc( {w} )', f'connect( s.a, s.ch{k}.in_ )', f's.o{k} = OutPort( {w} )', '@update', f'def up_rd{k}():', f'  s.o{k} @= s.ch{k}.out']
  body = '\n'.join('    ' + l for l in L if l)
  return sc.STRUCT_SRC + f'\nclass {name}( Component ):\n  def construct( s ):\n{body}\n'

FMEM = """
class FMem( Component ):
  def construct( s ):
    s.n = 0
  @blocking
  def read( s, addr ):
    s.n += 1
    return s.n & 0xff
"""
def fl_design(name, rng):
  """update blocks that call blocking (FL) methods: they are wrapped in greenlets and the constraints must follow"""
  ex = rng.random() < 0.7
  L = ['s.mem = FMem()', 's.w = Wire( 8 )', 's.w2 = Wire( 8 )', 's.out = OutPort( 8 )', 's.out2 = OutPort( 8 )',
       '@update_once', 'def up_1():', '  s.w @= s.mem.read( 1 )',
       '@update_once', 'def up_2():', '  s.out @= s.w + s.mem.read( 2 )',
       '@update_once', 'def up_3():', '  s.w2 @= s.mem.read( 3 )',
       '@update', 'def up_4():', '  s.out2 @= s.w2 + 1',
       '@update_once', 'def up_5():', '  s.mem.read( 2 )',
       '@update_once', 'def up_6():', '  s.mem.read( 3 )']
  if ex: L.append(rng.choice(['s.add_constraints( U(up_6) < U(up_5) )', 's.add_constraints( U(up_5) < U(up_6) )', 's.add_constraints( U(up_4) < U(up_6) )']))
  body = '\n'.join('    ' + l for l in L)
  return sc.STRUCT_SRC + FMEM + f'\nclass {name}( Component ):\n  def construct( s ):\n{body}\n'

def index_design(name, rng):
  """reads through signal-valued indices (also when the indexed object is then sliced / a field is taken / a second index
  follows), writes to signal-indexed targets, and lists of signals iterated by bare name up to 3 levels deep"""
  v = rng.randrange(8)
  L = ['s.a = InPort( 2 )', 's.d = InPort( 8 )', 's.sel = Wire( 2 )', 's.row = Wire( 1 )', 's.col = Wire( 1 )', 's.out = OutPort( 8 )',
       '@update', 'def up_sel():', '  s.sel @= s.a ^ 1', '@update', 'def up_row():', '  s.row @= s.a[1]', '@update', 'def up_col():', '  s.col @= s.a[0]']
  if v == 0:
    L += ['s.o = [ OutPort( 8 ) for _ in range(4) ]', '@update', 'def up_demux():', '  for i in range(4):', '    s.o[i] @= 0', f'  s.o[ s.sel {rng.choice(["^ 1", "+ 1", "& 2"])} ] @= s.d', '@update', 'def up_o():', '  s.out @= s.o[0]']
  elif v == 1:
    L += ['s.i4 = [ InPort( Pt ) for _ in range(4) ]', '@update', 'def up_mux():', '  s.out @= s.i4[ s.sel ].a']
  elif v == 2:
    L += ['s.tbl = [ [ InPort( 8 ) for _ in range(2) ] for _ in range(2) ]', '@update', 'def up_tbl():', '  s.out @= s.tbl[ s.row ][ s.col ]']
  elif v == 3:
    L += ['s.i4 = [ InPort( 8 ) for _ in range(4) ]', '@update', 'def up_mux():', '  s.out @= zext( s.i4[ s.sel ][2:6], 8 )']
  elif v == 6:   # a loop whose BOUND is a signal computed in this cycle
    L += ['@update', 'def up_cnt():', '  t = Bits8( 0 )', f'  for i in range( s.sel{rng.choice(["", " + 1"])} ):', '    t = t + s.d', '  s.out @= t']
  elif v == 7:   # a loop over a list of signals through enumerate / zip
    L += ['s.vals = [ Wire( 8 ) for _ in range(3) ]', '@update', 'def up_vals():', '  for i in range(3):', '    s.vals[i] @= s.d + zext( s.sel, 8 ) + i',
          '@update', 'def up_acc():', '  t = Bits8( 0 )', f'  for {rng.choice(["i, x in enumerate( s.vals )", "x, y in zip( s.vals, s.vals )"])}:', '    t = t + x', '  s.out @= t']
  elif v == 4:
    L += ['s.w8 = Wire( 8 )', '@update', 'def up_bit():', '  s.w8 @= 0', '  s.w8[ zext( s.sel, 3 ) + 1 ] @= s.d[0]', '@update', 'def up_o():', '  s.out @= s.w8']
  else:
    depth = rng.randrange(1, 4)
    dims = [2] * depth
    decl = 'Wire( 8 )'
    for d_ in dims: decl = f'[ {decl} for _ in range({d_}) ]'
    idx = ''.join(f'[i{k}]' for k in range(depth))
    L += [f's.cube = {decl}', '@update', 'def up_fill():']
    for k in range(depth): L.append('  ' + '  ' * k + f'for i{k} in range(2):')
    L.append('  ' + '  ' * depth + f's.cube{idx} @= s.d + zext( s.sel, 8 )')
    L += ['@update', 'def up_sum():', '  t = Bits8( 0 )']
    names = ['s.cube', 'plane', 'row'][:depth]
    var = ['plane', 'row', 'x'][:depth]; var[-1] = 'x'
    cur = 's.cube'
    for k in range(depth):
      L.append('  ' + '  ' * k + f'for {var[k]} in {cur}:'); cur = var[k]
    L.append('  ' + '  ' * depth + 't = t + x')
    L.append('  s.out @= t')
  body = '\n'.join('    ' + l for l in L)
  return sc.STRUCT_SRC + f'\nclass {name}( Component ):\n  def construct( s ):\n{body}\n'

def rdwr_design(name, rng):
  """explicit VALUE constraints RD(x)/WR(x) against a block, in all four spellings, incl. the inverting form"""
  form = rng.randrange(8)
  L = ['s.i = InPort( 8 )', 's.x = Wire( 8 )', 's.y = Wire( 8 )', 's.e = Wire( 8 )', 's.o1 = OutPort( 8 )', 's.o2 = OutPort( 8 )',
       '@update', 'def W():', '  s.x @= s.i + 1', '@update', 'def R1():', '  s.o1 @= s.x ^ 1', '@update', 'def R2():', '  s.y @= s.x & 3',
       '@update', 'def E():', '  s.e @= s.i', '@update', 'def Z():', '  s.o2 @= s.y + s.e']
  txt, req = [
    ('RD( s.x ) < U( E )', [('R1', 'E'), ('R2', 'E')]),
    ('U( E ) < RD( s.x )', [('E', 'R1'), ('E', 'R2')]),
    ('RD( s.x ) > U( E )', [('E', 'R1'), ('E', 'R2')]),
    ('U( E ) > RD( s.x )', [('R1', 'E'), ('R2', 'E')]),
    ('WR( s.x ) < U( E )', [('W', 'E')]),
    ('U( E ) < WR( s.x )', [('E', 'W')]),
    ('WR( s.x ) > U( E )', [('E', 'W')]),
    ('RD( s.x ) < U( W )', [('R1', 'W'), ('R2', 'W')]),          # inverts the implicit writer-before-reader pairs
  ][form]
  L.append(f's.add_constraints( {txt} )')
  pre = ''
  if rng.random() < 0.5:
    # a second constraint on the SAME signal declared by another component (the child that owns the signal)
    pre = '''
class VChild( Component ):
  def construct( s ):
    s.in_ = InPort( 8 ); s.out = OutPort( 8 ); s.t = Wire( 8 )
    @update
    def CW():
      s.out @= s.in_ + 2
    @update
    def CE():
      s.t @= s.in_
    s.add_constraints( U( CE ) < WR( s.out ) )
'''
    L += ['s.vc = VChild()', 'connect( s.vc.in_, s.i )', 's.e2 = Wire( 8 )', 's.o3 = OutPort( 8 )',
          '@update', 'def E2():', '  s.e2 @= s.i', '@update', 'def R3():', '  s.o3 @= s.vc.out',
          's.add_constraints( U( E2 ) < WR( s.vc.out ) )']
    req = req + [('CE', 'CW'), ('E2', 'CW')]
    txt = txt + ' + two components constrain WR(vc.out)'
  body = '\n'.join('    ' + l for l in L)
  return sc.STRUCT_SRC + pre + f'\nclass {name}( Component ):\n  def construct( s ):\n{body}\n', req, txt

def graph_design(name, n, edges):
  L = [f's.t = [ Wire( 4 ) for _ in range({n}) ]', 's.i = InPort( 4 )']
  for k in range(n):
    L += ['@update', f'def g{k}():', f'  s.t[{k}] @= s.i + {k % 16}']
  for a, b in edges: L.append(f's.add_constraints( U(g{a}) < U(g{b}) )')
  body = '\n'.join('    ' + l for l in L)
  return sc.STRUCT_SRC + f'\nclass {name}( Component ):\n  def construct( s ):\n{body}\n'

def check_orders(ctx, name, src, cls, variants, coq_cases, coq_meta, needs=None, fl=False, required=None):
  fp = None; orders = []
  for sch, i in variants:
    try:
      top = sc.build(cls, sch, rng=random.Random(ctx.rng.randrange(1 << 30)), seed=i)
    except Exception as e:
      if fl:   # not every pass group supports blocks that call blocking methods; that is outside C02
        ctx.hist[f'fl-unsupported:{sch}'] = ctx.hist.get(f'fl-unsupported:{sch}', 0) + 1
        continue
      ctx.violation(f'C02:build:{name}:{sch}:{type(e).__name__}', f'legal design {name} rejected by {sch}: {type(e).__name__}: {str(e)[:200]}',
                    {'design_source': src, 'scheduler': sch, 'traceback': traceback.format_exc()[-1500:]})
      continue
    fpl = sc.Footprints(top)
    if fp is None: fp = fpl
    if fl:
      o = sc.static_order(top, fpl)
      if o is None: continue
    else:
      top.sim_reset()
      tracer = sc.OrderTracer(top, fpl.comb)
      o = tracer.run(top.sim_eval_combinational)
    orders.append((f'{sch}#{i}', o))
    ctx.count((name, sch, i), True, cls='sched:' + sch)
    # static completeness: every overlapping writer/reader pair must be ordered by pymtl3's constraint set
    if required:
      # ordering requirements derived from the TEXT of the generated constraints (RD/WR value constraints), by block name
      ids_ = {b.__name__: k for k, b in enumerate(fpl.comb)}
      fpl.expl = sorted(set(fpl.expl) | {(ids_[a], ids_[b]) for (a, b) in required if a in ids_ and b in ids_})
      if fp is fpl or fp is None: fp = fpl
    if (sch, i) == variants[0]:
      E = set(fpl.edges); X = set(fpl.expl)
      if required:
        reach0 = {a: set() for a in range(len(fpl.comb))}
        for (a, b) in E: reach0[a].add(b)
        ch = True
        while ch:
          ch = False
          for a in reach0:
            nw = (set().union(*[reach0[x] for x in reach0[a]]) - reach0[a]) if reach0[a] else set()
            if nw: reach0[a] |= nw; ch = True
        for (a, b) in required:
          if a in ids_ and b in ids_ and ids_[b] not in reach0[ids_[a]]:
            ctx.violation(f'C02:value-constraint-dropped:{name}:{a}:{b}',
                          f'design {name}: the declared RD/WR value constraint requires block {a} before block {b}, but the constraint set the schedulers use does not imply it',
                          {'design_source': src, 'before': a, 'after': b, 'edges': [(fpl.comb[x].__name__, fpl.comb[y].__name__) for x, y in fpl.edges]})
      for (a, b) in X:
        if (a, b) not in E:
          ctx.violation(f'C02:explicit-dropped:{name}:{fpl.comb[a].__name__}:{fpl.comb[b].__name__}',
                        f'design {name}: the explicit constraint U({fpl.comb[a].__name__}) < U({fpl.comb[b].__name__}) is not in the constraint set the schedulers use',
                        {'design_source': src, 'before': fpl.comb[a].__name__, 'after': fpl.comb[b].__name__})
      if not fl:
        # writes that pymtl3's analysis did not attribute to the block (found by running the block alone)
        dyn = sc.dynamic_writes(top, fpl, random.Random(ctx.rng.randrange(1 << 30)))
        reach = {a: set() for a in range(len(fpl.comb))}
        for (a, b) in E: reach[a].add(b)
        changed = True
        while changed:
          changed = False
          for a in reach:
            new = (set().union(*[reach[b] for b in reach[a]]) - reach[a]) if reach[a] else set()
            if new: reach[a] |= new; changed = True
        # reads that pymtl3's analysis did not attribute to the block (found by perturbing undeclared signals)
        dynr = sc.dynamic_reads(top, fpl, random.Random(ctx.rng.randrange(1 << 30)))
        rinv = {v: k for k, v in fpl.roots.items()}
        for br, rids in dynr.items():
          c = fpl.cid[br]
          for a, ba in enumerate(fpl.comb):
            if a == c: continue
            hit = [r for r in rids if any(r == r2 for (r2, l2, h2) in fpl.writes[ba])]
            if hit and c not in reach[a] and (c, a) not in X:
              ctx.violation(f'C02:unattributed-read:{name}:{ba.__name__}:{br.__name__}',
                            f'design {name}: block {br.__name__} really depends on {[repr(rinv[r]) for r in hit[:3]]}, written by {ba.__name__}, but the read is not attributed to it and nothing orders the writer before it',
                            {'design_source': src, 'writer': ba.__name__, 'reader': br.__name__, 'signals': [repr(rinv[r]) for r in hit]})
        for bw, bits in dyn.items():
          a = fpl.cid[bw]
          for c, bc in enumerate(fpl.comb):
            if c == a: continue
            hit = [(r, k) for (r, k) in bits if any(r == r2 and l2 <= k < h2 for (r2, l2, h2) in fpl.reads[bc])]
            if hit and c not in reach[a] and (c, a) not in X:
              ctx.violation(f'C02:unattributed-write:{name}:{bw.__name__}:{bc.__name__}',
                            f'design {name}: block {bw.__name__} really writes bits {hit[:3]} (root id, bit) that {bc.__name__} reads, but the write is not attributed to it and nothing orders it before the reader',
                            {'design_source': src, 'writer': bw.__name__, 'reader': bc.__name__, 'bits': hit[:8]})
      for a, ba in enumerate(fpl.comb):
        for b, bb in enumerate(fpl.comb):
          if a == b: continue
          ov = any(r1 == r2 and l1 < h2 and l2 < h1 for (r1, l1, h1) in fpl.writes[ba] for (r2, l2, h2) in fpl.reads[bb])
          if ov and (a, b) not in E and (b, a) not in X:
            ctx.violation(f'C02:missing-constraint:{name}:{ba.__name__}:{bb.__name__}',
                          f'design {name}: block {ba.__name__} writes bits that {bb.__name__} reads, but no ordering constraint exists (writes {fpl.writes[ba]}, reads {fpl.reads[bb]})',
                          {'design_source': src, 'writer': ba.__name__, 'reader': bb.__name__, 'writes': fpl.writes[ba], 'reads': fpl.reads[bb]})
  if fp is None: return
  oterm = coq_list([coq_list([f'{x}%nat' for x in o]) for _, o in orders])
  coq_cases.append(f'({fp.design_term()}, {oterm})')
  coq_meta.append((name, src, [n for n, _ in orders], [o for _, o in orders], [b.__name__ for b in fp.comb]))
  dag_add(ctx, name, src, fp)

def dag_add(ctx, name, src, fp, expl=None):
  """the constraint graph itself goes to the graph acceptor (Sched/DagAccept.v): every schedule it allows"""
  if not hasattr(ctx, '_dag_cases'): ctx._dag_cases, ctx._dag_meta = [], []
  term, missing = sc.dag_case(fp, expl=expl)
  ctx._dag_cases.append(term)
  ctx._dag_meta.append((name, src, [(fp.comb[a].__name__, fp.comb[b].__name__) for a, b in missing], [b.__name__ for b in fp.comb]))
  if fp.alias_rep and any(k != v for k, v in fp.alias_rep.items()):
    # the same graph judged with signals that share storage merged (dependencies that run through aliasing)
    term, missing = sc.dag_case(fp, expl=expl, alias=True)
    ctx._dag_cases.append(term)
    ctx._dag_meta.append((name + ' [signals sharing storage merged]', src, [(fp.comb[a].__name__, fp.comb[b].__name__) for a, b in missing], [b.__name__ for b in fp.comb]))

def expect_reject(ctx, name, src, cls, what):
  for sch in ['simple', 'dynamic', 'unroll', 'heuristic', 'mamba']:
    try:
      top = sc.build(cls, sch, seed=0)
      top.sim_reset(); top.sim_eval_combinational()
      ctx.violation(f'C02:cyclic-accepted:{name}:{sch}', f'{what} was scheduled by {sch} instead of being rejected',
                    {'design_source': src, 'scheduler': sch})
    except Exception as e:
      ctx.hist['reject:' + type(e).__name__] = ctx.hist.get('reject:' + type(e).__name__, 0) + 1
    ctx.count((name, sch, 'reject'), True, cls='cyclic-novar')
  for f in ('/tmp/upblk-dag.gv', '/tmp/upblk-dag.gv.pdf'):
    if os.path.exists(f): os.remove(f)

def run(ctx):
  setup_impl_path()
  quick = ctx.tier == 'quick'
  rng = ctx.rng
  coq_cases, coq_meta = [], []
  variants = [('simple', 0), ('simple', 1), ('forced', 0), ('forced', 1), ('forced', 2), ('dynamic', 0), ('unroll', 0), ('heuristic', 0), ('mamba', 0)]
  k = 0
  combos = [(W, R, need, wk, rk, ex) for (W, R, need) in REL for wk in ('blk', 'net') for rk in ('blk', 'net', 'ff') for ex in ('', 'chain', 'invert')]
  if quick:
    combos = [c for c in combos if c[5] != 'invert' or (c[3] == 'blk' and c[4] == 'blk')]
    # the systematic slice-position table: every relation with block writer/reader, the other kinds on s.x only
    nrel0 = len(REL) - 3 * 13
    allen = {(W, R) for (W, R, _) in REL[nrel0:]}
    combos = [c for c in combos if (c[0], c[1]) not in allen or (c[5] == '' and ((c[3], c[4]) == ('blk', 'blk') or c[0].startswith('s.x[')))]
  for (W, R, need, wk, rk, ex) in combos:
    if ex == 'invert' and not (wk == 'blk' and rk == 'blk'): continue
    if wk == 'net' and '[' in W and W.count('[') > 1 and not W.startswith('s.q'): continue
    if rk == 'net' and not need: continue     # a net reading bits nobody drives is an illegal design (NoWriterError)
    name = f'S{k}'; k += 1
    src = shaped_design(name, W, R, wk, rk, ex)
    try:
      cls, _ = sc.load_source(ctx, src, name)
      check_orders(ctx, name, src, cls, variants if not quick else variants[::2] + [variants[5]], coq_cases, coq_meta)
      ctx.hist[f'shape:{wk}->{rk}'] = ctx.hist.get(f'shape:{wk}->{rk}', 0) + 1
    except Exception as e:
      ctx.violation(f'C02:design-crash:{W}:{R}:{wk}:{rk}:{ex}:{type(e).__name__}', f'shaped design ({W} written by {wk}, {R} read by {rk}, {ex}) failed: {type(e).__name__}: {str(e)[:200]}',
                    {'design_source': src, 'traceback': traceback.format_exc()[-1500:]})
  # random larger designs
  for j in range(22 if quick else 200):
    g = sc.Gen(random.Random(rng.randrange(1 << 30)), f'R{j}', size=rng.choice(['medium', 'large'])).build()
    cls, _ = sc.load_source(ctx, g.source(), g.name)
    check_orders(ctx, g.name, g.source(), cls, variants, coq_cases, coq_meta)
    if g.param:
      # the same class elaborated again in this process with another construct-time parameter (other block bodies)
      cls1 = functools.partial(cls, 1); cls1.__name__ = cls.__name__
      check_orders(ctx, g.name + '_p1', g.source() + f'\n# elaborated as {g.name}( 1 ) after {g.name}( 0 ) in the same process\n', cls1, variants[::2], coq_cases, coq_meta)
  # writes/reads through @s.func helpers; blocks calling blocking methods (greenlet-wrapped)
  for j in range(6 if quick else 40):
    src = func_design(f'FN{j}', rng)
    cls, _ = sc.load_source(ctx, src, f'FN{j}')
    check_orders(ctx, f'FN{j}', src, cls, variants, coq_cases, coq_meta)
    ctx.hist['family:func'] = ctx.hist.get('family:func', 0) + 1
  for j in range(6 if quick else 40):
    src = fl_design(f'FL{j}', rng)
    try:
      cls, _ = sc.load_source(ctx, src, f'FL{j}')
      check_orders(ctx, f'FL{j}', src, cls, [('simple', 0), ('simple', 1), ('simple', 2), ('forced', 0), ('forced', 1), ('dynamic', 0), ('heuristic', 0)], coq_cases, coq_meta, fl=True)
      ctx.hist['family:blocking-method'] = ctx.hist.get('family:blocking-method', 0) + 1
    except Exception as e:
      ctx.violation(f'C02:fl-design-crash:{type(e).__name__}', f'FL design failed: {type(e).__name__}: {str(e)[:200]}', {'design_source': src, 'traceback': traceback.format_exc()[-1500:]})
  for j in range(10 if quick else 100):
    src = fanout_design(f'FO{j}', rng)
    try:
      cls, _ = sc.load_source(ctx, src, f'FO{j}')
      check_orders(ctx, f'FO{j}', src, cls, variants, coq_cases, coq_meta)
      ctx.hist['family:net-fanout'] = ctx.hist.get('family:net-fanout', 0) + 1
    except Exception as e:
      ctx.violation(f'C02:fanout-design-crash:{type(e).__name__}', f'net fan-out design failed: {type(e).__name__}: {str(e)[:200]}', {'design_source': src, 'traceback': traceback.format_exc()[-1500:]})
  for j in range(14 if quick else 120):
    src = index_design(f'IX{j}', rng)
    try:
      cls, _ = sc.load_source(ctx, src, f'IX{j}')
      check_orders(ctx, f'IX{j}', src, cls, variants, coq_cases, coq_meta)
      ctx.hist['family:signal-index'] = ctx.hist.get('family:signal-index', 0) + 1
    except Exception as e:
      ctx.violation(f'C02:index-design-crash:{type(e).__name__}', f'index design failed: {type(e).__name__}: {str(e)[:200]}', {'design_source': src, 'traceback': traceback.format_exc()[-1500:]})
  for j in range(16 if quick else 64):
    src, req, txt = rdwr_design(f'VC{j}', random.Random(j * 7919 + ctx.seed % 1000))
    try:
      cls, _ = sc.load_source(ctx, src, f'VC{j}')
      check_orders(ctx, f'VC{j}', src, cls, variants, coq_cases, coq_meta, required=req)
      ctx.hist['family:value-constraint:' + txt.split('(')[0].strip() + ('<' if '<' in txt else '>')] = ctx.hist.get('family:value-constraint:' + txt.split('(')[0].strip() + ('<' if '<' in txt else '>'), 0) + 1
    except Exception as e:
      ctx.violation(f'C02:rdwr-design-crash:{type(e).__name__}', f'value-constraint design ({txt}) failed: {type(e).__name__}: {str(e)[:200]}', {'design_source': src, 'traceback': traceback.format_exc()[-1500:]})
  # pure constraint graphs
  for j in range(12 if quick else 60):
    n = rng.choice([5, 8, 13, 30, 60] if quick else [5, 8, 13, 30, 60, 120])
    perm = list(range(n)); rng.shuffle(perm)
    edges = set()
    for _ in range(rng.randrange(n, 3 * n)):
      a, b = sorted(rng.sample(range(n), 2)); edges.add((perm[a], perm[b]))
    src = graph_design(f'G{j}', n, sorted(edges))
    cls, _ = sc.load_source(ctx, src, f'G{j}')
    check_orders(ctx, f'G{j}', src, cls, variants, coq_cases, coq_meta)
    ctx.hist['graph-blocks:%d' % n] = ctx.hist.get('graph-blocks:%d' % n, 0) + 1
  # cycles that involve no value-carrying signal must be rejected
  for j, cyc in enumerate([[(0, 1), (1, 0)], [(0, 1), (1, 2), (2, 0)], [(0, 1), (1, 2), (2, 3), (3, 1)]]):
    src = graph_design(f'Y{j}', 5, cyc)
    cls, _ = sc.load_source(ctx, src, f'Y{j}')
    expect_reject(ctx, f'Y{j}', src, cls, f'a cyclic constraint graph {cyc} without any signal')
  for j, cyc in enumerate([[(0, 1), (1, 2), (2, 0)], [(1, 2), (2, 1)]]):
    L = ['s.t = [ Wire( 4 ) for _ in range(4) ]', 's.i = InPort( 4 )', 's.o = OutPort( 4 )']
    for k in range(3): L += ['@update', f'def g{k}():', f'  s.t[{k}] @= s.i + {k}']
    L += ['@update', 'def outside():', '  s.o @= s.t[1] ^ s.t[2]']          # exchanges signals with blocks of the cycle
    for a, b in cyc: L.append(f's.add_constraints( U(g{a}) < U(g{b}) )')
    body = '\n'.join('    ' + l for l in L)
    src = sc.STRUCT_SRC + f'\nclass YO{j}( Component ):\n  def construct( s ):\n{body}\n'
    cls, _ = sc.load_source(ctx, src, f'YO{j}')
    expect_reject(ctx, f'YO{j}', src, cls, f'a cyclic constraint graph {cyc} that carries no signal (its blocks also feed a block outside the cycle)')
  # stdlib CL designs: executed order must be a linear extension of GenDAGPass's constraint set
  # (the earlier stdlib-only CL probe is superseded by cl_method_designs)
  cl_method_designs(ctx, coq_cases, coq_meta)
  defs = '''
Definition case_ok (c : design * list (list nat)) : bool :=
  let '(d, os) := c in wf_design d && forallb (sched_ok d) os.
'''
  bad = ctx.coq_bad_indices('acc', 'Base.Prelude Sched.Accept', defs, 'design * list (list nat)', coq_cases, 'case_ok c', shard=12)
  for i in bad[:8]:
    name, src, onames, orders, bnames = coq_meta[i]
    parts = ctx.coq_eval('why', 'Base.Prelude Sched.Accept', defs, [f"let '(d, os) := {coq_cases[i]} in (wf_design d, map (sched_ok d) os)"])
    ctx.violation(f'C02:order:{name}', f'design {name}: an executed schedule violates reader-after-writer / explicit constraints; (wf, per-schedule ok) = {parts[0][:300]}; blocks {bnames[:12]}',
                  {'design_source': src, 'blocks': bnames, 'schedules': dict(zip(onames, orders)), 'acceptor_result': parts[0]})
  badg = ctx.coq_bad_indices('dag', 'Base.Prelude Sched.Accept Sched.DagAccept', '', 'design * list (nat * nat) * list (list nat)',
                             ctx._dag_cases, "let '(d, G, P) := c in dag_ok d G P", shard=12)
  for i in badg[:8]:
    name, src, missing, bn = ctx._dag_meta[i]
    ctx.violation(f'C02:graph-acceptor:{name}', f'design {name}: the constraint graph the schedulers use is rejected by dag_ok: required (before, after) pairs not connected by any path: {missing[:4]} - some schedule the graph allows violates reader-after-writer / an explicit constraint',
                  {'design_source': src, 'unordered_pairs': missing, 'blocks': bn})
  ctx.extra['designs_with_graph_acceptor_case'] = len(ctx._dag_cases)
  ctx.sample({'design': coq_meta[3][0], 'source_tail': coq_meta[3][1][-500:], 'blocks': coq_meta[3][4], 'observed_orders': dict(zip(coq_meta[3][2], coq_meta[3][3]))})
  ctx.extra.update({'designs': len(coq_cases)})

CL_LIB = """
from pymtl3 import *
from pymtl3.stdlib.queues.cl_queues import PipeQueueCL, BypassQueueCL, NormalQueueCL
class Src( Component ):
  def construct( s ):
    s.send = CallerIfcCL(); s.n = 0
    @update_once
    def up_src():
      if s.send.rdy():
        s.send( Bits8( s.n & 255 ) ); s.n += 1
class St( Component ):
  def construct( s, kind ):
    s.send = CallerIfcCL(); s.q = []
    @update_once
    def up_st():
      if s.q and s.send.rdy(): s.send( s.q.pop(0) )
    if kind == 1:   s.add_constraints( M( s.recv ) < U( up_st ) )
    elif kind == 2: s.add_constraints( U( up_st ) < M( s.recv ) )
    elif kind == 3: s.add_constraints( M( s.recv ) < M( s.aux ), M( s.aux ) < U( up_st ) )     # through a method nobody calls
    elif kind == 4: s.add_constraints( U( up_st ) < M( s.aux ), M( s.aux ) < M( s.recv ) )     # the same, the other way round
    elif kind == 5: s.add_constraints( M( s.recv ) < M( s.aux ), M( s.aux ) == M( s.aux2 ), M( s.aux2 ) < U( up_st ) )   # an equivalence in the middle of the chain
    elif kind == 6: s.add_constraints( U( up_st ) < M( s.aux ), M( s.aux ) == M( s.aux2 ), M( s.aux2 ) < M( s.recv ) )
    elif kind == 7: s.add_constraints( M( s.recv ) == M( s.aux ), M( s.aux ) < M( s.aux2 ), M( s.aux2 ) == M( s.aux3 ), M( s.aux3 ) < U( up_st ) )
    elif kind == 8: s.add_constraints( U( up_st ) < M( s.aux ), M( s.aux ) == M( s.aux2 ), M( s.aux2 ) == M( s.aux3 ), M( s.aux3 ) < M( s.recv ) )
  @non_blocking( lambda s: len( s.q ) < 2 )
  def recv( s, msg ): s.q.append( msg )
  @non_blocking( lambda s: True )
  def aux( s ): return 0
  @non_blocking( lambda s: True )
  def aux2( s ): return 0
  @non_blocking( lambda s: True )
  def aux3( s ): return 0
class Pull( Component ):
  def construct( s ):
    s.get = CallerIfcCL(); s.send = CallerIfcCL()
    @update_once
    def up_pull():
      if s.get.rdy() and s.send.rdy(): s.send( s.get() )
class Snk( Component ):
  def construct( s ): s.got = []
  @non_blocking( lambda s: True )
  def recv( s, msg ): s.got.append( int( msg ) )
"""

def cl_design(name, rng):
  """a chain  Src -> stage* -> Snk  of method-based (CL) components; every stage kind carries a different explicit
  method / block constraint, stdlib CL queues (M==M-free M<M constraints) sit between some stages"""
  L = ['s.src = Src()', 's.snk = Snk()']
  prev = 's.src.send'
  n = rng.randrange(1, 5)
  for i in range(n):
    if rng.random() < 0.4:
      Q = rng.choice(['PipeQueueCL', 'BypassQueueCL', 'NormalQueueCL'])
      L += [f's.q{i} = {Q}( {rng.randrange(1, 3)} )', f's.p{i} = Pull()', f'connect( {prev}, s.q{i}.enq )', f'connect( s.p{i}.get, s.q{i}.deq )']
      prev = f's.p{i}.send'
    else:
      L += [f's.t{i} = St( {rng.randrange(0, 9)} )', f'connect( {prev}, s.t{i}.recv )']
      prev = f's.t{i}.send'
  L.append(f'connect( {prev}, s.snk.recv )')
  body = '\n'.join('    ' + l for l in L)
  return CL_LIB + f'\nclass {name}( Component ):\n  def construct( s ):\n{body}\n'

def cl_method_designs(ctx, coq_cases, coq_meta):
  """explicit METHOD constraints: the required block order is re-derived here from (i) the M/U constraints as declared and
  (ii) which block REALLY calls which method (observed with sys.setprofile during simulation) — independently of
  GenDAGPass._process_methods — and the executed schedule is checked against it by the Coq acceptor"""
  import sys as _sys
  from pymtl3.dsl.Connectable import NonBlockingIfc, BlockingIfc, MethodPort
  rng = ctx.rng
  for j in range(10 if ctx.tier == 'quick' else 120):
    name = f'CL{j}'
    src = cl_design(name, random.Random(rng.randrange(1 << 30)))
    try:
      cls, _ = sc.load_source(ctx, src, name)
      orders = []; fp0 = None; req = None
      for sch, sd in [('simple', 0), ('simple', 1), ('simple', 2), ('simple', 3), ('dynamic', 0)]:
        top = sc.build(cls, sch, seed=sd)
        fpl = sc.Footprints(top)
        o = sc.static_order(top, fpl)
        if o is None: continue
        if fp0 is None:
          fp0 = fpl
          # underlying python function of a method reference
          def und(x):
            if isinstance(x, MethodPort): x = x.method
            elif isinstance(x, (NonBlockingIfc, BlockingIfc)): x = x.method.method
            while hasattr(x, '__wrapped__'): x = x.__wrapped__
            return x
          def mkey(f):
            f = und(f)
            return (getattr(f, '__func__', f).__code__, id(getattr(f, '__self__', None)))
          cons = []; eqs = []
          node = lambda x: ('b', fpl.cid[x]) if x in fpl.cid else ('m', mkey(x))
          for (x, y, eq) in top._dsl.all_M_constraints:
            (eqs if eq else cons).append((node(x), node(y)))
          # M(x) == M(y): the two methods are one point of the order; merge them (union-find), callers included
          par = {}
          def find(u):
            while par.get(u, u) != u: u = par[u]
            return u
          for (x, y) in eqs:
            rx, ry = find(x), find(y)
            if rx != ry: par[rx] = ry
          members = {}
          for n_ in {n_ for c_ in cons + eqs for n_ in c_}: members.setdefault(find(n_), set()).add(n_)
          if eqs: ctx.hist['cl-method-equivalences'] = ctx.hist.get('cl-method-equivalences', 0) + len(eqs)
          cons = [(find(x), find(y)) for (x, y) in cons]
          mkeys = {n_[1] for ms in members.values() for n_ in ms if n_[0] == 'm'}
          # observed call graph
          calls = set(); stack = []
          bcodes = {}
          for b_ in fpl.comb:
            if b_ in top._dag.genblks: continue
            bcodes[(b_.__code__, id(top.get_update_block_host_component(fpl.orig.get(b_, b_))))] = fpl.cid[b_]
          def prof(frame, event, arg):
            if event == 'call':
              k = (frame.f_code, id(frame.f_locals.get('s')))
              if k in bcodes: stack.append(bcodes[k])
              elif k in mkeys and stack: calls.add((stack[-1], k))
              else: stack.append(None) if False else None
            elif event == 'return':
              k = (frame.f_code, id(frame.f_locals.get('s')))
              if k in bcodes and stack: stack.pop()
          top.sim_reset()
          _sys.setprofile(prof)
          try:
            for _ in range(8): top.sim_tick()
          finally: _sys.setprofile(None)
          callers0 = {}
          for (b_, k) in calls: callers0.setdefault(k, set()).add(b_)
          # callers of a merged point: the callers of all its member methods
          callers = {}
          for rep, ms in members.items():
            if rep[0] == 'm':
              callers[rep[1]] = set().union(*[callers0.get(n_[1], set()) for n_ in ms if n_[0] == 'm'])
          # closure over method-only chains
          succ = {}
          for (x, y) in cons: succ.setdefault(x, set()).add(y)
          def reach_methods(x):
            seen, todo = set(), [x]
            while todo:
              u = todo.pop()
              for v in succ.get(u, ()):
                if v not in seen:
                  seen.add(v)
                  if v[0] == 'm': todo.append(v)
            return seen
          req = set()
          nodes = {n_ for c_ in cons for n_ in c_}
          for x in nodes:
            firsts = {x[1]} if x[0] == 'b' else callers.get(x[1], set())
            for y in reach_methods(x):
              lasts = {y[1]} if y[0] == 'b' else callers.get(y[1], set())
              for a in firsts:
                for b_ in lasts:
                  if a != b_: req.add((a, b_))
          if not top.snk.got: ctx.note(f'{name}: nothing reached the sink')
        orders.append((f'{sch}#{sd}', o))
        ctx.count((name, sch, sd), True, cls='cl-method:' + sch)
      if fp0 is None or req is None: continue
      both = {(a, b_) for (a, b_) in req if (b_, a) in req}
      req -= both          # contradictory requirements (a design error of the generator) are not demanded
      # statically: every required pair must follow from the constraint set the schedulers use (else some legal
      # schedule of SimpleSchedulePass puts the blocks in the wrong order)
      reach = {a: set() for a in range(len(fp0.comb))}
      for (a, b_) in fp0.edges: reach[a].add(b_)
      ch = True
      while ch:
        ch = False
        for a in reach:
          new_ = (set().union(*[reach[x] for x in reach[a]]) - reach[a]) if reach[a] else set()
          if new_: reach[a] |= new_; ch = True
      for (a, b_) in sorted(req):
        if b_ not in reach[a]:
          ctx.violation(f'C02:method-constraint-dropped:{name}:{fp0.comb[a].__name__}:{fp0.comb[b_].__name__}',
                        f'design {name}: the declared method/block constraints together with the observed calls require {fp0.comb[a].__name__} (block {a}) before {fp0.comb[b_].__name__} (block {b_}), but the constraint set the schedulers use does not imply it',
                        {'design_source': src, 'before': [a, fp0.comb[a].__name__], 'after': [b_, fp0.comb[b_].__name__], 'edges': fp0.edges})
      oterm = coq_list([coq_list([f'{x}%nat' for x in o]) for _, o in orders])
      coq_cases.append(f'({fp0.design_term(expl=sorted(req))}, {oterm})')
      dag_add(ctx, name, src, fp0, expl=sorted(req))
      coq_meta.append((name, src, [n_ for n_, _ in orders], [o for _, o in orders], [b_.__name__ for b_ in fp0.comb]))
      ctx.hist['family:cl-method-constraints'] = ctx.hist.get('family:cl-method-constraints', 0) + 1
      ctx.hist['cl-required-pairs'] = ctx.hist.get('cl-required-pairs', 0) + len(req)
    except Exception as e:
      ctx.violation(f'C02:cl-design-crash:{type(e).__name__}', f'CL design failed: {type(e).__name__}: {str(e)[:200]}', {'design_source': src, 'traceback': traceback.format_exc()[-1500:]})

def cl_orders(ctx):
  from pymtl3 import Component, Bits16, DefaultPassGroup
  from pymtl3.stdlib.queues.cl_queues import NormalQueueCL, PipeQueueCL, BypassQueueCL
  from pymtl3.stdlib.test_utils import TestSrcCL, TestSinkCL
  from pymtl3.dsl import connect
  class H(Component):
    def construct(s, Q, n):
      s.src = TestSrcCL(Bits16, [Bits16(i) for i in range(6)])
      s.q = Q(num_entries=n)
      s.sink = TestSinkCL(Bits16, [Bits16(i) for i in range(6)])
      connect(s.src.send, s.q.enq); connect(s.q.deq, s.sink.recv)
    def done(s): return s.src.done() and s.sink.done()
  for Q in (NormalQueueCL, PipeQueueCL, BypassQueueCL):
    for n in (1, 2):
      try:
        top = H(Q, n); top.elaborate(); top.apply(DefaultPassGroup()); top.sim_reset()
      except Exception as e:
        ctx.note(f'CL harness {Q.__name__} could not be built: {e!r}'); continue
      blocks = sorted(top._dag.final_upblks - top.get_all_update_ff(), key=lambda b: (b.__name__, id(b)))
      idx = {b: i for i, b in enumerate(blocks)}
      # blocks may be wrapped (greenlets); use the schedule list itself, un-nesting SCC wrappers is not needed for these designs
      sched = list(top._sched.update_schedule)
      pos = {}
      for p, b in enumerate(sched): pos[b] = p
      bad = [(a.__name__, b.__name__) for (a, b) in top._dag.all_constraints if a in pos and b in pos and pos[a] >= pos[b]]
      missing = [b.__name__ for b in blocks if b not in pos]
      ctx.count(('cl', Q.__name__, n), True, cls='cl-queue')
      if bad or missing or len(sched) != len(set(sched)):
        ctx.violation(f'C02:cl-order:{Q.__name__}:{n}', f'{Q.__name__}({n}): schedule violates constraints {bad[:4]} / misses blocks {missing[:4]}',
                      {'queue': Q.__name__, 'num_entries': n, 'violated': bad, 'missing': missing})
      for _ in range(12): top.sim_tick()
      if not top.done():
        ctx.violation(f'C02:cl-run:{Q.__name__}:{n}', f'{Q.__name__}({n}) source/sink harness did not finish in 12 cycles', {'queue': Q.__name__})

def main(ctx):
  ctx.trusted += ['harness/sched_common.py: mapping of pymtl3 signal objects (slices, struct fields, list elements) to bit intervals, execution-order tracer']
  ctx.assumptions += ['read/write sets of user blocks are pymtl3\'s own AST analysis; the harness maps them to bit intervals independently of GenDAGPass',
                      'method (M) constraints: only the executed order vs. the derived constraint set is checked on stdlib CL queues (partial)',
                      'a cyclic design must be rejected with an error; any exception raised before a schedule is installed counts (this sandbox lacks graphviz/xdg-open, so SimpleSchedulePass raises from dump_dag before it can raise UpblkCyclicError)']
  ctx.build_props(extra_models=['theories/Sched/Accept.vo', 'theories/Sched/DagAccept.vo'])
  try:
    run(ctx)
  except Exception as e:
    ctx.violation('C02:harness-crash', f'correspondence could not run: {e!r}', {'traceback': traceback.format_exc()}, found_input=False)
  return ctx.finish(rule='shape-directed designs: (written object, read object) relation kinds x writer kind {block, net} x reader kind {block, net, update_ff} x {plain, extra chain, explicit inversion}, '
                         'random RTL designs, random constraint DAGs of 5..300 blocks, signal-free cycles; each under every scheduler; distinct = (design, scheduler variant)')
