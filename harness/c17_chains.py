"""harness/c17_chains.py — C17, queues AS USED through the library's own interface adapters and by CL callers that reuse
their message object.  Helper module of harness/c17.py (drivers only; the judgement is made in Coq as for every other case).

chains (all assembled with plain `connect`; the adapters are the ones pymtl3/stdlib/ifcs and stream/queue_adapters.py provide):
  rtl>clq       RTL en/rdy producer -> [RecvRTL2SendCL] -> {Normal,Pipe,Bypass}QueueCL -> CL consumer
  rtl>stall>q   RTL en/rdy producer -> [RecvRTL2SendCL] -> StallCL -> [RecvCL2SendRTL] -> queues.py RTL queue -> consumer (deq.en)
  clreuse>q     CL producer that mutates ONE message object in place -> [RecvCL2SendRTL] -> queues.py / enrdy_queues.py RTL queue
  (GetRTL2GiveCL cannot be instantiated in this tree: its up_entry reads s.get.msg but GetIfcRTL has .ret -> VarNotDeclaredError;
   no chain through it)
  q>q           producer -> queues.py RTL queue -> [And (give->recv)] -> queues.py RTL queue -> consumer
  clreuse>sq    CL producer reusing its object -> [SendQueueAdapter] -> stream RTL queue -> [RecvQueueAdapter] -> CL consumer
In every chain the producer's msg changes every cycle (also while it is not accepted: msg is don't-care while en is low / before
the call) and the consumer applies back-pressure.  Judged: (a) end to end, the accepted and the delivered message STREAMS
(Coq stream acceptor, Props/C17.v C17_stream_acceptor) -- the adapters' own buffering/scheduling is outside the text of C17
("library queues"), so the same-cycle ready rules are NOT demanded end to end; (b) per RTL queue inside the chain, its ports and
registers are monitored passively and judged by the full FIFO specification + concrete model exactly as in the direct runs.
"""
from common import *

def build(c17):
  """returns (list of chain drivers, notes).  c17 = the harness/c17.py module (Drv base class, KIND)"""
  from pymtl3 import Component, Bits4, Bits8, InPort, update, update_once, update_ff, connect, bitstruct, CallerIfcCL
  from pymtl3.stdlib.ifcs import SendIfcRTL, RecvIfcRTL
  from pymtl3.stdlib.delays import StallCL
  from pymtl3.stdlib.stream.queue_adapters import SendQueueAdapter, RecvQueueAdapter
  import pymtl3.stdlib.queues.queues as Q
  import pymtl3.stdlib.stream.queues as S
  import pymtl3.stdlib.queues.enrdy_queues as P
  import pymtl3.stdlib.queues.cl_queues as C

  @bitstruct
  class Pair:
    hi: Bits4
    lo: Bits4

  class MT:
    """message type helper: Bits8 or the two-field bitstruct"""
    def __init__(s, T): s.T = T; s.name = 'Bits8' if T is Bits8 else 'bitstruct'
    def mk(s, v): return Bits8(v) if s.T is Bits8 else Pair(Bits4(v >> 4), Bits4(v & 15))
    def to_int(s, x): return int(x) if s.T is Bits8 else (int(x.hi) << 4 | int(x.lo))
    def assign(s, obj, v):                      # mutate obj IN PLACE
      if s.T is Bits8: obj @= v
      else: obj.hi @= v >> 4; obj.lo @= v & 15

  class RTLProd(Component):
    """en/rdy producer: shows the pending message on msg all the time, raises en exactly when it wants to send and rdy is high"""
    def construct(s, mt):
      s.send = SendIfcRTL(mt.T)
      s.want = 0; s.val = mt.mk(0)
      @update
      def up_prod():
        s.send.msg @= s.val
        s.send.en @= s.send.rdy & s.want & ~s.reset

  # ---------------------------------------------------------------- the chains
  # NOTE every block names signals and methods through `s.` explicitly: pymtl3 derives read/write sets and the
  # method-call constraints from the block's source text.
  class ChainBase(Component):
    def common(s, mt):
      s.mt = mt
      s.want_enq = 0; s.want_deq = 0; s.val = 0
      s.plog = (0, 0); s.clog = (0, 0, 0)
      s.obj = mt.mk(0)            # the ONE message object a reusing CL producer hands out again and again

  class RtlToClq(ChainBase):
    def construct(s, mt, QT, n):
      s.common(mt)
      s.src = RTLProd(mt); s.q = QT(num_entries=n)
      connect(s.src.send, s.q.enq)                      # inserts RecvRTL2SendCL
      @update_once
      def consumer():
        r = bool(s.q.deq.rdy()); f = 0; m = 0
        if s.want_deq and r:
          m = s.mt.to_int(s.q.deq()); f = 1
        s.clog = (r, f, m)
    def set_prod(s): s.src.want = s.want_enq; s.src.val = s.mt.mk(s.val)
    def get_prod(s): return (int(s.src.send.rdy), int(s.src.send.en))

  class RtlStallQ(ChainBase):
    def construct(s, mt, QT, n, seed):
      s.common(mt)
      s.src = RTLProd(mt); s.stall = StallCL(0.35, seed); s.q = QT(mt.T, num_entries=n)
      connect(s.src.send, s.stall.recv)                 # inserts RecvRTL2SendCL
      connect(s.stall.send, s.q.enq)                    # inserts RecvCL2SendRTL
      @update_once
      def consumer():
        s.q.deq.en @= 0
        f = 0; m = 0
        if s.want_deq and s.q.deq.rdy:
          s.q.deq.en @= 1; f = 1; m = s.mt.to_int(s.q.deq.ret)
        s.clog = (int(s.q.deq.rdy), f, m)
    def set_prod(s): s.src.want = s.want_enq; s.src.val = s.mt.mk(s.val)
    def get_prod(s): return (int(s.src.send.rdy), int(s.src.send.en))

  class ClReuseQ(ChainBase):
    """queues.py queue (deq = give interface)"""
    def construct(s, mt, QT, n):
      s.common(mt)
      s.out = CallerIfcCL(); s.q = QT(mt.T, num_entries=n)
      connect(s.out, s.q.enq)                           # inserts RecvCL2SendRTL
      @update_once
      def producer():
        s.mt.assign(s.obj, s.val)                 # in-place update every cycle, also right after a message was handed over
        r = bool(s.out.rdy()); f = 0
        if s.want_enq and r:
          s.out(s.obj); f = 1
        s.plog = (r, f)
      @update_once
      def consumer():
        s.q.deq.en @= 0
        f = 0; m = 0
        if s.want_deq and s.q.deq.rdy:
          s.q.deq.en @= 1; f = 1; m = s.mt.to_int(s.q.deq.ret)
        s.clog = (int(s.q.deq.rdy), f, m)

  class ClReuseP(ChainBase):
    """enrdy_queues.py queue (deq = send interface: the queue pushes, the consumer only says rdy)"""
    push = True
    def construct(s, mt, QT):
      s.common(mt)
      s.out = CallerIfcCL(); s.q = QT(mt.T)
      s.deq_rdy = InPort()
      connect(s.out, s.q.enq)                           # inserts RecvCL2SendRTL
      connect(s.deq_rdy, s.q.deq.rdy)
      @update_once
      def producer():
        s.mt.assign(s.obj, s.val)
        r = bool(s.out.rdy()); f = 0
        if s.want_enq and r:
          s.out(s.obj); f = 1
        s.plog = (r, f)

  class QQ(ChainBase):
    def construct(s, mt, QT, n):
      s.common(mt)
      s.q = QT(mt.T, num_entries=n); s.q2 = QT(mt.T, num_entries=2)
      connect(s.q.deq, s.q2.enq)                        # give -> recv: inserts the And adapter
      @update_once
      def producer():
        s.q.enq.msg @= s.mt.mk(s.val)
        s.q.enq.en @= 0
        f = 0
        if s.want_enq and s.q.enq.rdy:
          s.q.enq.en @= 1; f = 1
        s.plog = (int(s.q.enq.rdy), f)
      @update_once
      def consumer():
        s.q2.deq.en @= 0
        f = 0; m = 0
        if s.want_deq and s.q2.deq.rdy:
          s.q2.deq.en @= 1; f = 1; m = s.mt.to_int(s.q2.deq.ret)
        s.clog = (int(s.q2.deq.rdy), f, m)

  class ClReuseSQ(ChainBase):
    def construct(s, mt, QT, n):
      s.common(mt)
      s.sa = SendQueueAdapter(mt.T); s.q = QT(mt.T, num_entries=n); s.ra = RecvQueueAdapter(mt.T)
      connect(s.sa.send, s.q.recv); connect(s.q.send, s.ra.recv)
      @update_once
      def producer():
        s.mt.assign(s.obj, s.val)
        r = bool(s.sa.enq.rdy()); f = 0
        if s.want_enq and r:
          s.sa.enq(s.obj); f = 1
        s.plog = (r, f)
      @update_once
      def consumer():
        r = bool(s.ra.deq.rdy()); f = 0; m = 0
        if s.want_deq and r:
          m = s.mt.to_int(s.ra.deq()); f = 1
        s.clog = (r, f, m)

  # ---------------------------------------------------------------- drivers
  class ChainDrv(c17.Drv):
    """end-to-end stream driver; d.n = bound on the messages outstanding in the whole chain"""
    has_reset = False
    keyword = 'stream'
    chain = True
    def __init__(s, name, cls_name, kind, nq, cap, make, monitors=()):
      super().__init__('chain.' + name, cls_name, kind, cap, 10, make)
      s.nq = nq; s.mon_specs = monitors; s.monitors = []
    @property
    def label(s): return f'{s.family}.{s.cls_name}:n={s.nq}'
    def after_fresh(s):
      s.monitors = [Monitor(s, *m) for m in s.mon_specs]
    def cycle(s, rst, we, msg, wd):
      h = s.top
      assert not rst
      h.want_enq, h.want_deq, h.val = we, wd, msg
      if hasattr(h, 'set_prod'): h.set_prod()
      if getattr(h, 'push', False): h.deq_rdy @= wd
      h.sim_tick()
      if hasattr(h, 'get_prod'): er, ef = h.get_prod()
      else: er, ef = h.plog
      if getattr(h, 'push', False):
        dr, df, out = None, int(h.q.deq.en), h.mt.to_int(h.q.deq.msg)
      else: dr, df, out = h.clog
      for m in s.monitors: m.sample()
      return s.rec(0, we, msg, wd, we, wd, er, dr, ef, df, out if df else 0, None, (0, 0, 0, []))
    def first_bad(s, hist): return py_stream_first_bad(s.n, hist)
    def deviations(s, hist): return py_stream_deviations(s.n, hist)

  class Monitor(c17.Drv):
    """passive observer of one RTL queue inside a chain: same record format and same Coq judgement as the direct drivers"""
    has_reset = False
    replayable = False
    def __init__(s, parent, attr, family, kind, n, mid, style):
      c17.Drv.__init__(s, parent.family + '/' + family, type(getattr(parent.top, attr)).__name__, kind, n, mid, None)
      s.kind = kind if isinstance(kind, int) else c17.KIND[kind]
      s.parent, s.attr, s.style, s.hist = parent, attr, style, []
    def sample(s):
      q = getattr(s.parent.top, s.attr); mt = s.parent.top.mt
      n = s.n
      s.head = 0 if s.style == 'push' else 1
      if s.style == 'give':          # queues.py
        en, de = int(q.enq.en), int(q.deq.en)
        ints = (0, 0, int(q.q.full), [mt.to_int(q.q.entry)]) if n == 1 else \
               (int(q.ctrl.head), int(q.ctrl.tail), int(q.ctrl.count), [mt.to_int(x) for x in q.dpath.queue.regs])
        r = s.rec(0, en, mt.to_int(q.enq.msg), de, en, de, int(q.enq.rdy), int(q.deq.rdy), en, de, mt.to_int(q.deq.ret), int(q.count), ints)
      elif s.style == 'push':        # enrdy_queues.py 1-entry
        en, drdy = int(q.enq.en), int(q.deq.rdy)
        ints = (0, 0, int(q.full.out), [mt.to_int(q.buffer.out)])
        r = s.rec(0, en, mt.to_int(q.enq.msg), drdy, en, drdy, int(q.enq.rdy), None, en, int(q.deq.en), mt.to_int(q.deq.msg), None, ints)
      else:                          # stream/queues.py
        val, rdy = int(q.recv.val), int(q.send.rdy)
        er, dr = int(q.recv.rdy), int(q.send.val)
        ints = (0, 0, int(q.q.full), [mt.to_int(q.q.entry)]) if n == 1 else \
               (int(q.ctrl.head), int(q.ctrl.tail), int(q.ctrl.count), [mt.to_int(x) for x in q.dpath.rf.regs])
        r = s.rec(0, val, mt.to_int(q.recv.msg), rdy, val, rdy, er, dr, val & er, rdy & dr, mt.to_int(q.send.msg), int(q.count), ints)
      s.hist.append(r)

  drv, seed = [], 0x5eed
  for kind in ('Normal', 'Pipe', 'Bypass'):
    QR, SR, CQ = getattr(Q, f'{kind}QueueRTL'), getattr(S, f'{kind}QueueRTL'), getattr(C, f'{kind}QueueCL')
    for n in (1, 2, 3, 4, 5):
      mt = MT(Bits8 if n % 2 else Pair)          # odd capacities carry Bits8, even ones the bitstruct
      gm = lambda n=n: 3 if n == 1 else 1
      drv.append(ChainDrv(f'rtl>clq[{mt.name}]', CQ.__name__, kind, n, n, (lambda mt=mt, CQ=CQ, n=n: RtlToClq(mt, CQ, n))))
      drv.append(ChainDrv(f'rtl>stall>q[{mt.name}]', QR.__name__, kind, n, n + 1, (lambda mt=mt, QR=QR, n=n: RtlStallQ(mt, QR, n, seed + n)),
                          [('q', 'queues', kind, n, gm(), 'give')]))
      drv.append(ChainDrv(f'clreuse>q[{mt.name}]', QR.__name__, kind, n, n + 1, (lambda mt=mt, QR=QR, n=n: ClReuseQ(mt, QR, n)),
                          [('q', 'queues', kind, n, gm(), 'give')]))
      drv.append(ChainDrv(f'q>q[{mt.name}]', QR.__name__, kind, n, n + 2, (lambda mt=mt, QR=QR, n=n: QQ(mt, QR, n)),
                          [('q', 'queues', kind, n, gm(), 'give'), ('q2', 'queues', kind, 2, 1, 'give')]))
      drv.append(ChainDrv(f'clreuse>sq[{mt.name}]', SR.__name__, kind, n, n + 2, (lambda mt=mt, SR=SR, n=n: ClReuseSQ(mt, SR, n)),
                          [('q', 'stream', kind, n, 4 if n == 1 else 2, 'stream')]))
    PQ = getattr(P, f'{kind}Queue1RTL')
    for mt in (MT(Bits8), MT(Pair)):
      drv.append(ChainDrv(f'clreuse>q[{mt.name}]', PQ.__name__, kind, 1, 2, (lambda mt=mt, PQ=PQ: ClReuseP(mt, PQ)),
                          [('q', 'enrdy', kind, 1, 5, 'push')]))
  return drv, MT, Pair

# ---------------------------------------------------------------------------------------------- python mirror (steering/keys only)
def py_stream_deviations(cap, hist):
  q, dev = [], []
  for i, r in enumerate(hist):
    if r['rst']: q = []; continue
    if r['ef']: q = q + [r['msg']]
    if r['df']:
      if not q: dev.append((i, 'invented')); continue
      if r['out'] != q[0]: dev.append((i, 'wrong-msg'))
      q = q[1:]
    if len(q) > cap: dev.append((i, 'overflow'))
  if q: dev.append((len(hist), 'lost'))
  return dev

def py_stream_first_bad(cap, hist):
  """strict mirror of Fifo.stream_first_bad"""
  q = []
  for i, r in enumerate(hist):
    if r['rst']: q = []; continue
    q1 = q + [r['msg']] if r['ef'] else q
    if r['df']:
      if not q1 or r['out'] != q1[0] or len(q1) - 1 > cap: return i
      q = q1[1:]
    else:
      if len(q1) > cap: return i
      q = q1
  return len(hist) if q else None
