"""elab_common.py — shared by C08 and C09: random component hierarchies with Bits/struct signals, slices, struct fields,
constants, connect statements (also through child ports) and update blocks, emitted as Python source in any statement
order / side orientation; mapping of signal objects to (root, lo, hi) bit intervals and to address chains; elaboration
wrapper that canonicalises the result (nets as sets of repr() names, or the exception class); subprocess worker used to
elaborate the same sources under other PYTHONHASHSEED values."""
import sys, os, json, random, importlib.util, subprocess, tempfile, hashlib
from common import *

HDR = '''from pymtl3 import *
@bitstruct
class Pt:
  a: Bits8
  b: Bits4
@bitstruct
class Outer:
  p: Pt
  c: Bits4
@bitstruct
class Mat:
  m: [ [ Bits4, Bits4, Bits4 ], [ Bits4, Bits4, Bits4 ] ]
  v: [ Bits8, Bits8 ]
  t: Bits2
@bitstruct
class Sq:
  q: [ [ Bits8, Bits8 ], [ Bits8, Bits8 ] ]
'''
# layout known to the generator (first field = most significant bits); cross-checked against pymtl3 objects at run time
TYPES = {
  'Pt':    {'width': 12, 'fields': [('a', ('b', 8), 4, 12), ('b', ('b', 4), 0, 4)]},
  'Outer': {'width': 16, 'fields': [('p', ('s', 'Pt'), 4, 16), ('c', ('b', 4), 0, 4)]},
  # a non-square 2-D list field, a 1-D list field and a plain field
  'Mat':   {'width': 42, 'fields': [(f'm[{i}][{j}]', ('b', 4), 18 + 4 * (3 * i + j), 22 + 4 * (3 * i + j)) for i in range(2) for j in range(3)]
                                   + [('v[0]', ('b', 8), 2, 10), ('v[1]', ('b', 8), 10, 18), ('t', ('b', 2), 0, 2)]},
  # a square 2-D list field
  'Sq':    {'width': 32, 'fields': [(f'q[{i}][{j}]', ('b', 8), 8 * (2 * i + j), 8 * (2 * i + j) + 8) for i in range(2) for j in range(2)]},
}
def twidth(T): return T[1] if T[0] == 'b' else TYPES[T[1]]['width']
def tname(T):  return f'Bits{T[1]}' if T[0] == 'b' else T[1]

class Sig:
  def __init__(s, inst, name, kind, T, lst=None, decl=True):
    s.inst, s.name, s.kind, s.T = inst, name, kind, T      # inst: tuple path of the owning component, () = top
    s.decl = decl                                          # False: the signal is a member of an interface, declared by the interface
    s.lst = lst                                            # (list name, dims) when the signal is an element of a (multi-dim) list of signals
  @property
  def root(s): return 's' + ''.join('.' + x for x in s.inst) + '.' + s.name
  def __repr__(s): return s.root

class EP:
  """an end point: a signal object = root signal + chain of steps (fields, then at most one slice)"""
  def __init__(s, sig, suffix, T, lo, hi, chain):
    s.sig, s.suffix, s.T, s.lo, s.hi, s.chain = sig, suffix, T, lo, hi, chain    # chain: list of ('F'|'S', lo, hi) absolute
  @property
  def full(s): return s.sig.root + s.suffix
  def local(s, host, nest=None):
    """text of the end point as seen from component `host`.  nest=(o, p): write a slice end point as a slice OF A SLICE,
    x[o:p][a-o:b-o]; pymtl3 must resolve that to the same object as the direct slice x[a:b] (identity = absolute bits)"""
    rel = s.sig.inst[len(host):]
    suffix = s.suffix
    if nest is not None and s.chain and s.chain[-1][0] == 'S':
      plo = s.chain[-2][1] if len(s.chain) > 1 else 0
      a, b = s.lo - plo, s.hi - plo
      o, p_ = nest
      suffix = suffix[:suffix.rindex('[')] + f'[{o}:{p_}][{a - o}:{b - o}]'
    return 's' + ''.join('.' + x for x in rel) + '.' + s.sig.name + suffix
  def slice_rel(s):
    """(leaf key, a, b, W): slice indices relative to the sliced Bits object, and its width; None if not a slice"""
    if not (s.chain and s.chain[-1][0] == 'S'): return None
    plo, phi = (s.chain[-2][1], s.chain[-2][2]) if len(s.chain) > 1 else (0, twidth(s.sig.T))
    return (s.sig.root, tuple(s.chain[:-1])), s.lo - plo, s.hi - plo, phi - plo
  @property
  def mask(s): return ((1 << s.hi) - 1) ^ ((1 << s.lo) - 1)
  def __repr__(s): return s.full

class ConstEP:
  """the constant of ONE connect statement.  Every statement creates its own constant node, also when several statements
  use equal values: its identity is (value text, the signal it is tied to)"""
  def __init__(s, T, value, host, tied=None):
    s.T, s.value, s.host, s.tied = T, value, host, tied
  @property
  def crepr(s): return f'Bits{s.T[1]}(0x{s.value:0{(s.T[1] + 3) // 4}x})'    # == repr(Const) in pymtl3
  @property
  def full(s): return f'{s.crepr}@{s.tied.full}'
  def text(s, rng):
    return str(s.value) if rng.random() < 0.5 else f'Bits{s.T[1]}({s.value})'
  def __repr__(s): return s.full

def const_name(top, c):
  """canonical name of a pymtl3 Const object: its repr and the signal(s) it is connected to"""
  adj = top._dsl.all_adjacency.get(c, ())
  return repr(c) + '@' + '+'.join(sorted(repr(x) for x in adj))

def const_value(name):
  """integer value of a constant node name 'BitsN(0x..)@...'"""
  return int(name.split('@')[0].split('(0x')[1].rstrip(')'), 16)

def whole(sig):
  return EP(sig, '', sig.T, 0, twidth(sig.T), [])

def parts(sig):
  """all non-slice sub objects: (suffix, T, lo, hi, chain)"""
  out = []
  def rec(suffix, T, lo, hi, chain):
    out.append((suffix, T, lo, hi, chain))
    if T[0] == 's':
      for fn, fT, flo, fhi in TYPES[T[1]]['fields']:
        rec(suffix + '.' + fn, fT, lo + flo, lo + fhi, chain + [('F', lo + flo, lo + fhi)])
  rec('', sig.T, 0, twidth(sig.T), [])
  return out

def fits(sig, T, rng, nslices=3):
  """sub objects of sig whose Type is T"""
  out = []
  for suffix, PT, lo, hi, chain in parts(sig):
    if PT == T:
      out.append(EP(sig, suffix, T, lo, hi, chain))
    if T[0] == 'b' and PT[0] == 'b' and PT[1] > T[1]:
      w = T[1]
      for _ in range(nslices):
        a = rng.randrange(0, PT[1] - w + 1)
        if rng.random() < 0.4: a = rng.choice([0, PT[1] - w])
        out.append(EP(sig, suffix + f'[{a}:{a + w}]', T, lo + a, lo + a + w, chain + [('S', lo + a, lo + a + w)]))
      if w == PT[1] and rng.random() < 0.1:      # full-width slice
        out.append(EP(sig, suffix + f'[0:{w}]', T, lo, hi, chain + [('S', lo, hi)]))
  return out

class Inst:
  def __init__(s, path, cls):
    s.path, s.cls, s.sigs, s.children, s.parent = path, cls, [], [], None
    s.ifc_decls = []                                       # text lines declaring interface instances
  def sig(s, name): return next(x for x in s.sigs if x.name == name)

class Design:
  """hierarchy + statements.  stmts[host path] = list of statements:
     ('conn', a, b)            a: EP, b: EP or ConstEP   (meaning connect(a, b), undirected)
     ('blk', name, ff, lines, writes:[(EP, op)], reads:[EP])   writes/reads include those of the @s.func helpers it calls
     ('func', name, lines)                                      a helper declared with @s.func (may call other helpers)"""
  def __init__(s, name):
    s.name, s.insts, s.stmts, s.features = name, {}, {}, set()
    s.notes = {}
  def add_inst(s, path, parent=None):
    i = Inst(path, 'C_' + '_'.join(path) if path else 'Top')
    s.insts[path] = i; s.stmts[path] = []
    if parent is not None: i.parent = parent; parent.children.append(i)
    return i
  def all_sigs(s):
    return [x for p in sorted(s.insts) for x in s.insts[p].sigs]
  def conns(s):
    """all signal-to-signal / signal-to-constant connections; an interface-level connect contributes its member-wise pairs"""
    out = []
    for h in sorted(s.stmts):
      for st in s.stmts[h]:
        if st[0] == 'conn': out.append((h, st))
        elif st[0] == 'iconn':
          out += [(h, ('conn', a, b)) for a, b in iconn_pairs(st)]
    return out
  def blocks(s):
    return [(h, st) for h in sorted(s.stmts) for st in s.stmts[h] if st[0] == 'blk']

  # ---------------------------------------------------------------- source text
  def source(s, rng=None, orders=None, flips=None):
    """orders: {host: permutation of statement indices}; flips: {(host, idx): (swap sides, syntax)}"""
    rng = rng or random.Random(0)
    out = [HDR] + list(getattr(s, 'extra_src', []))
    def emit(i):
      for c in i.children: emit(c)
      L = []
      declared = set()
      for x in i.sigs:
        ctor = {'in': 'InPort', 'out': 'OutPort', 'wire': 'Wire'}[x.kind]
        if not x.decl: continue
        if x.lst is None:
          L.append(f's.{x.name} = {ctor}( {tname(x.T)} )')
        elif x.lst[0] not in declared:
          declared.add(x.lst[0])
          txt = f'{ctor}( {tname(x.T)} )'
          for n in reversed(x.lst[1]): txt = f'[ {txt} for _ in range({n}) ]'
          L.append(f's.{x.lst[0]} = {txt}')
      L += i.ifc_decls
      for c in i.children:
        L.append(f's.{c.path[-1]} = {c.cls}_{s.name}()')
      st = s.stmts[i.path]
      order = (orders or {}).get(i.path, list(range(len(st))))
      for k in order:
        t = st[k]
        if t[0] == 'conn':
          fl = (flips or {}).get((i.path, k), (False, 0))
          swap, syn = fl[0], fl[1]
          na, nb = (fl[2], fl[3]) if len(fl) > 2 else (None, None)
          a, b = t[1], t[2]
          ta = a.text(random.Random(k)) if isinstance(a, ConstEP) else a.local(i.path, na)
          tb = b.text(random.Random(k)) if isinstance(b, ConstEP) else b.local(i.path, nb)
          if swap: ta, tb = tb, ta
          lhs_ok = lambda e, txt: not isinstance(e, ConstEP) and all(c[0] != 'F' for c in e.chain)
          first = b if swap else a
          if syn == 1 and lhs_ok(first, ta): L.append(f'{ta} //= {tb}')
          else: L.append(f'connect( {ta}, {tb} )')
        elif t[0] == 'iconn':
          fl = (flips or {}).get((i.path, k), (False, 0))
          ta, tb = t[1].local(i.path), t[2].local(i.path)
          if fl[0]: ta, tb = tb, ta
          L.append(f'connect( {ta}, {tb} )')
        elif t[0] == 'func':
          L.append('@s.func'); L.append(f'def {t[1]}():'); L += ['  ' + l for l in t[2]]
        else:
          _, name, ff, lines, _, _ = t
          L.append('@update_ff' if ff else '@update')
          L.append(f'def {name}():')
          L += ['  ' + l for l in lines]
      if not L: L = ['pass']
      out.append(f'class {i.cls}_{s.name}( Component ):\n  def construct( s ):\n' + '\n'.join('    ' + l for l in L) + '\n')
    emit(s.insts[()])
    return '\n'.join(out)

  def variant(s, rng):
    """a random permutation of the statements of every component + random side flips / syntax; slice end points are
    written as slices of slices about a third of the time, preferably so that the inner (relative) index pair equals the
    index pair of another, directly written slice of the same signal"""
    orders, flips = {}, {}
    used = {}
    for h, st in s.stmts.items():
      for t in st:
        if t[0] == 'conn':
          for e in (t[1], t[2]):
            sr = e.slice_rel() if isinstance(e, EP) else None
            if sr: used.setdefault(sr[0], set()).add((sr[1], sr[2]))
    def nest(e):
      sr = e.slice_rel() if isinstance(e, EP) else None
      if sr is None or rng.random() < 0.6: return None
      key, a, b, W = sr
      coll = [(c, d) for (c, d) in used[key] if d - c == b - a and c < a]
      if coll and rng.random() < 0.8:
        c, d = rng.choice(coll); o = a - c
      else:
        o = rng.randrange(0, a + 1)
      p_ = rng.randrange(b, W + 1)
      return (o, p_)
    for h, st in s.stmts.items():
      o = list(range(len(st))); rng.shuffle(o); orders[h] = o
      for k, t in enumerate(st):
        if t[0] == 'conn': flips[(h, k)] = (rng.random() < 0.5, rng.choice([0, 0, 1]), nest(t[1]), nest(t[2]))
        elif t[0] == 'iconn': flips[(h, k)] = (rng.random() < 0.5, 0)
    return orders, flips

  def edge_names(s, orders=None, flips=None):
    """the connection graph, from the generated statements only: list of (name a, name b, host path) in statement order,
       plus the implicit clk/reset connections pymtl3 makes for every child component"""
    E = []
    for h in sorted(s.stmts):
      st = s.stmts[h]
      for k in (orders or {}).get(h, range(len(st))):
        t = st[k]
        sw = (flips or {}).get((h, k), (False, 0))[0]
        if t[0] == 'iconn':
          # connect( interface, interface ): by name, i.e. the member-wise pairs
          for x, y in iconn_pairs(t):
            E.append((y.full, x.full, h) if sw else (x.full, y.full, h))
          continue
        if t[0] != 'conn': continue
        a, b = t[1].full, t[2].full
        if sw: a, b = b, a
        E.append((a, b, h))
    for p in sorted(s.insts):
      i = s.insts[p]
      for c in i.children:
        for n in ('clk', 'reset'):
          E.append((Sig(c.path, n, 'in', ('b', 1)).root, Sig(i.path, n, 'in', ('b', 1)).root, i.path))
    return E

def iconn_pairs(t):
  """the signal-level connections an interface-level connect stands for: ('iconn', A, B) = by name, member-wise;
  ('iconn', A, B, pairs) = what the interfaces' own connect() hook does (end points / constants)"""
  if len(t) > 3: return list(t[3])
  return [(whole(a), whole(b)) for a, b in zip(t[1].leaves, t[2].leaves)]

class IfcRef:
  """one interface instance of a component: expr is 'recv' or 'recv[1]'; leaves = its member signals in a fixed order"""
  def __init__(s, inst, expr, leaves): s.inst, s.expr, s.leaves = inst, expr, leaves
  def local(s, host): return 's' + ''.join('.' + x for x in s.inst[len(host):]) + '.' + s.expr

def gen_ifc_classes(rng, dname):
  """a random interface class (scalar members, 1-D / 2-D / 3-D lists of signals, a nested interface, a list of nested
  interfaces); returns (source text, leaf list [(relative name, T)])"""
  import itertools
  def members(pool, n):
    out = [('en', ('b', 1), ())]
    for k, dims in enumerate(rng.sample(pool, n)):
      out.append((f'f{k}', rng.choice([('b', 4), ('b', 8)]), dims))
    return out
  inner = members([(3,), (2, 2), (2,)], 1)
  outer = members([(3,), (2, 3), (3, 2), (2, 2, 2), (2,), (2, 2)], rng.randrange(1, 4))
  if rng.random() < 0.4: outer.append(('st', ('s', rng.choice(['Pt', 'Sq'])), ()))
  nested = [x for x in (('one', None), ('sub', 2)) if rng.random() < 0.65]
  def cls_src(cname, mem, nest):
    L = [f'class {cname}( Interface ):', '  def construct( s, out ):', '    P = OutPort if out else InPort']
    for n, T, dims in mem:
      txt = f'P( {tname(T)} )'
      for d in reversed(dims): txt = f'[ {txt} for _ in range({d}) ]'
      L.append(f'    s.{n} = {txt}')
    for n, cnt in nest:
      L.append(f'    s.{n} = Inner_{dname}( out )' if cnt is None else f'    s.{n} = [ Inner_{dname}( out ) for _ in range({cnt}) ]')
    return '\n'.join(L) + '\n'
  def leaves(mem, prefix):
    out = []
    for n, T, dims in mem:
      for idx in itertools.product(*[range(d) for d in dims]):
        out.append((prefix + n + ''.join(f'[{a}]' for a in idx), T))
    return out
  lv = leaves(outer, '')
  for n, cnt in nested:
    for k in ([None] if cnt is None else range(cnt)):
      lv += leaves(inner, f'{n}.' if k is None else f'{n}[{k}].')
  src = cls_src(f'Inner_{dname}', inner, []) + cls_src(f'Bus_{dname}', outer, nested)
  return src, lv

def add_hook_interfaces(rng, d):
  """two interface classes that bring their own connect( s, other, parent ) hook: the source side's hook only knows a legacy
  sink class and declines (returns False) for anything else; the sink side's hook accepts a source and does more than a
  by-name connection would: a differently named field, element-wise list members, and a constant tie-off of one of its
  inputs.  A producer child drives the source interface, the top connects it to a consumer child's sink interface
  (which side is written first varies per variant).  Returns (signals driven, block statement to add to the producer)."""
  top = d.insts[()]
  if not top.children: return []
  P = rng.choice(top.children); C = rng.choice(top.children)
  w = rng.choice([4, 8, 8])
  dname = 'msg' if rng.random() < 0.5 else 'data'
  naux = rng.choice([0, 2, 3])
  tie = rng.choice([0, 1])
  n = d.name
  aux_decl = lambda Pn: f'    s.aux = [ {Pn}( Bits4 ) for _ in range({naux}) ]\n' if naux else ''
  src = (f'class Legacy_{n}( Interface ):\n  def construct( s ):\n    s.payload = InPort( Bits{w} )\n'
         f'class Src_{n}( Interface ):\n  def construct( s ):\n    s.msg = OutPort( Bits{w} )\n    s.en = OutPort( Bits1 )\n' + aux_decl('OutPort') +
         f'  def connect( s, other, parent ):\n    if isinstance( other, Legacy_{n} ):\n      connect( s.msg, other.payload )\n      return True\n    return False\n'
         f'class Sink_{n}( Interface ):\n  def construct( s ):\n    s.{dname} = InPort( Bits{w} )\n    s.en = InPort( Bits1 )\n    s.last = InPort( Bits1 )\n' + aux_decl('InPort') +
         f'  def connect( s, other, parent ):\n    if isinstance( other, Src_{n} ):\n      connect( other.msg, s.{dname} )\n      connect( s.en, other.en )\n'
         + (f'      for i in range({naux}): connect( other.aux[i], s.aux[i] )\n' if naux else '') +
         f'      connect( s.last, {tie} )\n      return True\n    return False\n')
  d.extra_src = list(getattr(d, 'extra_src', [])) + [src]
  mk = lambda i, base, kind, names: [Sig(i.path, f'{base}.{nm}', kind, T, decl=False) for nm, T in names]
  smem = [('msg', ('b', w)), ('en', ('b', 1))] + [(f'aux[{k}]', ('b', 4)) for k in range(naux)]
  kmem = [(dname, ('b', w)), ('en', ('b', 1))] + [(f'aux[{k}]', ('b', 4)) for k in range(naux)] + [('last', ('b', 1))]
  S = mk(P, 'hout', 'out', smem); K = mk(C, 'hin', 'in', kmem)
  P.sigs += S; C.sigs += K
  P.ifc_decls.append(f's.hout = Src_{n}()'); C.ifc_decls.append(f's.hin = Sink_{n}()')
  last = whole(K[-1])
  pairs = [(whole(a), whole(b)) for a, b in zip(S, K[:-1])] + [(last, ConstEP(('b', 1), tie, (), tied=last))]
  d.stmts[()].append(('iconn', IfcRef(P.path, 'hout', S), IfcRef(C.path, 'hin', K), pairs))
  lines = [f's.hout.{nm} @= {rng.randrange(0, 1 << min(T[1], 6))}' for nm, T in smem]
  d.stmts[P.path].append(('blk', 'ubhook', False, lines, [(whole(x), '@=') for x in S], []))
  d.features.add('interface-connect-hooks')
  return S + K

def add_interfaces(rng, d):
  """gives the top and a chain of its descendants receive/send interfaces (scalar or lists of 2) and connects them at the
  interface level, all legally: top.recv -> c.recv -> (pass through inside c, possibly via a grandchild) -> c.send -> next
  child ... -> top.send.  Returns the member signals that are driven by these connections."""
  src, lv = gen_ifc_classes(rng, d.name)
  d.extra_src = [src]
  n = rng.choice([None, None, 2])
  top = d.insts[()]
  chain = [c for c in top.children][:rng.choice([1, 1, 2])]
  if not chain: return []
  refs = {}
  def give(i):
    for nm, out in (('recv', False), ('send', True)):
      i.ifc_decls.append(f's.{nm} = Bus_{d.name}( {out} )' if n is None else f's.{nm} = [ Bus_{d.name}( {out} ) for _ in range({n}) ]')
      for k in ([None] if n is None else range(n)):
        expr = nm if k is None else f'{nm}[{k}]'
        sigs = [Sig(i.path, f'{expr}.{ln}', 'out' if out else 'in', T, decl=False) for ln, T in lv]
        i.sigs += sigs
        refs[(i.path, nm, k)] = IfcRef(i.path, expr, sigs)
  give(top)
  for c in chain: give(c)
  driven = []
  for k in ([None] if n is None else range(n)):
    R = lambda i, nm: refs[(i.path, nm, k)]
    prev = R(top, 'recv')
    for c in chain:
      d.stmts[()].append(('iconn', prev, R(c, 'recv')))
      g = c.children[0] if c.children and rng.random() < 0.5 else None
      if g is not None and (g.path, 'recv', k) not in refs and k in (None, 0): give(g)
      if g is not None and (g.path, 'recv', k) in refs:
        d.stmts[c.path].append(('iconn', R(c, 'recv'), R(g, 'recv')))
        d.stmts[g.path].append(('iconn', R(g, 'recv'), R(g, 'send')))
        d.stmts[c.path].append(('iconn', R(g, 'send'), R(c, 'send')))
        driven += R(g, 'recv').leaves + R(g, 'send').leaves
      else:
        d.stmts[c.path].append(('iconn', R(c, 'send'), R(c, 'recv')))
      driven += R(c, 'recv').leaves + R(c, 'send').leaves
      prev = R(c, 'send')
    d.stmts[()].append(('iconn', prev, R(top, 'send')))
    driven += R(top, 'send').leaves
  d.features.add('interface-connects' + ('' if n is None else ':lists-of-interfaces'))
  return driven

TYPE_POOL = [('b', 4), ('b', 8), ('b', 8), ('b', 16), ('b', 16), ('s', 'Pt'), ('s', 'Outer'), ('s', 'Mat'), ('s', 'Sq')]

def gen_hierarchy(rng, name, levels=None, rich=True, deep=False):
  """deep: three levels, at least two children of the top with at least one grandchild each (cousins exist)"""
  d = Design(name)
  levels = 3 if deep else (levels or rng.choice([1, 2, 2, 3]))
  top = d.add_inst(())
  def populate(i, depth):
    nin, nout, nw = rng.randrange(1, 4), rng.randrange(1, 3), rng.randrange(1, 4)
    if not rich: nin, nout, nw = rng.randrange(1, 3), rng.randrange(1, 3), rng.randrange(1, 3)
    for k in range(nin):  i.sigs.append(Sig(i.path, f'i{k}', 'in', rng.choice(TYPE_POOL)))
    for k in range(nout): i.sigs.append(Sig(i.path, f'o{k}', 'out', rng.choice(TYPE_POOL)))
    for k in range(nw):   i.sigs.append(Sig(i.path, f'w{k}', 'wire', rng.choice(TYPE_POOL)))
    if rng.random() < 0.35:
      # a multi-dimensional (also non-square) list of signals
      kind = rng.choice(['wire', 'out'] if depth == 1 else ['wire', 'out', 'in'])
      dims = rng.choice([(2, 3), (3, 2), (2, 2), (2, 2, 2)])
      T = rng.choice([('b', 4), ('b', 8)])
      import itertools
      for idx in itertools.product(*[range(n) for n in dims]):
        i.sigs.append(Sig(i.path, 'l0' + ''.join(f'[{a}]' for a in idx), kind, T, lst=('l0', dims)))
    if depth < levels:
      nk = rng.randrange(1, 4) if depth == 1 else rng.randrange(0, 3)
      if deep: nk = rng.randrange(2, 4) if depth == 1 else rng.randrange(1, 3)
      for k in range(nk):
        c = d.add_inst(i.path + (f'c{k}' if depth == 1 else f'g{k}',), i)
        populate(c, depth + 1)
  populate(top, 1)
  d.levels = levels
  return d

# ---------------------------------------------------------------- loading / elaborating
_modcount = [0]
def load_src(scratch, src, clsname):
  _modcount[0] += 1
  mname = f'egen_{os.getpid()}_{_modcount[0]}'
  path = os.path.join(str(scratch), f'{mname}.py')
  with open(path, 'w') as f: f.write(src)
  spec = importlib.util.spec_from_file_location(mname, path)
  mod = importlib.util.module_from_spec(spec); sys.modules[mname] = mod
  spec.loader.exec_module(mod)
  return getattr(mod, clsname), mname

def unload(mname):
  sys.modules.pop(mname, None)

def canon_nets(top):
  """[(writer name or None, sorted member names)] in the order pymtl3 resolved the nets"""
  from pymtl3.dsl.Connectable import Const
  nm = lambda x: const_name(top, x) if isinstance(x, Const) else repr(x)
  out = []
  for w, net in top.get_all_value_nets():
    out.append((nm(w) if w is not None else None, sorted(nm(x) for x in net)))
  return out

def elaborate_src(scratch, src, clsname, keep=False):
  """returns ('ok', nets, top or None) or ('err', exception class name, message)"""
  cls, mname = load_src(scratch, src, clsname)
  try:
    top = cls()
    top.elaborate()
    r = ('ok', canon_nets(top), top if keep else None)
  except Exception as e:
    r = ('err', type(e).__name__, str(e)[:300])
  finally:
    unload(mname)
    # a failed elaboration can leave the class-level hooks installed
    try:
      from pymtl3.dsl.NamedObject import NamedObject
      if '__setattr__' in NamedObject.__dict__: del NamedObject.__setattr__
      if hasattr(NamedObject, '_elaborate_stack'): del NamedObject._elaborate_stack
    except Exception: pass
  return r

def outcome_key(r):
  """order-insensitive summary of an elaboration result: rejected (whatever the exception class: a design with several
  defects may report any of them first), or accepted with its set of (writer, net) pairs"""
  if r[0] == 'err': return ('err',)
  return ('ok', tuple(sorted((w, tuple(m)) for w, m in r[1])))

def run_worker(cases, hashseed, timeout=600):
  """cases: list of (key, src, clsname).  Elaborates them in a fresh interpreter with the given PYTHONHASHSEED.
     Returns {key: outcome}."""
  d = tempfile.mkdtemp(prefix='verif-elabw-')
  inp = os.path.join(d, 'in.json'); outp = os.path.join(d, 'out.json')
  json.dump(cases, open(inp, 'w'))
  env = dict(os.environ); env['PYTHONHASHSEED'] = str(hashseed)
  env['PYTHONPATH'] = str(REPO); env['PYTHONDONTWRITEBYTECODE'] = '1'
  code = ('import sys; sys.path.insert(0, %r); import elab_common; elab_common.worker_main(%r, %r)'
          % (str(VERIF / 'harness'), inp, outp))
  p = subprocess.run(['timeout', str(timeout), PY, '-c', code], cwd=d, env=env, stdout=subprocess.PIPE, stderr=subprocess.STDOUT, text=True)
  try:
    if p.returncode != 0: raise RuntimeError(f'worker failed (hashseed {hashseed}): {p.stdout[-800:]}')
    res = json.load(open(outp))
  finally:
    import shutil; shutil.rmtree(d, ignore_errors=True)
  return {k: (tuple(v) if v[0] == 'err' else ('ok', [(w, m) for w, m in v[1]])) for k, v in res}

def worker_main(inp, outp):
  setup_impl_path()
  cases = json.load(open(inp))
  out = []
  d = os.path.dirname(inp)
  junk = []
  for key, src, clsname in cases:
    junk.append([object() for _ in range(len(junk) % 7)])       # perturb the allocator a little between cases
    r = elaborate_src(d, src, clsname)
    out.append((key, ['err', r[1]] if r[0] == 'err' else ['ok', r[1]]))
  json.dump(out, open(outp, 'w'))

# ---------------------------------------------------------------- pymtl3 objects -> intervals / chains
def field_range(parent_type, name, indices):
  import sched_common as sc
  return sc.field_interval(parent_type, name, indices or [])

def obj_chain(sig):
  """(root repr, root width, chain [('F'|'S', lo, hi)...]) of a pymtl3 signal object, computed from pymtl3's own metadata"""
  d = sig._dsl
  if sig.is_top_level_signal():
    return repr(sig), d.Type.nbits, []
  p = d.parent_obj
  r, w, ch = obj_chain(p)
  plo = ch[-1][1] if ch else 0
  if d.slice is not None:
    return r, w, ch + [('S', plo + d.slice.start, plo + d.slice.stop)]
  lo, hi = field_range(p._dsl.Type, d._my_name, d._my_indices)
  return r, w, ch + [('F', plo + lo, plo + hi)]

def lookup(top, name):
  """the pymtl3 object with the given repr() name (generated names only)"""
  assert name.startswith('s.') or name == 's'
  return eval('top' + name[1:], {'top': top})

def sim_value(top, name):
  v = lookup(top, name)
  return int(v.to_bits()) if hasattr(v, 'to_bits') else int(v)

def dhash(s):
  return hashlib.sha1(s.encode()).hexdigest()[:10]

def replay_sources(ctx, r, expect_key=None):
  """re-elaborate every design source stored in a replay file (40 times each, shifting the allocator) and print the
  distribution of outcomes; returns the set of outcome classes seen per source"""
  import re
  setup_impl_path()
  rp = r.get('replay', {})
  seen = {}
  junk = []
  for k, src in rp.items():
    if not (isinstance(src, str) and 'construct' in src and 'class Top_' in src): continue
    clsname = re.findall(r'class (Top_\w+)\(', src)[-1]
    outs = {}
    for i in range(40):
      junk.append([object() for _ in range(i % 13)])
      res = elaborate_src(ctx.scratch, src, clsname)
      o = 'accepted' if res[0] == 'ok' else res[1]
      outs[o] = outs.get(o, 0) + 1
    seen[k] = outs
    print(f'replay {k}: outcomes over 40 elaborations: {outs}')
  return seen
