"""C07 — flip-flop updates are atomic at the clock edge.

theorems (Props/C07.v):
  ff_perm_indep          every order of the update_ff blocks gives the same state (for any number of blocks)
  ff_observes_preedge    what block i commits is what it computes from the PRE-edge state, wherever it sits in the order
  C07_ilshift_invisible / C07_last_wins / C07_flip / C07_hold
                         on the Gallina model GENERATED from PythonBits.py: `<<=` never touches the visible value, the
                         last `<<=` wins, _flip installs it, a second flip without assignment holds the value
tie: T-gen for Bits.__ilshift__/_flip (translators/py2coq_bits.py); T-acc: the update_ff blocks' write footprints go
     through the Coq single-writer acceptor; T-diff: the theorem ff_observes_preedge IS the oracle — an oracle instance
     runs every update_ff block ALONE from the saved pre-edge state, merges the next-values, flips, and the result must
     equal what the real sim_tick() produced under every permutation of the update_ff blocks and every scheduler.
"""
import itertools
from common import *
import io, contextlib
import sched_common as sc

def ff_design(rng, name):
  """registers that read each other (swap / rotate / shift), struct and list registers, registers forwarded through nets"""
  L = ['s.i0 = InPort( 8 )', 's.i1 = InPort( Pt )', 's.en = InPort( 1 )']
  n = rng.randrange(2, 5)
  w = rng.choice([1, 4, 8, 8, 13, 32, 65])
  for i in range(n): L.append(f's.r{i} = Wire( {w} )')
  feats = set()
  shape = rng.choice(['swap', 'rotate', 'chain'])
  blocks = []
  src0 = 'zext( s.i0, %d )' % w if w >= 8 else f's.i0[0:{w}]'
  if shape == 'swap':
    blocks.append([f's.r0 <<= s.r1']); blocks.append([f's.r1 <<= s.r0'])
    for i in range(2, n): blocks.append([f's.r{i} <<= s.r{i-1} ^ {src0}'])
  elif shape == 'rotate':
    for i in range(n): blocks.append([f's.r{i} <<= s.r{(i+1) % n} + 1' if i else f's.r0 <<= s.r1 ^ {src0}'])
  else:
    blocks.append([f's.r0 <<= {src0}'])
    for i in range(1, n): blocks.append([f's.r{i} <<= s.r{i-1}'])
  feats.add(shape)
  # conditional (hold) and last-assignment-wins
  k = rng.randrange(len(blocks))
  if rng.random() < 0.6:
    blocks[k] = ['if s.en:'] + ['  ' + l for l in blocks[k]]; feats.add('hold')
  k = rng.randrange(len(blocks))
  if rng.random() < 0.5 and not blocks[k][0].startswith('if'):
    t = blocks[k][0].split(' <<=')[0]
    blocks[k] = [f'{t} <<= {src0}'] + blocks[k]; feats.add('last-wins')
  # accumulate-and-clear idiom: the LAST assignment is an int literal that may equal the current value
  if rng.random() < 0.6:
    L.append(f's.acc = Wire( {w} )')
    blocks.append([f's.acc <<= s.acc + {src0}', 'if s.en:', f'  s.acc <<= {rng.choice([0, 0, 1])}']); feats.add('clear-with-int-literal')
  # a struct register with a 2-D list field
  if rng.random() < 0.5:
    L += ['s.ig = InPort( Grid )', 's.sg = Wire( Grid )', 's.sg2 = Wire( Grid )', 's.og = OutPort( 4 )', 'connect( s.og, s.sg2.g[1][1] )']
    blocks.append(['s.sg <<= s.ig']); blocks.append(['s.sg2 <<= s.sg'] if rng.random() < 0.6 else ['if s.en:', '  s.sg2 <<= s.sg'])
    feats.add('struct-reg-2d-list'); has_grid = True
  else: has_grid = False
  # many small branchy update_ff blocks (schedulers pack them into meta blocks)
  if rng.random() < 0.35:
    m = rng.randrange(7, 15)
    L.append(f's.bank = [ Wire( 8 ) for _ in range({m}) ]')
    for j in range(m):
      blocks.append(['if s.en:', f'  s.bank[{j}] <<= s.i0 + {j}'] if rng.random() < 0.8 else ['if s.i0[0]:', f'  s.bank[{j}] <<= s.bank[{(j+1) % m}]', 'elif s.en:', f'  s.bank[{j}] <<= 1'])
    feats.add('many-branchy-ff')
  # a register that is an InPort of a child component, written with <<= by the parent's update_ff block
  if rng.random() < 0.5:
    L += [f's.ci = Inc( {w} )', f's.o5 = OutPort( {w} )', 'connect( s.o5, s.ci.out )']
    blocks.append([f's.ci.in_ <<= s.r0 ^ {src0}'] if rng.random() < 0.6 else ['if s.en:', f'  s.ci.in_ <<= s.r1'])
    feats.add('ff-drives-child-inport')
  # merge some blocks
  if rng.random() < 0.4 and len(blocks) > 2:
    a = blocks.pop(); blocks[0] = blocks[0] + a; feats.add('multi-reg-block')
  if rng.random() < 0.6:
    L += ['s.sp = Wire( Pt )', 's.sq = Wire( Pt )']
    blocks.append(['s.sp <<= s.i1' if rng.random() < 0.5 else f's.sp <<= Pt( s.sq.a + 1, s.sq.b )'])
    blocks.append(['s.sq <<= s.sp'] if rng.random() < 0.7 else ['if s.en:', '  s.sq <<= s.sp'])
    feats.add('struct-reg')
  if rng.random() < 0.6:
    m = rng.randrange(2, 5)
    L.append(f's.rl = [ Wire( 8 ) for _ in range({m}) ]')
    blocks.append([f's.rl[0] <<= s.i0 + s.rl[{m-1}]', f'for i in range({m-1}):', '  s.rl[i+1] <<= s.rl[i]'])
    feats.add('list-reg')
  # a Bits register assigned from a struct-typed value (same width), and a register bank written by ONE block whose
  # whole body is a loop with a branch inside (register-file style write enables)
  if rng.random() < 0.5:
    L += ['s.rb = Wire( 12 )', 's.ob = OutPort( 12 )', 'connect( s.ob, s.rb )']
    blocks.append(['s.rb <<= s.i1'] if rng.random() < 0.6 else ['if s.en:', '  s.rb <<= s.i1', 'else:', '  s.rb <<= s.rb + 1'])
    feats.add('bits-reg-from-struct')
  if rng.random() < 0.5:
    m = rng.randrange(2, 7)
    L.append(f's.rf = [ Wire( 8 ) for _ in range({m}) ]')
    L += [f's.orf = OutPort( 8 )', f'connect( s.orf, s.rf[{m-1}] )']
    blocks.append([f'for i in range({m}):', '  if s.i0[i]:', f'    s.rf[i] <<= s.rf[{m-1} - i] + s.i0', '  elif s.en:', '    s.rf[i] <<= s.i0'])
    feats.add('ff-loop-with-branch')
  # a list of registers whose elements are assigned one by one through CONSTANT indices, the last through a negative one
  if rng.random() < 0.5:
    m = rng.randrange(3, 6)
    L += [f's.nl = [ Wire( 8 ) for _ in range({m}) ]', 's.onl = OutPort( 8 )', '@update', 'def c_nl():', '  s.onl @= s.nl[-1] ^ s.nl[-2]']
    # (one block: pymtl3 counts a negative index as "any element", so separate blocks would be multiple writers)
    blk = ['s.nl[0] <<= s.i0'] + [f's.nl[{j}] <<= s.nl[{j-1}] + {j}' for j in range(1, m - 1)]
    blk += [f's.nl[-1] <<= s.nl[-2] ^ s.i0'] if rng.random() < 0.7 else ['if s.en:', f'  s.nl[-1] <<= s.nl[{m-2}]']
    blocks.append(blk)
    feats.add('negative-constant-index')
  # reset-aware registers; a REGISTERED reset forwarded through a comb block clears a counter (values change during the
  # three reset cycles and reach other update_ff blocks only through combinational logic)
  if rng.random() < 0.6:
    L += ['s.rst_d = Wire( 1 )', 's.clr = Wire( 1 )', 's.cnt = Wire( 8 )', 's.ocnt = OutPort( 8 )', 'connect( s.ocnt, s.cnt )',
          '@update', 'def c_clr():', '  s.clr @= s.rst_d | s.reset']
    blocks.append(['s.rst_d <<= s.reset'])
    blocks.append(['if s.clr:', f'  s.cnt <<= {rng.randrange(0, 4)}', 'else:', '  s.cnt <<= s.cnt + 1'])
    feats.add('registered-reset')
  # comb readers and nets fed by registers (forwarding through nets, slices)
  L += [f's.o0 = OutPort( {w} )', f's.o1 = OutPort( {w} )', f's.w0 = Wire( {w} )']
  L += ['connect( s.o0, s.r0 )', 'connect( s.w0, s.r1 )']
  if w >= 4:
    L += ['s.o2 = OutPort( 2 )', f'connect( s.o2, s.r{n-1}[1:3] )']; feats.add('net-slice')
  L += ['@update', 'def c0():', '  s.o1 @= s.w0 ^ s.r0']
  if 'struct-reg' in feats:
    L += ['s.o3 = OutPort( 8 )', 'connect( s.o3, s.sq.a )']; feats.add('net-field')
  if rng.random() < 0.5:
    L += [f's.cr = RegC( {w} )', 'connect( s.cr.in_, s.r0 )', f's.o4 = OutPort( {w} )', 'connect( s.o4, s.cr.out )']; feats.add('child-reg')
  rng.shuffle(blocks)
  for i, b in enumerate(blocks):
    L += ['@update_ff', f'def f{i}():'] + ['  ' + x for x in b]
  body = '\n'.join('    ' + l for l in L)
  class G: pass
  g = G(); g.name = name; g.inputs = [('i0', ('bits', 8)), ('i1', ('struct', 'Pt')), ('en', ('bits', 1))] + ([('ig', ('struct', 'Grid'))] if has_grid else []); g.features = feats
  if rng.random() < 0.4:
    feats.add('wrapped-one-level-down')
    w_ = [f's.d = {name}_inner()']
    for n_, typ in g.inputs:
      t_ = typ[1] if typ[0] == 'struct' else str(typ[1])
      w_ += [f's.{n_} = InPort( {t_} )', f'connect( s.{n_}, s.d.{n_} )']
    wb = '\n'.join('    ' + l for l in w_)
    g.src = sc.STRUCT_SRC + f'\nclass {name}_inner( Component ):\n  def construct( s ):\n{body}\n' + f'\nclass {name}( Component ):\n  def construct( s ):\n{wb}\n  def line_trace( s ):\n    return ""\n'
  else:
    g.src = sc.STRUCT_SRC + f'\nclass {name}( Component ):\n  def construct( s ):\n{body}\n  def line_trace( s ):\n    return ""\n'
  g.source = lambda: g.src
  return g

def farm_design(rng, name):
  """many registers in many components (hundreds of flip statements): K cells of R registers each, chained"""
  K, R = rng.randrange(28, 46), rng.randrange(7, 13)
  cell = f'''
class Cell( Component ):
  def construct( s, R, k ):
    s.in_ = InPort( 8 ); s.en = InPort( 1 ); s.out = OutPort( 8 )
    s.r = [ Wire( 8 ) for _ in range(R) ]
    connect( s.out, s.r[R-1] )
    @update_ff
    def up_cell():
      if s.en:
        s.r[0] <<= s.in_ + k
      for i in range(R-1):
        s.r[i+1] <<= s.r[i] ^ i
'''
  L = ['s.i0 = InPort( 8 )', 's.i1 = InPort( Pt )', 's.en = InPort( 1 )', 's.o0 = OutPort( 8 )',
       f's.cell = [ Cell( {R}, k ) for k in range({K}) ]', 'connect( s.cell[0].in_, s.i0 )', f'connect( s.o0, s.cell[{K-1}].out )']
  L += [f'for k in range({K}):', '  connect( s.cell[k].en, s.en )', f'for k in range({K-1}):', '  connect( s.cell[k+1].in_, s.cell[k].out )']
  body = '\n'.join('    ' + l for l in L)
  class G: pass
  g = G(); g.name = name; g.inputs = [('i0', ('bits', 8)), ('i1', ('struct', 'Pt')), ('en', ('bits', 1))]; g.features = {f'register-farm'}
  g.src = sc.STRUCT_SRC + cell + f'\nclass {name}( Component ):\n  def construct( s ):\n{body}\n  def line_trace( s ):\n    return ""\n'
  g.source = lambda: g.src
  g.nregs = K * R
  return g

def oracle_tick(ctx, top, g, fpl, src, cyc, both=False):
  """emulate one sim_tick from the ff_observes_preedge theorem: each update_ff block alone on the pre-edge state"""
  for b in top._sched.update_schedule: b()
  snap_eval = sc.snapshot(top)
  pre = sc.save_state(top)
  # hold invariant: before the ff phase next == current for every double-buffered leaf
  for x, u, nx in pre:
    if nx is not None and nx != u:
      ctx.violation(f'C07:hold-invariant:{g.name}', f'{g.name} cycle {cyc}: a register enters the ff phase with next-value {nx} != current {u}; an unassigned register would not hold',
                    {'design_source': src, 'cycle': cyc})
      break
  merged = {}
  for b in fpl.ff:
    sc.restore_state(pre)
    b()
    for x, u, nx in pre:
      if x._uint != u:
        ctx.violation(f'C07:visible-before-edge:{g.name}:{b.__name__}', f'{g.name}: update_ff block {b.__name__} changed a visible value before the edge',
                      {'design_source': src, 'block': b.__name__, 'cycle': cyc})
      if nx is not None and x._next != nx:
        if id(x) in merged and merged[id(x)][1] != x._next:
          ctx.note(f'{g.name}: two ff blocks assign one register')
        merged[id(x)] = (x, x._next)
  sc.restore_state(pre)
  for x, v in merged.values(): x._next = v
  # the edge itself, done by the oracle independently of the generated flip function: EVERY double-buffered
  # leaf takes its next-value (all registers change together)
  for x, u, nx in pre:
    if nx is not None: x._uint = x._next
  for b in top._sched.update_schedule: b()
  if both: return snap_eval, sc.snapshot(top)
  return sc.snapshot(top)

def run(ctx):
  setup_impl_path()
  quick = ctx.tier == 'quick'
  rng = ctx.rng
  ndes = 150 if quick else 1200
  cycles = 8 if quick else 20
  coq_cases, coq_meta = [], []
  _devnull = io.StringIO()
  for k in range(ndes):
    if k % 50 == 7:
      g = farm_design(random.Random(rng.randrange(1 << 30)), f'F{k}')
    elif k % 3 == 2:
      g = sc.Gen(random.Random(rng.randrange(1 << 30)), f'F{k}', size='medium').build()
    else:
      g = ff_design(random.Random(rng.randrange(1 << 30)), f'F{k}')
    src = g.source()
    try:
      cls, _ = sc.load_source(ctx, src, g.name)
      # oracle instance
      O = sc.build(cls, 'simple', seed=0); fpl = sc.Footprints(O)
      nff = len(fpl.ff)
      if nff == 0: continue
      perms = list(itertools.permutations(range(nff))) if nff <= (4 if quick else 5) else [tuple(rng.sample(range(nff), nff)) for _ in range(12 if quick else 60)]
      if quick and len(perms) > 8: perms = [perms[0], perms[-1]] + rng.sample(perms[1:-1], 6)
      insts = [(f'simple:ff{p}', sc.build(cls, 'simple', ff_perm=list(p), seed=i)) for i, p in enumerate(perms)]
      insts += [(s_, sc.build(cls, s_, seed=0)) for s_ in ('dynamic', 'unroll', 'heuristic', 'mamba')]
      insts.append(('dynamic:ffrev', sc.build(cls, 'dynamic', ff_perm=list(range(nff))[::-1])))
      # the same pass groups with line tracing switched on (the design has a line_trace method): tracing must not change what is simulated
      insts += [(s_ + ':linetrace', sc.build(cls, s_, seed=0, trace=True)) for s_ in ('simple', 'dynamic', 'unroll', 'heuristic', 'mamba')]
      # ... and with an ACTIVE-LOW reset: sim_reset holds reset at 0 for three edges and releases it to 1
      insts += [(s_ + ':activelow', sc.build(cls, s_, seed=0, reset_high=False)) for s_ in ('simple', 'dynamic', 'unroll', 'heuristic', 'mamba')]
      OL = sc.build(cls, 'simple', seed=0); fplL = sc.Footprints(OL)
      seed = rng.randrange(1 << 30)
      with contextlib.redirect_stdout(io.StringIO()):
        for _, t in insts: t.sim_reset()
      OL.reset @= 0
      for c_ in range(3): oracle_tick(ctx, OL, g, fplL, src, -3 + c_)
      OL.reset @= 1
      for b_ in OL._sched.update_schedule: b_()
      exp0L = sc.snapshot(OL)
      # sim_reset is three clock edges with reset high (combinational logic evaluated before each), then reset low: the oracle
      # performs exactly that with its own edge
      O.reset @= 1
      for c_ in range(3): oracle_tick(ctx, O, g, fpl, src, -3 + c_)
      O.reset @= 0
      for b_ in O._sched.update_schedule: b_()
      exp0H = sc.snapshot(O)
      for nm, t in insts:
        got0 = sc.snapshot(t)
        exp0 = exp0L if nm.endswith(':activelow') else exp0H
        if got0 != exp0:
          ks = [x for x in exp0 if exp0[x] != got0.get(x)]
          ctx.violation(f'C07:reset-sequence:{g.name}:{nm}', f'{g.name} under {nm}: the state after sim_reset() differs from three edges with reset high followed by reset low on {ks[:4]} (expected/observed {[(exp0[x], got0.get(x)) for x in ks[:4]]})',
                        {'design_source': src, 'variant': nm, 'signals': {x: (exp0[x], got0.get(x)) for x in ks[:8]}})
          break
      rs = [random.Random(seed) for _ in insts]; ro = random.Random(seed); rl = random.Random(seed)
      dead = set()
      for c in range(cycles):
        sc.drive_inputs(O, g, ro)
        expH = oracle_tick(ctx, O, g, fpl, src, c)
        sc.drive_inputs(OL, g, rl)
        expL = oracle_tick(ctx, OL, g, fplL, src, c)
        for j, (nm, t) in enumerate(insts):
          sc.drive_inputs(t, g, rs[j])
          if j in dead: continue
          with contextlib.redirect_stdout(_devnull): t.sim_tick()
          got = sc.snapshot(t)
          exp = expL if nm.endswith(':activelow') else expH
          ctx.count((g.name, nm, c), True, cls='tick:' + nm.split(':')[0])
          if got != exp:
            ks = [x for x in exp if exp[x] != got.get(x)]
            ctx.violation(f'C07:edge-not-atomic:{g.name}:{nm}', f'{g.name} under {nm}, cycle {c}: post-edge state differs from F(pre-edge state) on {ks[:4]} (expected/observed {[(exp[x], got[x]) for x in ks[:4]]})',
                          {'design_source': src, 'variant': nm, 'cycle': c, 'input_seed': seed, 'signals': {x: (exp[x], got[x]) for x in ks[:8]}})
            dead.add(j)
      for f in g.features: ctx.hist['feature:' + f] = ctx.hist.get('feature:' + f, 0) + 1
      ctx.hist['ffblocks:%d' % nff] = ctx.hist.get('ffblocks:%d' % nff, 0) + 1
      # single-writer acceptor on the ff blocks' write footprints
      coq_cases.append(fpl.design_term(blocks=fpl.ff, expl=[]))
      coq_meta.append((g.name, src, [b.__name__ for b in fpl.ff]))
    except Exception as e:
      ctx.violation(f'C07:design-crash:{g.name}:{type(e).__name__}', f'design {g.name} could not be simulated: {type(e).__name__}: {str(e)[:200]}',
                    {'design_source': src, 'traceback': traceback.format_exc()[-2000:]})
  # Bits-level: sequences of <<= (ints and Bits, including values equal to the current / pending value) then _flip,
  # against the specification the generated __ilshift__/_flip are proved equal to
  from pymtl3.datatypes import Bits, mk_bits, mk_bitstruct
  _scls = {}
  def struct_of(n, val):
    if n not in _scls: _scls[n] = mk_bitstruct(f'SV{n}', {'hi': mk_bits(n - n // 2), 'lo': mk_bits(n // 2)})
    return _scls[n].from_bits(Bits(n, val))
  seqs, smeta = [], []
  for t in range(300 if quick else 3000):
    n = rng.choice([1, 2, 4, 8, 8, 16, 33, 64])
    u0 = rng.getrandbits(n)
    x = Bits(n, u0); x <<= x
    ops = []
    for j in range(rng.randrange(1, 4)):
      kind = rng.random()
      val = rng.choice([u0, x._next, 0, (1 << n) - 1, rng.getrandbits(n)])
      if kind < 0.5: ops.append(('int', val))
      elif kind < 0.65 and val >= (1 << (n - 1)): ops.append(('int', val - (1 << n)))     # negative int with the same bits
      elif kind < 0.8 and n >= 2: ops.append(('struct', n, val))                            # a bitstruct value of the same width
      else: ops.append(('bits', n, val))
      o = ops[-1]
      x <<= (o[1] if o[0] == 'int' else Bits(n, o[2]) if o[0] == 'bits' else struct_of(n, o[2]))
    vis = int(x._uint); x._flip()
    # a bitstruct operand is its packed value (to_bits): `x <<= struct` stages struct.to_bits()
    term = coq_list([f'(OInt {zlit(o[1])})' if o[0] == 'int' else f'(OBits {o[1]} {zlit(o[2])})' for o in ops])
    seqs.append(f'({n}, {zlit(u0)}, {term}, {zlit(vis)}, {zlit(int(x._uint))})'); smeta.append((n, u0, ops, vis, int(x._uint)))
    ctx.count(('bits-seq', n, u0, tuple(ops)), True, cls='bits-ilshift-seq')
  defs = '''
Fixpoint run_seq (n u nx : Z) (ops : list operand) : res (Z * Z) :=
  match ops with
  | [] => Ok (u, nx)
  | o :: r => match spec_ilshift n u nx o with Ok s => run_seq n (snd (fst s)) (snd s) r | Err e => Err e end
  end.
'''
  badq = ctx.coq_bad_indices('seq', 'Base.Prelude Bits.BitsSpec', defs, 'Z * Z * list operand * Z * Z', seqs,
                             "let '(n, u, ops, vis, fin) := c in match run_seq n u u ops with Ok s => (fst s =? vis) && (snd s =? fin) | Err _ => false end")
  for i in badq[:5]:
    n, u0, ops, vis, fin = smeta[i]
    ctx.violation(f'C07:bits-ilshift-seq:{n}:{u0}:{ops}', f'Bits{n}({u0}) after <<= {ops} and _flip: visible-before-flip {vis}, after flip {fin}; the last assignment must win and nothing may be visible before the flip',
                  {'nbits': n, 'initial': u0, 'assignments': ops, 'visible_before_flip': vis, 'after_flip': fin})
  bad = ctx.coq_bad_indices('ffsw', 'Base.Prelude Sched.Accept', '', 'design', coq_cases, 'wf_design c && sw_ok c', shard=40)
  for i in bad[:5]:
    ctx.violation(f'C07:ff-single-writer:{coq_meta[i][0]}', f'{coq_meta[i][0]}: two update_ff blocks write one register bit (acceptor sw_ok false)',
                  {'design_source': coq_meta[i][1], 'ff_blocks': coq_meta[i][2]})
  ctx.sample({'design': coq_meta[0][0], 'source_tail': coq_meta[0][1][-700:], 'ff_blocks': coq_meta[0][2]})
  ctx.extra['designs'] = len(coq_cases)

def main(ctx):
  ctx.trusted += ['translators/py2coq_bits.py (Bits.__ilshift__, _flip are generated)', 'harness/sched_common.py (generator, save/restore of simulator state for the oracle)']
  ctx.assumptions += ['the oracle executes the real update_ff block functions one at a time on the saved pre-edge state (theorem ff_observes_preedge says that is what an atomic edge means); block footprints are pymtl3\'s',
                      'struct-typed registers: fieldwise <<=/_flip of bitstructs is covered by C06']
  ctx.build_props(gen_cmds=[[PY, 'translators/py2coq_bits.py', str(REPO), 'coq/theories/Gen/BitsGen.v']], extra_models=['theories/Sched/Accept.vo', 'theories/Bits/BitsSpec.vo'])
  try:
    run(ctx)
  except Exception as e:
    ctx.violation('C07:harness-crash', f'correspondence could not run: {e!r}', {'traceback': traceback.format_exc()}, found_input=False)
  return ctx.finish(rule='designs with 2..8 update_ff blocks reading each other\'s registers (swap/rotate/chain, hold, last-assignment-wins, struct and list registers, nets fed by registers, child registers) x all/random permutations of the update_ff blocks x schedulers x cycles; '
                         'distinct = (design, variant, cycle); each compares the whole post-edge state with the per-block-alone oracle')
