"""c03_tr.py — the tie between the MODEL OF THE TRANSLATOR (coq/theories/SV/Translate.v) and the real translator, run
from harness/c03.py on every check of C03.

theorems (Props/C03_tr.v; model SV/Translate.v, proofs SV/TranslateSound.v):
  C03_tr_expr_sound                 all 18 expression constructors: under the acceptor sv_ok, in corresponding environments,
                                    a Bits result (n, u) of the simulator = self-determined width n and value u of the
                                    emitted expression (context-determined evaluation at n); a python int z = value z at
                                    its own and every wider width          (_bits_assignment_context, _cond_sound: corollaries)
  C03_tr_assign_{signal,part_select,bit,temporary}, C03_tr_assign_exec
                                    one emitted `=` / `<=`: target place and transferred value = what exec_assign stores
  C03_tr_if                         the emitted if runs the translation of the branch python runs
  C03_tr_comb_block_sound           WHOLE always_comb block of a plain design (plain_ok: one scalar variable per signal, no
                                    list of signals) accepted by comb_ok (any assignment target, nested if/elif/else,
                                    temporaries, no for): from related states, the emitted block run by SvEval leaves in
                                    every signal / field / temporary what the simulator semantics leaves
  C03_tr_ff_block_sound             the same for always_ff blocks (ff_ok): after the commit of the pending non-blocking
                                    writes every signal holds the simulator's post-edge value (final_sig)
  C03_tr_block_invariant, C03_tr_block_start, C03_tr_stmt_preserves   the relation `inv` is preserved by every accepted
                                    statement under the threaded typing environment, and holds where a block starts
  C03_tr_sexpr_eqb_eq, C03_tr_tie_{expr,lhs}_sound   the comparison of the tie is equality up to a normalisation that
                                    preserves value, width and denoted place
  NOT proved: for loops (the iteration correspondence loop_count vs SvEval's fuel loop) and blocks over lists of signals
  (TranslateSound.tr_block_sound_partial is the general statement; sampled differentially, see below)

tie, per update block of every design C03 runs (generated, directed, stdlib, test-case catalogue) and of the rtlfoot
corpus, for every component of the hierarchy:
  (a) translators/rtlblk2coq.py turns the python AST of the block into a term t of RTL/Syntax.v.  It is used in a
      NON-FOLDING mode (_BlockTR below): pymtl3's RTLIR keeps  k0 >> 3  as BinOp(FreeVar, Number), so must the term;
      blocks rtlblk2coq can only express by unrolling a loop / expanding a list indexed by a signal, loop bounds that
      are operator expressions, several assignment targets ... are counted as `outside` with the reason.
  (b) harness/svparse.py parses the text the REAL VerilogTranslationPass wrote; the always block of the component's
      module with the label of the update block is the term p.
  (c) inside Coq (ctx.coq_bad_indices):  sv_block_eqb (params_of <localparams of the module>) (tr_block names G t) p.
      names = spelling of signal / field / temporary / loop variable numbers, computed from the pymtl3 OBJECTS
      (chain of attribute names from the host component joined by __, list indices as W'dk selects with
      W = clog2(length), __tmpvar__<blk>_<name>, <blk>.<name>), never from the emitted text.
A mismatch is a violation  C03:tr-mismatch:<shape>  whose replay holds the design source, the block, both terms and —
when one is found — an input vector on which SvEval of the emitted block and RTL.Eval of the source block differ.
The same Coq run evaluates the acceptors  blk_ok  (every expression of the block in the domain of C03_tr_expr_sound, every
assignment in that of C03_tr_assign_*) and  plain_ok + comb_ok / ff_ok  (the block theorems, instantiated with the
declarations of the signals the block mentions) on every compared block, and executes every covered block both ways on random
signal values (Translate.blk_diff: the EMITTED always block in SvEval, the source block in RTL.Eval) — the statement-level
claim TranslateSound.tr_block_sound_partial is NOT proved, this samples it; a difference is C03:tr-sound-counterexample.
The counts go to the evidence (share of generated blocks the theorems cover, per-constructor coverage).
"""
import ast, sys, os, re, random, traceback, collections
from common import *
import sv_common as sv, svparse
sys.path.insert(0, str(VERIF / 'translators'))
import rtlblk2coq
from rtlblk2coq import Outside, zlit as rzlit, natlist, coq_list as rcoq_list

IMPORTS = 'Base.Prelude Bits.BitsSpec RTL.Syntax RTL.Eval RTL.Typing SV.Translate'
DEFS = '''
(* names, declarations, RTL term of the update block, parsed always block, emitted module (items dropped), #signals,
   signals the block writes, #temporaries, is it an update_ff block, the declarations of the signals the block mentions *)
Definition trcase := (names * decls * list stmt * list S.stmt * S.module * nat * list nat * nat * bool * decls)%type.
(* the tie: the model translator yields the emitted block *)
Definition tr_case_ok (c : trcase) : bool :=
  let '(nm, G, t, p, m, _, _, _, _, _) := c in sv_block_eqb (params_of (S.m_params m)) (tr_block nm G t) p.
(* where the soundness theorems apply *)
Definition tr_case_thm (c : trcase) : bool :=
  let '(nm, G, t, _, m, _, _, _, _, _) := c in blk_ok (X.mod_tenv m) nm G t.
(* Translate.blk_diff: 0 the simulator raises on this input (no comparison); 1 both agree on the written signals; 2 they differ *)
Definition tr_diff (c : trcase) (inputs : list Z) : nat :=
  let '(nm, G, t, p, m, nsig, wr, _, _, _) := c in blk_diff nm G t p m nsig wr inputs.
Definition tr_diffs (c : trcase) (ins : list (list Z)) : list nat := map (tr_diff c) ins.
(* where the BLOCK theorems C03_tr_comb_block_sound / C03_tr_ff_block_sound apply *)
Definition tr_case_blk (c : trcase) : bool :=
  let '(nm, G, t, _, m, _, _, ntmp, isff, Gu) := c in
  (* the theorem is instantiated with the declaration table restricted to the signals the block mentions *)
  plain_ok (X.mod_tenv m) nm Gu ntmp && (if isff then ff_ok (X.mod_tenv m) nm ntmp Gu t else comb_ok (X.mod_tenv m) nm ntmp Gu t) &&
  sv_block_eqb (params_of (S.m_params m)) (tr_block nm Gu t) (tr_block nm G t).
(* one answer per block: +1 mismatch, +2 outside blk_ok (expression / assignment theorems), +4 outside the block theorems *)
Definition tr_case_code (c : trcase) : nat :=
  ((if tr_case_ok c then 0 else 1) + (if tr_case_thm c then 0 else 2) + (if tr_case_blk c then 0 else 4))%nat.
'''

# ---------------------------------------------------------------------- rtlblk2coq in non-folding mode
class _BlockTR(rtlblk2coq._Block):
  """pymtl3's RTLIR generator keeps every operator node: nothing but literals, names and attribute / subscript chains
  that reach a python int is a Number"""
  def expr_k(b, node):
    if isinstance(node, ast.Constant):
      if type(node.value) is int: return ('lit', int(node.value)), 'v'
      raise Outside('constant that is not an int literal')
    if isinstance(node, ast.BinOp):
      op = rtlblk2coq.BINOPS.get(type(node.op))
      if op is None: raise Outside(f'operator {type(node.op).__name__}')
      return ('bin', op, b.expr(node.left), b.expr(node.right)), 'v'
    if isinstance(node, ast.UnaryOp):
      if isinstance(node.op, ast.Invert): return ('inv', b.expr(node.operand)), 'v'
      raise Outside(f'unary {type(node.op).__name__}')
    return super().expr_k(node)
  def ref(b, node):
    try: return super().ref(node)
    except rtlblk2coq.NeedsLoopValue: raise Outside('list of signals indexed by a loop variable')
  def sel_ref(b, lst, idx_node):
    raise Outside('list of signals indexed by a signal')
  def stmt(b, st):
    if isinstance(st, ast.For) and isinstance(st.iter, ast.Call):
      for a in st.iter.args:
        if not isinstance(a, (ast.Constant, ast.Name, ast.Attribute)): raise Outside('loop bound that is an operator expression')
    if isinstance(st, ast.Pass): raise Outside('pass')       # the RTLIR generator rejects it
    return super().stmt(st)

def translate_block(tr, blk):
  """-> (_BlockTR, stmts) or raises Outside"""
  b = _BlockTR(tr, blk)
  stmts = b.stmts(b.fn.body)
  if b.alias_tmp_roots & b.wr: raise Outside('temporary aliases a signal the block writes')
  return b, stmts

# ---------------------------------------------------------------------- per-constructor coverage (python side, on the RTL term)
def walk_term(stmts, hist):
  def ex(e):
    hist['e:' + e[0] + (':' + e[1] if e[0] in ('bin', 'cmp', 'red') else '')] += 1
    k = e[0]
    if k in ('cast',): ex(e[2])
    elif k in ('bin', 'cmp'): ex(e[2]); ex(e[3])
    elif k == 'inv': ex(e[1])
    elif k in ('slice', 'if'): ex(e[1]); ex(e[2]); ex(e[3])
    elif k == 'index': ex(e[1]); ex(e[2])
    elif k == 'concat':
      for x in e[1]: ex(x)
    elif k in ('zext', 'sext', 'trunc', 'red'): ex(e[2])
  def st(s):
    if s[0] == 'assign':
      _, _, l, e, blocking = s
      hist['s:assign:' + l[0] + (':blocking' if blocking else ':nonblocking')] += 1
      if l[0] == 'lslice': ex(l[3]); ex(l[4])
      if l[0] == 'lindex': ex(l[3])
      ex(e)
    elif s[0] == 'if':
      hist['s:if'] += 1; ex(s[2])
      for x in s[3] + s[4]: st(x)
    else:
      hist['s:for'] += 1
      for x in s[5]: st(x)
  for s in stmts: st(s)

# ---------------------------------------------------------------------- names and declarations of one component
def chain_from(host, sig):
  """[(name, indices)] from the component `host` down to the signal object, or None"""
  out = []; o = sig
  while o is not host:
    d = getattr(o, '_dsl', None)
    if d is None or getattr(d, 'parent_obj', None) is None: return None
    out.append((d._my_name, tuple(d._my_indices or ())))
    o = d.parent_obj
  return out[::-1]

def clog2(n): return 1 if n <= 1 else (n - 1).bit_length()

def list_lengths(host, chain):
  """length of every python list passed on the way from host to the signal (for the width of the emitted index literals)"""
  o = host; dims = []
  for name, idx in chain:
    o = getattr(o, name)
    for i in idx:
      dims.append(len(o)); o = o[i]
  return dims

class CompTable:
  """signals a block of component m may mention: signals hosted by m and by its direct child components"""
  def __init__(s, top, m, tr_is_struct):
    sigs = []
    for x in top._dsl.all_signals:
      if not x.is_top_level_signal(): continue
      h = x.get_host_component()
      if h is m or (h is not top and h.get_parent_object() is m): sigs.append(x)
    sigs.sort(key=repr)
    s.m, s.sigs = m, sigs
    s.sigtab = {x: i for i, x in enumerate(sigs)}

def shape_fields(T, is_struct):
  """('bits', w) | ('struct', [(fname, shape)]) ; a struct with list fields is opaque"""
  if is_struct(T):
    fs = []
    for fn, ft in T.__bitstruct_fields__.items():
      if isinstance(ft, list): return ('bits', T.nbits)
      fs.append((fn, shape_fields(ft, is_struct)))
    return ('struct', fs)
  return ('bits', T.nbits)

def sh_w(sh): return sh[1] if sh[0] == 'bits' else sum(sh_w(f) for _, f in sh[1])

def shape_paths(sh, lo=0):
  """[(path, width, offset, is_struct, last field name)] — mirrors RTL/Footprint.shape_paths (first field most significant)"""
  out = [((), sh_w(sh), lo, sh[0] == 'struct', None)]
  if sh[0] == 'struct':
    top = lo + sh_w(sh)
    for i, (fn, f) in enumerate(sh[1]):
      top -= sh_w(f)
      for p, w, o, st, nmz in shape_paths(f, top):
        out.append(((i,) + p, w, o, st, fn if not p else nmz))
  return out

# ---------------------------------------------------------------------- one design
class Blk:
  pass

def real_translate(d):
  """run the real pass on a fresh instance; -> (top, text, module name of every component)"""
  from pymtl3.passes.backends.verilog import VerilogTranslationPass as P
  top = d.factory(); top.elaborate()
  top.set_metadata(P.enable, True)
  top.apply(P())
  fn = top.get_metadata(P.translated_filename)
  text = open(fn).read()
  os.remove(fn)
  tr = top.get_metadata(P.translator)
  names = dict(tr.structural.component_unique_name)
  names[top] = top.get_metadata(P.translated_top_module)
  return top, text, names

def design_blocks(ctx, st, d, text_expected=None):
  """collect the comparable blocks of one design into st"""
  try:
    top, text, modname = real_translate(d)
  except Exception as e:
    st.hist['design:not-translated'] += 1
    return
  if text_expected is not None and sv.text_key(text) != sv.text_key(text_expected):
    st.hist['design:second-translation-differs'] += 1
  try:
    f = svparse.parse_file(text)
  except Exception as e:
    st.hist['design:text-not-parsed'] += 1
    return
  st.hist['design:compared'] += 1
  from pymtl3.datatypes.bitstructs import is_bitstruct_class
  comps = sorted(top.get_all_components(), key=repr)
  seen_mod = set()
  for m in comps:
    mn = modname.get(m)
    if mn is None or mn in seen_mod: continue        # one module per distinct (class, parameters)
    seen_mod.add(mn)
    mod = f.module(mn)
    if mod is None:
      st.hist['component:module-not-in-text'] += 1
      continue
    items = {(it[0], it[1]): it[2] for it in mod['items'] if it[0] in ('comb', 'ff')}
    ffs = set(m.get_update_ff())
    blks = sorted(m.get_update_blocks(), key=lambda b: b.__name__)
    if not blks: continue
    tab = CompTable(top, m, is_bitstruct_class)
    tr = rtlblk2coq.Translator(top, tab.sigtab) if tab.sigs else None
    for blk in blks:
      st.total += 1
      kind = 'ff' if blk in ffs else 'comb'
      key = (d.name, mn, blk.__name__)
      if tr is None:
        st.outside('no signals', kind); continue
      try:
        b, stmts = translate_block(tr, blk)
      except Outside as e:
        st.outside(re.sub(r'\s+', ' ', str(e) or 'outside')[:60], kind); continue
      except RecursionError:
        st.outside('too deep', kind); continue
      body = items.get((kind, blk.__name__))
      if body is None:
        st.outside('no always block with the label of the update block', kind)
        continue
      try:
        case = make_case(f, mod, m, tab, tr, b, stmts, body, blk.__name__, isff=(kind == 'ff'))
      except Outside as e:
        st.outside(re.sub(r'\s+', ' ', str(e))[:60], kind); continue
      st.translated += 1
      st.hist[f'block:{kind}:compared'] += 1
      walk_term(stmts, st.cons)
      x = Blk(); x.key = key; x.case = case; x.d = d; x.kind = kind; x.stmts = stmts
      x.widths = [q._dsl.Type.nbits for q in tab.sigs]; x.signames = [repr(q) for q in tab.sigs]
      x.term = rcoq_list([rtlblk2coq.stmt_coq(s) for s in stmts])
      x.sv = svparse.clist([f.stmt_coq(s) for s in body]); x.f = f; x.mod = mod
      x.src = block_source(text, blk.__name__); x.names_py = case_names_py(m, tab, b, blk.__name__)
      st.blocks.append(x)
      ctx.count((d.name, mn, blk.__name__, x.term), True, cls=None)

def block_source(text, label):
  """the python source comment + the always block of the emitted text"""
  m = re.search(r'((?:[ \t]*//[^\n]*\n)+\s*\n?[ \t]*always_\w+[^\n]*begin : ' + re.escape(label) + r'\n.*?\n  end\n)', text, flags=re.S)
  return m.group(1)[-2500:] if m else None

def case_names_py(m, tab, b, blkname):
  out = {}
  for q, i in tab.sigtab.items():
    ch = chain_from(m, q)
    out[f'sig{i}'] = repr(q) + ' -> ' + ('__'.join(n for n, _ in ch) + ''.join(f'[{k}]' for _, ix in ch for k in ix) if ch else '?')
  for n, i in b.tmps.items(): out[f'tmp{i}'] = f'__tmpvar__{blkname}_{n}'
  for n, i in b.loops.items(): out[f'loop{i}'] = f'{blkname}.{n}'
  return out

MISSING = '?missing?'
_SVCON = re.compile(r'\b(ELit|ENum|EId|EMember|EIndex|ERange|EPlusRange|EConcat|ERepl|EUn|EBin|ECond|ECast|SBlocking|SNonBlocking|SIf|SFor|'
                    r'IExpr|IArr|mkdecl|mkmod|DIn|DOut|PBits|PStruct|PArr|UNot|UNeg|UPlus|URedAnd|URedOr|URedXor|ULogNot|BAdd|BSub|BMul|BDiv|BMod|BAnd|BOr|'
                    r'BXor|BShl|BShr|BEq|BNe|BLt|BLe|BGt|BGe|BLAnd|BLOr)\b')
def svq(txt):
  """qualify the constructors of SV/SvSyntax.v (the case file also mentions RTL/Syntax.v, which has an ELit, an SIf ... of its own)"""
  return _SVCON.sub(r'S.\1', txt)
def make_case(f, mod, m, tab, tr, b, stmts, body, blkname, isff=False):
  P = lambda n: f'{f.intern.id(n)}%positive'
  used = set(b.rd) | set(b.wr)
  sg, fl, decls, el, decls_used = [], [], [], [], []
  for q, i in sorted(tab.sigtab.items(), key=lambda kv: kv[1]):
    T = q._dsl.Type
    sh = shape_fields(T, tr.is_struct)
    for p, w, off, isst, fname in shape_paths(sh):
      decls.append(f'({i}%nat, {natlist(p)}, {{| fw := {w}; flo := {off}; fstruct := {"Some 0%nat" if isst else "None"} |}})')
      if i in used: decls_used.append(decls[-1])
      if p: fl.append(f'({i}%nat, {natlist(p)}, {P(fname)})')
    ch = chain_from(m, q)
    if ch is None:
      if i in used: raise Outside('signal that is not below the host component')
      continue
    name = '__'.join(n for n, _ in ch)
    idx = [k for _, ix in ch for k in ix]
    dims = list_lengths(m, ch) if idx else []
    if ch[-1][1]: el.append(f'{i}%nat')
    sg.append(f'({i}%nat, ({P(name)}, {rcoq_list([f"({clog2(n)}, {k})" for n, k in zip(dims, idx)])}))')
  tm = [f'({i}%nat, {P("__tmpvar__" + blkname + "_" + n)})' for n, i in b.tmps.items()]
  lp = [f'({i}%nat, {P(blkname + "." + n)})' for n, i in b.loops.items()]
  nm = f'(names_of {P(MISSING)} {rcoq_list(sg)} {rcoq_list(el)} {rcoq_list(fl)} {rcoq_list(tm)} {rcoq_list(lp)})'
  md = svq(f.module_coq(dict(mod, items=[])))
  t = rcoq_list([rtlblk2coq.stmt_coq(s) for s in stmts])
  p = svq(svparse.clist([f.stmt_coq(s) for s in body]))
  wr = rcoq_list([f'{i}%nat' for i in sorted(b.wr)])
  return f'({nm}, {rcoq_list(decls)}, {t}, {p}, {md}, {len(tab.sigs)}%nat, {wr}, {len(b.tmps)}%nat, {"true" if isff else "false"}, {rcoq_list(decls_used)})'

# ---------------------------------------------------------------------- run
class _State:
  def __init__(s):
    s.total = s.translated = 0
    s.blocks = []
    s.hist = collections.Counter(); s.cons = collections.Counter(); s.reasons = collections.Counter()
  def outside(s, why, kind):
    s.reasons[why] += 1; s.hist[f'block:{kind}:outside'] += 1

def corpus_designs(ctx):
  import rtlfoot, sched_common as sc
  out = []
  for name, src in rtlfoot.CORPUS:
    try:
      cls, _ = sc.load_source(ctx, src, name)
      out.append(sv.Design(name, cls, source=src, kind='corpus'))
    except Exception: pass
  return out

def shape_of_mismatch(x):
  """a stable, coarse key: the RTL constructors of the block that are rare enough to name the place"""
  c = collections.Counter(); walk_term(x.stmts, c)
  for k in ('e:sext', 'e:red:RAnd', 'e:red:ROr', 'e:red:RXor', 'e:slice', 'e:index', 'e:zext', 'e:trunc', 'e:concat', 'e:if', 'e:cast', 'e:free', 's:for', 's:if'):
    if c.get(k): return k.replace(':', '-')
  return 'other'

def build(ctx):
  """kernel-check Props/C03_tr.v (and with it SV/Translate.v, SV/TranslateSound.v); the result is added to the proof
  record of the C03 run.  Returns True when the model can be used by the tie (SV/Translate.vo exists)."""
  prop = COQ / 'theories' / 'Props' / 'C03_tr.v'
  files = closure(prop)
  bad = []
  for f in files:
    txt = re.sub(r'\(\*.*?\*\)', '', f.read_text(), flags=re.S)
    bad += [f'{f.name}: {m.group(0)}' for m in FORBIDDEN.finditer(txt)]
  nthm = sum(len(THM.findall(re.sub(r'\(\*.*?\*\)', '', f.read_text(), flags=re.S))) for f in files if f.name in ('Translate.v', 'TranslateSound.v', 'C03_tr.v'))
  vo = prop.with_suffix('.vo')
  with Lock():
    if vo.exists(): vo.unlink()
  t0 = time.time()
  rc, out = ctx.make([str(vo.relative_to(COQ))], jobs=4)
  closed = len(re.findall(r'Closed under the global context', out))
  nprint = len(re.findall(r'Print Assumptions', re.sub(r'\(\*.*?\*\)', '', prop.read_text(), flags=re.S)))
  axioms = re.findall(r'Axioms:\n((?:.+\n?)+?)(?=\n|COQC|Closed|$)', out)
  problems = [f'forbidden construct {b}' for b in bad]
  if rc != 0 or not vo.exists():
    errs = re.findall(r'File "([^"]+)", line (\d+).*?\nError:(.*?)(?=\n\S|\Z)', out, flags=re.S)
    problems.append('coq build of Props/C03_tr.v failed: ' + ('; '.join(f'{Path(a).name}:{b}:{c.strip()[:300]}' for a, b, c in errs[:4]) if errs else out[-600:]))
  elif axioms: problems.append(f'Print Assumptions reports axioms: {axioms[:2]}')
  elif closed < nprint: problems.append(f'only {closed} of {nprint} theorems print "Closed under the global context"')
  ctx.extra['translator_model_proof'] = {'file': 'coq/theories/Props/C03_tr.v', 'lemmas_and_theorems': nthm, 'closed_theorems': closed, 'build_s': round(time.time() - t0, 1),
                                         'ok': not problems, 'problems': problems, 'files': [str(f.relative_to(COQ)) for f in files if 'SV/Tr' in str(f) or 'C03_tr' in str(f)]}
  ctx.proof['obligations'] += nthm
  if not problems: ctx.proof['discharged'] += nthm
  else:
    ctx.violation('C03:tr-proof-obligation', 'translator model: proof obligation no longer checks: ' + '; '.join(problems),
                  {'theorem_file': 'coq/theories/Props/C03_tr.v', 'problems': problems, 'log_tail': out[-1500:]}, found_input=False)
  return (COQ / 'theories' / 'SV' / 'Translate.vo').exists()

def rand_inputs(rng, widths, n):
  out = []
  for k in range(n):
    mode = rng.random()
    out.append([rng.getrandbits(w) if mode < 0.7 else rng.choice([0, 1, (1 << w) - 1, (1 << w) >> 1]) % (1 << w) for w in widths])
  return out

def ins_term(ins):
  return rcoq_list([rcoq_list([rzlit(v) for v in vec]) for vec in ins])

def _nats(txt): return [int(x) for x in re.findall(r'\d+', txt.replace('%nat', ''))]

def eval_cases(ctx, tag, blocks, inputs, per_file=30, jobs=12):
  """for every block: (tr_case_code, tr_diffs on its input vectors), evaluated by Coq (one file per `per_file` blocks)"""
  chunks = [list(range(i, min(i + per_file, len(blocks)))) for i in range(0, len(blocks), per_file)]
  def one(k):
    defs = DEFS + '\n'.join(f'Definition c{j} : trcase := {blocks[i].case}.' for j, i in enumerate(chunks[k]))
    exprs = [f'(tr_case_code c{j}, tr_diffs c{j} {ins_term(inputs[i])})' for j, i in enumerate(chunks[k])]
    outs = ctx.coq_eval(f'{tag}{k}', IMPORTS, defs, exprs)
    if len(outs) != len(exprs): raise RuntimeError(f'coq printed {len(outs)} values for {len(exprs)} expressions')
    res = []
    for o in outs:
      n = _nats(o); res.append((n[0], n[1:]))
    return res
  with ThreadPoolExecutor(max_workers=jobs) as ex:
    outs = list(ex.map(one, range(len(chunks))))
  return [o for c in outs for o in c]

def run(ctx, results=None, designs=None, verbose=False):
  ctx.trusted += [
    'translators/rtlblk2coq.py (python AST of an update block -> RTL/Syntax.v term; used non-folding by harness/c03_tr.py; validated against the real block functions by the C01/C10 footprint checks) and the spelling of signal / temporary / loop-variable numbers computed by harness/c03_tr.py from the pymtl3 objects',
  ]
  ctx.assumptions += [
    'translator model (SV/Translate.v): proved sound for all 18 expression constructors (sv_ok), single assignments, if, and WHOLE always_comb / always_ff blocks of plain designs without for loops (plain_ok + comb_ok / ff_ok; the evidence gives the share of blocks); for loops and blocks over lists of signals are covered by the per-block syntactic tie tr_block = emitted text and by differential evaluation of both semantics on random inputs (blk_diff), not by a proof; structural translation (ports, wires, connections, instances, struct packing) stays translation validation (replay of the emitted module)',
  ]
  if not build(ctx): return None, []
  st = _State()
  t0 = time.time()
  todo = []
  if results is not None:
    for r in results:
      if r.status in ('ok', 'bad') and r.text: todo.append((r.d, r.text))
  for d in (designs or []): todo.append((d, None))
  for d in corpus_designs(ctx): todo.append((d, None))
  for d, text in todo:
    try:
      design_blocks(ctx, st, d, text)
    except Exception as e:
      st.hist['design:harness-error'] += 1
      ctx.extra.setdefault('tr_harness_errors', []).append(f'{d.name}: {e!r}'[:200])
  t1 = time.time()
  rng = random.Random(f'{ctx.seed}:c03tr')
  nvec = 3 if ctx.tier == 'quick' else 10
  ins = [rand_inputs(rng, x.widths, nvec) for x in st.blocks]
  res = eval_cases(ctx, 'trtie', st.blocks, ins) if st.blocks else []
  bad = [i for i, (c, _) in enumerate(res) if c & 1]
  uncovered = [i for i, (c, _) in enumerate(res) if c & 2]
  noblk = [i for i, (c, _) in enumerate(res) if c & 4]
  t2 = time.time()
  badset, unc = set(bad), set(uncovered)
  # (i) mismatching blocks: search an input on which the emitted block and the source block differ
  nvec_bad = 24
  bad_blocks = [st.blocks[i] for i in bad[:12]]
  bad_ins = [rand_inputs(rng, x.widths, nvec_bad) for x in bad_blocks]
  bad_codes = [d for _, d in eval_cases(ctx, 'trwit', bad_blocks, bad_ins, per_file=4)] if bad_blocks else []
  for x, vecs, codes in zip(bad_blocks, bad_ins, bad_codes):
    out = ctx.coq_eval('trwhy', IMPORTS, DEFS, [f"(fun c : trcase => let '(nm, G, t, p, m, _, _, _, _, _) := c in tr_block nm G t) {x.case}"])
    wit = next((vec for vec, c in zip(vecs, codes) if c == 2), None)
    key = f'C03:tr-mismatch:{shape_of_mismatch(x)}'
    ctx.violation(key, f'design {x.key[0]}, module {x.key[1]}, block {x.key[2]}: SV/Translate.tr_block of the update block differs from the always block the translator emitted' +
                  (f'; on the recorded input the emitted block (SvEval) and the source block (RTL.Eval) produce different signal values' if wit else '; no input found on which the two behave differently'),
                  {'design': x.key[0], 'kind': x.d.kind, 'design_source': x.d.source, 'module': x.key[1], 'block': x.key[2], 'block_kind': x.kind,
                   'emitted_block': x.src, 'rtl_term': x.term, 'emitted_term': x.sv, 'model_term': out[0] if out else None, 'names': x.names_py,
                   'differing_input': dict(zip(x.signames, map(hex, wit))) if wit else None, 'inputs_tried': nvec_bad},
                  found_input=wit is not None)
    if verbose:
      print('MISMATCH', x.key, 'witness', wit); print(x.src); print('RTL  ', x.term); print('EMIT ', x.sv); print('MODEL', out[0] if out else None)
  # (ii) blocks the theorem covers: the emitted block and the source block must agree on every input
  #      (differential check of the statement-level claims, incl. the parts that are not proved yet)
  agree = raised = nv = 0
  for i, x in enumerate(st.blocks):
    if i in badset or i in unc: continue
    codes = res[i][1]; nv += len(codes)
    agree += sum(1 for c in codes if c == 1); raised += sum(1 for c in codes if c == 0)
    for vec, c in zip(ins[i], codes):
      if c == 2:
        ctx.violation(f'C03:tr-sound-counterexample:{shape_of_mismatch(x)}',
                      f'design {x.key[0]}, block {x.key[2]}: blk_ok accepts the block and the model translator yields the emitted text, yet SvEval of the emitted block and RTL.Eval of the source block differ on an input (the soundness statement, the acceptor or one of the two semantics is wrong)',
                      {'design': x.key[0], 'kind': x.d.kind, 'design_source': x.d.source, 'module': x.key[1], 'block': x.key[2], 'emitted_block': x.src,
                       'rtl_term': x.term, 'emitted_term': x.sv, 'differing_input': dict(zip(x.signames, map(hex, vec)))})
        break
  t3 = time.time()
  thm_cons = collections.Counter()
  for i, x in enumerate(st.blocks):
    if i not in unc and i not in badset: walk_term(x.stmts, thm_cons)
  ctx.extra['translator_model_tie'] = {
    'blocks_total': st.total, 'blocks_translated_and_compared': st.translated, 'blocks_outside': st.total - st.translated,
    'blocks_equal': st.translated - len(bad), 'blocks_mismatch': len(bad),
    'blocks_where_expression_and_assignment_theorems_apply(blk_ok)': st.translated - len(unc),
    'blocks_where_block_theorem_applies(plain_ok+comb_ok/ff_ok)': st.translated - len(set(noblk) | badset),
    'share_of_all_blocks_covered_by_block_theorem': round((st.translated - len(set(noblk) | badset)) / st.total, 3) if st.total else None,
    'block_theorem_by_kind': {k: sum(1 for i, x in enumerate(st.blocks) if x.kind == k and i not in set(noblk) and i not in badset) for k in ('comb', 'ff')},
    'block_theorem_not_applicable_examples': [f'{st.blocks[i].key[0]}.{st.blocks[i].key[2]}' for i in noblk if i not in unc][:8],
    'share_of_all_blocks_covered_by_theorem': round((st.translated - len(unc | badset)) / st.total, 3) if st.total else None,
    'share_of_compared_blocks_covered_by_theorem': round((st.translated - len(unc | badset)) / st.translated, 3) if st.translated else None,
    'differential_samples_on_covered_blocks': {'vectors': nv, 'agree': agree, 'python_raises': raised},
    'outside_reasons': dict(st.reasons.most_common(20)), 'histogram': dict(st.hist),
    'constructor_coverage_compared': dict(sorted(st.cons.items())),
    'constructor_coverage_in_blocks_the_theorem_covers': dict(sorted(thm_cons.items())),
    'not_covered_examples': [f'{st.blocks[i].key[0]}.{st.blocks[i].key[2]}' for i in sorted(unc)[:8]],
    'time_s': {'translate_and_terms': round(t1 - t0, 1), 'coq_tie_acceptor_differential': round(t2 - t1, 1), 'coq_witness_search': round(t3 - t2, 1)},
  }
  for k, v in st.hist.items(): ctx.hist['tr:' + k] = ctx.hist.get('tr:' + k, 0) + v
  ctx.hist['tr:block:theorem-applies'] = st.translated - len(unc | badset)
  ctx.hist['tr:block:block-theorem-applies'] = st.translated - len(set(noblk) | badset)
  return st, bad
