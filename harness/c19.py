"""C19 — round-robin arbiters grant exactly one requester, fairly.

proof   : Props/C19.v over Lib/Arbiter.v (model of pymtl3/stdlib/basic_rtl/arbiters.py: doubled request vector,
          kill chain, grants_int -> grants, RegEnRst priority register with reset_value 1 and the rotate-left
          connect() wiring; isEn selects RoundRobinArbiterEn).  All theorems hold for EVERY nreqs >= 2 (induction
          along the kill chain and over histories), every pointer, every request vector / history:
            "grant vector is zero when nothing is requested"            C19_grants_zero_iff_no_request, C19_every_cycle_of_every_history
            "otherwise exactly one bit set, on a requesting input"      C19_exactly_one_requesting_bit, C19_grant_is_requesting,
                                                                        C19_at_most_one_grant, C19_grants_are_spec (= first requester at
                                                                        or after the pointer, cyclically), C19_history_refines_spec
            "priority rotates to the input after the last granted one"  C19_next_priority_is_rotl_of_grants, C19_pointer_moves_past_granted,
                                                                        C19_no_request_keeps_priority,
                                                                        C19_last_granted_has_least_priority, C19_no_back_to_back_grant
                                                                        (the last grantee wins again only when it is the sole requester)
            "granted within nreqs granting cycles"                      C19_fair_measure (cyclic distance strictly decreases),
                                                                        C19_fairness (both variants), C19_fairness_plain
            "enabled variant advances only with enable high"            C19_en_low_keeps_priority, C19_plain_is_en_tied_high
            "reset restores priority to input 0"                        C19_reset_restores_priority_0
          invariant (priority register one-hot): established by reset from any content, preserved by every step
          (C19_onehot_preserved, C19_onehot_preserved_history).  Nothing is partial.
tie     : T-diff.  The REAL RoundRobinArbiter / RoundRobinArbiterEn are simulated (DefaultPassGroup, sim_reset, write
          reqs/en/reset, sim_eval_combinational, read grants, sim_tick); the history and the grants observed per cycle
          are written as a Coq term and Coq (vm_compute) replays Lib/Arbiter.run on the same history and reports the
          histories whose grants differ (replay_ok; C19_replay_ok_sound says what a pass means).
            * exhaustive single steps: every (pointer, reqs, en, reset) for nreqs 2..5 (quick) / 2..7 (thorough); the pointer
              is reached through a real history (reset, grant input p-1) and the register after the step is observed
              through a probe cycle with all inputs requesting;
            * random histories (uniform / heavy / sparse / one persistent requester) of a few hundred cycles with
              mid-stream resets, nreqs up to 16, some started cold (no reset yet: register all zero);
            * a fairness monitor and direct zero/one-hot/subset checks on the observed grants (no model involved).
          A disagreeing history is shrunk (truncate at first differing cycle, then remove chunks, re-simulating the real
          component and re-asking Coq) and reported with the history as replay.
"""
from common import *

IMPORTS = 'Base.Prelude Lib.Arbiter'
CASE_T = 'bool * bool * nat * list zcyc * list Z'

def cb(b): return 'true' if b else 'false'

def hist_term(h):
  return '[' + '; '.join(f'({cb(r)},{cb(e)},{zlit(q)})' for r, e, q in h) + ']'

def case_term(isEn, cold, n, h, obs):
  return f'({cb(isEn)}, {cb(cold)}, {n}%nat, {hist_term(h)}, [{"; ".join(zlit(g) for g in obs)}])'

class Impl:
  """the real components; one simulator per (variant, nreqs), re-used through sim_reset()"""
  def __init__(self):
    from pymtl3 import DefaultPassGroup
    from pymtl3.stdlib.basic_rtl.arbiters import RoundRobinArbiter, RoundRobinArbiterEn
    self.cls = {False: RoundRobinArbiter, True: RoundRobinArbiterEn}
    self.PassGroup = DefaultPassGroup
    self.duts = {}
    self.cycles = 0

  def fresh(self, isEn, n):
    d = self.cls[isEn](n)
    d.elaborate()
    d.apply(self.PassGroup())
    return d

  def observe(self, isEn, n, cold, h):
    """grants per cycle of the real component on history h = [(reset, en, reqs)]"""
    if cold:
      d = self.fresh(isEn, n)           # never reset: registers hold their initial 0
    else:
      d = self.duts.get((isEn, n))
      if d is None:
        d = self.duts[(isEn, n)] = self.fresh(isEn, n)
      d.sim_reset()
    obs = []
    for r, e, q in h:
      d.reset @= int(r)
      d.reqs @= q
      if isEn: d.en @= int(e)
      d.sim_eval_combinational()
      obs.append(int(d.grants))
      d.sim_tick()
    self.cycles += len(h)
    return obs

# ------------------------------------------------------------------ property checks directly on observed traces

def direct_checks(isEn, n, cold, h, obs):
  """zero iff no request / exactly one bit / on a requesting input; fairness monitor.
  Returns (problem or None, max advancing cycles any continuously-requesting input waited)."""
  valid = not cold           # before the first reset of a cold simulator the register is not one-hot: nothing is promised
  wait = [0] * n
  worst = 0
  for t, ((r, e, q), g) in enumerate(zip(h, obs)):
    if valid:
      if q == 0 and g != 0: return (f'cycle {t}: grants={g:#b} with no request', worst)
      if q != 0 and (g == 0 or g & (g - 1) or g >> n): return (f'cycle {t}: reqs={q:#b} grants={g:#b} is not exactly one bit', worst)
      if g & ~q: return (f'cycle {t}: reqs={q:#b} grants={g:#b} grants a non-requesting input', worst)
      adv = (g != 0) and (e or not isEn) and not r
      for i in range(n):
        if r or not (q >> i) & 1 or (g >> i) & 1:
          wait[i] = 0
        elif adv:
          wait[i] += 1
          worst = max(worst, wait[i])
          if wait[i] >= n:
            return (f'cycle {t}: input {i} has requested continuously through {wait[i]} granting cycles without being granted (nreqs={n})', worst)
    if r: valid = True; wait = [0] * n
  return (None, worst)

# ------------------------------------------------------------------ history generators

def exhaustive_steps(n, isEn, rng):
  """every (pointer, reqs, en, reset): reach pointer p by granting input p-1 after reset, do the step, then probe"""
  full = (1 << n) - 1
  for p in range(n):
    pre = [] if p == 0 else [(False, True, 1 << (p - 1))]
    for q in range(1 << n):
      for e in (False, True):
        for r in (False, True):
          if not isEn and e: continue
          en = e if isEn else bool(rng.getrandbits(1))     # RoundRobinArbiter has no en port: the model must ignore it
          yield (p, q, en, r), pre + [(r, en, q), (False, False, full), (False, True, full)]

def random_history(rng, n, L, mode, cold):
  full = (1 << n) - 1
  h = []
  sticky = rng.randrange(n)
  first_reset = rng.randrange(2, 8) if cold else None
  p_rst = rng.choice([0.0, 0.01, 0.03])
  for t in range(L):
    if mode == 'uniform': q = rng.getrandbits(n)
    elif mode == 'heavy': q = full if rng.random() < 0.6 else full & ~(1 << rng.randrange(n))
    elif mode == 'sparse': q = rng.getrandbits(n) & rng.getrandbits(n) & rng.getrandbits(n)
    elif mode == 'sticky':
      if rng.random() < 0.02: sticky = rng.randrange(n)
      q = (1 << sticky) | (rng.getrandbits(n) | rng.getrandbits(n))
    else: q = rng.choice([0, full, 1, 1 << (n - 1), rng.getrandbits(n)])
    e = rng.random() < (0.5 if mode != 'heavy' else 0.8)
    r = (t == first_reset) or (rng.random() < p_rst and (not cold or t > first_reset))
    h.append((bool(r), bool(e), q))
  return h

# ------------------------------------------------------------------ model evaluation / shrinking

def model_trace(ctx, isEn, cold, n, h):
  v = ctx.coq_eval('trace', IMPORTS, '', [f'replay {n}%nat {cb(isEn)} {cb(cold)} {hist_term(h)}'])
  return [int(x) for x in re.findall(r'-?\d+', v[0])]

def first_diff(a, b):
  for t, (x, y) in enumerate(zip(a, b)):
    if x != y: return t
  return None if len(a) == len(b) else min(len(a), len(b))

def shrink(ctx, impl, isEn, cold, n, h):
  """smallest history found on which the real component and the model still disagree"""
  def cut(h):
    obs = impl.observe(isEn, n, cold, h)
    mod = model_trace(ctx, isEn, cold, n, h)
    t = first_diff(obs, mod)
    return None if t is None else (h[:t + 1], obs[:t + 1], mod[:t + 1])
  cur = cut(h)
  if cur is None: return None
  for _ in range(10):
    hh = cur[0]
    cands = []
    size = max(1, len(hh) // 2)
    while size >= 1:
      for s in range(0, len(hh) - 1, size):          # never remove the last (failing) cycle
        c = hh[:s] + hh[min(len(hh) - 1, s + size):]
        if len(c) < len(hh) and c not in cands: cands.append(c)
      size //= 2
    cands = cands[:200]
    if not cands: break
    obs = [impl.observe(isEn, n, cold, c) for c in cands]
    bad = ctx.coq_bad_indices('shrink', IMPORTS, '', CASE_T, [case_term(isEn, cold, n, c, o) for c, o in zip(cands, obs)], 'replay_ok c')
    if not bad: break
    best = min(bad, key=lambda i: len(cands[i]))
    nxt = cut(cands[best])
    if nxt is None or len(nxt[0]) >= len(hh): break
    cur = nxt
  return cur

def shrink_direct(impl, isEn, cold, n, h):
  """smallest history found on which the observed trace itself violates the property (no model involved)"""
  def cut(h):
    obs = impl.observe(isEn, n, cold, h)
    prob, _ = direct_checks(isEn, n, cold, h, obs)
    if not prob: return None
    t = int(prob.split()[1].rstrip(':'))
    return (h[:t + 1], obs[:t + 1], prob)
  cur = cut(h)
  if cur is None: return None
  budget = 400
  size = max(1, len(cur[0]) // 2)
  while size >= 1 and budget > 0:
    s, progressed = 0, False
    while s < len(cur[0]) - 1 and budget > 0:
      hh = cur[0]
      c = hh[:s] + hh[min(len(hh) - 1, s + size):]
      budget -= 1
      nxt = cut(c) if len(c) < len(hh) else None
      if nxt is not None and len(nxt[0]) < len(hh): cur, progressed = nxt, True
      else: s += size
    if not progressed or size == 1: size //= 2
  return cur

def report(ctx, impl, kind, isEn, cold, n, h, why):
  name = 'RoundRobinArbiterEn' if isEn else 'RoundRobinArbiter'
  try:
    if kind == 'direct':
      d = shrink_direct(impl, isEn, cold, n, h)
      if d is None: sh_ = None
      else:
        why = 'violates the property on the observed trace (' + d[2] + ')'
        try: mod = model_trace(ctx, isEn, cold, n, d[0])
        except Exception: mod = None
        sh_ = (d[0], d[1], mod)
    else:
      sh_ = shrink(ctx, impl, isEn, cold, n, h)
  except Exception as e:
    ctx.note(f'shrinking failed: {e!r}'); sh_ = None
  if sh_ is None:
    hh, obs, mod = h, impl.observe(isEn, n, cold, h), None
  else:
    hh, obs, mod = sh_
  key = f'C19:{kind}:{name}:n{n}:{"cold" if cold else "reset"}:' + hashlib.sha1(repr(hh).encode()).hexdigest()[:12]
  ctx.violation(key, f'{name}(nreqs={n}) {why}; shrunk history of {len(hh)} cycle(s) '
                     f'[(reset,en,reqs)]={[(int(r), int(e), bin(q)) for r, e, q in hh][-6:]} observed grants={[bin(g) for g in obs][-6:]}'
                     + (f' model/spec grants={[bin(g) for g in mod][-6:]}' if mod is not None else ''),
                {'component': name, 'nreqs': n, 'cold_start': cold, 'isEn': isEn,
                 'history_reset_en_reqs': [[int(r), int(e), q] for r, e, q in hh],
                 'observed_grants': obs, 'model_grants': mod,
                 'how': 'cold_start=false: sim_reset() first; per cycle set reset/en/reqs, sim_eval_combinational, read grants, sim_tick'})

# ------------------------------------------------------------------ main

def run(ctx):
  setup_impl_path()
  impl = Impl()
  rng = ctx.rng
  quick = ctx.tier == 'quick'
  cases, meta = [], []
  worst_wait = {}
  direct_bad = []

  def add(kind, isEn, cold, n, h, key, nontrivial, cls):
    obs = impl.observe(isEn, n, cold, h)
    cases.append(case_term(isEn, cold, n, h, obs)); meta.append((kind, isEn, cold, n, h))
    ctx.count(key, nontrivial, cls=cls)
    prob, worst = direct_checks(isEn, n, cold, h, obs)
    worst_wait[(isEn, n)] = max(worst_wait.get((isEn, n), 0), worst)
    if prob:
      direct_bad.append(len(cases) - 1)
      if len(direct_bad) <= 3:
        report(ctx, impl, 'direct', isEn, cold, n, h, 'violates the property on the observed trace (' + prob + ')')
    return obs

  # (1) exhaustive single steps
  for n in range(2, 6 if quick else 8):
    for isEn in (False, True):
      for (p, q, e, r), h in exhaustive_steps(n, isEn, rng):
        obs = add('step', isEn, False, n, h, ('step', isEn, n, p, q, e, r), q != 0, f'step:{"En" if isEn else "plain"}:n{n}')
        if p == 1 and q == (1 << n) - 1 and e and not r:
          ctx.sample({'kind': 'exhaustive step', 'component': impl.cls[isEn].__name__, 'nreqs': n, 'pointer': p, 'reqs': q, 'en': e,
                      'history': [[int(a), int(b), c] for a, b, c in h], 'observed_grants': obs})
  nstep = len(cases)

  # (2) random histories
  ns = [2, 3, 4, 5, 6, 7, 8, 11, 13, 16] if quick else list(range(2, 17))
  L = 240 if quick else 400
  modes = ['uniform', 'heavy', 'sticky', 'sparse', 'corner']
  for n in ns:
    for isEn in (False, True):
      for k in range(3 if quick else 8):
        mode = modes[(k + n) % len(modes)] if k >= 2 else ('heavy', 'sticky')[k]
        cold = (k == 2) or (k == 5)
        h = random_history(rng, n, L, mode, cold)
        obs = add('hist', isEn, cold, n, h, ('hist', isEn, n, cold, tuple(h)), True, f'hist:{mode}:{"cold" if cold else "reset"}')
        if n == 4 and k == 1:
          ctx.sample({'kind': 'random history (first 12 cycles)', 'component': impl.cls[isEn].__name__, 'nreqs': n, 'mode': mode,
                      'history': [[int(a), int(b), c] for a, b, c in h[:12]], 'observed_grants': obs[:12]})
  # worst-case fairness schedule: pointer just past input i, everybody requests
  for n in ns:
    for isEn in (False, True):
      full = (1 << n) - 1
      h = [(False, True, full)] * (2 * n + 1) + [(False, False, full)] * 2 + [(False, True, full)] * n
      add('hist', isEn, False, n, h, ('fair', isEn, n), True, 'hist:all-request')

  bad = ctx.coq_bad_indices('steps', IMPORTS, '', CASE_T, cases[:nstep], 'replay_ok c', shard=600)
  bad += [nstep + i for i in ctx.coq_bad_indices('hists', IMPORTS, '', CASE_T, cases[nstep:], 'replay_ok c', shard=8)]
  for i in [i for i in bad if i not in direct_bad[:3]][:4]:
    kind, isEn, cold, n, h = meta[i]
    report(ctx, impl, kind, isEn, cold, n, h, 'does not behave like the model the C19 theorems are about')
  ctx.extra.update({'cases_exhaustive_steps': nstep, 'cases_histories': len(cases) - nstep, 'simulated_cycles': impl.cycles,
                    'disagreeing_cases': len(bad), 'cases_violating_property_directly': len(direct_bad),
                    'fairness_monitor_max_wait_in_granting_cycles': {f'{"En" if k[0] else "plain"}:n{k[1]}': v for k, v in sorted(worst_wait.items())}})
  # the monitor must have been exercised up to its bound (otherwise the histories are too tame to mean anything)
  tame = [k for k, v in worst_wait.items() if v < k[1] - 1]
  if tame: ctx.note(f'fairness monitor never saw the worst case n-1 for {tame}')

def replay(ctx, r):
  """./check C19 --replay file : re-run the recorded history on the real component and on the model"""
  setup_impl_path()
  rp = r['replay']
  if 'history_reset_en_reqs' not in rp:
    print('replay file has no history (proof-obligation record)'); return 1
  isEn, n, cold = bool(rp['isEn']), int(rp['nreqs']), bool(rp['cold_start'])
  h = [(bool(a), bool(b), int(c)) for a, b, c in rp['history_reset_en_reqs']]
  impl = Impl()
  obs = impl.observe(isEn, n, cold, h)
  ctx.make(['theories/Lib/Arbiter.vo'])
  mod = model_trace(ctx, isEn, cold, n, h)
  prob, _ = direct_checks(isEn, n, cold, h, obs)
  print('observed grants:', obs); print('model grants   :', mod); print('direct check   :', prob)
  shutil.rmtree(ctx.scratch, ignore_errors=True)
  return 1 if (obs != mod or prob) else 0

def main(ctx):
  ctx.trusted += ['Lib/Arbiter.v is a hand transcription of arbiters.py / RegEnRst (update block by update block); its agreement with the '
                  'real components is what the T-diff below checks on every run (exhaustive single steps for small nreqs, random histories up to 16)',
                  'pymtl3 simulation kernel (DefaultPassGroup scheduling, sim_reset/sim_tick) as the semantics of the component under test']
  ctx.assumptions += ['the proof is about the model for every nreqs; the model<->code agreement is checked by simulation for nreqs <= 16 (exhaustively over '
                      '(pointer, reqs, en, reset) for nreqs <= 5 quick / <= 7 thorough), not proved from the Python source (the T-gen stretch of DESIGN C19 is not built)',
                      'fairness is stated for windows without reset (reset restores priority to input 0 by specification); "granting cycle" = a cycle in which '
                      'the priority advances: some grant is given and, for RoundRobinArbiterEn, en is high',
                      'before the first reset the priority register is all zero (not one-hot): the component grants nothing; the property is read as starting at reset '
                      '(the model reproduces the cold behaviour and it is compared too)']
  import stdlib_gen
  # T-gen: the real component's update blocks are translated on every run (translators/stdlib2coq.py) and proved equal to
  # the hand model at small parameters (Props/C19_gen.v)
  ctx.build_props(gen_cmds=stdlib_gen.gen_cmds('arbiters'), extra_models=['theories/Lib/Arbiter.vo'])
  try:
    run(ctx)
  except Exception as e:
    ctx.note('correspondence crashed: ' + traceback.format_exc()[-1500:])
    ctx.violation('C19:harness-crash', f'correspondence could not run: {e!r}', {'traceback': traceback.format_exc()}, found_input=False)
  return ctx.finish(rule='case = one history [(reset,en,reqs)] run on the real component (after sim_reset, or cold) with the grants observed per cycle; '
                         'Coq replays Lib/Arbiter.run on it (vm_compute) and compares. step cases: every (pointer, reqs, en, reset) for small nreqs, pointer reached '
                         'through a real history, register after the step observed by two probe cycles (distinct = distinct (variant,n,pointer,reqs,en,reset); '
                         'non-trivial = at least one request). hist cases: random histories (heavy/sticky/uniform/sparse/corner) with mid-stream resets and cold starts, '
                         'nreqs up to 16 (distinct = distinct history; all non-trivial), plus the all-request worst-case fairness schedule; '
                         'direct one-hot/subset/zero checks and a fairness monitor run on every observed trace')
