"""rtlfoot_demo.py — stand-alone run of harness/rtlfoot.py on random designs of sched_common.Gen.

  cd /verif && PYTHONPATH=/repo:/verif/harness /venv/bin/python harness/rtlfoot_demo.py [ndesigns] [seed]

Prints: blocks total / in the RTL language / declared footprint covers the proved one / simulator agrees with Coq's run_block."""
import os, sys, time, random, shutil
os.environ.setdefault('PYTHONHASHSEED', '0')
from common import *
import sched_common as sc
import rtlfoot

def main():
  n = int(sys.argv[1]) if len(sys.argv) > 1 else 50
  seed = int(sys.argv[2]) if len(sys.argv) > 2 else None
  setup_impl_path()
  ctx = Ctx('C01', 'quick', seed)
  rc, log = ctx.make(['theories/RTL/Footprint.vo', 'theories/RTL/RtlFixed.vo'], jobs=6)        # the model the cases files import (built under the project lock)
  if rc != 0:
    print('coq build failed:\n' + log[-1500:]); return 2
  cwd = os.getcwd()
  os.chdir(ctx.scratch)          # pymtl3 may write files into the cwd
  t0 = time.time()
  built = 0
  try:
    for k in range(n):
      size = ctx.rng.choice(['small', 'medium', 'medium', 'large'])
      g = sc.Gen(random.Random(ctx.rng.randrange(1 << 30)), f'D{k}', size=size).build()
      src = g.source()
      cls, mod = sc.load_source(ctx, src, g.name)
      top = sc.build(cls, 'simple', seed=0)
      top.sim_reset()
      fp = sc.Footprints(top)
      rtlfoot.check_blocks(ctx, top, fp, src, g.name)
      built += 1
    ncorpus = rtlfoot.run_corpus(ctx)
    t1 = time.time()
    out = rtlfoot.finish(ctx)
    t2 = time.time()
  finally:
    os.chdir(cwd)
    shutil.rmtree(ctx.scratch, ignore_errors=True)
  print(f'designs                      {built} generated + {len(rtlfoot.CORPUS)} corpus ({ncorpus} corpus blocks)')
  print(f'blocks total                 {out["blocks_total"]}   (user update / update_ff blocks: {out["user_blocks_total"]}, the rest are generated net blocks)')
  print(f'blocks in the RTL language   {out["blocks_in_language"]}   (user blocks: {out["user_blocks_in_language"]})')
  print(f'declared footprint covers    {out.get("blocks_footprint_covered")}')
  print(f'simulator == Coq run_block   {out.get("blocks_eval_agree")}   ({out["eval_samples"]} sampled states)')
  print(f'outside the language because {out["outside_reasons"]}')
  if 'fixed_point_certificate' in out: print(f'fixed-point certificate      {out["fixed_point_certificate"]}')
  if 'bits' in out: print(f'footprint sizes (bits)       {out["bits"]}')
  print(f'time: python {t1 - t0:.1f}s, coq {t2 - t1:.1f}s')
  for key, what, path, found in ctx.violations:
    print(f'VIOLATION {key}\n  {what[:500]}\n  replay={path}')
  return 1 if ctx.violations else 0

if __name__ == '__main__':
  sys.exit(main())
