"""C11 — combinational cycles settle on a fixed point or are reported.

theorems (Props/C11.v):
  scc_fixed_point            whatever the iterate-until-stable wrapper returns is a fixed point of every block of the cyclic group
                             (for any bound, any group size) provided the watched objects cover the group's internal communication
  grouped_fixed_point        a schedule of singleton blocks and iterated cyclic groups returns only states fixed under EVERY block
  accepted_groups_fixed_point  the same, end-to-end from the Coq acceptor `groups_ok` fed with the real scheduler's groups,
                             bit-level footprints and watched objects
  divergent_error / scc_iter_total / grouped_error_propagates   no stable round within the bound => error; the iteration is
                             structurally bounded (never hangs); an error in a group makes the whole evaluation an error
  fixed_point_unique (C01)   for a false loop the bit-level equation system is acyclic, so the fixed point is the acyclic design's value
tie: T-acc — groups, in-group order and watched objects are recovered from the REAL wrapped_SCC functions that
     DynamicSchedulePass generated (closure + source text) and checked by groups_ok in Coq; T-diff — on return every block is
     re-invoked (nothing may change), false loops are compared with the hand-split acyclic design, divergent loops must raise
     UpblkCyclicError, update_once in a cycle must raise, non-cyclic-capable schedulers must reject, wall-clock guard for hangs.
"""
import inspect, signal as _signal
from common import *
import sched_common as sc

def mk(name, lines):
  body = '\n'.join('    ' + l for l in lines)
  return sc.STRUCT_SRC + f'\nclass {name}( Component ):\n  def construct( s ):\n{body}\n'

def templates(rng, k):
  """returns (kind, cyclic source, acyclic source or None, inputs, expect)  expect in {'fixed', 'error', 'maybe'}"""
  w = rng.choice([1, 4, 8, 8, 16, 33])
  c1, c2 = rng.randrange(1 << min(w, 8)), rng.randrange(1 << min(w, 8))
  op1, op2 = rng.choice(['+', '^', '|']), rng.choice(['+', '^', '&', '-'])
  t = k % 13
  I = [('i', ('bits', w)), ('m', ('bits', w))]
  decl = [f's.i = InPort( {w} )', f's.m = InPort( {w} )']
  n = f'K{k}'
  if t == 0:   # false loop through two signals (block-level cycle, bit-level acyclic), optional longer chain
    L = decl + [f's.a = Wire( {w} )', f's.b = Wire( {w} )', f's.d = OutPort( {w} )']
    cyc = L + ['@update', 'def P():', f'  s.a @= s.i {op1} {c1}', f'  s.d @= s.b {op2} s.m', '@update', 'def Q():', f'  s.b @= s.a {op2} {c2}']
    acy = L + ['@update', 'def P1():', f'  s.a @= s.i {op1} {c1}', '@update', 'def P2():', f'  s.d @= s.b {op2} s.m', '@update', 'def Q():', f'  s.b @= s.a {op2} {c2}']
    return 'false-loop-signals', mk(n, cyc), mk(n + 'a', acy), I, 'fixed'
  if t == 1:   # false loop through disjoint slices of ONE signal
    W = max(w, 4); h = W // 2
    I = [('i', ('bits', W)), ('m', ('bits', W))]
    L = [f's.i = InPort( {W} )', f's.m = InPort( {W} )', f's.x = Wire( {W} )', f's.o = OutPort( {W - h} )']
    cyc = L + ['@update', 'def P():', f'  s.x[0:{h}] @= s.i[0:{h}] {op1} s.m[0:{h}]', f'  s.o @= s.x[{h}:{W}]', '@update', 'def Q():', f'  s.x[{h}:{W}] @= zext( s.x[0:{h}], {W - h} ) {op2} {c1 % (1 << (W - h))}']
    acy = L + ['@update', 'def P1():', f'  s.x[0:{h}] @= s.i[0:{h}] {op1} s.m[0:{h}]', '@update', 'def P2():', f'  s.o @= s.x[{h}:{W}]', '@update', 'def Q():', f'  s.x[{h}:{W}] @= zext( s.x[0:{h}], {W - h} ) {op2} {c1 % (1 << (W - h))}']
    return 'false-loop-slices', mk(n, cyc), mk(n + 'a', acy), I, 'fixed'
  if t == 2:   # false loop through fields of one struct signal
    I = [('i', ('bits', 8)), ('m', ('bits', 8))]
    L = ['s.i = InPort( 8 )', 's.m = InPort( 8 )', 's.p = Wire( Outer )', 's.o = OutPort( 4 )', 's.o2 = OutPort( 4 )']
    cyc = L + ['@update', 'def P():', f'  s.p.p.a @= s.i {op1} s.m', '  s.o @= s.p.p.b', '  s.o2 @= s.p.c', '@update', 'def Q():', f'  s.p.p.b @= s.p.p.a[0:4] {op2} {c1 % 16}', '@update', 'def R():', '  s.p.c @= s.p.p.b + 1']
    acy = L + ['@update', 'def P1():', f'  s.p.p.a @= s.i {op1} s.m', '@update', 'def P2():', '  s.o @= s.p.p.b', '  s.o2 @= s.p.c', '@update', 'def Q():', f'  s.p.p.b @= s.p.p.a[0:4] {op2} {c1 % 16}', '@update', 'def R():', '  s.p.c @= s.p.p.b + 1']
    return 'false-loop-fields', mk(n, cyc), mk(n + 'a', acy), I, 'fixed'
  if t == 3:   # convergent true loop (monotone OR/AND chain)
    L = decl + [f's.x = Wire( {w} )', f's.y = Wire( {w} )', f's.o = OutPort( {w} )']
    cyc = L + ['@update', 'def A():', '  s.x @= s.y | s.i', '@update', 'def B():', '  s.y @= s.x & s.m', '@update', 'def C():', '  s.o @= s.y']
    return 'convergent-loop', mk(n, cyc), None, I, 'fixed'
  if t == 4:   # divergent: inverter ring / counter
    L = decl + [f's.x = Wire( {w} )', f's.y = Wire( {w} )']
    body = rng.choice([['  s.x @= ~s.y'], [f'  s.x @= s.y + 1']]) if w > 6 else ['  s.x @= ~s.y']
    cyc = L + ['@update', 'def A():'] + body + ['@update', 'def B():', '  s.y @= s.x']
    return 'divergent-loop', mk(n, cyc), None, I, 'error'
  if t == 5:   # input-dependent: stable iff i == 0
    L = decl + [f's.x = Wire( {w} )', f's.y = Wire( {w} )']
    cyc = L + ['@update', 'def A():', '  s.x @= s.y ^ s.i', '@update', 'def B():', '  s.y @= s.x']
    return 'conditional-loop', mk(n, cyc), None, I, 'maybe'
  if t == 6:   # three-block false loop with a net inside the cycle
    L = decl + [f's.a = Wire( {w} )', f's.b = Wire( {w} )', f's.c = Wire( {w} )', f's.d = OutPort( {w} )', f's.inc = Inc( {w} )']
    cyc = L + ['connect( s.inc.in_, s.a )', 'connect( s.b, s.inc.out )', '@update', 'def P():', f'  s.a @= s.i {op1} {c1}', '  s.d @= s.c', '@update', 'def Q():', f'  s.c @= s.b {op2} s.m']
    acy = L + ['connect( s.inc.in_, s.a )', 'connect( s.b, s.inc.out )', '@update', 'def P1():', f'  s.a @= s.i {op1} {c1}', '@update', 'def P2():', '  s.d @= s.c', '@update', 'def Q():', f'  s.c @= s.b {op2} s.m']
    return 'false-loop-with-net', mk(n, cyc), mk(n + 'a', acy), I, 'fixed'
  if t == 7:   # update_once inside a cycle: must be reported
    L = decl + [f's.a = Wire( {w} )', f's.b = Wire( {w} )', f's.d = OutPort( {w} )']
    cyc = L + ['@update_once', 'def P():', f'  s.a @= s.i {op1} {c1}', '  s.d @= s.b', '@update', 'def Q():', '  s.b @= s.a']
    return 'once-in-cycle', mk(n, cyc), None, I, 'sched-error'
  if t == 12:  # one component, a loop through N >= 10 update blocks that all branch, wired directly (no net blocks in between)
    N = rng.randrange(10, 16)
    L = decl + [f's.x = [ Wire( {w} ) for _ in range({N}) ]', f's.o = OutPort( {w} )']
    cyc = L[:]
    for j in range(N):
      src_ = f's.x[{(j - 1) % N}]'
      cyc += ['@update', f'def B{j}():', f'  if s.m[0]:', f'    s.x[{j}] @= ( {src_} | s.i ) & s.m' if j == 0 else f'    s.x[{j}] @= {src_} & s.m', '  else:', f'    s.x[{j}] @= {src_} & s.i']
    cyc += ['@update', 'def Z():', f'  s.o @= s.x[{N - 1}]']
    return 'loop-of-many-branchy-blocks', mk(n, cyc), None, I, 'fixed'
  if t == 10:  # a convergent loop one of whose edges exists ONLY as an explicit U(b) < U(c) constraint (no signal on it)
    L = decl + [f's.x = Wire( {w} )', f's.y = Wire( {w} )', f's.z = Wire( {w} )', f's.o = OutPort( {w} )']
    cyc = L + ['@update', 'def A():', '  s.x @= ( s.y | s.i ) & s.z', '@update', 'def B():', '  s.y @= s.x & s.m',
               '@update', 'def C():', f'  s.z @= s.m {op1} {c1}', '@update', 'def Z():', '  s.o @= s.x ^ s.z']
    # B -> C by constraint only, C -> A by the signal z: {A, B, C} is one cyclic group
    order = rng.sample(['s.add_constraints( U(B) < U(C) )'], 1)
    return 'loop-with-constraint-only-edge', mk(n, cyc + order), None, I, 'fixed'
  if t == 11:  # false loop through a nested struct: one block writes the MID-LEVEL field as a whole, the other reads a leaf of it
    I = [('i', ('bits', 8)), ('m', ('bits', 8))]
    L = ['s.i = InPort( 8 )', 's.m = InPort( 8 )', 's.p = Wire( Outer )', 's.o = OutPort( 4 )']
    cyc = L + ['@update', 'def P():', f'  s.p.p @= Pt( s.i {op1} s.m, s.i[0:4] )', '  s.o @= s.p.c', '@update', 'def Q():', f'  s.p.c @= s.p.p.a[0:4] {op2} {c1 % 16}']
    acy = L + ['@update', 'def P1():', f'  s.p.p @= Pt( s.i {op1} s.m, s.i[0:4] )', '@update', 'def P2():', '  s.o @= s.p.c', '@update', 'def Q():', f'  s.p.c @= s.p.p.a[0:4] {op2} {c1 % 16}']
    return 'false-loop-mid-level-struct', mk(n, cyc), mk(n + 'a', acy), I, 'fixed'
  if t == 9:   # a convergent loop that runs through K >= 3 different host components (one update block each)
    K = rng.randrange(3, 13); h = max(1, w // 2)
    mono = rng.random() < 0.5
    if mono: f0 = f1 = 's.out @= ( s.in_ | s.ext ) & s.msk'          # monotone: settles from any start
    else:    f0, f1 = f's.out @= ( s.in_ >> {h} ) + s.ext', 's.out @= s.in_ ^ s.ext'   # one contracting stage: bits leave the loop
    # every third node decides with a branch (schedulers weigh and pack blocks by their branches); both arms keep the node's kind
    f2 = ('if s.msk[0]:\n          s.out @= ( s.in_ | s.ext ) & s.msk\n        else:\n          s.out @= s.in_ & s.msk') if mono else \
         ('if s.msk[0]:\n          s.out @= s.in_ ^ s.ext\n        else:\n          s.out @= s.in_')
    node = f'''
class RingNode( Component ):
  def construct( s, kind ):
    s.in_ = InPort( {w} ); s.ext = InPort( {w} ); s.msk = InPort( {w} ); s.out = OutPort( {w} )
    if kind == 0:
      @update
      def up_first():
        {f0}
    elif kind == 1:
      @update
      def up_node():
        {f1}
    else:
      @update
      def up_branchy():
        {f2}
'''
    allbr = rng.random() < 0.35          # rings whose nodes all branch (runs of consecutive branchy blocks)
    L = decl + [f's.node = [ RingNode( 0 if i == 0 else ( 2 if ( i % 3 == 2 or {allbr} ) else 1 ) ) for i in range({K}) ]', f's.o = OutPort( {w} )', 'connect( s.o, s.node[0].out )']
    order = list(range(K)); rng.shuffle(order)          # construction order of the connections is not the ring order
    for i in order:
      L += [f'connect( s.node[{i}].out, s.node[{(i + 1) % K}].in_ )', f'connect( s.node[{i}].msk, s.m )']
      L += [f'connect( s.node[{i}].ext, s.i )'] if i % 2 == 0 or w == 1 else [f's.e{i} = Wire( {w} )', f'connect( s.node[{i}].ext, s.e{i} )', '@update', f'def E{i}():', f'  s.e{i} @= s.i {op1} {(c1 + i) % (1 << min(w, 8))}']
    body = '\n'.join('    ' + l for l in L)
    src = sc.STRUCT_SRC + node + f'\nclass {n}( Component ):\n  def construct( s ):\n{body}\n'
    return 'ring-across-components', src, None, I, ('fixed' if mono else 'lenient')
  # two independent cyclic groups + acyclic rest
  L = decl + [f's.a = Wire( {w} )', f's.b = Wire( {w} )', f's.d = Wire( {w} )', f's.x = Wire( {w} )', f's.y = Wire( {w} )', f's.o = OutPort( {w} )']
  cyc = L + ['@update', 'def P():', f'  s.a @= s.i {op1} {c1}', '  s.d @= s.b', '@update', 'def Q():', '  s.b @= s.a',
             '@update', 'def A():', '  s.x @= s.y | s.d', '@update', 'def B():', '  s.y @= s.x & s.m', '@update', 'def Z():', '  s.o @= s.y ^ s.d']
  return 'two-groups', mk(n, cyc), None, I, 'fixed'

def random_cyclic(rng, k):
  """a random strongly-connected group of 2..5 blocks. Signals: Bits wires (some split between TWO owner blocks at a
  random bit, read through slices that may overlap the other part by a single bit), struct-typed wires (written whole
  with a constructor or field by field, read whole or by field), names chosen so that some are prefixes of others.
  Every bit has one writer, no block reads a signal it (partly) owns. Mostly monotone (| &) logic so iteration
  usually settles; expectation 'either': returning is allowed only with a fixed point."""
  base = rng.choice(['x', 'out', 'a', 'v'])
  pool = [base, base + '1', base + '_val', base + 'a', 'y', 'y2', 'q', 'qq']
  rng.shuffle(pool)
  nb = rng.randrange(2, 6)
  nsig = rng.randrange(max(nb, 3), min(len(pool), nb + 3) + 1)
  mono = rng.random() < 0.8
  ops = ['|', '&', '|', '&'] if mono else ['|', '&', '^', '+']
  sigs = []            # dict(name, kind, w, parts=[(target_text, lo, hi, owner)])
  for j_, nme in enumerate(pool[:nsig]):
    own = j_ % nb if j_ < nb else rng.randrange(nb)
    r = rng.random()
    if r < 0.3:
      if rng.random() < 0.6: parts = [(f's.{nme}', 0, 16, own)]
      else:
        own2 = rng.randrange(nb)
        parts = [(f's.{nme}.p.a', 4, 12, own), (f's.{nme}.p.b', 0, 4, own), (f's.{nme}.c', 12, 16, own2)]
      sigs.append(dict(name=nme, kind='struct', w=16, parts=parts))
    else:
      w = rng.choice([1, 2, 4, 8, 8])
      if w >= 4 and rng.random() < 0.45:
        h = rng.randrange(1, w); own2 = rng.randrange(nb)
        parts = [(f's.{nme}[0:{h}]', 0, h, own), (f's.{nme}[{h}:{w}]', h, w, own2)]
      else: parts = [(f's.{nme}', 0, w, own)]
      sigs.append(dict(name=nme, kind='bits', w=w, parts=parts))
  owners_of = {sg['name']: {p_[3] for p_ in sg['parts']} for sg in sigs}
  def term(b):
    """a readable source for block b: (expr, width, is_plain)"""
    cands = [sg for sg in sigs if b not in owners_of[sg['name']]]
    if not cands or rng.random() < 0.25:
      return rng.choice([('s.i', 8, True), ('s.m', 8, True)])
    sg = rng.choice(cands)
    if sg['kind'] == 'struct':
      f, fw = rng.choice([('p.a', 8), ('p.b', 4), ('c', 4)])
      return (f's.{sg["name"]}.{f}', fw, True)
    w = sg['w']
    if w >= 2 and rng.random() < 0.5:
      cut = [p_[1] for p_ in sg['parts'] if p_[1] > 0]
      if cut and rng.random() < 0.6:     # a slice that crosses the split by exactly one bit
        h = cut[0]
        lo, hi = rng.choice([(0, h + 1), (h - 1, w)])
      else:
        lo = rng.randrange(0, w); hi = rng.randrange(lo + 1, w + 1)
      return (f's.{sg["name"]}[{lo}:{hi}]', hi - lo, True)
    return (f's.{sg["name"]}', w, True)
  def fit(e, ew, w, plain):
    if ew == w: return e
    if ew > w: return f'{e}[0:{w}]' if plain and not e.endswith(']') else f'trunc( {e}, {w} )'
    return f'zext( {e}, {w} )'
  def expr(b, w, must=None):
    ts = ([must] if must else []) + [term(b) for _ in range(rng.randrange(1, 3))]
    e = fit(*ts[0][:2], w, ts[0][2])
    for t_ in ts[1:]: e = f'({e} {rng.choice(ops)} {fit(t_[0], t_[1], w, t_[2])})'
    if not mono and rng.random() < 0.2: e = f'(~{e})'
    return e
  L = ['s.i = InPort( 8 )', 's.m = InPort( 8 )']
  for sg in sigs: L.append(f's.{sg["name"]} = Wire( {"Outer" if sg["kind"] == "struct" else sg["w"]} )')
  L.append('s.o = OutPort( 8 )')
  blocks = []
  for b in range(nb):
    body = []
    prev = [sg for sg in sigs if ((b - 1) % nb) in owners_of[sg['name']] and b not in owners_of[sg['name']]]
    first = True
    for sg in sigs:
      for (t, lo, hi, own) in sg['parts']:
        if own != b: continue
        must = None
        if first and prev:
          ps = rng.choice(prev)
          must = (f's.{ps["name"]}.c', 4, True) if ps['kind'] == 'struct' else (f's.{ps["name"]}', ps['w'], True)
          first = False
        if sg['kind'] == 'struct' and t == f's.{sg["name"]}':
          whole = [x for x in sigs if x['kind'] == 'struct' and b not in owners_of[x['name']]]
          if whole and rng.random() < 0.6:
            body.append(f'  {t} @= s.{rng.choice(whole)["name"]}')          # whole-struct copy: the struct signal itself carries the loop
          else:
            body.append(f'  {t} @= Outer( Pt( {expr(b, 8, must)}, {expr(b, 4)} ), {expr(b, 4)} )')
        else:
          body.append(f'  {t} @= {expr(b, hi - lo, must)}')
    if body: blocks.append((f'g{b}', body))
  rng.shuffle(blocks)
  for nme, body in blocks: L += ['@update', f'def {nme}():'] + body
  obs = rng.choice(sigs)
  L += ['@update', 'def zobs():', f'  s.o @= {fit("s." + obs["name"] + (".p.a" if obs["kind"] == "struct" else ""), 8 if obs["kind"] == "struct" else obs["w"], 8, True)}']
  I = [('i', ('bits', 8)), ('m', ('bits', 8))]
  return 'random-cyclic' + ('-monotone' if mono else ''), mk(f'K{k}', L), None, I, 'either'

class Hang(Exception): pass
def _alarm(*a): raise Hang()

def resolve(top, fp, name):
  """map a watched object's text (as it appears in the generated wrapper) to a bit interval"""
  roots = sorted(fp.roots, key=lambda q: -len(repr(q)))
  for q in roots:
    r = repr(q)
    if name == r or name.startswith(r + '.') or name.startswith(r + '['):
      obj = q; rest = name[len(r):]
      for m in re.finditer(r'\.([A-Za-z_][A-Za-z_0-9]*)|\[(\d+):(\d+)\]|\[(\d+)\]', rest):
        if m.group(1): obj = getattr(obj, m.group(1))
        elif m.group(2) is not None: obj = obj[int(m.group(2)):int(m.group(3))]
        else: obj = obj[int(m.group(4))]
      return sc.interval(obj, fp.roots)
  raise KeyError(name)

def groups_of(top, fp):
  """groups in execution order, in-group order, watched intervals — recovered from DynamicSchedulePass's output"""
  gs, wf = [], {}
  for f in top._sched.update_schedule:
    if f in fp.cid: gs.append([fp.cid[f]]); continue
    if not f.__name__.startswith('wrapped_SCC'): raise ValueError(f'unknown schedule entry {f.__name__}')
    inner = f.__globals__['scc_tick_func'].__closure__[0].cell_contents
    g = [fp.cid[b] for b in inner]
    # DynamicSchedulePass can list a block of a cyclic group several times in a row (once per edge from the previous
    # group); running a block twice in a row equals running it once (lemma `idem`), so consecutive repeats are merged
    g = [x for i_, x in enumerate(g) if i_ == 0 or g[i_ - 1] != x]
    src = inspect.getsource(f)
    watched = []
    host = None
    copy_line = [l for l in src.splitlines() if '.clone()' in l or 'deepcopy(' in l]
    for l in copy_line:
      for part in l.split(';'):
        part = part.strip()
        m = re.match(r'host\s*=\s*(.+)$', part)
        if m: host = m.group(1).strip(); continue
        m = re.match(r't\d+\s*=\s*(?:deepcopy\()?host\.(.+?)(?:\.clone\(\)|\))$', part)
        if m: watched.append(resolve(top, fp, f'{host}.{m.group(1)}'))
    gs.append(g); wf[tuple(g)] = sorted(set(watched))
  return gs, wf

def run(ctx):
  setup_impl_path()
  from pymtl3.dsl.errors import UpblkCyclicError
  quick = ctx.tier == 'quick'
  rng = ctx.rng
  ntempl = 78 if quick else 780
  n = ntempl + (150 if quick else 2500)
  cycles = 6 if quick else 16
  coq_cases, coq_meta = [], []
  _signal.signal(_signal.SIGALRM, _alarm)
  for k in range(n):
    kind, csrc, asrc, I, expect = templates(random.Random(rng.randrange(1 << 30)), k) if k < ntempl else random_cyclic(random.Random(rng.randrange(1 << 30)), k)
    class G: pass
    g = G(); g.inputs = I; g.name = f'K{k}'
    try:
      cls, _ = sc.load_source(ctx, csrc, f'K{k}')
      acls = sc.load_source(ctx, asrc, f'K{k}a')[0] if asrc else None
    except Exception as e:
      ctx.violation(f'C11:template:{kind}', f'template {kind} does not load: {e!r}', {'source': csrc}, found_input=False); continue
    # schedulers that cannot iterate must reject the design
    for sch in ('simple', 'heuristic', 'unroll'):
      try:
        t = sc.build(cls, sch, seed=0)
        if expect == 'either':       # a random group need not be cyclic at block level
          ctx.hist['random-group-acyclic'] = ctx.hist.get('random-group-acyclic', 0) + 1
          continue
        ctx.violation(f'C11:cyclic-accepted:{kind}:{sch}', f'{sch} scheduled a design whose update blocks depend on each other cyclically ({kind})', {'design_source': csrc, 'scheduler': sch})
      except Exception as e:
        ctx.hist['static-reject:' + type(e).__name__] = ctx.hist.get('static-reject:' + type(e).__name__, 0) + 1
      ctx.count((k, sch, 'reject'), True, cls='reject:' + sch)
    for f in ('/tmp/upblk-dag.gv', '/tmp/upblk-dag.gv.pdf'):
      if os.path.exists(f): os.remove(f)
    for sch in ('dynamic', 'mamba'):
      try:
        top = sc.build(cls, sch, seed=0)
      except UpblkCyclicError as e:
        if expect == 'either':
          ctx.count((k, sch, 'sched-error'), True, cls=f'{kind}:not-a-cycle-or-rejected'); continue
        if expect != 'sched-error':
          ctx.violation(f'C11:sched-reject:{kind}:{sch}', f'{sch} refuses a cyclic design it should iterate ({kind}): {str(e)[:150]}', {'design_source': csrc, 'scheduler': sch})
        ctx.count((k, sch, 'sched-error'), True, cls='once-in-cycle-rejected')
        continue
      except Exception as e:
        ctx.violation(f'C11:crash:{kind}:{sch}:{type(e).__name__}', f'{sch} crashed on cyclic design ({kind}): {type(e).__name__}: {str(e)[:150]}', {'design_source': csrc, 'traceback': traceback.format_exc()[-1500:]})
        continue
      if expect == 'sched-error':
        ctx.violation(f'C11:once-accepted:{sch}', f'{sch} scheduled a cycle that contains an update_once block', {'design_source': csrc, 'scheduler': sch}); continue
      fp = sc.Footprints(top)
      if sch == 'dynamic':
        # the cycle must be SEEN: every block that writes a bit another block reads must be ordered before it in the
        # constraint set (bit-level footprints, independent of the structural overlap walk)
        E = set(fp.edges)
        for a, ba in enumerate(fp.comb):
          for b_, bb in enumerate(fp.comb):
            if a == b_: continue
            if any(r1 == r2 and l1 < h2 and l2 < h1 for (r1, l1, h1) in fp.writes[ba] for (r2, l2, h2) in fp.reads[bb]) and (a, b_) not in E and (b_, a) not in set(fp.expl):
              ctx.violation(f'C11:dependency-not-seen:{kind}:{ba.__name__}:{bb.__name__}',
                            f'{kind}: block {ba.__name__} writes bits that {bb.__name__} reads ({fp.writes[ba]} / {fp.reads[bb]}) but the dependency graph has no such edge, so a cycle through it is neither iterated nor reported',
                            {'design_source': csrc, 'writer': ba.__name__, 'reader': bb.__name__})
        try:
          gs, wf = groups_of(top, fp)
          gterm = coq_list([coq_list([f'{x}%nat' for x in g_]) for g_ in gs])
          warms = ' '.join('| ' + coq_list([f'{x}%nat' for x in g_]) + ' => ' + fp.fp_term(w_) for g_, w_ in wf.items())
          wterm = f'(fun g => match g with {warms} | _ => [] end)'
          coq_cases.append(f'({fp.design_term()}, {gterm}, {wterm})')
          coq_meta.append((f'K{k}', kind, csrc, gs, {str(k_): v for k_, v in wf.items()}, [b.__name__ for b in fp.comb]))
        except Exception as e:
          ctx.violation(f'C11:groups:{kind}', f'could not recover the SCC groups of {kind}: {e!r}', {'design_source': csrc, 'traceback': traceback.format_exc()[-1500:]}, found_input=False)
      atop = sc.build(acls, 'simple', seed=0) if acls else None
      r = random.Random(rng.randrange(1 << 30)); ra = random.Random(0)
      try:
        _signal.alarm(20)
        try:
          top.sim_reset()
        except UpblkCyclicError:
          ctx.count((k, sch, 'reset'), True, cls=f'{kind}:error-in-reset')
          if expect in ('fixed', 'maybe'):
            ctx.violation(f'C11:spurious-cyclic-error:{kind}:{sch}', f'{sch} raised UpblkCyclicError during reset on {kind}, which has a stable assignment', {'design_source': csrc, 'scheduler': sch})
          _signal.alarm(0)
          continue
        if atop: atop.sim_reset()
        for c in range(cycles):
          vals = sc.drive_inputs(top, g, r)
          if expect == 'maybe' and c % 2 == 0:
            sc.set_input(top, 'i', 0); vals['i'] = 0
          try:
            top.sim_eval_combinational()
            returned = True
          except UpblkCyclicError:
            returned = False
          ctx.count((k, sch, c, tuple(sorted(vals.items()))), True, cls=f'{kind}:{"returned" if returned else "error"}')
          if returned:
            if expect == 'error' or (expect == 'maybe' and vals['i'] != 0):
              ctx.violation(f'C11:unstable-returned:{kind}:{sch}', f'{sch} returned from a divergent combinational loop ({kind}) with inputs {vals}',
                            {'design_source': csrc, 'scheduler': sch, 'inputs': vals, 'cycle': c})
            before = sc.snapshot(top)
            for b in fp.comb: b()
            after = sc.snapshot(top)
            if before != after:
              ks = [x for x in before if before[x] != after[x]]
              ctx.violation(f'C11:not-fixed-point:{kind}:{sch}', f'{sch} returned an unstable state for {kind}: re-running the blocks changes {ks[:4]} (inputs {vals})',
                            {'design_source': csrc, 'scheduler': sch, 'inputs': vals, 'changed': {x: (before[x], after[x]) for x in ks[:6]}})
              break
            if atop:
              for nm, v in vals.items(): sc.set_input(atop, nm, v)
              atop.sim_eval_combinational()
              sa = sc.snapshot(atop)
              diff = {x: (before[x], sa[x]) for x in sa if x in before and before[x] != sa[x]}
              if diff:
                ctx.violation(f'C11:false-loop-differs:{kind}:{sch}', f'{kind} under {sch}: values differ from the equivalent acyclic design: {dict(list(diff.items())[:4])} (inputs {vals})',
                              {'design_source': csrc, 'acyclic_source': asrc, 'scheduler': sch, 'inputs': vals, 'diff': diff})
                break
          else:
            if expect == 'fixed' or (expect == 'maybe' and vals['i'] == 0):
              ctx.violation(f'C11:spurious-cyclic-error:{kind}:{sch}', f'{sch} raised UpblkCyclicError on {kind}, which has a stable assignment reachable by iteration (inputs {vals})',
                            {'design_source': csrc, 'scheduler': sch, 'inputs': vals})
            break
        _signal.alarm(0)
      except Hang:
        ctx.violation(f'C11:hang:{kind}:{sch}', f'{sch}: evaluation of {kind} did not return within 20 s', {'design_source': csrc, 'scheduler': sch})
      except Exception as e:
        _signal.alarm(0)
        ctx.violation(f'C11:crash:{kind}:{sch}:{type(e).__name__}', f'{sch} crashed simulating {kind}: {type(e).__name__}: {str(e)[:150]}', {'design_source': csrc, 'traceback': traceback.format_exc()[-1500:]})
      finally:
        _signal.alarm(0)
  defs = 'Definition case_ok (c : design * list (list nat) * (list nat -> fp)) : bool := let \'(d, gs, w) := c in groups_ok d gs w.\n'
  bad = ctx.coq_bad_indices('grp', 'Base.Prelude Sched.Accept Sched.GroupAccept', defs, 'design * list (list nat) * (list nat -> fp)', coq_cases, 'case_ok c', shard=12)
  for i in bad[:6]:
    name, kind, src, gs, wf, bn = coq_meta[i]
    parts = ctx.coq_eval('why', 'Base.Prelude Sched.Accept Sched.GroupSched Sched.GroupAccept', defs,
      [f"let '(d, gs, w) := {coq_cases[i]} in (wf_design d, perm_b d (concat gs), sw_ok d, nsl_ok d, fwd_ok d gs, map (fun g => is_single g || cover_ok d g (w g)) gs)"])
    ctx.violation(f'C11:acceptor:{kind}', f'{name} ({kind}): the grouped schedule / watched objects produced by DynamicSchedulePass are rejected by groups_ok: (wf, perm, single-writer, no-self-loop, forward, cover) = {parts[0][:300]}',
                  {'design_source': src, 'groups': gs, 'watched': wf, 'blocks': bn, 'acceptor_result': parts[0]})
  if coq_meta: ctx.sample({'design': coq_meta[0][0], 'kind': coq_meta[0][1], 'groups': coq_meta[0][3], 'watched_intervals': coq_meta[0][4], 'blocks': coq_meta[0][5]})
  ctx.extra['designs_with_acceptor_case'] = len(coq_cases)

def main(ctx):
  ctx.trusted += ['harness/sched_common.py; recovery of SCC groups / watched objects from the generated wrapped_SCC source text (regex) and closure']
  ctx.assumptions += ['block footprints are pymtl3\'s own read/write analysis mapped to bit intervals',
                      'Mamba2020Pass: value-level checks only (its wrapper is structurally the same text; the acceptor is fed with DynamicSchedulePass output)',
                      'the iteration bound 100 is the `fuel` parameter of the theorems (they hold for every bound)']
  ctx.build_props(extra_models=['theories/Sched/GroupAccept.vo'])
  try:
    run(ctx)
  except Exception as e:
    ctx.violation('C11:harness-crash', f'correspondence could not run: {e!r}', {'traceback': traceback.format_exc()}, found_input=False)
  return ctx.finish(rule='cyclic design templates (false loops through signals / disjoint slices / struct fields / nets, convergent, divergent, input-dependent, update_once in cycle, two groups) with random widths, constants and operators '
                         'x {dynamic, mamba} x cycles of random inputs; distinct = (design, scheduler, cycle, inputs)')
