"""C20 — FL, CL and RTL example processors (and checksum units) agree with the ISA on every program.

proof   : Props/C20.v over Lib/Cksum.v (+CksumProofs.v) and Lib/TinyRV0.v (+TinyRV0Proofs.v)
   sentence of the property                                    theorem(s) / tie
   "The checksum unit's FL, CL and RTL models return the       C20_cksum_all_8tuples, C20_cksum_rtl_eq_fl, C20_cksum_fl_eq_spec,
    same checksum for every input"                             C20_cksum_is_32bit, C20_cksum_words_order, C20_cksum_unpack_pack  (FULL proof,
                                                               all inputs, mod arithmetic) + T-diff part (a) below ties cksum_fl / cksum_rtl /
                                                               pack_words to ChecksumFL.checksum, ChecksumCL, ChecksumRTL, utils.*
   "... as an independent interpreter of the TinyRV0 ISA       Lib/TinyRV0.v written from tinyrv0-isa.md; C20_decode_encode (+ encodings compared
    document"                                                  with the repo's assembler on every program), C20_x0_always_zero, C20_registers_stay_32bit,
                                                               C20_little_endian / load_after_store / store_frame, C20_final_state_unique,
                                                               C20_run_computes_final_state, C20_run_fuel_irrelevant (determinism),
                                                               C20_outputs_prefix, C20_step_appends_at_most_one (manager sequence is append-only);
                                                               T-diff part (a2): every instruction form with boundary/random fields through the repo's
                                                               assemble_inst and TinyRV0Inst (the FL/CL decoder) vs Coq encode/decode
   "for every program and every memory latency, stall          PARTIAL: NOT a theorem.  T-diff part (b): random terminating programs x timing
    probability and source/sink delays, ProcFL / ProcCL /      configurations are run on the real ProcFL, ProcCL, ProcRTL in the ex03 TestHarness;
    ProcRTL each deliver the same proc2mngr sequence and       the observed proc2mngr sequence, final data-memory image, every other changed word
    leave the same memory image"                               and the number of unconsumed mngr2proc messages go to Coq, where `run` (the ISA
                                                               model) is evaluated by vm_compute on the words the processors executed and compared.
xcel    : csrr/csrw on 0x7E0..0x7FF are the accelerator registers.  The ISA document defines them only as transactions with
          "an accelerator" ("the exact semantics of each register is specific to each accelerator"); the ex03 TestHarness
          attaches NullXcelRTL, so the Coq model carries that accelerator (one register; modelled from NullXcel.py —
          C20_xcel_write_then_read, C20_xcel_frame) and Coq judges FL, CL and RTL against ISA-with-NullXcel.  What "agree"
          means here is therefore FL = CL = RTL = that instantiated model.  Generated: accelerator write .. read ..
          consumer of the read value at distance 1..3 as rs1 / rs2 / both / addi / store data / either branch operand /
          csrw proc2mngr / accelerator write / a second read, also inside branch shadows, under default and random timing.
partial : refinement ProcCL/ProcRTL == TinyRV0.step is NOT proved (a Burch-Dill proof of the 5-stage pipeline is out
          of reach here); it rests on the differential runs.  The python interpreter `GenSim` below is used ONLY by the
          generator (valid addresses, how many messages to wait for, fuel) and to steer shrinking; Coq decides.
"""
import struct, multiprocessing, io, contextlib
from common import *

IMPORTS = 'Base.Prelude Lib.Cksum Lib.TinyRV0'
M32 = (1 << 32) - 1
MEMSZ = 1 << 20
TEXT, DATA, NDATA = 0x200, 0x2000, 48          # data window: 48 words at 0x2000 (first 32 initialised)
PTR_SLOTS = range(40, 48)                        # window words that always hold valid pointers
BASE, PTRS, CNTS = 28, (26, 27), (29, 30)
LOW, NLOW = 0x80, 32                           # second, LOW data window (zero at start): reached through address sums that wrap past 2^32
def win_addr(k): return DATA + 4 * k if k < NDATA else LOW + 4 * (k - NDATA)
def in_win(a): return DATA <= a < DATA + 4 * NDATA or LOW <= a < LOW + 4 * NLOW
AHI, WBASE = 23, (24, 25)                      # x23 = DATA + 2048 (second anchor); x24/x25 = bases computed as target - displacement

# =============================================================================================== (a) checksum
def cksum_boundary():
  F = 0xffff
  return [[0]*8, [F]*8, [1, 2, 3, 4, 5, 6, 7, 8], [8, 7, 6, 5, 4, 3, 2, 1], [F, 0, 0, 0, 0, 0, 0, 0], [0]*7 + [F], [0x8000]*8,
          [0x8000, 0x8000] + [0]*6, [F, 1, 0, 0, 0, 0, 0, 0], [1, F, 0, 0, 0, 0, 0, 0], [0x7fff, 1] + [0]*6, [F, F, F, F, 0, 0, 0, 0],
          [0, 0, 0, 0, F, F, F, F], [0x1234, 0x5678, 0x9abc, 0xdef0, 0x0fed, 0xcba9, 0x8765, 0x4321], [0x2000]*8, [0x1fff]*8,
          [0xaaaa, 0x5555]*4, [0xfffe]*8, [1]*8, [0, 0, 0, 0, 0, 0, 0, 1], [1, 0, 0, 0, 0, 0, 0, 0]]

def run_cksum(ctx):
  from pymtl3 import Component, Bits16, Bits32, Bits128, b16, DefaultPassGroup
  from pymtl3.stdlib.test_utils import TestSinkCL, TestSrcCL
  from pymtl3.stdlib.connects import connect_pairs
  from examples.ex02_cksum.ChecksumFL import checksum
  from examples.ex02_cksum.ChecksumCL import ChecksumCL
  from examples.ex02_cksum.ChecksumRTL import ChecksumRTL
  from examples.ex02_cksum.utils import words_to_b128, b128_to_words
  rng = ctx.rng
  quick = ctx.tier == 'quick'
  tuples = cksum_boundary()
  for _ in range(120 if quick else 1500):
    k = rng.random()
    if k < 0.6: tuples.append([rng.getrandbits(16) for _ in range(8)])
    elif k < 0.8: tuples.append([rng.choice([0, 1, 0xffff, 0xfffe, 0x8000, 0x7fff, rng.getrandbits(16)]) for _ in range(8)])
    else: tuples.append([0xffff - rng.randrange(4) for _ in range(8)])

  # the same source/sink harness the ex02 tests use (TestHarness of ChecksumCL_test.py), with a recording sink
  class TH(Component):
    def construct(s, DutType, src_msgs, n, delays):
      s.src = TestSrcCL(Bits128, src_msgs, delays[0], delays[1])
      s.dut = DutType()
      s.sink = TestSinkCL(Bits32, [Bits32(0)] * n, delays[2], delays[3])
      connect_pairs(s.src.send, s.dut.recv, s.dut.send, s.sink.recv)
  def simulate(Dut, msgs, delays):
    rec = []
    th = TH(Dut, msgs, len(msgs), delays)
    th.elaborate()
    th.sink.cmp_fn = lambda a, b: (rec.append(int(a)), True)[1]
    th.apply(DefaultPassGroup())
    th.sim_reset()
    cyc, limit = 0, 200 + len(msgs) * (12 + 2 * sum(delays))
    while len(rec) < len(msgs) and cyc < limit:
      th.sim_tick(); cyc += 1
    for _ in range(10): th.sim_tick()
    return rec

  words = [[b16(w) for w in t] for t in tuples]
  msgs = [words_to_b128(ws) for ws in words]
  unp = [[int(x) for x in b128_to_words(m)] for m in msgs]
  fl = [int(checksum(ws)) for ws in words]
  delay_sets = [(0, 0, 0, 0), (2, 1, 0, 3)] if quick else [(0, 0, 0, 0), (2, 1, 0, 3), (0, 3, 10, 0), (1, 0, 4, 2)]
  cl = [simulate(ChecksumCL, msgs, d) for d in delay_sets]
  rtl = [simulate(ChecksumRTL, msgs, d) for d in delay_sets]
  cases, short = [], False
  for i, t in enumerate(tuples):
    cls = [r[i] if i < len(r) else -1 for r in cl]
    rtls = [r[i] if i < len(r) else -1 for r in rtl]
    cases.append(f'({coq_list(map(zlit, t))}, {zlit(int(msgs[i]))}, {msgs[i].nbits}, {coq_list(map(zlit, unp[i]))}, {zlit(fl[i])}, '
                 f'{coq_list(map(zlit, cls))}, {coq_list(map(zlit, rtls))})')
    ctx.count(('cksum', tuple(t)), True, cls='cksum:boundary' if i < len(cksum_boundary()) else 'cksum:random')
  for nm, rs in (('CL', cl), ('RTL', rtl)):
    for d, r in zip(delay_sets, rs):
      if len(r) != len(tuples):
        ctx.violation(f'C20:cksum:{nm}:count:{d}', f'Checksum{nm} delivered {len(r)} results for {len(tuples)} inputs (delays {d})',
                      {'delays(src_init,src_intv,sink_init,sink_intv)': d, 'inputs': tuples[:len(r) + 1][-3:], 'received': len(r)})
  ok = ("let '(ws, msg, nb, unp, fl, cls, rtls) := c in words16b ws && (snd (pack_words ws) =? msg) && (fst (pack_words ws) =? nb) "
        "&& list_eqb (unpack_words msg) unp && list_eqb unp ws && (cksum_fl ws =? fl) && (cksum_spec ws =? fl) "
        "&& forallb (Z.eqb (cksum_fl ws)) cls && forallb (Z.eqb (cksum_rtl ws)) rtls")
  bad = ctx.coq_bad_indices('cksum', IMPORTS, '', 'list Z * Z * Z * list Z * Z * list Z * list Z', cases, ok)
  for i in bad[:5]:
    exp = ctx.coq_eval('ck', IMPORTS, '', [f'(cksum_spec {coq_list(map(zlit, tuples[i]))}, snd (pack_words {coq_list(map(zlit, tuples[i]))}))'])
    ctx.violation(f'C20:cksum:{tuples[i]}', f'checksum of {[hex(w) for w in tuples[i]]}: FL={hex(fl[i])} CL={[hex(r[i]) if i < len(r) else None for r in cl]} '
                  f'RTL={[hex(r[i]) if i < len(r) else None for r in rtl]} b128={hex(int(msgs[i]))}; Coq (spec, message) = {exp[0][:200]}',
                  {'words': tuples[i], 'fl': fl[i], 'cl': [r[i] if i < len(r) else None for r in cl],
                   'rtl': [r[i] if i < len(r) else None for r in rtl], 'message': int(msgs[i]), 'unpacked': unp[i], 'coq': exp[0], 'delay_sets': delay_sets})
  ctx.sample({'kind': 'checksum', 'words': tuples[2], 'fl': hex(fl[2]), 'cl': hex(cl[0][2]), 'rtl': hex(rtl[0][2]), 'coq_case': cases[2]})

  ctx.extra['cksum_tuples'] = len(tuples); ctx.extra['cksum_delay_sets'] = delay_sets

# =============================================================================================== (a2) encodings
ENC_DEFS = '''
Definition fobs := (Z * Z * Z * Z * Z * Z * Z)%type.
Definition enc_ok (c : instr * Z * fobs) : bool :=
  let '(i, w, (nm, rd, rs1, rs2, ii, si, bi)) := c in
  wf_instrb i && (encode i =? w) &&
  match decode w with
  | Some (ADD a b d) => (nm =? 1) && (a =? rd) && (b =? rs1) && (d =? rs2)
  | Some (AND a b d) => (nm =? 2) && (a =? rd) && (b =? rs1) && (d =? rs2)
  | Some (SLL a b d) => (nm =? 3) && (a =? rd) && (b =? rs1) && (d =? rs2)
  | Some (SRL a b d) => (nm =? 4) && (a =? rd) && (b =? rs1) && (d =? rs2)
  | Some (ADDI a b im) => (nm =? 5) && (a =? rd) && (b =? rs1) && (im mod 4096 =? ii)
  | Some (LW a b im) => (nm =? 6) && (a =? rd) && (b =? rs1) && (im mod 4096 =? ii)
  | Some (SW a b im) => (nm =? 7) && (a =? rs2) && (b =? rs1) && (im mod 4096 =? si)
  | Some (BNE a b im) => (nm =? 8) && (a =? rs1) && (b =? rs2) && (im mod 8192 =? bi)
  | Some (CSRR a csr) => (nm =? 9) && (a =? rd) && (csr =? ii)
  | Some (CSRW csr b) => (nm =? 10) && (b =? rs1) && (csr =? ii)
  | None => false
  end.
'''
NAMECODE = {'add': 1, 'and': 2, 'sll': 3, 'srl': 4, 'addi': 5, 'nop': 5, 'lw': 6, 'sw': 7, 'bne': 8, 'csrr': 9, 'csrw': 10}

def run_encoding(ctx):
  """every instruction form with boundary/random field values: repo assembler word == Coq encode, and the fields the FL/CL
     decoder (TinyRV0Inst) extracts == Coq decode"""
  from examples.ex03_proc.tinyrv0_encoding import assemble_inst, TinyRV0Inst
  rng = ctx.rng
  quick = ctx.tier == 'quick'
  R = lambda: rng.choice([0, 1, 15, 16, 31, rng.randrange(32)])
  I12 = lambda: rng.choice([-2048, -2047, -1, 0, 1, 2046, 2047, 31, 32, -32, -33, rng.randint(-2048, 2047), rng.randint(-2048, 2047)])
  B13 = lambda: rng.choice([-4096, -4094, -2050, -2048, -2046, -2, 0, 2, 2046, 2048, 2050, 4094, 2 * rng.randint(-2048, 2047), 2 * rng.randint(-2048, 2047)])
  CSR = lambda: rng.choice([0x7C0, 0xFC0, 0x7E0, 0x7FF, 0, 0xFFF, rng.randrange(4096)])
  cases, meta = [], []
  for _ in range(40 if quick else 400):
    for op in ('add', 'and', 'sll', 'srl', 'addi', 'lw', 'sw', 'bne', 'csrr', 'csrw', 'nop'):
      if op in ('add', 'and', 'sll', 'srl'):
        a, b, c = R(), R(), R(); txt = f'{op} x{a}, x{b}, x{c}'; term = f'{op.upper()} {a} {b} {c}'
      elif op == 'addi': a, b, c = R(), R(), I12(); txt = f'addi x{a}, x{b}, {c}'; term = f'ADDI {a} {b} {zlit(c)}'
      elif op == 'lw': a, b, c = R(), R(), I12(); txt = f'lw x{a}, {c}(x{b})'; term = f'LW {a} {b} {zlit(c)}'
      elif op == 'sw': a, b, c = R(), R(), I12(); txt = f'sw x{a}, {c}(x{b})'; term = f'SW {a} {b} {zlit(c)}'
      elif op == 'bne': a, b, c = R(), R(), B13(); txt = f'bne x{a}, x{b}, {c}'; term = f'BNE {a} {b} {zlit(c)}'
      elif op == 'csrr': a, c = R(), CSR(); txt = f'csrr x{a}, {c:#x}'; term = f'CSRR {a} {c}'
      elif op == 'csrw': a, c = R(), CSR(); txt = f'csrw {c:#x}, x{a}'; term = f'CSRW {c} {a}'
      else: txt, term = 'nop', 'nop'
      try:
        w = int(assemble_inst({}, 0x200, txt))
        t = TinyRV0Inst(w)
        nm = t.name
        f = (NAMECODE.get(nm, 0), int(t.rd), int(t.rs1), int(t.rs2), int(t.i_imm), int(t.s_imm), int(t.b_imm))
        assert int(t.csrnum) == int(t.i_imm)
      except Exception as e:
        ctx.violation(f'C20:encoding:{txt}', f'assembling / decoding "{txt}" raised {e!r}', {'asm': txt}); continue
      cases.append(f'({term}, {zlit(w)}, ({", ".join(zlit(x) for x in f)}))'); meta.append((txt, w, nm, f))
      ctx.count(('enc', txt), True, cls='encoding:' + op)
  bad = ctx.coq_bad_indices('enc', IMPORTS, ENC_DEFS, 'instr * Z * fobs', cases, 'enc_ok c')
  for i in bad[:5]:
    txt, w, nm, f = meta[i]
    exp = ctx.coq_eval('enc1', IMPORTS, ENC_DEFS, [f"let '(i, w, f) := {cases[i]} in (encode i, decode w)"])
    ctx.violation(f'C20:encoding:{txt}', f'"{txt}": assembler gives {w:#010x}, TinyRV0Inst decodes name={nm} (rd,rs1,rs2,i_imm,s_imm,b_imm)={f[1:]}; '
                  f'Coq (encode, decode of that word) = {exp[0][:200]}', {'asm': txt, 'assembled': w, 'repo_decode': [nm] + list(f[1:]), 'coq': exp[0]})
  ctx.extra['encoding_cases'] = len(cases)
  ctx.sample({'kind': 'encoding', 'asm': meta[7][0], 'word': hex(meta[7][1]), 'coq_case': cases[7]})

# =============================================================================================== (b) processors
# ---- program trees:  ('i', instr) | ('if', rs1, rs2, [nodes]) | ('loop', cnt, n, [nodes])
# instr: ('add'|'and'|'sll'|'srl', rd, rs1, rs2) ('addi'|'lw', rd, rs1, imm) ('sw', rs2, rs1, imm) ('csrr', rd) ('csrw', rs1) ('nop',)
#        ('xr', rd, csr) = csrr rd, csr   ('xw', rs1, csr) = csrw csr, rs1   with csr an accelerator register 0x7E0..0x7FF
def flatten(nodes, out=None, lab=None):
  """-> list of flat items: ('L', name) | instr tuple; branches are ('bne', rs1, rs2, label)"""
  if out is None: out, lab = [], [0]
  for nd in nodes:
    if nd[0] == 'i': out.append(nd[1])
    elif nd[0] == 'if':
      lab[0] += 1; L = f'L{lab[0]}'
      out.append(('bne', nd[1], nd[2], L)); flatten(nd[3], out, lab); out.append(('L', L))
    elif nd[0] == 'loop':
      lab[0] += 1; L = f'L{lab[0]}'
      out.append(('addi', nd[1], 0, nd[2])); out.append(('L', L)); flatten(nd[3], out, lab)
      out.append(('addi', nd[1], nd[1], -1)); out.append(('bne', nd[1], 0, L))
  return out

def resolve(flat):
  """-> (instrs with numeric branch offsets, asm text lines)"""
  addr, sym = TEXT, {}
  for it in flat:
    if it[0] == 'L': sym[it[1]] = addr
    else: addr += 4
  ins, asm, addr = [], [], TEXT
  for it in flat:
    if it[0] == 'L': asm.append(f'{it[1]}:'); continue
    op = it[0]
    if op == 'bne':
      if not -4096 <= sym[it[3]] - addr <= 4094: raise GenSimError('branch offset not encodable')
      ins.append(('bne', it[1], it[2], sym[it[3]] - addr)); asm.append(f'  bne x{it[1]}, x{it[2]}, {it[3]}')
    else:
      ins.append(it)
      if op in ('add', 'and', 'sll', 'srl'): asm.append(f'  {op} x{it[1]}, x{it[2]}, x{it[3]}')
      elif op == 'addi': asm.append(f'  addi x{it[1]}, x{it[2]}, {it[3]}')
      elif op == 'lw': asm.append(f'  lw x{it[1]}, {it[3]}(x{it[2]})')
      elif op == 'sw': asm.append(f'  sw x{it[1]}, {it[3]}(x{it[2]})')
      elif op == 'csrr': asm.append(f'  csrr x{it[1]}, mngr2proc')
      elif op == 'csrw': asm.append(f'  csrw proc2mngr, x{it[1]}')
      elif op == 'nop': asm.append('  nop')
      elif op == 'xr': asm.append(f'  csrr x{it[1]}, {it[2]:#x}')
      elif op == 'xw': asm.append(f'  csrw {it[2]:#x}, x{it[1]}')
      else: raise ValueError(op)
    addr += 4
  return ins, asm

def coq_instr(i):
  z = zlit
  op = i[0]
  if op in ('add', 'and', 'sll', 'srl'): return f'{op.upper()} {i[1]} {i[2]} {i[3]}'
  if op in ('addi', 'lw', 'sw', 'bne'): return f'{op.upper()} {i[1]} {i[2]} {z(i[3])}'
  if op == 'csrr': return f'CSRR {i[1]} CSR_MNGR2PROC'
  if op == 'csrw': return f'CSRW CSR_PROC2MNGR {i[1]}'
  if op == 'nop': return 'nop'
  if op == 'xr': return f'CSRR {i[1]} {i[2]}'
  if op == 'xw': return f'CSRW {i[2]} {i[1]}'
  raise ValueError(op)

class GenSimError(Exception): pass

def gensim(ins, data, inputs, rng=None, limit=20000):
  """generator-side interpreter (NOT the judge): returns dict(out, mem window, dyn, used inputs, features)"""
  R = [0] * 32
  mem = {DATA + 4 * k: v for k, v in enumerate(data)}
  inputs = list(inputs); nin = 0
  out, pc, dyn = [], TEXT, 0
  xr0 = 0            # the accelerator register (NullXcel)
  feats = {}
  hist = []          # (rd written or None, is_load, is_csr) of the last instructions
  end = TEXT + 4 * len(ins)
  shadow_left, shadow_kinds = 0, []
  def F(k): feats[k] = feats.get(k, 0) + 1
  while pc != end:
    if not (TEXT <= pc < end) or pc % 4: raise GenSimError(f'pc {pc:#x} left the program')
    dyn += 1
    if dyn > limit: raise GenSimError('does not terminate')
    i = ins[(pc - TEXT) // 4]; op = i[0]
    srcs = {'add': (2, 3), 'and': (2, 3), 'sll': (2, 3), 'srl': (2, 3), 'addi': (2,), 'lw': (2,), 'sw': (1, 2), 'bne': (1, 2), 'csrw': (1,), 'xw': (1,)}.get(op, ())
    for d, h in enumerate(reversed(hist[-3:]), 1):
      if h[0] and any(i[k] == h[0] for k in srcs):
        F(f'raw-d{d}')
        if d == 1 and h[1]: F('load-use-d1')
        if op == 'bne': F(f'branch-operand-raw-d{d}')
        if op == 'sw' and i[1] == h[0]: F(f'store-data-raw-d{d}')
        if op in ('lw', 'sw') and i[2] == h[0]: F(f'address-raw-d{d}' + ('-after-load' if h[1] else ''))
        if h[3]:                                # consumer of an accelerator read, by operand position
          for k in srcs:
            if i[k] == h[0]:
              pos = ('store-data' if k == 1 else 'address') if op == 'sw' else ('rs1' if k == srcs[0] else 'rs2')
              F(f'xcel-read-use-{op}-{pos}-d{d}')
        break
    if hist and hist[-1][2] and op in ('csrr', 'csrw', 'xr', 'xw'): F('csr-back-to-back')
    if hist and hist[-1][4] and op in ('xr', 'xw'): F(f'xcel-back-to-back-{hist[-1][4]}-{op}')
    npc, wr, isld = pc + 4, None, False
    if op == 'add': wr = (i[1], (R[i[2]] + R[i[3]]) & M32)
    elif op == 'and': wr = (i[1], R[i[2]] & R[i[3]])
    elif op == 'sll': wr = (i[1], (R[i[2]] << (R[i[3]] & 31)) & M32)
    elif op == 'srl': wr = (i[1], R[i[2]] >> (R[i[3]] & 31))
    elif op == 'addi': wr = (i[1], (R[i[2]] + i[3]) & M32)
    elif op in ('lw', 'sw'):
      a = (R[i[2]] + i[3]) & M32
      if a % 4 or not in_win(a): raise GenSimError(f'{op} address {a:#x} outside the data windows')
      if R[i[2]] + i[3] > M32: F(f'{op}-address-wraps-2^32')
      if a < DATA: F(f'{op}-low-window')
      F(f'{op}-disp-' + ('ge1024' if i[3] >= 1024 else 'lt-1024' if i[3] < -1024 else 'small'))
      if i[3] % 4: F(f'{op}-unaligned-base')
      if op == 'lw': wr = (i[1], mem.get(a, 0)); isld = True
      else: mem[a] = R[i[1]]
    elif op == 'bne':
      if R[i[1]] != R[i[2]]:
        npc = pc + i[3]; F('branch-taken-backward' if i[3] < 0 else 'branch-taken-forward')
        if abs(i[3]) >= 1024: F('branch-taken-offset-' + ('ge2048' if i[3] >= 2048 else 'ge1024' if i[3] > 0 else 'lt-2048' if i[3] < -2048 else 'le-1024'))
        for k in (1, 2):                       # what sits in the two fetch slots behind a taken branch
          j = (pc - TEXT) // 4 + k
          if j < len(ins): F('squashed-' + ins[j][0])
      else: F('branch-not-taken')
    elif op == 'csrr':
      if nin >= len(inputs):
        if rng is None: raise GenSimError('mngr2proc empty')
        inputs.append(rng.choice([0, 1, M32, 0x80000000, 0x7fffffff, rng.getrandbits(5), rng.getrandbits(32), rng.getrandbits(32), rng.getrandbits(12)]))
      wr = (i[1], inputs[nin]); nin += 1
    elif op == 'csrw': out.append(R[i[1]])
    elif op == 'nop': pass
    elif op == 'xr': wr = (i[1], xr0)
    elif op == 'xw': xr0 = R[i[1]]
    else: raise GenSimError(op)
    if wr and wr[0] != 0: R[wr[0]] = wr[1]
    if wr and wr[0] == 0: F('write-x0')
    hist.append((wr[0] if wr and wr[0] != 0 else None, isld, op in ('csrr', 'csrw', 'xr', 'xw'), op == 'xr', op if op in ('xr', 'xw') else None))
    F('op-' + op)
    pc = npc
  return {'out': out, 'win': [mem.get(win_addr(k), 0) for k in range(NDATA + NLOW)], 'dyn': dyn, 'inputs': inputs[:nin], 'unused_inputs': len(inputs) - nin,
          'feats': feats, 'end': end}

# ---- random program generator
def field_value(rng, nbits, step=1):
  """a signed nbits-wide field value from the FULL encodable range, emphasising the boundaries of every bit:
     min, max, 0, +-1, +-2^k, +-2^k -+ 1, alternating sign-bit patterns, and uniform values (multiples of step)"""
  lo, hi = -(1 << (nbits - 1)), (1 << (nbits - 1)) - 1
  k = rng.random()
  if k < 0.15: v = rng.choice([lo, lo + 1, hi, hi - 1, 0, 1, -1, 2, -2])
  elif k < 0.65:
    p = 1 << rng.randrange(0, nbits - 1)
    v = rng.choice([p, p - 1, p + 1, -p, -p - 1, -p + 1])
  elif k < 0.72:
    pat = int(('01' * nbits)[:nbits], 2)
    v = rng.choice([pat, pat >> 1, ~pat, ~(pat >> 1), hi >> 1, ~(hi >> 1), (hi >> 1) + 1, lo >> 1])
    v = ((v - lo) % (1 << nbits)) + lo
  elif k < 0.85: v = rng.randint(-40, 40)
  else: v = rng.randint(lo, hi)
  v = min(hi, max(lo, v))
  return v - (v % step) if step > 1 else v

FAR_SIZES = [15, 31, 63, 127, 255, 510, 511, 512, 513]

def gen_tree(rng, size, far=None):
  """far: None | ('if', N) | ('loop', N): one branch over / around N straight-line instructions (branch offset +-4(N+1))"""
  pool = rng.sample(range(1, 23), rng.randint(3, 8))
  recent = []
  def src(extra=True):
    k = rng.random()
    if recent and k < 0.55: return rng.choice(recent[-3:])
    if k < 0.85: return rng.choice(pool)
    if not extra: return rng.choice(pool)
    return rng.choice([0, 0, BASE, PTRS[0], PTRS[1], CNTS[0]])
  def dst():
    r = 0 if rng.random() < 0.05 else rng.choice(pool)
    return r
  def imm12():
    return field_value(rng, 12)
  def wide(store=None, shadow=False):
    """base := target - displacement, then the access: displacement from the whole 12-bit range, address inside the window"""
    if store is None: store = rng.random() < (0.65 if shadow else 0.5)
    while True:
      t = rng.randrange(0, 40 if store else NDATA); d = field_value(rng, 12)
      k, anchor = 4 * t - d, BASE
      if k > 2047: k, anchor = k - 2048, AHI
      if -2048 <= k <= 2047: break
    b = rng.choice(WBASE)
    seq = [('i', ('addi', b, anchor, k))]
    for _ in range(rng.choice([0, 0, 0, 1, 2])): seq.append(simple(shadow))
    seq.append(('i', ('sw', src(), b, d)) if store else ('i', ('lw', dst(), b, d)))
    if not store and seq[-1][1][1] in pool: recent.append(seq[-1][1][1])
    if not store and rng.random() < 0.4: seq.append(('i', ('csrw', seq[-1][1][1])))
    return seq
  def XC():
    return 0x7E0 + rng.choice([0, 0, 1, 9, 30, 31, rng.randrange(32)])
  def filler(shadow, keep):
    """an instruction that does not overwrite register `keep`"""
    for _ in range(6):
      f = simple(shadow)
      if not (f[1][0] in ('add', 'and', 'sll', 'srl', 'addi', 'lw', 'csrr', 'xr') and f[1][1] == keep): return f
    return ('i', ('nop',))
  def xcel(shadow=False):
    """accelerator traffic: [write] .. read .. consumer of the read value at distance 1..3, in every operand position"""
    seq, wsrc = [], None
    if rng.random() < 0.7:
      wsrc = src()
      seq.append(('i', ('xw', wsrc, XC())))
      for _ in range(rng.choice([0, 0, 1, 2])): seq.append(filler(shadow, wsrc))
    rd = rng.choice(pool) if rng.random() < 0.95 else 0
    seq.append(('i', ('xr', rd, XC())))
    if rd: recent.append(rd)
    for _ in range(rng.choice([0, 0, 0, 1, 2])): seq.append(filler(shadow, rd))
    other = wsrc if (wsrc is not None and rng.random() < 0.5) else src()
    kinds = ['rs1', 'rs2', 'rs2', 'both', 'addi', 'store-data', 'store-data', 'csrw', 'xw', 'xr2'] + ([] if shadow else ['bne1', 'bne2', 'bne2'])
    c = rng.choice(kinds)
    op = rng.choice(['add', 'add', 'and', 'sll', 'srl'])
    if c == 'rs1': seq.append(('i', (op, dst(), rd, other)))
    elif c == 'rs2': seq.append(('i', (op, dst(), other, rd)))
    elif c == 'both': seq.append(('i', (op, dst(), rd, rd)))
    elif c == 'addi': seq.append(('i', ('addi', dst(), rd, imm12())))
    elif c == 'store-data': seq.append(('i', ('sw', rd, BASE, 4 * rng.randrange(0, 40))))
    elif c == 'csrw': seq.append(('i', ('csrw', rd)))
    elif c == 'xw': seq.append(('i', ('xw', rd, XC())))
    elif c == 'xr2': seq.append(('i', ('xr', dst(), XC())))
    else:
      body = [simple(shadow=True) for _ in range(rng.randint(1, 3))]
      seq.append(('if', rd, other, body) if c == 'bne1' else ('if', other, rd, body))
    if seq[-1][0] == 'i' and seq[-1][1][0] in ('add', 'and', 'sll', 'srl', 'addi', 'xr') and seq[-1][1][1] in pool:
      recent.append(seq[-1][1][1])
      if rng.random() < 0.5: seq.append(('i', ('csrw', seq[-1][1][1])))
    return seq
  def lowmem(store=None, shadow=False):
    """an access to the LOW window: base built from x0 by addi; mostly base = target - disp NEGATIVE, i.e. a large unsigned
       base (0xfffff801..0xffffffff) plus a positive displacement whose 32-bit sum wraps past 2^32 onto the low address"""
    if store is None: store = rng.random() < 0.55
    target = LOW + 4 * rng.randrange(NLOW)
    k = rng.random()
    while True:
      d = field_value(rng, 12)
      if k < 0.75 and target < d <= 2047: break          # wraps: base = 2^32 - (d - target)
      if k >= 0.75 and -2048 <= target - d <= 2047 and d <= target: break
    b = rng.choice(WBASE)
    seq = [('i', ('addi', b, 0, target - d))]
    for _ in range(rng.choice([0, 0, 0, 1, 2])): seq.append(simple(shadow))
    seq.append(('i', ('sw', src(), b, d)) if store else ('i', ('lw', dst(), b, d)))
    if not store and seq[-1][1][1] in pool: recent.append(seq[-1][1][1])
    if not store and rng.random() < 0.5: seq.append(('i', ('csrw', seq[-1][1][1])))
    return seq
  def memref(store):
    """(base reg, imm) of a legal aligned address; stores avoid the pointer slots"""
    if rng.random() < 0.5:
      return BASE, 4 * rng.randrange(0, 40 if store else NDATA)
    return rng.choice(PTRS), 4 * rng.randint(-16, 8)          # pointer regs hold DATA+64 .. DATA+124
  def simple(shadow=False):
    k = rng.random()
    w = [0.30, 0.14, 0.14, 0.13, 0.06, 0.08, 0.11, 0.02, 0.02, 0.03, 0.03] if not shadow else [0.12, 0.08, 0.12, 0.30, 0.04, 0.10, 0.22, 0.01, 0.01, 0.05, 0.07]
    c = rng.choices(range(11), w)[0]
    if c == 0:
      op = rng.choice(['add', 'add', 'and', 'sll', 'srl'])
      i = (op, dst(), src(), src())
    elif c == 1: i = ('addi', dst(), src(), imm12())
    elif c == 2:
      b, o = memref(False)
      if b == BASE and o // 4 in PTR_SLOTS and rng.random() < 0.6: i = ('lw', rng.choice(PTRS), b, o)     # pointer chasing: load-use on an address
      elif b == BASE and o // 4 in PTR_SLOTS: i = ('lw', dst(), b, o)
      else: i = ('lw', dst(), b, o)
    elif c == 3:
      if rng.random() < 0.12: i = ('sw', rng.choice(PTRS), BASE, 4 * rng.choice(PTR_SLOTS))               # keeps pointer slots valid
      else:
        b, o = memref(True); i = ('sw', src(), b, o)
    elif c == 4: i = ('addi', rng.choice(PTRS), BASE, 64 + 4 * rng.randrange(16))
    elif c == 5: i = ('csrr', dst())
    elif c == 6: i = ('csrw', src())
    elif c == 7: i = ('nop',)
    elif c == 9: i = ('xr', dst(), XC())
    elif c == 10: i = ('xw', src(), XC())
    else: i = ('add', dst(), src(), 0)
    if i[0] in ('add', 'and', 'sll', 'srl', 'addi', 'lw', 'csrr', 'xr') and i[1] in pool: recent.append(i[1])
    return ('i', i)
  def ifnode():
    k = rng.random()
    pre = []
    if k < 0.30: a = b = src(False)                                         # same register: never taken
    elif k < 0.45:
      a, b = src(False), rng.choice(pool)
      if a != b: pre = [('i', ('add', b, a, 0))]; recent.append(b)           # copy then compare: not taken, RAW on the branch operand
    elif k < 0.55: a, b = src(False), 0
    else: a, b = src(), src()
    body = []
    for _ in range(rng.randint(1, 4)):
      k2 = rng.random()
      if k2 < 0.06: body += lowmem(shadow=True)
      elif k2 < 0.2: body += wide(shadow=True)
      elif k2 < 0.3: body += xcel(shadow=True)
      else: body.append(simple(shadow=True))
    return pre + [('if', a, b, body)]
  def straight(n):
    out = []
    while len(out) < n:
      out += wide() if rng.random() < 0.1 else [simple()]
    return out[:n]
  def block(n, depth):
    out = []
    while n > 0:
      k = rng.random()
      if k < 0.16: out += ifnode(); n -= 2
      elif k < 0.16 + (0.07 if depth == 0 else 0.05 if depth == 1 else 0):
        body = block(rng.randint(2, 6), depth + 1)
        out.append(('loop', CNTS[depth], rng.randint(1, 3), body)); n -= 4
      elif k < 0.30:                                                          # back-to-back csr traffic
        seq = []
        for _ in range(rng.randint(2, 4)):
          seq.append(('i', ('csrr', dst())) if rng.random() < 0.5 else ('i', ('csrw', src())))
          if seq[-1][1][0] == 'csrr' and seq[-1][1][1] in pool: recent.append(seq[-1][1][1])
        out += seq; n -= len(seq)
      elif k < 0.35: out += lowmem(); n -= 2                                # low window, address sum wraps past 2^32
      elif k < 0.42: out += wide(); n -= 2                                  # full-range displacement load/store
      elif k < 0.50: out += xcel(); n -= 3                                  # accelerator write / read / dependent instruction
      elif k < 0.56:                                                          # pointer chasing: a loaded value is the next address
        p = rng.choice(PTRS)
        seq = [('i', ('lw', p, BASE, 4 * rng.choice(PTR_SLOTS)))]
        for _ in range(rng.choice([0, 0, 1, 2])): seq.append(simple())
        seq = [x for x in seq if not (x[1][0] in ('lw', 'addi') and x[1][1] == p and x is not seq[0])]
        o = 4 * rng.randint(-16, 8)
        seq.append(('i', ('lw', dst(), p, o)) if rng.random() < 0.5 else ('i', ('sw', src(), p, o)))
        out += seq; n -= len(seq)
      else: out.append(simple()); n -= 1
    return out
  prologue = [('i', ('csrr', BASE))]
  for r in pool:
    prologue.append(('i', ('csrr', r)) if rng.random() < 0.7 else ('i', ('addi', r, 0, imm12())))
  for p in PTRS: prologue.append(('i', ('addi', p, BASE, 64 + 4 * rng.randrange(16))))
  for c in CNTS: prologue.append(('i', ('addi', c, 0, 0)))
  prologue += [('i', ('addi', AHI, BASE, 2047)), ('i', ('addi', AHI, AHI, 1))]
  prologue.append(('i', ('xw', rng.choice(pool), XC())))                      # the accelerator is written before it is ever read
  body = block(size, 0)
  if far:
    cut = rng.randrange(len(body) + 1)
    if far[0] == 'if':
      k = rng.random()
      a, b = (src(False),) * 2 if k < 0.35 else (src(False), 0) if k < 0.5 else (src(), src())
      node = ('if', a, b, straight(far[1]))
    else:
      node = ('loop', CNTS[0], rng.choice([1, 2, 2]), straight(far[1]))
    body = body[:cut] + [node] + body[cut:]
  regs = list(pool) + list(PTRS)
  rng.shuffle(regs)
  epilogue = [('i', ('csrw', r)) for r in regs] + [('i', ('csrw', 0))]
  return prologue, body, epilogue

def gen_data(rng):
  d = [rng.choice([0, 1, M32, 0x80000000, rng.getrandbits(32), rng.getrandbits(32), rng.getrandbits(8)]) for _ in range(32)]
  d += [0] * (NDATA - 32)
  for k in PTR_SLOTS: d[k] = DATA + 64 + 4 * rng.randrange(16)
  return d

def build(tree, data, inputs, rng=None):
  """tree -> everything the simulations and the Coq case need (raises GenSimError if the candidate is not a legal program)"""
  pro, body, epi = tree
  ins, asm = resolve(flatten(pro + body + epi))
  ref = gensim(ins, data, inputs, rng)
  return {'ins': ins, 'asm': asm, 'data': list(data), 'inputs': ref['inputs'], 'ref': ref}

CONFIG_KEYS = ('src_delay', 'sink_delay', 'mem_stall_prob', 'mem_latency')
def gen_config(rng, kind):
  if kind == 'fast': return (0, 0, 0, rng.choice([1, 1, 2]))
  return (rng.randint(0, 4), rng.randint(0, 4), rng.choice([0, 0.3, 0.7]), rng.randint(1, 5))

# ---- running the real processors in the ex03 test harness
PROCS = ('ProcFL', 'ProcCL', 'ProcRTL')
def proc_cls(name):
  import importlib
  return getattr(importlib.import_module('examples.ex03_proc.' + name), name)

def simulate(pname, prog, cfg, drain=40):
  """-> observation dict: out (proc2mngr values the sink received), win (data window words), extra (other changed words),
        left (unconsumed mngr2proc messages), words (assembled text), cycles, timeout, exception"""
  from pymtl3 import DefaultPassGroup
  from examples.ex03_proc.test.harness import TestHarness, assemble
  from examples.ex03_proc.SparseMemoryImage import SparseMemoryImage
  obs = {'out': [], 'win': [], 'extra': [], 'left': -1, 'words': [], 'cycles': 0, 'timeout': False, 'exception': None}
  sink_out = io.StringIO()
  try:
    with contextlib.redirect_stdout(sink_out):
      th = TestHarness(proc_cls(pname), src_delay=cfg[0], sink_delay=cfg[1], mem_stall_prob=cfg[2], mem_latency=cfg[3])
      th.elaborate()
      text = '\n'.join(prog['asm']) + '\n.data\n' + '\n'.join(f'.word {w:#010x}' for w in prog['data']) + '\n'
      img = assemble(text)
      m2p = bytearray()
      for v in prog['inputs']: m2p.extend(struct.pack('<I', v))
      if m2p: img.add_section(SparseMemoryImage.Section('.mngr2proc', 0x13000, m2p))
      th.load(img)
      obs['words'] = [w[0] for w in struct.iter_unpack('<I', bytes(img.get_section('.text').data))]
      n = len(prog['ref']['out'])
      rec = obs['out']
      th.sink.msgs = [None] * (n + 64)
      th.sink.cmp_fn = lambda a, b: (rec.append(int(a)), True)[1]
      th.apply(DefaultPassGroup())
      before = bytes(th.mem.read_mem(0, MEMSZ - 1))
      th.sim_reset()
      limit = 600 + int(prog['ref']['dyn'] * (10 + 8 * cfg[3]) / (1 - cfg[2])) + (n + len(prog['inputs'])) * (cfg[0] + cfg[1] + 2) * 2
      cyc = 0
      while (len(rec) < n or th.src.msgs) and cyc < limit:
        th.sim_tick(); cyc += 1
      obs['timeout'] = cyc >= limit
      for _ in range(drain + 3 * cfg[3] + 2 * cfg[1]): th.sim_tick()
      obs['cycles'] = cyc
      after = bytes(th.mem.read_mem(0, MEMSZ - 1))
      obs['left'] = len(th.src.msgs)
      obs['win'] = [w[0] for w in struct.iter_unpack('<I', after[DATA:DATA + 4 * NDATA] + after[LOW:LOW + 4 * NLOW])]
      if before != after:
        for a in range(0, MEMSZ, 4096):
          if before[a:a + 4096] != after[a:a + 4096]:
            for b in range(a, a + 4096, 4):
              if before[b:b + 4] != after[b:b + 4] and not in_win(b):
                obs['extra'].append((b, struct.unpack('<I', after[b:b + 4])[0]))
  except Exception as e:
    obs['exception'] = f'{type(e).__name__}: {e}'[:300]
  return obs

def obs_key(o):
  return (tuple(o['out']), tuple(o['win']), tuple(o['extra']), o['left'], tuple(o['words']), o['exception'], o['timeout'])

def obs_matches_ref(o, prog):
  r = prog['ref']
  return (o['exception'] is None and not o['timeout'] and o['out'] == r['out'] and o['win'] == r['win'] and not o['extra'] and o['left'] == 0)

def _job(args):
  pname, prog, cfg = args
  return simulate(pname, prog, cfg)

# ---- Coq side
DEFS = '''
Definition N := Z.to_nat.
Definition obs_t := (list Z * list Z * list (Z * Z) * Z)%type.
Definition pcase := (list instr * list Z * list Z * list Z * Z * Z * list obs_t)%type.
Definition final (c : pcase) : state :=
  let '(ins, words, data, inputs, fuel, endpc, obs) := c in run (N fuel) (init_state [(512, words); (8192, data)] inputs).
Definition obs_ok (s : state) (o : obs_t) : bool :=
  let '(out, win, extra, nleft) := o in
  list_eqb (outputs s) out && list_eqb (load_words (mem s) 8192 48 ++ load_words (mem s) 128 32) win
  && forallb (fun av => load4 (mem s) (fst av) =? snd av) extra && (Z.of_nat (length (mngr2proc s)) =? nleft).
Definition model_ok_s (c : pcase) (s : state) : bool :=
  let '(ins, words, data, inputs, fuel, endpc, obs) := c in
  forallb wf_instrb ins && list_eqb (map encode ins) words
  && halted s && (pc s =? endpc) && (endpc =? 512 + 4 * Z.of_nat (length words))
  && mem_within (mem s) [(512, endpc); (8192, 8192 + 192); (128, 256)] && list_eqb (load_words (mem s) 512 (length words)) words.
Definition model_ok (c : pcase) : bool := model_ok_s c (final c).
Definition case_ok (c : pcase) : bool :=
  let '(ins, words, data, inputs, fuel, endpc, obs) := c in
  let s := final c in model_ok_s c s && forallb (obs_ok s) obs.
'''
def obs_term(o):
  return (f'({coq_list(map(zlit, o["out"]))}, {coq_list(map(zlit, o["win"]))}, '
          f'{coq_list(f"({zlit(a)}, {zlit(v)})" for a, v in o["extra"])}, {zlit(o["left"])})')

def case_term(prog, words, observations):
  r = prog['ref']
  return (f'({coq_list(map(coq_instr, prog["ins"]))},\n {coq_list(map(zlit, words))},\n {coq_list(map(zlit, prog["data"]))},\n '
          f'{coq_list(map(zlit, prog["inputs"]))}, {r["dyn"] + 8}, {r["end"]},\n {coq_list(map(obs_term, observations))})')

def coq_judge(ctx, name, items):
  """items: list of (prog, words, [observations]) -> list of bad indices"""
  cases = [case_term(p, w, o) for p, w, o in items]
  return ctx.coq_bad_indices(name, IMPORTS, DEFS, 'pcase', cases, 'case_ok c', shard=25), cases

def coq_reference(ctx, prog, words):
  """what the Coq ISA interpreter computes for this program (for the report)"""
  t = case_term(prog, words, [])
  v = ctx.coq_eval('ref', IMPORTS, DEFS, [f"let c := {t} in let s := final c in let '(ins, words, _, _, _, _, _) := c in "
                                          "(model_ok c, pc s, outputs s, load_words (mem s) 8192 48 ++ load_words (mem s) 128 32, Z.of_nat (length (mngr2proc s)), "
                                          "bad_indices (fun p => encode (fst p) =? snd p) (combine ins words))"])
  return v[0]

# ---- shrinking (python reference steers, Coq confirms)
def tree_candidates(body):
  """smaller bodies: drop one node, or replace an if/loop by its body, at any depth"""
  for k in range(len(body)):
    yield body[:k] + body[k + 1:]
    nd = body[k]
    if nd[0] in ('if', 'loop'):
      yield body[:k] + nd[-1] + body[k + 1:]
      for sub in tree_candidates(nd[-1]):
        yield body[:k] + [nd[:-1] + (sub,)] + body[k + 1:]

def tree_size(body):
  return sum(1 + (tree_size(nd[-1]) if nd[0] in ('if', 'loop') else 0) for nd in body)

def shrink(tree, data, inputs, pname, cfg, budget=150):
  pro, body, epi = tree
  seed_inputs = list(inputs)
  def fails(b):
    try:
      p = build((pro, b, epi), data, seed_inputs, rng=__import__('random').Random(1))
    except GenSimError:
      return None
    o = simulate(pname, p, cfg)
    return None if obs_matches_ref(o, p) else (p, o)
  cur = fails(body)
  if cur is None: return None
  spent, progress = 0, True
  while progress and spent < budget:
    progress = False
    # big chunks first
    n = len(body)
    for frac in (2, 4):
      step = max(1, n // frac)
      for st in range(0, n, step):
        if spent >= budget: break
        cand = body[:st] + body[st + step:]
        if len(cand) == len(body): continue
        spent += 1
        r = fails(cand)
        if r: body, cur, progress = cand, r, True; break
      if progress: break
    if progress: continue
    for cand in tree_candidates(body):
      if spent >= budget: break
      spent += 1
      r = fails(cand)
      if r: body, cur, progress = cand, r, True; break
  # the epilogue's register dump can usually go as well
  for k in range(len(epi) - 1, -1, -1):
    if spent >= budget + 40: break
    e2 = epi[:k] + epi[k + 1:]
    try:
      p = build((pro, body, e2), data, seed_inputs, rng=__import__('random').Random(1))
    except GenSimError: continue
    spent += 1
    o = simulate(pname, p, cfg)
    if not obs_matches_ref(o, p): epi, cur = e2, (p, o)
  # prologue initialisations of registers nothing reads any more (never the base pointer)
  def reads(i):
    return {'add': (2, 3), 'and': (2, 3), 'sll': (2, 3), 'srl': (2, 3), 'addi': (2,), 'lw': (2,), 'sw': (1, 2), 'bne': (1, 2), 'csrw': (1,), 'xw': (1,)}.get(i[0], ())
  for k in range(len(pro) - 1, 0, -1):
    if spent >= budget + 80: break
    rd = pro[k][1][1]
    rest = [i for i in flatten(pro[:k] + pro[k + 1:] + body + epi) if i[0] != 'L']
    if pro[k][1][0] == 'xw':
      if any(i[0] == 'xr' for i in rest): continue
    elif any(i[j] == rd for i in rest for j in reads(i)): continue
    p2 = pro[:k] + pro[k + 1:]
    try:
      p = build((p2, body, epi), data, seed_inputs, rng=__import__('random').Random(1))
    except GenSimError: continue
    spent += 1
    o = simulate(pname, p, cfg)
    if not obs_matches_ref(o, p): pro, cur = p2, (p, o)
  return (pro, body, epi), cur[0], cur[1]

def describe(o, prog):
  r = prog['ref']
  if o['exception']: return 'raised ' + o['exception']
  bits = []
  if o['timeout']: bits.append(f'no progress within the cycle limit ({o["cycles"]} cycles): received {len(o["out"])} of {len(r["out"])} proc2mngr messages')
  if o['out'] != r['out']:
    k = next((j for j, (a, b) in enumerate(zip(o['out'], r['out'])) if a != b), min(len(o['out']), len(r['out'])))
    bits.append(f'proc2mngr message #{k}: got {hex(o["out"][k]) if k < len(o["out"]) else "nothing"}, ISA gives {hex(r["out"][k]) if k < len(r["out"]) else "nothing (extra message)"}')
  if o['win'] != r['win']:
    k = next(j for j, (a, b) in enumerate(zip(o['win'], r['win'])) if a != b)
    bits.append(f'memory word at {win_addr(k):#x}: got {o["win"][k]:#x}, ISA gives {r["win"][k]:#x}')
  if o['extra']: bits.append(f'memory changed outside the data window: {[(hex(a), hex(v)) for a, v in o["extra"][:4]]}')
  if o['left'] not in (0,): bits.append(f'{o["left"]} mngr2proc messages left unconsumed')
  return '; '.join(bits) or 'agrees with the generator-side interpreter (only the Coq model disagrees)'

def report(ctx, tree, prog, words, pname, cfg, o):
  cfgd = dict(zip(CONFIG_KEYS, cfg))
  small = None
  try:
    small = shrink(tree, prog['data'], prog['inputs'], pname, cfg)
  except Exception as e:
    ctx.note(f'shrinking crashed: {e!r}'[:300])
  p2, o2, t2 = prog, o, tree
  if small:
    t2, p2, o2 = small
    try:
      bad, _ = coq_judge(ctx, 'shrunk', [(p2, o2['words'], [o2])])
      if not bad: p2, o2, t2 = prog, o, tree           # Coq does not confirm the shrunk case: report the original
    except Exception as e:
      ctx.note(f'coq confirmation of the shrunk program failed to run: {e!r}'[:300]); p2, o2, t2 = prog, o, tree
  try: coqref = coq_reference(ctx, p2, o2['words'] or words)
  except Exception as e: coqref = f'(coq_eval failed: {e!r})'[:300]
  what = describe(o2, p2)
  key = f'C20:{pname}:' + hashlib.sha1(repr((p2['ins'], p2['data'], p2['inputs'], cfg)).encode()).hexdigest()[:12]
  ctx.violation(key, f'{pname} under {cfgd} disagrees with the TinyRV0 ISA on a {len(p2["ins"])}-instruction program: {what}',
                {'proc': pname, 'config': cfgd, 'asm': p2['asm'], 'ins': p2['ins'], 'data': p2['data'], 'mngr2proc_inputs': p2['inputs'],
                 'observed_proc2mngr': o2['out'], 'observed_data_window': o2['win'], 'observed_other_changes': o2['extra'],
                 'observed_unconsumed_inputs': o2['left'], 'exception': o2['exception'], 'timeout': o2['timeout'],
                 'isa_proc2mngr (generator-side interpreter)': p2['ref']['out'], 'isa_data_window (generator-side interpreter)': p2['ref']['win'],
                 'coq (model_ok, pc, outputs, data window, unconsumed inputs, indices of instructions whose Coq encoding differs from the assembled word)': coqref,
                 'original_program_instructions': len(prog['ins'])})

def run_procs(ctx):
  rng = ctx.rng
  quick = ctx.tier == 'quick'
  nprog = 100 if quick else 1000
  ncfg = 3
  progs = []
  for k in range(nprog):
    prng = __import__('random').Random(rng.getrandbits(64))
    size = prng.choice([10, 25, 50, 80, 120, 160])
    far = None
    if prng.random() < 0.2:
      kind = prng.choice(['if', 'if', 'loop'])
      far = (kind, prng.choice(FAR_SIZES + ([1021, 1022] + ([1023] if kind == 'loop' else []) if not quick else [])))   # +4092 / -4096 are the extreme offsets
      size = prng.choice([6, 12, 25])
    for attempt in range(20):
      tree = gen_tree(prng, size, far)
      data = gen_data(prng)
      try:
        prog = build(tree, data, [DATA], prng)
      except GenSimError:
        continue
      if prog['ref']['dyn'] <= 3000: break
    else:
      raise RuntimeError('generator could not produce a legal terminating program')
    cfgs = [gen_config(prng, 'fast')] + [gen_config(prng, 'any') for _ in range(ncfg - 1)]
    progs.append((tree, prog, cfgs))
  jobs = [(pn, prog, cfg) for tree, prog, cfgs in progs for cfg in cfgs for pn in PROCS]
  t0 = time.time()
  nw = min(8, max(2, (os.cpu_count() or 4) // 2))
  with multiprocessing.get_context('fork').Pool(nw) as pool:
    results = pool.map(_job, jobs, chunksize=1)
  ctx.extra['simulation_wall_s'] = round(time.time() - t0, 1)
  ctx.extra['simulations'] = len(jobs)
  # group per program: distinct observations go to Coq
  items, index, ptr = [], [], 0
  feats = {}
  for tree, prog, cfgs in progs:
    runs = []
    for cfg in cfgs:
      for pn in PROCS:
        runs.append((pn, cfg, results[ptr])); ptr += 1
    for k, v in prog['ref']['feats'].items(): feats[k] = feats.get(k, 0) + v
    words = next((o['words'] for _, _, o in runs if o['words']), [])
    distinct = {}
    for pn, cfg, o in runs:
      if o['exception'] is None and not o['timeout'] and o['words'] == words:
        distinct.setdefault(obs_key(o), o)
      ctx.count((tuple(prog['ins']), tuple(prog['data']), tuple(prog['inputs']), pn, cfg), True,
                cls=f'{pn}:lat{cfg[3]}:stall{cfg[2]}')
    items.append((prog, words, list(distinct.values())))
    index.append((tree, prog, words, runs))
  ctx.extra['program_features_total (dynamic events over all programs)'] = dict(sorted(feats.items()))
  ctx.extra['programs'] = len(progs)
  ctx.extra['dynamic_instructions_total'] = sum(p['ref']['dyn'] for _, p, _ in progs)
  bad, cases = coq_judge(ctx, 'procs', items)
  badset = set(bad)
  reported = 0
  for k, (tree, prog, words, runs) in enumerate(index):
    culprits = [(pn, cfg, o) for pn, cfg, o in runs if not obs_matches_ref(o, prog) or o['words'] != words]
    if k in badset or culprits:
      if not culprits:
        # every processor agrees with the generator-side interpreter but the Coq model does not accept the case
        try: coqref = coq_reference(ctx, prog, words)
        except Exception as e: coqref = repr(e)[:300]
        ctx.violation('C20:model:' + hashlib.sha1(cases[k].encode()).hexdigest()[:12],
                      'the Coq ISA model disagrees with ProcFL, ProcCL, ProcRTL and the generator-side interpreter (encoding or semantics; last component = indices of instructions whose Coq encoding differs from the assembled word): ' + coqref[-200:],
                      {'asm': prog['asm'], 'data': prog['data'], 'mngr2proc_inputs': prog['inputs'], 'assembled_words': words,
                       'observed_proc2mngr': runs[0][2]['out'], 'coq': coqref, 'coq_case': cases[k][:6000]}, found_input=False)
        continue
      hard = [c for c in culprits if c[2]['exception'] or c[2]['timeout'] or c[2]['words'] != words]
      if k not in badset and not hard:
        ctx.note(f'program {k}: generator-side interpreter disagrees with {culprits[0][0]} but Coq accepts the observation (interpreter bug?)')
        continue
      if k not in badset: culprits = hard     # exceptions / cycle-limit hits / different assembled words never reach Coq: reported directly
      seen = set()
      for pn, cfg, o in culprits:
        if pn in seen or reported >= 6: continue
        seen.add(pn); reported += 1
        report(ctx, tree, prog, words, pn, cfg, o)
  k = len(index) // 2
  tree, prog, words, runs = index[k]
  ctx.sample({'kind': 'processor program', 'instructions': len(prog['ins']), 'dynamic': prog['ref']['dyn'], 'asm_head': prog['asm'][:12],
              'configs': [dict(zip(CONFIG_KEYS, c)) for c in sorted({c for _, c, _ in runs})], 'proc2mngr': [hex(v) for v in prog['ref']['out'][:10]],
              'cycles': {f'{pn}@{cfg}': o['cycles'] for pn, cfg, o in runs}})
  ctx.sample({'kind': 'coq case (truncated)', 'term': cases[0][:1500]})

def run(ctx):
  setup_impl_path()
  run_cksum(ctx)
  run_encoding(ctx)
  run_procs(ctx)

def replay(ctx, r):
  """./check C20 --replay file : re-run the recorded program/configuration on the current tree and let Coq judge it"""
  setup_impl_path()
  rp = r['replay']
  if 'words' in rp and 'ins' not in rp:                       # checksum case
    from pymtl3 import b16
    from examples.ex02_cksum.ChecksumFL import checksum
    from examples.ex02_cksum.utils import words_to_b128
    ws = rp['words']; fl = int(checksum([b16(w) for w in ws])); msg = int(words_to_b128([b16(w) for w in ws]))
    v = ctx.coq_eval('ck', IMPORTS, '', [f'(cksum_spec {coq_list(map(zlit, ws))}, snd (pack_words {coq_list(map(zlit, ws))}))'])
    print(f'REPLAY checksum {ws}: ChecksumFL={fl} words_to_b128={msg} Coq (spec, message)={v[0]}  '
          '(CL/RTL simulations are re-run by ./check C20, cases are regenerated from the seed)')
    shutil.rmtree(ctx.scratch, ignore_errors=True)
    return 0 if v[0].replace(' ', '') == f'({fl},{msg})' else 1
  if 'ins' not in rp and 'asm' in rp and isinstance(rp['asm'], str):   # encoding case
    from examples.ex03_proc.tinyrv0_encoding import assemble_inst
    w = int(assemble_inst({}, 0x200, rp['asm']))
    v = ctx.coq_eval('enc1', IMPORTS, '', [f'decode {zlit(w)}'])
    print(f'REPLAY encoding "{rp["asm"]}": assembler gives {w:#010x} (recorded {rp.get("assembled")}), Coq decodes it as {v[0]}')
    shutil.rmtree(ctx.scratch, ignore_errors=True)
    return 0
  if 'ins' not in rp:
    print('nothing to re-run for this replay file; run ./check C20'); return 0
  ins = [tuple(i) for i in rp['ins']]
  cfgd = rp['config']; cfg = tuple(cfgd[k] for k in CONFIG_KEYS)
  ref = gensim(ins, rp['data'], rp['mngr2proc_inputs'])
  prog = {'ins': ins, 'asm': rp['asm'], 'data': rp['data'], 'inputs': rp['mngr2proc_inputs'], 'ref': ref}
  rc = 0
  for pn in PROCS:
    o = simulate(pn, prog, cfg)
    bad, _ = coq_judge(ctx, 'replay', [(prog, o['words'], [o])]) if not (o['exception'] or o['timeout']) else ([0], None)
    print(f'REPLAY {pn} {cfgd}:', ('still failing: ' + describe(o, prog)) if bad else 'agrees with the Coq ISA model on this tree')
    if bad and pn == rp.get('proc'): rc = 1
  shutil.rmtree(ctx.scratch, ignore_errors=True)
  return rc

def main(ctx):
  ctx.trusted += ['pymtl3 simulation kernel (DefaultPassGroup), TestSrcCL/TestSinkCL (the sink is given a recording cmp_fn), MagicMemoryCL, '
                  'the ex03 TestHarness and the repo assembler tinyrv0_encoding.assemble (its output words are what every model executes; they are compared with the Coq encoder)',
                  'harness/c20.py program generator and its generator-side interpreter GenSim (legal addresses, number of messages to wait for, fuel, shrinking); the verdict is Coq\'s']
  ctx.assumptions += [
    'NOT PROVED: ProcCL / ProcRTL (5-stage pipeline with bypass/stall/squash) refine TinyRV0.step; this rests on the differential runs of this harness against the Coq ISA model',
    'Lib/TinyRV0.v is our reading of tinyrv0-isa.md: csrr encodes rs1=x0 and csrw encodes rd=x0 (the document\'s pseudo-instruction mapping); behaviours the document '
    'calls undefined/stalling/accelerator-specific (unaligned or >1MB accesses, csr numbers other than 0x7C0 write / 0xFC0 read, empty mngr2proc) make step = None and are not generated',
    'registers are initialised by the program before use (the ISA document does not define reset values); the model starts them at 0 like all three processors',
    'programs end by running into zero memory (not an instruction: the Coq run stops there); the processors are observed until the expected number of proc2mngr messages '
    'arrived plus a drain window of >= 40 cycles, so extra messages / late stores within that window are seen, later ones are not',
    'accelerator registers (csr 0x7E0-0x7FF): the ISA document makes them transactions with an accelerator whose semantics it leaves open; the Coq model is instantiated with '
    'the NullXcelRTL the ex03 TestHarness attaches (one register: any write stores, any read returns it; modelled from NullXcel.py, not from the ISA document), '
    'so for these instructions "agree with the ISA" means FL = CL = RTL = ISA-with-NullXcel; programs write the accelerator before the first read',
    'two data windows are observed in full: 48 words at 0x2000 and 32 words at 0x80 (zero at start; reached through base+displacement sums that wrap past 2^32 as well as directly); every other changed word of the 1MB memory is reported too',
    'self-modifying code and the MUL instruction (not in this ISA document) are outside the generated programs',
    'timing configurations use the TestHarness parameters as they are (src_delay and sink_delay are both the initial and the interval delay; stall seeds are fixed by MagicMemoryCL)',
    'checksum CL/RTL units are simulated through TestSrcCL/TestSinkCL with 2 (quick) or 4 (thorough) delay settings; the FL/RTL/spec equality itself is a theorem for all inputs']
  ctx.build_props(extra_models=['theories/Lib/Cksum.vo', 'theories/Lib/TinyRV0.vo'])
  try:
    run(ctx)
  except Exception as e:
    ctx.note('correspondence crashed: ' + traceback.format_exc()[-1500:])
    ctx.violation('C20:harness-crash', f'correspondence could not run: {e!r}', {'traceback': traceback.format_exc()}, found_input=False)
  return ctx.finish(rule='(a) checksum: 21 boundary + random 8-tuples of 16-bit words through ChecksumFL.checksum, simulated ChecksumCL and ChecksumRTL (several src/sink delays), '
                         'utils.words_to_b128/b128_to_words, each compared inside Coq with cksum_fl / cksum_rtl / pack_words; '
                         '(b) processors: random structured terminating TinyRV0 programs (prologue initialising a random register pool, body of ALU/addi/lw/sw/csrr/csrw/nop with '
                         'sources biased to the last 3 destinations, forward bne with 1-4 shadow instructions rich in sw/csrw/csrr/lw, counted loops nested <= 2, pointer chasing through '
                         'pointer slots, csr bursts, epilogue dumping the pool) x timing configurations (one fast, others latency 1-5 / stall 0,0.3,0.7 / src,sink delay 0-4) x '
                         '{ProcFL, ProcCL, ProcRTL}; one evaluation = one simulation; distinct = distinct (program, data, inputs, processor, configuration); all are non-trivial '
                         '(every program executes loads, stores, branches and csr traffic; dynamic feature counts are in coverage); the Coq ISA interpreter `run` judges each '
                         'program\'s distinct observations by vm_compute',
                    level='proof',
                    explanation='checksum half: full proof; processor half: partial — ISA model facts are proved, processor == ISA is differential (see assumptions)')
