"""C05 — slices, concat, extension, reduce, clog2 address exactly the named bits.

proof  : Props/C05.v (generated __getitem__/__setitem__/clog2 == spec for every index in Z^2 and every step;
         spec == bit-level definition; helpers model == bit-level definitions)
tie    : T-gen for PythonBits.__getitem__/__setitem__ and helpers.clog2; T-diff (below) for everything,
         which is also the witness search when a proof obligation breaks.
"""
from common import *

def run(ctx):
  setup_impl_path()
  from pymtl3.datatypes import Bits, mk_bits, concat, zext, sext, trunc, clog2, reduce_and, reduce_or, reduce_xor
  rng = ctx.rng
  quick = ctx.tier == 'quick'

  def res_bits(fn):
    try: r = fn()
    except Exception as e: return f'Err {err_class(e)}'
    return f'Ok ({r.nbits}, {zlit(int(r._uint))})'

  # ---------------- __getitem__ ----------------
  g_cases, g_meta = [], []
  def idx_term(i):
    if i[0] == 'int': return f'(IInt {zlit(i[1])})'
    return f'(ISlice {optz(i[1])} {optz(i[2])} {optz(i[3])})'
  def mk_idx(i, as_bits=False):
    if i[0] == 'int': return i[1]
    def b(x):
      if as_bits and x is not None and 0 <= x < 16: return Bits(4, x)
      return x
    return slice(b(i[1]), b(i[2]), i[3])
  def add_get(n, u, i, as_bits=False):
    x = Bits(n, u)
    t = res_bits(lambda: x[mk_idx(i, as_bits)])
    if t.startswith('Ok'):
      # the value read must be a NEW object: updating either one in place must not show in the other
      y = x[mk_idx(i, as_bits)]
      if y is x:
        ctx.violation(f'C05:getitem-alias:{i[0]}', f'Bits{n}({u})[{i}] returns the object itself, not a copy: an in-place update of one changes the other', {'n': n, 'u': u, 'idx': i})
      else:
        before = int(x._uint); y @= (int(y._uint) ^ 1)
        if int(x._uint) != before:
          ctx.violation(f'C05:getitem-alias:{i[0]}', f'updating the value read from Bits{n}({u})[{i}] in place changed the source', {'n': n, 'u': u, 'idx': i})
    g_cases.append(f'({n}, {zlit(u)}, {idx_term(i)}, {t})'); g_meta.append(f'Bits{n}({u})[{i}]')
    ctx.count(('get', n, u, i), True, cls='get:' + i[0] + (':err' if t.startswith('Err') else ':ok'))

  small = [1, 2, 3, 5, 8] if quick else [1, 2, 3, 4, 5, 6, 7, 8, 9, 12]
  for n in small:
    us = sorted({0, (1 << n) - 1, rng.getrandbits(n), rng.getrandbits(n)})
    for u in us[:3 if quick else 4]:
      bounds = [None] + list(range(-2, n + 3))
      for lo in bounds:
        for hi in bounds:
          add_get(n, u, ('slice', lo, hi, None))
      for k in range(-n - 2, n + 3): add_get(n, u, ('int', k))
      for st in (0, 1, 2, -1):
        add_get(n, u, ('slice', 0, n, st)); add_get(n, u, ('slice', None, None, st)); add_get(n, u, ('slice', 1, 0, st))
      add_get(n, u, ('slice', 0, min(n, 15), None), as_bits=True)
      if n >= 2: add_get(n, u, ('slice', 1, min(n, 15), None), as_bits=True)
  for n in ([16, 32, 33, 64, 65, 128, 256, 1023] if quick else [16, 31, 32, 33, 63, 64, 65, 127, 128, 255, 256, 512, 1022, 1023]):
    for u in [rng.getrandbits(n), (1 << n) - 1]:
      pts = sorted({-1, 0, 1, n // 2, n - 1, n, n + 1})
      for lo in pts + [None]:
        for hi in pts + [None]:
          add_get(n, u, ('slice', lo, hi, None))
      for k in pts: add_get(n, u, ('int', k))
  bad = ctx.coq_bad_indices('get', 'Base.Prelude Bits.BitsSpec', '', 'Z * Z * pyidx * res (Z * Z)', g_cases,
                            "let '(n, u, i, e) := c in res_eqb pair_eqb (spec_getitem n u i) e")
  for i in bad[:15]:
    exp = ctx.coq_eval('gexp', 'Base.Prelude Bits.BitsSpec', '', ["(fun c : Z * Z * pyidx * res (Z * Z) => let '(n, u, i, e) := c in spec_getitem n u i) " + g_cases[i]])
    ctx.violation(f'C05:getitem:{g_meta[i]}', f'{g_meta[i]}: implementation gives {g_cases[i].rsplit(", ", 1)[-1][:-1][:100]}, spec gives {exp[0][:100]}',
                  {'case': g_meta[i], 'coq_case': g_cases[i], 'spec': exp[0]})
  ctx.sample({'kind': 'getitem', 'case': g_meta[7], 'coq': g_cases[7]})

  # ---------------- __setitem__ ----------------
  s_cases, s_meta = [], []
  def operand_term(o):
    if o[0] == 'bits': return f'(OBits {o[1]} {zlit(o[2])})'
    if o[0] == 'int': return f'(OInt {zlit(o[1])})'
    return 'OOther'
  def add_set(n, u, i, o):
    x = Bits(n, u)
    v = Bits(o[1], o[2]) if o[0] == 'bits' else (o[1] if o[0] == 'int' else None)
    try:
      x[mk_idx(i)] = v
      t = f'Ok {zlit(int(x._uint))}'
      if not (0 <= x._uint < (1 << n)):
        ctx.violation(f'C05:setitem-range:{n}:{u}:{i}:{o}', f'Bits{n}({u})[{i}] = {o} leaves stored value {x._uint} out of range',
                      {'n': n, 'u': u, 'idx': i, 'value': o, 'observed': int(x._uint)})
    except Exception as e:
      t = f'Err {err_class(e)}'
      if x._uint != u:
        ctx.violation(f'C05:setitem-partial:{n}:{u}:{i}:{o}', f'failed assignment modified the value', {'n': n, 'u': u, 'idx': i, 'value': o})
    s_cases.append(f'({n}, {zlit(u)}, {idx_term(i)}, {operand_term(o)}, {t})'); s_meta.append(f'Bits{n}({u})[{i}] = {o}')
    ctx.count(('set', n, u, i, o), True, cls='set:' + i[0] + ':' + o[0] + (':err' if t.startswith('Err') else ':ok'))
  for n in ([1, 2, 3, 5, 8] if quick else [1, 2, 3, 4, 5, 6, 8, 11]):
    for u in sorted({0, (1 << n) - 1, rng.getrandbits(n)}):
      bounds = [None] + list(range(-1, n + 2))
      for lo in bounds:
        for hi in bounds:
          l = 0 if lo is None else lo; h = n if hi is None else hi
          w = h - l
          vs = [('int', 0), ('int', 1), ('int', -1)]
          if 1 <= w <= 1023:
            vs += [('bits', w, rng.getrandbits(w)), ('bits', w, (1 << w) - 1), ('int', (1 << w) - 1), ('int', 1 << w), ('int', -(1 << (w - 1))),
                   ('int', -(1 << (w - 1)) - 1), ('bits', w + 1, 1)]
            if w > 1: vs.append(('bits', w - 1, 0))
          else:
            vs += [('bits', 1, 1)]
          for o in vs: add_set(n, u, ('slice', lo, hi, None), o)
      for k in range(-2, n + 2):
        for o in [('int', 0), ('int', 1), ('int', -1), ('int', 2), ('int', -2), ('bits', 1, 1), ('bits', 1, 0), ('bits', 2, 1), ('other',)]:
          add_set(n, u, ('int', k), o)
      add_set(n, u, ('slice', 0, n, 1), ('int', 0)); add_set(n, u, ('slice', 0, n, 0), ('int', 0))
  for n in [32, 64, 65, 256, 1023]:
    u = rng.getrandbits(n)
    pts = sorted({0, 1, n // 2, n - 1, n})
    for lo in pts:
      for hi in pts + [n + 1]:
        w = hi - lo
        vs = [('int', 1)]
        if 1 <= w <= 1023: vs += [('bits', w, rng.getrandbits(w)), ('int', (1 << w) - 1), ('int', 1 << w), ('bits', min(1023, w + 1), 0)]
        for o in vs: add_set(n, u, ('slice', lo, hi, None), o)
  bad = ctx.coq_bad_indices('set', 'Base.Prelude Bits.BitsSpec', '', 'Z * Z * pyidx * operand * res Z', s_cases,
                            "let '(n, u, i, v, e) := c in res_eqb Z.eqb (bind (spec_setitem n u 0 i v) (fun r => Ok (snd (fst r)))) e")
  for i in bad[:15]:
    exp = ctx.coq_eval('sexp', 'Base.Prelude Bits.BitsSpec', '', ["(fun c : Z * Z * pyidx * operand * res Z => let '(n, u, i, v, e) := c in bind (spec_setitem n u 0 i v) (fun r => Ok (snd (fst r)))) " + s_cases[i]])
    ctx.violation(f'C05:setitem:{s_meta[i]}', f'{s_meta[i]}: implementation gives {s_cases[i].rsplit(", ", 1)[-1][:-1][:100]}, spec gives {exp[0][:100]}',
                  {'case': s_meta[i], 'coq_case': s_cases[i], 'spec': exp[0]})
  ctx.sample({'kind': 'setitem', 'case': s_meta[11], 'coq': s_cases[11]})

  # ---------------- helpers ----------------
  h_cases, h_meta = [], []
  def add_h(term, what, cls):
    h_cases.append(term); h_meta.append(what); ctx.count(what, True, cls=cls)
  # concat
  for trial in range(120 if quick else 600):
    k = rng.choice([1, 2, 2, 3, 4, 6])
    ws = [rng.choice([1, 1, 2, 3, 8, 16, 31, 32, 64, 100, 255, 300]) for _ in range(k)]
    if trial % 10 == 0: ws = [512, 511] + ([1] if trial % 20 == 0 else [])      # around the 1024 limit
    xs = [(w, rng.choice([0, (1 << w) - 1, rng.getrandbits(w)])) for w in ws]
    t = res_bits(lambda: concat(*[Bits(w, u) for w, u in xs]))
    add_h('(HConcat ' + coq_list([f'({w}, {zlit(u)})' for w, u in xs]) + f', {t})', f'concat{xs}', 'concat' + (':err' if t.startswith('Err') else ''))
  # trunc / zext / sext
  for fn, tag in ((trunc, 'HTrunc'), (zext, 'HZext'), (sext, 'HSext')):
    for n in [1, 2, 7, 8, 16, 33, 64, 255, 512, 1023]:
      for u in {0, (1 << n) - 1, 1 << (n - 1), rng.getrandbits(n)}:
        for w in sorted({1, max(1, n - 1), n, n + 1, 2 * n, 1023, 1024}):
          x = Bits(n, u)
          t = res_bits(lambda: fn(x, w))
          add_h(f'({tag} {n} {zlit(u)} {w} false, {t})', f'{fn.__name__}(Bits{n}({u}), {w})', fn.__name__ + (':err' if t.startswith('Err') else ''))
          if 1 <= w <= 1023:
            T = mk_bits(w)
            t = res_bits(lambda: fn(x, T))
            add_h(f'({tag} {n} {zlit(u)} {w} true, {t})', f'{fn.__name__}(Bits{n}({u}), Bits{w})', fn.__name__ + ':type' + (':err' if t.startswith('Err') else ''))
  # reduce
  for fn, tag in ((reduce_and, 'HRand'), (reduce_or, 'HRor'), (reduce_xor, 'HRxor')):
    for n in [1, 2, 3, 8, 31, 32, 33, 64, 65, 257, 1023]:
      for u in {0, 1, (1 << n) - 1, (1 << n) - 2 if n > 1 else 0, 1 << (n - 1), rng.getrandbits(n), rng.getrandbits(n)}:
        r = fn(Bits(n, u))
        add_h(f'({tag} {n} {zlit(u)}, Ok ({r.nbits}, {zlit(int(r._uint))}))', f'{fn.__name__}(Bits{n}({u}))', fn.__name__)
  # clog2
  Ns = set(range(-1, 70))
  for k in list(range(1, 80)) + [100, 127, 128, 255, 256, 511, 512, 1000, 1023, 1024, 1100]:
    Ns |= {(1 << k) - 1, 1 << k, (1 << k) + 1}
  for _ in range(200): Ns.add(rng.getrandbits(rng.randrange(1, 400)))
  for N in sorted(Ns):
    try: t = f'Ok {zlit(clog2(N))}'
    except Exception as e: t = f'Err {err_class(e)}'
    add_h(f'(HClog2 {zlit(N)}, match {t} with Ok z => Ok (0, z) | Err e => Err e end)', f'clog2({N})', 'clog2' + (':err' if t.startswith('Err') else ''))
  defs = '''
Inductive hk := HConcat (xs : list (Z * Z)) | HTrunc (n u w : Z) (ty : bool) | HZext (n u w : Z) (ty : bool)
              | HSext (n u w : Z) (ty : bool) | HRand (n u : Z) | HRor (n u : Z) | HRxor (n u : Z) | HClog2 (N : Z).
Definition runh (k : hk) : res (Z * Z) :=
  match k with
  | HConcat xs => h_concat xs | HTrunc n u w t => h_trunc n u w t | HZext n u w t => h_zext n u w t
  | HSext n u w t => h_sext n u w t | HRand n u => Ok (h_reduce_and n u) | HRor n u => Ok (h_reduce_or n u)
  | HRxor n u => Ok (h_reduce_xor n u) | HClog2 N => bind (h_clog2 N) (fun z => Ok (0, z))
  end.
'''
  bad = ctx.coq_bad_indices('h', 'Base.Prelude Bits.BitsSpec Bits.Helpers', defs, 'hk * res (Z * Z)', h_cases,
                            "res_eqb pair_eqb (runh (fst c)) (snd c)", shard=250)
  for i in bad[:15]:
    exp = ctx.coq_eval('hexp', 'Base.Prelude Bits.BitsSpec Bits.Helpers', defs, ["runh (fst ((" + h_cases[i] + ") : hk * res (Z * Z)))"])
    ctx.violation(f'C05:helpers:{h_meta[i]}', f'{h_meta[i]}: implementation gives {h_cases[i].rsplit(", ", 1)[-1][:-1][:100]}, model gives {exp[0][:100]}',
                  {'case': h_meta[i], 'coq_case': h_cases[i], 'model': exp[0]})
  ctx.sample({'kind': 'helpers', 'case': h_meta[0], 'coq': h_cases[0]})
  ctx.sample({'kind': 'helpers', 'case': h_meta[-1], 'coq': h_cases[-1]})
  ctx.extra.update({'cases_getitem': len(g_cases), 'cases_setitem': len(s_cases), 'cases_helpers': len(h_cases)})

def main(ctx):
  ctx.trusted += ['translators/py2coq_bits.py (PythonBits.__getitem__/__setitem__ and helpers clog2/trunc/zext/sext/reduce_and/reduce_or are generated; concat and reduce_xor (loops) are hand-modelled in Bits/Helpers.v and tied by T-diff only; the BitsN class template in bits_import.py is pinned textually)',
                  'Python int <-> Coq Z operator identities']
  ctx.assumptions += ['a slice step of 0 is treated like "no step" (Python truthiness; it selects exactly the named bits)',
                      'the BitsN-type form of trunc/zext/sext has no assertion guard in the code; the model mirrors that']
  ctx.build_props(gen_cmds=[[PY, 'translators/py2coq_bits.py', str(REPO), 'coq/theories/Gen/BitsGen.v']],
                  extra_models=['theories/Bits/BitsSpec.vo', 'theories/Bits/Helpers.vo'])
  try:
    run(ctx)
  except Exception as e:
    ctx.note('correspondence crashed: ' + traceback.format_exc()[-1500:])
    ctx.violation('C05:harness-crash', f'correspondence could not run: {e!r}', {'traceback': traceback.format_exc()}, found_input=False)
  return ctx.finish(rule='getitem/setitem: ALL (lo,hi) in ([-2,n+2] + None)^2 for small n, boundary grid for large n, bit indices, steps {0,1,2,-1}, '
                         'Bits-typed bounds, values of every fitting/unfitting width; helpers: random and boundary concat lists, ext/trunc widths around n, '
                         'reduce on boundary values, clog2 on 2^k-1,2^k,2^k+1 (k<=1100) and random N; distinct = distinct input tuples, all non-trivial')
