"""C08 — connected signals form single-writer nets independent of connect order.

theorems (Props/C08.v; models Elab/Nets.v, Elab/Writers.v; proofs Elab/NetsProofs.v, Elab/WritersProofs.v):
  C08_components_spec / _class     "nets are exactly the connected components of the connection graph": the executable
                                   `components` (union by merging over the statement list) puts two nodes into one class
                                   iff they are related by the refl-sym-trans closure of the statements (unbounded)
  C08_components_partition         classes are non-empty, pairwise disjoint and cover all connected signals
  C08_components_order_indep       "permuting the statements or swapping the two sides of any statement yields the same
                                   nets": invariance as a set of sets under Permutation + flip_some (and repeated statements)
  C08_nets_ok_sound                acceptor: nets_ok edges observed = true -> the observed nets are exactly the classes
  C08_drivers_function_of_set / C08_drivers_order_indep
                                   "...and the same writers": the driver set of a net (constant, or shares a bit with an
                                   update-block write / top-level input / reader side of another net: ancestor, descendant
                                   and overlapping-sibling cases are all bit overlap) is a function of the net as a set
  C08_writer_ok_sound / C08_no_second_driver_bit
                                   "names for each net exactly one writer": acceptor on pymtl3's (writer, net) list in its
                                   resolution order: writer is a member, is justified (least fixed point), and no other
                                   member is a constant or shares a bit with anything driven outside the net
  C08_net_drives_no_bit_twice      acceptor net_disjoint_ok: the readers of one net denote pairwise disjoint bits (none of them the
                                   writer's, none wider than the writer)
  C08_net_values                   "in simulation every member of a net carries the writer's value": for an accepted net the net
                                   block (copy the writer's bits onto each reader in turn, any order) makes every reader equal to
                                   the writer and leaves the writer untouched (model of the generated net block)
tie (T-acc + T-diff): random hierarchies (1-3 levels, Bits/struct signals, slices, fields, constants, 1-30 connects also
  through child ports, update blocks), each elaborated under 10-20 statement permutations / side flips / syntax variants
  in-process (PYTHONHASHSEED=0) and a subset under PYTHONHASHSEED=1,2 in fresh interpreters; nets canonicalised as sets
  of repr() names.  The connection graph is taken from the GENERATED statements (+ the implicit clk/reset connections),
  not from pymtl3; nets_ok / writer_ok / net_disjoint_ok are evaluated inside Coq on what get_all_value_nets() returned.
  Accept-vs-reject and, among accepted variants, nets+writers must be identical across all variants (which exception class a
  rejected design with several defects reports first is C09's business, not C08's).  Simulation (DefaultPassGroup):
  after sim_eval_combinational every member of every net equals the writer, for random inputs.
partial: C08_net_values is about a bit-copy model of the net block; that the generated net blocks / shared residence objects
  of GenDAGPass+PrepareSimPass behave like it is checked differentially (simulation) only.  The iterative resolution
  algorithm itself is not modelled - its RESULT is certified per run by writer_ok and compared across statement orders.
"""
from common import *
import elab_common as ec
from elab_common import EP, ConstEP, Sig, twidth, fits, parts, whole

def full_mask(sig): return (1 << twidth(sig.T)) - 1

class Builder:
  """constructive generator of designs that are legal by the port rules and single-driver at bit level"""
  def __init__(s, rng, d):
    s.rng, s.d = rng, d
    s.drv, s.wres = {}, {}
    s.nconst = {}
    s.nblk = 0
    s.nhelp = 0
    s.writer_eps, s.reader_eps = [], []       # bookkeeping used by the C09 injections
    for x in d.insts[()].sigs:
      if x.kind == 'in': s.drv[x.root] = full_mask(x)

  def free(s, ep):
    r = ep.sig.root
    return (ep.mask & (s.drv.get(r, 0) | s.wres.get(r, 0))) == 0

  def const_for(s, T, host, tied=None):
    """a constant for one connect statement; small values are preferred so that several statements of one component (and of
    different components, with equal and different widths) tie signals to EQUAL values"""
    used = s.nconst.setdefault(tied.full if tied is not None else None, set()) if tied is not None else set()
    pool = [v % (1 << T[1]) for v in (0, 0, 0, 1, 1, (1 << T[1]) - 1, 2, 5)] + [s.rng.randrange(0, 1 << min(T[1], 6))]
    vals = [v for v in pool if v not in used] or [v for v in range(min(1 << T[1], 64)) if v not in used]
    if not vals: return None
    v = s.rng.choice(vals)
    c = ConstEP(T, v, host, tied)
    if tied is not None: used.add(v)
    return c

  def tie(s, c, ep):
    c.tied = ep
    s.nconst.setdefault(ep.full, set()).add(c.value)

  def add_const_ties(s):
    """separate statements of ONE component tie several signals (equal and different widths; whole signals, slices, fields;
    own signals and child ports) to the SAME constant value: every statement has its own constant, the nets stay apart"""
    rng, d = s.rng, s.d
    host = rng.choice(sorted(d.insts))
    value = rng.choice([0, 0, 1, 1, 3, 7])
    n = 0
    for _ in range(rng.choice([2, 2, 3, 4])):
      T = ('b', rng.choice([1, 3, 4, 4, 8, 8, 16]))
      c = ConstEP(T, value % (1 << T[1]), host)
      opts = s.reader_options(c); rng.shuffle(opts)
      for x, h in opts[:8]:
        eps = [e for e in fits(x, T, rng) if s.free(e) and c.value not in s.nconst.get(e.full, ())]
        if not eps: continue
        v = rng.choice(eps)
        s.tie(c, v); s.drv[v.sig.root] = s.drv.get(v.sig.root, 0) | v.mask
        d.stmts[h].append(('conn', v, c) if rng.random() < 0.5 else ('conn', c, v))
        s.writer_eps.append(c); s.reader_eps.append(v); n += 1
        break
    if n >= 2: d.features.add('const-ties')
    return n

  def wrap_helpers(s, host, lines):
    """move some of the write statements of an update block into @s.func helpers, 1..3 calls deep (helpers calling helpers);
    returns the lines that stay in the block.  The innermost helper always holds at least one write."""
    rng = s.rng
    depth = rng.choice([1, 2, 2, 3])
    names = [f'hf{s.nhelp}_{i}' for i in range(depth)]; s.nhelp += 1
    bodies = [[] for _ in range(depth)]
    lines = list(lines); rng.shuffle(lines)
    bodies[-1].append(lines.pop())
    keep = []
    for l in lines:
      k = rng.randrange(-1, depth)
      (keep if k < 0 else bodies[k]).append(l)
    for i in range(depth - 1): bodies[i].append(f'{names[i + 1]}()')
    for i in range(depth): s.d.stmts[host].append(('func', names[i], bodies[i]))
    s.d.features.add(f'helpers:{depth}')
    return keep + [f'{names[0]}()']

  def const_text(s, T):
    if T[0] == 'b': return str(s.rng.randrange(0, 1 << min(T[1], 8)))
    if T[1] == 'Pt': return f'Pt( {s.rng.randrange(256)}, {s.rng.randrange(16)} )'
    if T[1] in ('Mat', 'Sq'): return f'{T[1]}()'
    return f'Outer( Pt( {s.rng.randrange(256)}, {s.rng.randrange(16)} ), {s.rng.randrange(16)} )'

  def add_blocks(s, special=None):
    rng, d = s.rng, s.d
    for p in sorted(d.insts):
      i = d.insts[p]
      for _ in range(rng.choice([0, 1, 1, 2])):
        targets = [x for x in i.sigs if x.kind in ('out', 'wire')] + [x for c in i.children for x in c.sigs if x.kind == 'in']
        rng.shuffle(targets)
        lines, writes, reads = [], [], []
        for x in targets[:rng.choice([1, 1, 2])]:
          ps = parts(x)
          mode = rng.random()
          eps = []
          if mode < 0.45:
            eps = [whole(x)]
          elif mode < 0.7 and x.T[0] == 's':
            leafs = [q for q in ps if q[0] != '' ]
            q = rng.choice(leafs); eps = [EP(x, q[0], q[1], q[2], q[3], q[4])]
          else:
            leaf = rng.choice([q for q in ps if q[1][0] == 'b'])
            W = leaf[1][1]
            if W >= 2:
              cuts = sorted({0, W} | {rng.randrange(1, W) for _ in range(rng.choice([1, 2]))})
              pieces = list(zip(cuts, cuts[1:])); rng.shuffle(pieces)
              for a, b in pieces[:rng.choice([1, 2])]:
                eps.append(EP(x, leaf[0] + f'[{a}:{b}]', ('b', b - a), leaf[2] + a, leaf[2] + b, leaf[4] + [('S', leaf[2] + a, leaf[2] + b)]))
            else: eps = [EP(x, leaf[0], leaf[1], leaf[2], leaf[3], leaf[4])]
          eps = [e for e in eps if s.free(e)]
          for e in eps:
            s.drv[e.sig.root] = s.drv.get(e.sig.root, 0) | e.mask
            src = None
            if p == () and rng.random() < 0.5:
              cands = [y for y in i.sigs if y.kind == 'in' and y.T == e.T]
              if cands: y = rng.choice(cands); src = f's.{y.name}'; reads.append(whole(y))
            lines.append(f'{e.local(p)} @= {src or s.const_text(e.T)}')
            writes.append((e, '@='))
        if lines:
          name = f'ub{s.nblk}'; s.nblk += 1
          if rng.random() < 0.3: lines = s.wrap_helpers(p, lines)
          d.stmts[p].append(('blk', name, False, lines, writes, reads))
    if special == 'parent+field':
      # one block writes a whole struct signal and then one of its fields again (one driver: the block)
      cands = [(p, x) for p in sorted(d.insts) for x in d.insts[p].sigs if x.kind in ('out', 'wire') and x.T[0] == 's' and s.drv.get(x.root, 0) == 0]
      if cands:
        p, x = rng.choice(cands)
        f = rng.choice([q for q in parts(x) if q[0] != ''])
        e0, e1 = whole(x), EP(x, f[0], f[1], f[2], f[3], f[4])
        s.drv[x.root] = full_mask(x)
        name = f'ub{s.nblk}'; s.nblk += 1
        d.stmts[p].append(('blk', name, False, [f'{e0.local(p)} @= {s.const_text(x.T)}', f'{e1.local(p)} @= {s.const_text(e1.T)}'],
                           [(e0, '@='), (e1, '@=')], []))
        d.features.add('blk-parent+field')

  def reader_options(s, u):
    """(target signal, host path) pairs that may legally be driven from u"""
    d = s.d
    opts = []
    if isinstance(u, ConstEP):
      H = d.insts[u.host]
      opts += [(x, H.path) for x in H.sigs if x.kind in ('out', 'wire')]
      opts += [(x, H.path) for c in H.children for x in c.sigs if x.kind == 'in']
      return opts
    C = d.insts[u.sig.inst]
    opts += [(x, C.path) for x in C.sigs if x.kind in ('out', 'wire')]
    opts += [(x, C.path) for c in C.children for x in c.sigs if x.kind == 'in']
    if C.parent is not None and u.sig.kind == 'out':
      P = C.parent
      opts += [(x, P.path) for x in P.sigs if x.kind in ('out', 'wire')]
      opts += [(x, P.path) for K in P.children for x in K.sigs if x.kind == 'in']
    return opts

  def pick_writer(s):
    rng, d = s.rng, s.d
    if rng.random() < 0.15:
      T = ('b', rng.choice([4, 8, 8, 16, 3, 1]))
      host = rng.choice(sorted(d.insts))
      return s.const_for(T, host)
    roots = [x for x in d.all_sigs() if s.drv.get(x.root, 0)]
    if not roots: return None
    x = rng.choice(roots)
    cands = []
    for q in parts(x):
      cands.append(EP(x, q[0], q[1], q[2], q[3], q[4]))
      if q[1][0] == 'b' and q[1][1] >= 2:
        W = q[1][1]
        for _ in range(3):
          w = rng.choice([1, 2, 3, 4, 4, 5, 8, 8, 12]); w = min(w, W - 1) or 1
          a = rng.randrange(0, W - w + 1)
          cands.append(EP(x, q[0] + f'[{a}:{a + w}]', ('b', w), q[2] + a, q[2] + a + w, q[4] + [('S', q[2] + a, q[2] + a + w)]))
    cands = [e for e in cands if e.mask & s.drv[x.root]]
    return rng.choice(cands) if cands else None

  def add_net(s, overlap_readers=False, force_writer=None):
    rng, d = s.rng, s.d
    w = force_writer or s.pick_writer()
    if w is None: return 0
    s.writer_eps.append(w)
    if isinstance(w, EP): s.wres[w.sig.root] = s.wres.get(w.sig.root, 0) | w.mask
    members, n = [w], 0
    for _ in range(rng.choice([1, 1, 2, 2, 3, 4, 5])):
      u = rng.choice(members if not isinstance(w, ConstEP) or len(members) == 1 else members[1:])
      opts = s.reader_options(u)
      rng.shuffle(opts)
      done = False
      for x, host in opts[:6]:
        eps = [e for e in fits(x, w.T, rng) if s.free(e)]
        if not eps: continue
        v = rng.choice(eps)
        s.drv[v.sig.root] = s.drv.get(v.sig.root, 0) | v.mask
        if isinstance(u, ConstEP): s.tie(u, v)
        d.stmts[host].append(('conn', v, u) if rng.random() < 0.5 else ('conn', u, v))
        members.append(v); n += 1; done = True; s.reader_eps.append(v)
        if overlap_readers and isinstance(u, EP) and v.chain and v.chain[-1][0] == 'S' and v.hi - v.lo >= 2:
          # a second reader of the same net on an overlapping sibling slice
          plo = v.chain[-2][1] if len(v.chain) > 1 else 0
          phi = v.chain[-2][2] if len(v.chain) > 1 else twidth(v.sig.T)
          wd = v.hi - v.lo
          for a in range(max(plo, v.lo - wd + 1), min(phi - wd, v.hi - 1) + 1):
            if a == v.lo: continue
            base = v.suffix[:v.suffix.rindex('[')]
            v2 = EP(v.sig, base + f'[{a - plo}:{a - plo + wd}]', v.T, a, a + wd, v.chain[:-1] + [('S', a, a + wd)])
            if (v2.mask & ~v.mask & (s.drv.get(v.sig.root, 0) | s.wres.get(v.sig.root, 0))) == 0:
              s.drv[v.sig.root] |= v2.mask
              d.stmts[host].append(('conn', u, v2)); members.append(v2); n += 1; s.reader_eps.append(v2)
              d.features.add('same-net-overlap'); overlap_readers = False
              break
        break
      if not done and len(members) == 1: break
    return n

def random_ep(rng, d, host):
  """any end point visible from the component `host`: its own signals and its children's ports"""
  H = d.insts[host]
  sigs = list(H.sigs) + [x for c in H.children for x in c.sigs if x.kind != 'wire' or rng.random() < 0.1]
  if rng.random() < 0.05:
    sigs += [x for c in H.children for g in c.children for x in g.sigs]       # too far in the hierarchy
  x = rng.choice(sigs)
  q = rng.choice(parts(x))
  e = EP(x, q[0], q[1], q[2], q[3], q[4])
  if q[1][0] == 'b' and q[1][1] >= 2 and rng.random() < 0.5:
    W = q[1][1]; w = rng.choice([1, 2, 4, 4, 8]); w = min(w, W)
    a = rng.randrange(0, W - w + 1)
    e = EP(x, q[0] + f'[{a}:{a + w}]', ('b', w), q[2] + a, q[2] + a + w, q[4] + [('S', q[2] + a, q[2] + a + w)])
  return e

def add_random_connects(rng, d, b, n):
  added = 0
  for _ in range(n * 6):
    if added >= n: break
    host = rng.choice(sorted(d.insts))
    a = random_ep(rng, d, host)
    if rng.random() < 0.12 and a.T[0] == 'b':
      c = b.const_for(a.T, host, tied=a)
      if c is None: continue
      d.stmts[host].append(('conn', a, c)); added += 1; continue
    H = d.insts[host]
    pool = list(H.sigs) + [x for k in H.children for x in k.sigs]
    rng.shuffle(pool)
    for x in pool[:5]:
      eps = [e for e in fits(x, a.T, rng) if e.full != a.full]
      if eps:
        v = rng.choice(eps)
        if any(t[0] == 'conn' and {t[1].full, t[2].full} == {a.full, v.full} for t in d.stmts[host]): break
        d.stmts[host].append(('conn', a, v)); added += 1
        break
  return added

def force_sibling_net(rng, d, b):
  """for the 'one block writes a struct and one of its fields' shape: a net driven by a sibling field of the re-written field"""
  if 'blk-parent+field' not in d.features: return 0
  h, st = [(h, st) for h, st in d.blocks() if len(st[4]) == 2 and st[4][0][0].sig is st[4][1][0].sig and st[4][0][0].chain == []][-1]
  e1 = st[4][1][0]; x = e1.sig
  sibs = [q for q in parts(x) if q[0] != '' and not (q[2] < e1.hi and e1.lo < q[3])]
  if not sibs: return 0
  q = rng.choice(sibs)
  return b.add_net(force_writer=EP(x, q[0], q[1], q[2], q[3], q[4]))

def gen_design(rng, name, mode):
  d = ec.gen_hierarchy(rng, name)
  ifc_driven = ec.add_interfaces(rng, d) if mode != 'wild' and d.levels >= 2 and rng.random() < 0.3 else []
  if mode != 'wild' and d.levels >= 2 and rng.random() < 0.25: ifc_driven = ifc_driven + ec.add_hook_interfaces(rng, d)
  b = Builder(rng, d)
  for x in ifc_driven: b.drv[x.root] = full_mask(x)
  d.mode = mode
  if mode == 'wild':
    b.add_blocks()
    add_random_connects(rng, d, b, rng.choice([1, 2, 2, 3, 4, 6, 10, 30]))
  else:
    special = None
    r = rng.random()
    if r < 0.08: special = 'parent+field'
    b.add_blocks(special)
    want = rng.choice([1, 2, 3, 5, 8, 12, 20, 30])
    n = force_sibling_net(rng, d, b)
    for _ in range(40):
      if n >= want: break
      n += b.add_net(overlap_readers=(0.08 <= r < 0.14))
    if rng.random() < 0.4:
      for _ in range(rng.choice([1, 1, 2])): b.add_const_ties()
    if mode == 'mutated':
      add_random_connects(rng, d, b, rng.choice([1, 1, 2]))
  d.builder = b
  d.ep_by_name = {e.full: e for h, st in d.conns() for e in (st[1], st[2])}
  return d

# ---------------------------------------------------------------- Coq case
def coq_case(d, edges, obs):
  """edges: [(a, b, host)] names; obs: [(writer, [members])] names, in resolution order"""
  names = {}
  def nid(n):
    if n not in names: names[n] = len(names)
    return names[n]
  eps = {}
  for h, st in d.conns():
    for e in (st[1], st[2]): eps[e.full] = e
  E = [(nid(a), nid(b)) for a, b, _ in edges]
  nknown = len(names)
  O = [(nid(w), [nid(m) for m in ms]) for w, ms in obs]
  roots = {}
  def rid(r):
    if r not in roots: roots[r] = len(roots)
    return roots[r]
  tbl = []
  for n, i in sorted(names.items(), key=lambda kv: kv[1]):
    e = eps.get(n)
    if isinstance(e, ConstEP): tbl.append('mkN true (0%nat, 0, 0)')
    elif e is not None: tbl.append(f'mkN false ({rid(e.sig.root)}%nat, {e.lo}, {e.hi})')
    elif n.endswith('.clk') or n.endswith('.reset'): tbl.append(f'mkN false ({rid(n)}%nat, 0, 1)')
    else: tbl.append('mkN false (0%nat, 0, 0)')          # a name pymtl3 reported that no statement mentions: ill-formed on purpose
  D0 = []
  for x in d.insts[()].sigs:
    if x.kind == 'in': D0.append(f'({rid(x.root)}%nat, 0, {twidth(x.T)})')
  for n in ('s.clk', 's.reset'): D0.append(f'({rid(n)}%nat, 0, 1)')
  for h, st in d.blocks():
    for e, op in st[4]: D0.append(f'({rid(e.sig.root)}%nat, {e.lo}, {e.hi})')
  et = coq_list([f'({a}%nat, {b}%nat)' for a, b in E])
  ot = coq_list([f'({w}%nat, {coq_list([f"{m}%nat" for m in ms])})' for w, ms in O])
  return f'({et}, {coq_list(tbl)}, {coq_list(D0)}, {ot})', names

DEFS = '''
Definition ctype := (list (nat * nat) * list ninfo * fp * list (nat * list nat))%type.
Definition acc_ok (c : ctype) : bool := let '(E, tbl, D0, obs) := c in nets_ok E (map snd obs) && writer_ok tbl D0 obs.
Definition nets_only (c : ctype) : bool := let '(E, tbl, D0, obs) := c in nets_ok E (map snd obs).
Definition dis_ok (c : ctype) : bool := let '(E, tbl, D0, obs) := c in net_disjoint_ok tbl obs.
'''

def check_chains(ctx, d, top, src):
  """cross-check the generator's bit intervals against pymtl3's own metadata of the elaborated objects"""
  for h, st in d.conns():
    for e in (st[1], st[2]):
      if isinstance(e, ConstEP): continue
      try:
        obj = ec.lookup(top, e.full)
        r, w, ch = ec.obj_chain(obj)
      except Exception as ex:
        ctx.violation('C08:harness-interval', f'cannot map {e.full} to a bit interval: {ex!r}', {'design_source': src}, found_input=False); return
      lo, hi = (ch[-1][1], ch[-1][2]) if ch else (0, w)
      if (r, lo, hi) != (e.sig.root, e.lo, e.hi) or repr(obj) != e.full:
        ctx.violation('C08:harness-interval', f'generator interval of {e.full} = {(e.sig.root, e.lo, e.hi)} but pymtl3 metadata says {(r, lo, hi)} ({obj!r})',
                      {'design_source': src}, found_input=False); return

def set_top_input(top, x, value):
  """assign a top-level input (plain port, element of a list of ports, member of an interface) on the simulated top"""
  obj = ec.lookup(top, x.root)
  if hasattr(obj, 'from_bits') and not hasattr(obj, '_uint'):
    T = type(obj); obj @= T.from_bits(__import__('pymtl3').Bits(T.nbits, value))
  else:
    obj @= value

def simulate(ctx, d, top, nets, src, tag, edges=()):
  from pymtl3.passes.PassGroups import DefaultPassGroup
  import sched_common as sc
  try:
    top.apply(DefaultPassGroup())
    top.sim_reset()
  except Exception as e:
    if d.mode == 'legal' and 'same-net-overlap' not in d.features:
      ctx.violation(f'C08:sim-build:{type(e).__name__}', f'legal design {d.name} elaborated but could not be simulated: {type(e).__name__}: {str(e)[:200]}',
                    {'design_source': src, 'traceback': traceback.format_exc()[-1500:]})
    else: ctx.hist['sim-skipped:' + type(e).__name__] = ctx.hist.get('sim-skipped:' + type(e).__name__, 0) + 1
    for f in ('/tmp/upblk-dag.gv', '/tmp/upblk-dag.gv.pdf'):
      if os.path.exists(f): os.remove(f)
    return False
  r = random.Random(ctx.rng.randrange(1 << 30))
  for it in range(3):
    vals = {}
    for x in d.insts[()].sigs:
      if x.kind == 'in':
        v = r.getrandbits(twidth(x.T)); set_top_input(top, x, v); vals[x.name] = v
    for phase in ('sim_eval_combinational', 'sim_tick'):
      try:
        getattr(top, phase)()
      except Exception as e:
        ctx.violation(f'C08:sim-run:{type(e).__name__}', f'design {d.name} ({tag}) elaborated and was scheduled, but {phase}() raises {type(e).__name__}: {str(e)[:200]} (inputs {vals})',
                      {'design_source': src, 'inputs': vals, 'traceback': traceback.format_exc()[-1500:]})
        return True
      for w, ms in nets:
        try:
          wv = ec.const_value(w) if w.startswith('Bits') else ec.sim_value(top, w)
          for m in ms:
            e = d.ep_by_name.get(m)
            if e is None or isinstance(e, ConstEP): continue
            nb = getattr(ec.lookup(top, m), 'nbits', None)
            if nb is not None and nb != e.hi - e.lo:
              ctx.violation(feature_key(d, src, 'net-value', 'width'), f'design {d.name} ({tag}): in simulation {m} holds a value of {nb} bits but denotes {e.hi - e.lo} bits (net written by {w})',
                            {'design_source': src, 'net_writer': w, 'net_members': ms, 'member': m, 'simulated_nbits': nb, 'expected_nbits': e.hi - e.lo})
              return True
          bad = [(m, ec.sim_value(top, m)) for m in ms if not m.startswith('Bits') and ec.sim_value(top, m) != wv]
        except Exception as e:
          ctx.violation('C08:harness-simvalue', f'cannot read simulated value: {e!r}', {'design_source': src}, found_input=False); return True
        if bad:
          key = 'C08:same-net-overlapping-slices' if overlapping_readers(d, w, ms) else feature_key(d, src, 'net-value')
          ctx.violation(key, f'design {d.name} ({tag}): after {phase} members of the net written by {w} differ from the writer: writer={wv:#x}, members={[(m, hex(v)) for m, v in bad[:4]]} (inputs {vals})',
                        {'design_source': src, 'net_writer': w, 'net_members': ms, 'writer_value': wv, 'differing_members': bad, 'inputs': vals})
          return True
      # independent of the nets pymtl3 reported: the two sides of every connect statement (member-wise for interface
      # connects) hold the same value
      for a, b, h in edges:
        try:
          va = ec.const_value(a) if a.startswith('Bits') else ec.sim_value(top, a)
          vb = ec.const_value(b) if b.startswith('Bits') else ec.sim_value(top, b)
        except Exception as e:
          ctx.violation('C08:harness-simvalue', f'cannot read simulated value: {e!r}', {'design_source': src}, found_input=False); return True
        if va != vb:
          net = next(((w, ms) for w, ms in nets if a in ms or b in ms), None)
          key = 'C08:same-net-overlapping-slices' if net and overlapping_readers(d, net[0], net[1]) else feature_key(d, src, 'net-value', 'connected-pair')
          ctx.violation(key, f'design {d.name} ({tag}): after {phase} the two sides of a connect statement differ: {a}={va:#x} but {b}={vb:#x}'
                             + ('' if net else ' (neither is a member of any net that elaboration reported)') + f' (inputs {vals})',
                        {'design_source': src, 'pair': [a, b], 'values': [va, vb], 'inputs': vals})
          return True
  return True

def overlapping_readers(d, w, ms):
  """two members of one net, neither of them the writer, that denote overlapping but different bit ranges"""
  es = [d.ep_by_name.get(m) for m in ms if m != w]
  es = [e for e in es if e is not None and not isinstance(e, ConstEP)]
  return any(a is not b and a.sig.root == b.sig.root and a.lo < b.hi and b.lo < a.hi and (a.lo, a.hi) != (b.lo, b.hi)
             for a in es for b in es)

def feature_key(d, src, kind, detail=''):
  """seed-stable keys: the one understood root cause (a block writing a struct and one of its fields makes the result of
  writer resolution depend on set iteration order) has its own key; everything else is keyed by what went wrong, the
  generation mode and a short structural detail - never by a design hash"""
  if 'blk-parent+field' in d.features and kind in ('order-dependent', 'hashseed-dependent', 'writer', 'net-value'):
    # also the accepted-although-doubly-driven manifestations (acceptor 'writer' failure, differing simulated values)
    return 'C08:same-block-parent-and-field-write'
  return f'C08:{kind}:{d.mode}' + (':' + detail if detail else '')

def run(ctx):
  setup_impl_path()
  import pymtl3
  quick = ctx.tier == 'quick'
  rng = ctx.rng
  ndes = 130 if quick else 1500
  nvar = (10, 16) if quick else (14, 20)
  cases, meta = [], []
  worker_cases, worker_expect = [], {}
  junk = []
  nok = 0
  for j in range(ndes):
    mode = rng.choice(['legal'] * 6 + ['mutated'] * 3 + ['wild'] * 2)
    d = gen_design(random.Random(rng.randrange(1 << 30)), f'D{j}', mode)
    nconn = len(d.conns())
    if nconn == 0: continue
    clsname = f'Top_{d.name}'
    outcomes = []
    first_ok = None
    seen_orders = set()
    K = rng.randrange(*nvar) if 'blk-parent+field' not in d.features else 40
    for v in range(K):
      orders, flips = (None, None) if v == 0 else d.variant(rng)
      src = d.source(orders=orders, flips=flips)
      junk.append([object() for _ in range(rng.randrange(0, 40))])     # shift the allocator: set order of objects depends on addresses
      if len(junk) > 50: junk = junk[25:]
      r = ec.elaborate_src(ctx.scratch, src, clsname, keep=(v < 2))
      outcomes.append((ec.outcome_key(r), src, r))
      ctx.count((d.name, v), nconn >= 2, cls=f'{mode}:{"ok" if r[0] == "ok" else r[1]}')
      if v < 3 and j % 3 == 0:
        k = f'{d.name}#{v}'; worker_cases.append((k, src, clsname)); worker_expect[k] = (ec.outcome_key(r), d, src)
      if r[0] == 'ok':
        edges = d.edge_names(orders, flips)
        okey = tuple((w, tuple(ms)) for w, ms in r[1])
        big = sum(len(ms) for w, ms in r[1]) > 120
        if (okey not in seen_orders or v < 2) and len(seen_orders) < (3 if big else 6 if quick else 10):
          # the acceptors certify a few of the observed resolution orders per design (all orders are compared with each
          # other in Python above/below); large designs get fewer because the acceptor is quadratic in the number of nets
          seen_orders.add(okey)
          term, names = coq_case(d, edges, r[1])
          cases.append(term); meta.append((d, src, r[1], edges, v))
        if r[2] is not None:
          if first_ok is None:
            first_ok = v
            check_chains(ctx, d, r[2], src)
          simulate(ctx, d, r[2], r[1], src, f'variant {v}', edges)
    if any(o[0][0] == 'ok' for o in outcomes): nok += 1
    # a design built to be legal (port rules respected, one driver per bit, every net driven) must get its writers named
    if mode == 'legal' and not (d.features & {'blk-parent+field', 'same-net-overlap'}) and outcomes[0][0][0] == 'err':
      ctx.violation(f'C08:legal-rejected:{outcomes[0][2][1]}',
                    f'design {d.name} is legal by construction (every net has exactly one driven member, port rules respected) but elaboration raises {outcomes[0][2][1]}: {outcomes[0][2][2][:200]}',
                    {'design_source': outcomes[0][1], 'exception': list(outcomes[0][2][1:3])})
    ctx.hist[f'levels:{d.levels}'] = ctx.hist.get(f'levels:{d.levels}', 0) + 1
    feats = set(d.features)
    cv = {}
    for h, st in d.conns():
      for e in (st[1], st[2]):
        if isinstance(e, ConstEP): cv.setdefault((h, e.value), set()).add(e.T)
    if any(len(v) > 1 for v in cv.values()) or any(sum(1 for hh, st in d.conns() if hh == h and any(isinstance(e, ConstEP) and e.value == val for e in (st[1], st[2]))) > 1 for (h, val) in cv):
      feats.add('equal-constants-in-one-component')
    for h, st in d.conns():
      for e in (st[1], st[2]):
        if isinstance(e, EP):
          if '.m[' in e.suffix or '.q[' in e.suffix: feats.add('net-member:2D-list-field-element')
          if '.v[' in e.suffix: feats.add('net-member:1D-list-field-element')
          if e.sig.lst: feats.add(f'net-member:signal-list-{"x".join(map(str, e.sig.lst[1]))}')
    for f in feats: ctx.hist['feature:' + f] = ctx.hist.get('feature:' + f, 0) + 1
    ctx.hist[f'connects:{"1-3" if nconn <= 3 else "4-10" if nconn <= 10 else "11-30"}'] = ctx.hist.get(f'connects:{"1-3" if nconn <= 3 else "4-10" if nconn <= 10 else "11-30"}', 0) + 1
    # all statement orders / orientations must give the same nets and the same writers (or the same error class)
    k0 = outcomes[0][0]
    for v, (k, src, r) in enumerate(outcomes):
      if k != k0:
        def show(k, r): return f'rejection ({r[1]})' if k[0] == 'err' else f'{len(k[1])} nets'
        diff, detail = '', 'accept-vs-reject'
        if k[0] == 'ok' and k0[0] == 'ok':
          diff = f'; differing nets: {sorted(set(k[1]) ^ set(k0[1]))[:4]}'; detail = 'nets-or-writers-differ'
        ctx.violation(feature_key(d, outcomes[0][1], 'order-dependent', detail),
                      f'design {d.name} ({mode}): statement order 0 gives {show(k0, outcomes[0][2])} but order {v} (a permutation / side swap of the same statements) gives {show(k, r)}{diff}',
                      {'design_source_order0': outcomes[0][1], f'design_source_order{v}': src, 'outcome0': repr(outcomes[0][2][:2])[:1500], f'outcome{v}': repr(r[:2])[:1500]})
        break
    if j < 2: ctx.sample({'design': d.name, 'mode': mode, 'source_tail': outcomes[0][1][-700:], 'outcome': repr(outcomes[0][2][:2])[:600]})
  # ---- other hash seeds, fresh interpreters
  for hs in ((1, 2) if quick else (1, 2, 3)):
    res = ec.run_worker(worker_cases, hs)
    for k, (exp, d, src) in worker_expect.items():
      got = res.get(k)
      ctx.count((k, 'hashseed', hs), True, cls=f'hashseed:{hs}')
      if got is None or ec.outcome_key(got) != exp:
        gk = None if got is None else ec.outcome_key(got)
        detail = 'accept-vs-reject' if gk is None or gk[0] != exp[0] else 'nets-or-writers-differ'
        def show(k): return None if k is None else 'rejected' if k[0] == 'err' else f'accepted/{len(k[1])} nets'
        ctx.violation(feature_key(d, src, 'hashseed-dependent', detail),
                      f'design {k}: PYTHONHASHSEED=0 gives {show(exp)} but PYTHONHASHSEED={hs} gives {show(gk)}',
                      {'design_source': src, 'hashseed': hs, 'expected': repr(exp)[:1500], 'got': repr(got)[:1500]})
  # ---- certified acceptors on what pymtl3 produced
  bad = ctx.coq_bad_indices('acc', 'Base.Prelude Sched.Accept Elab.Nets Elab.Writers', DEFS, 'ctype', cases, 'acc_ok c', shard=60)
  if bad:
    bad_nets = set(ctx.coq_bad_indices('nets', 'Base.Prelude Sched.Accept Elab.Nets Elab.Writers', DEFS, 'ctype', [cases[i] for i in bad], 'nets_only c', shard=60))
    for n, i in enumerate(bad[:12]):
      d, src, obs, edges, v = meta[i]
      what = 'nets are not the connected components of the statements' if n in bad_nets else 'named writer is not the unique legitimate driver'
      ctx.violation(feature_key(d, src, 'nets' if n in bad_nets else 'writer'),
                    f'design {d.name} variant {v}: {what}; observed (writer, net) list {obs[:6]}',
                    {'design_source': src, 'edges': [(a, b) for a, b, _ in edges], 'observed': obs, 'coq_case': cases[i][:3000]})
  bad2 = ctx.coq_bad_indices('dis', 'Base.Prelude Sched.Accept Elab.Nets Elab.Writers', DEFS, 'ctype', cases, 'dis_ok c', shard=60)
  for i in bad2[:12]:
    d, src, obs, edges, v = meta[i]
    key = 'C08:same-net-overlapping-slices' if any(overlapping_readers(d, w, ms) for w, ms in obs) else f'C08:net-overlap:{d.mode}'
    ctx.violation(key, f'design {d.name}: elaboration accepted a net in which two non-writer members overlap (one net drives a bit twice); nets {[o for o in obs if len(o[1]) > 2][:4]}',
                  {'design_source': src, 'observed': obs})
  ctx.extra.update({'designs': ndes, 'designs_elaborating': nok, 'acceptor_cases': len(cases), 'hashseed_cases': len(worker_cases)})

def main(ctx):
  ctx.trusted += ['harness/elab_common.py: design generator (the connection graph and the bit intervals of end points come from the generator and are cross-checked against pymtl3 metadata), canonicalisation of nets by repr() names']
  ctx.assumptions += ['the iterative writer resolution of _resolve_value_connections is not modelled; its result is certified per run by writer_ok (in resolution order) and compared across statement orders',
                      'C08_net_values is a theorem about a bit-copy model of the net block; that the net blocks generated by GenDAGPass/PrepareSimPass behave like that model is a differential simulation check (DefaultPassGroup, 3 random input vectors per elaborated variant)',
                      'PYTHONHASHSEED is varied in fresh interpreters on a third of the designs (3 variants each); in-process variants shift the allocator between elaborations because pymtl3 iterates sets of objects hashed by address']
  ctx.build_props(extra_models=['theories/Elab/Nets.vo', 'theories/Elab/Writers.vo'])
  try:
    run(ctx)
  except Exception as e:
    ctx.violation('C08:harness-crash', f'correspondence could not run: {e!r}', {'traceback': traceback.format_exc()}, found_input=False)
  return ctx.finish(rule='random hierarchies (1-3 levels; Bits4/8/16, Pt, Outer signals; whole signals, slices, struct fields, nested fields, constants; 1-30 connects incl. child ports; update blocks) '
                         'in three modes: constructively legal, legal + 1-2 random extra connects, wild random connects; each under 10-20 statement permutations x side flips x connect()/"//=" syntax; '
                         'distinct = (design, variant) with >= 2 connects')

def replay(ctx, r):
  """./check C08 --replay f : re-elaborate the stored design(s); for net-value findings re-simulate"""
  seen = ec.replay_sources(ctx, r)
  rp = r.get('replay', {})
  rc = 0
  allo = set()
  for k, o in seen.items():
    allo |= set(o)
  if len(allo) > 1: print('REPRODUCED: the same statements give different outcomes:', sorted(allo)); rc = 1
  if 'net_writer' in rp and 'design_source' in rp:
    import re
    from pymtl3.passes.PassGroups import DefaultPassGroup
    import sched_common as sc
    src = rp['design_source']; clsname = re.findall(r'class (Top_\w+)\(', src)[-1]
    res = ec.elaborate_src(ctx.scratch, src, clsname, keep=True)
    if res[0] == 'ok':
      top = res[2]; top.apply(DefaultPassGroup()); top.sim_reset()
      for n, v in rp.get('inputs', {}).items(): sc.set_input(top, n, v)
      top.sim_eval_combinational()
      w = rp['net_writer']
      wv = ec.const_value(w) if w.startswith('Bits') else ec.sim_value(top, w)
      bad = [(m, ec.sim_value(top, m)) for m in rp['net_members'] if not m.startswith('Bits') and ec.sim_value(top, m) != wv]
      print(f'writer {w} = {wv:#x}; members that differ: {bad}')
      if bad: print('REPRODUCED: a member of the net does not carry the writer\'s value'); rc = 1
  shutil.rmtree(ctx.scratch, ignore_errors=True)
  return rc
