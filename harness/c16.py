"""C16 — waveform dumps replay the simulation exactly.

proof (coq/theories/Trace/VcdProofs.v, stated in Props/C16.v; model in Trace/Vcd.v):
  "VCD ... read by an independent VCD parser gives ... exactly the packed value"
        C16_encode_decode / _values / _lines : decode (encode tr) = tr for every list of nets, every width, the
        clock net at any index, every number of cycles and every value sequence (revisited values, never-changing
        nets, all-zero first rows are inside the quantifier).  `encode` = vcd_body: defaults, `#0 1clk`, per dump
        only the nets whose to_vcd_str differs from last_values — last_values indexed exactly as the code does
        (initialised over ALL nets, read by position in the list WITHOUT the clock net; proved harmless because
        every default is a string of zeros).  `decode` knows nothing of the writer: a symbol keeps its last value,
        a timestep is final when the next #time arrives, rows are taken where the clock is high.
  "struct-typed signals"            are dumped through to_bits(): a net is (width, packed value) in the model;
        C16_vcd_str_roundtrip (+ C16_one_bit_form / C16_multi_bit_form): parse (to_vcd_str n u) = (n, u).
  "signals that share a net"        C16_net_share (same identifier code -> equal read-back values) and
        C16_symbol_inj / C16_symbols_distinct (different nets never get the same code).
  "the clock toggles once per cycle" C16_clock_toggles: read back low before #0, high at 100t, low at 100t+50, high
        at the open final 100N.
  C16_acceptor_sound: rows_match ... = true  ->  every read-back value equals the sampled one.

tie, checked on every run (T-acc + T-diff on the REAL .vcd file):
  random small pymtl3 designs (children, nested children, lists of components/ports, interfaces nested 2-3 levels with
  identically named leaves in sibling bundles, lists of interfaces, interfaces inside lists of components and at top level; interface attribute names drawn from pools
  that collide with reserved/structural names (clk, reset, in_, out, top, sibling/parent component and port names, a_0 vs
  a[0], a__b vs a.b) and all such pins toggle, Bits of 1..200 bits,
  bitstruct ports incl. nested/list/wide (61..67-bit) fields, pure-connection nets spanning several components, constants, slices and
  struct-field connections, never-written wires, counters/toggles; signals driven directly by every kind of
  expression result (comparisons Bits/Bits and Bits/int, reductions, boolean context, and/or/not, Bits1() casts, selects,
  slices, arithmetic, concat, if-expressions) in @update and @update_ff blocks and through nets; inputs move between values that collide under
  cheap comparisons: equal hash()/mod 2^61-1/2^31-1, equal low 32/64 bits, complements, reversals, rotations,
  zeros<->ones; struct types of total width 1 (single field / nested / list of one), 2, 64, 65 as port, wire and
  register types) are simulated under every simulation flow that can dump waveforms: DefaultPassGroup(vcdwave=...,
  textwave=True), SimpleSimPass with the waveform metadata set, and the open-loop method-driven simulator
  (GenDAGPass + OpenLoopCLPass = the pipeline of AutoTickSimPass; the top gets a method port and is ticked by calling
  it), with and without sim_reset.  (The mamba pass groups accept `waveform=` but never dump; AutoTickSimPass itself
  raises KeyError in its second lock_in_simulation() on the clean tree for any design with a value net.)
  A sampling function is placed in the two tick schedules the simulation pass closes over (PrepareSimPass: sim_tick and
  sim_reset; OpenLoopCLPass: the method-free schedule of the wrapped top-level methods and sim_reset) at the clock edge = immediately before the first
  flip-flop/posedge-flip block (independent of where the dump function sits); it reads every top-level signal's live
  object and packs it with to_bits().  The .vcd file is tokenised here (header -> (scope.name, width, code); body -> `#t` tokens and
  raw value-change lines) and handed to Coq, where for every case
     * parse_lines + decode (the proved reader) reconstruct every signal at every cycle, compared with the samples
       by rows_match; clock_wave is compared with expected_clock;                       [the property itself]
     * vcd_lines ws k tr (the proved writer model) is compared line-for-line with the real body. [model = code]
  Python-side: exact bijection between the design's top-level signals and the $var declarations, per component $scope
  (path = repr(host), s -> top) and by the signal's full name relative to its host (interface prefixes and list indices
  kept, [ ] -> ( )): no duplicates, nothing missing or extra, equal widths; every signal is located by that key; PrintTextWavePass's
  textwave_dict has a row for EVERY top-level signal of every component except the components' implicit clk/reset ports
  (expectation independent of the pass's own filter) and every row equals the same samples.  Ordinary interface pins
  called exactly clk/reset used to have no row (fixed in /repo 7ce237b); a recurrence is reported under the structural
  key C16:textwave:no-row:interface-pin-named-clk-or-reset.
partial / modelled: decimal `#t` and the header are tokenised in Python (trusted glue); blank lines are ignored;
  the reader is strict: a body line that is not `#t`, `0|1<code>` or `b[01]+ <code>` makes the whole file malformed
  (verdict bit 1 = violation); x/z values are well-formed VCD but have no two-state value, so they can never equal a sample; the text-wave comparison is done in Python.
"""
import importlib.util, hashlib
from common import *

# ----------------------------------------------------------------------------- generated design sources
PRELUDE = '''from pymtl3 import *

@bitstruct
class Pt:
  x: Bits3
  y: Bits5

@bitstruct
class Nest:
  p: Pt
  f: Bits1
  z: [Bits2]*3

@bitstruct
class Wide:
  lo: Bits33
  hi: Bits40

@bitstruct
class Flag:
  v: Bits1

@bitstruct
class FlagBox:
  f: Flag

@bitstruct
class FlagList:
  l: [Bits1]*1

@bitstruct
class Two:
  a: Bits1
  b: Bits1

@bitstruct
class TwoBox:
  f: FlagBox
  g: FlagList

@bitstruct
class S64:
  a: Bits32
  b: Bits32

@bitstruct
class S65:
  a: Bits1
  b: Bits64

@bitstruct
class Tagged:
  tag: Bits3
  data: Bits64

@bitstruct
class Big:
  a: Bits61
  b: Bits67

class Leaf( Interface ):
  def construct( s, T ):
    s.msg = OutPort( T )
    s.val = OutPort( Bits1 )

class Pair( Interface ):
  def construct( s, T ):
    s.req  = Leaf( T )
    s.resp = Leaf( T )

class Deep( Interface ):
  def construct( s, T ):
    s.lo = Pair( T )
    s.hi = Pair( T )

class InLeaf( Interface ):
  def construct( s, T ):
    s.msg = InPort( T )
    s.val = InPort( Bits1 )

class InPair( Interface ):
  def construct( s, T ):
    s.req  = InLeaf( T )
    s.resp = InLeaf( T )

class IfcStage( Component ):
  # sibling bundles with identically named leaves (imem.req.msg / dmem.req.msg / bank[i].req.msg / deep.lo.req.msg ...)
  # that carry DIFFERENT delays of the input, so a trace bound to the wrong leaf disagrees
  def construct( s, T, n ):
    s.in_  = InPort( T )
    s.out  = OutPort( T )
    s.imem = Pair( T )
    s.dmem = Pair( T )
    s.bank = [ Pair( T ) for _ in range(n) ]
    s.deep = Deep( T )
    s.imem.req.msg //= s.in_
    s.imem.req.val //= 1
    s.deep.lo.resp.msg //= s.in_
    s.out //= s.dmem.resp.msg
    @update_ff
    def up_ifc():
      s.dmem.req.msg  <<= s.in_
      s.dmem.resp.msg <<= s.dmem.req.msg
      s.dmem.resp.val <<= ~s.dmem.resp.val
      s.deep.hi.req.msg  <<= s.dmem.resp.msg
      s.deep.hi.resp.val <<= s.dmem.resp.val
      s.deep.lo.req.val  <<= ~s.dmem.resp.val
      s.bank[0].req.msg <<= s.deep.hi.req.msg
      for i in range(1, n):
        s.bank[i].req.msg  <<= s.bank[i-1].req.msg
        s.bank[i].resp.val <<= ~s.bank[i-1].resp.val
      s.bank[0].resp.val <<= s.dmem.resp.val

# every kind of expression result the DSL offers drives a signal directly: six comparisons (Bits vs Bits, Bits vs int),
# reductions, boolean-context, & | ~ and python and/or/not of comparison results, Bits1() casts, bit selects, slices,
# arithmetic, shift, concat, if-expressions -- in an @update and in an @update_ff block, and through nets (n_gt, n_feq)
class ExprStage( Component ):
  def construct( s, T, k, h ):
    s.in_ = InPort( T )
    s.out = OutPort( T )
    s.r   = Wire( T )
    for nm in ['c_eq','c_ne','c_lt','c_le','c_gt','c_ge','k_eq','k_ne','k_lt','k_le','k_gt','k_ge',
               'ra','ro','rx','bc','band','bor','binv','pyand','pyor','pynot','cast','castc','sel','n_gt',
               'f_eq','f_ne','f_lt','f_le','f_gt','f_ge','f_kgt','f_ro','f_sel','f_band','n_feq']:
      setattr( s, nm, OutPort( Bits1 ) )
    s.sl    = OutPort( mk_bits(h) )
    s.add   = OutPort( T )
    s.sub   = OutPort( T )
    s.mul   = OutPort( T )
    s.shr   = OutPort( T )
    s.xor   = OutPort( T )
    s.cat   = OutPort( mk_bits(2*T.nbits) )
    s.ife   = OutPort( T )
    s.f_add = OutPort( T )
    s.f_cat = OutPort( mk_bits(T.nbits+1) )
    s.f_ife = OutPort( T )
    s.f_sl  = OutPort( mk_bits(h) )
    s.n_gt  //= s.c_gt
    s.n_feq //= s.f_eq
    s.out   //= s.ife
    @update
    def up_expr():
      s.c_eq @= s.in_ == s.r
      s.c_ne @= s.in_ != s.r
      s.c_lt @= s.in_ <  s.r
      s.c_le @= s.in_ <= s.r
      s.c_gt @= s.in_ >  s.r
      s.c_ge @= s.in_ >= s.r
      s.k_eq @= s.in_ == k
      s.k_ne @= s.in_ != k
      s.k_lt @= s.in_ <  k
      s.k_le @= s.in_ <= k
      s.k_gt @= s.in_ >  k
      s.k_ge @= s.in_ >= k
      s.ra @= reduce_and( s.in_ )
      s.ro @= reduce_or( s.in_ )
      s.rx @= reduce_xor( s.in_ )
      if s.in_ >= s.r: s.bc @= 1
      else:            s.bc @= 0
      s.band @= ( s.in_ > s.r ) & ( s.in_ != k )
      s.bor  @= ( s.in_ < s.r ) | ( s.r == k )
      s.binv @= ~( s.in_ == s.r )
      s.pyand @= ( s.in_ > s.r ) and ( s.r >= k )
      s.pyor  @= ( s.in_ < s.r ) or ( s.r < k )
      s.pynot @= not ( s.in_ == s.r )
      s.cast  @= Bits1( s.in_[0] )
      s.castc @= Bits1( s.in_ <= s.r )
      s.sel @= s.in_[0]
      s.sl  @= s.in_[0:h]
      s.add @= s.in_ + s.r
      s.sub @= s.in_ - s.r
      s.mul @= s.in_ * s.r
      s.shr @= s.in_ >> 1
      s.xor @= s.in_ ^ s.r
      s.cat @= concat( s.in_, s.r )
      s.ife @= s.in_ if s.in_ > s.r else s.r
    @update_ff
    def up_expr_ff():
      s.r <<= s.in_
      s.f_eq <<= s.in_ == s.r
      s.f_ne <<= s.in_ != s.r
      s.f_lt <<= s.in_ <  s.r
      s.f_le <<= s.in_ <= k
      s.f_gt <<= s.in_ >  s.r
      s.f_ge <<= s.in_ >= s.r
      s.f_kgt <<= s.in_ > k
      s.f_ro  <<= reduce_or( s.in_ ^ s.r )
      s.f_sel <<= s.in_[h-1]
      s.f_band <<= ( s.in_ >= s.r ) & ( s.r != k )
      s.f_add <<= s.in_ + k
      s.f_cat <<= concat( s.in_ < s.r, s.in_ )
      s.f_ife <<= s.r if s.in_ == k else s.in_
      s.f_sl  <<= s.r[0:h]

class Reg( Component ):
  def construct( s, T ):
    s.in_ = InPort( T )
    s.out = OutPort( T )
    @update_ff
    def up_reg():
      s.out <<= s.in_

class PassThru( Component ):
  def construct( s, T ):
    s.in_ = InPort( T )
    s.out = OutPort( T )
    s.w   = Wire( T )
    s.w   //= s.in_
    s.out //= s.w

class Nested( Component ):
  def construct( s, T ):
    s.in_ = InPort( T )
    s.out = OutPort( T )
    s.inner = Reg( T )
    s.inner.in_ //= s.in_
    s.out //= s.inner.out

class Fan( Component ):
  def construct( s, T, n ):
    s.in_ = InPort( T )
    s.out = [ OutPort( T ) for _ in range(n) ]
    for i in range(n):
      s.out[i] //= s.in_

class Inv( Component ):
  def construct( s, T ):
    s.in_ = InPort( T )
    s.out = OutPort( T )
    @update
    def up_inv():
      s.out @= ~s.in_

class AddK( Component ):
  def construct( s, T, k ):
    s.in_  = InPort( T )
    s.out  = OutPort( T )
    s.k    = Wire( T )
    s.idle = Wire( T )
    s.k //= k
    @update
    def up_add():
      s.out @= s.in_ + s.k

class SliceMix( Component ):
  def construct( s, T, h, k ):
    s.in_ = InPort( T )
    s.out = OutPort( T )
    s.out[0:h] //= s.in_[T.nbits-h:T.nbits]
    s.out[h:T.nbits] //= k

class PtSwap( Component ):
  def construct( s, T ):
    s.in_ = InPort( T )
    s.out = OutPort( T )
    @update
    def up_swap():
      s.out.x @= ~s.in_.x
      s.out.y @= s.in_.y

class PtFields( Component ):
  def construct( s, T ):
    s.in_ = InPort( T )
    s.out = OutPort( T )
    s.out.x //= s.in_.x
    s.out.y //= s.in_.y

class Counter( Component ):
  def construct( s, T ):
    s.out = OutPort( T )
    @update_ff
    def up_cnt():
      s.out <<= s.out + 1

class Idle( Component ):
  def construct( s, T ):
    s.in_ = InPort( T )
    s.w   = Wire( T )
    s.out = OutPort( T )
'''

STRUCTS = {'Pt': 8, 'Nest': 15, 'Wide': 73, 'Tagged': 67, 'Big': 128,
           'Flag': 1, 'FlagBox': 1, 'FlagList': 1, 'Two': 2, 'TwoBox': 2, 'S64': 64, 'S65': 65}
BWIDTHS = [1, 1, 2, 3, 4, 5, 7, 8, 8, 13, 16, 31, 32, 33, 61, 62, 63, 64, 64, 65, 96, 100, 127, 128, 129, 200]

# moduli / truncations under which a lazy "did it change?" test (hash(), a 32/64-bit compare, an int cast) would call
# two different values equal: CPython hashes ints mod 2^61-1 (2^31-1 on 32-bit builds); machine words keep the low
# 8/16/31/32/63/64 bits
CHEAP_MODULI = [(1 << 61) - 1, (1 << 31) - 1, 1 << 64, 1 << 32, 1 << 63, 1 << 31, 1 << 16, 1 << 8]

def bitrev(x, w): return int(format(x, f'0{w}b')[::-1], 2)
def rotl(x, r, w): return ((x << r) | (x >> (w - r))) & ((1 << w) - 1) if w > 1 else x

def value_families(rng, w):
  """groups of DIFFERENT w-bit values that look alike under some cheap comparison"""
  top = (1 << w) - 1
  x = rng.choice([0, top, rng.getrandbits(w), rng.getrandbits(w)])
  fams = []
  for m in CHEAP_MODULI:
    r = x % m
    if r + m <= top:                                   # at least two values of this width are congruent
      kmax = (top - r) // m
      fams.append(('mod' + (f'2^{m.bit_length()}-1' if m & 1 else f'2^{m.bit_length() - 1}'),
                   sorted({r, r + kmax * m, r + rng.randint(0, kmax) * m, r + rng.randint(0, kmax) * m})))
  fams.append(('extremes', [0, top]))
  fams.append(('complement', [x, top ^ x]))
  fams.append(('bit-reversal', [x, bitrev(x, w)]))
  fams.append(('same-popcount', [x, rotl(x, rng.randrange(w), w), rotl(x, 1, w)]))
  fams.append(('one-bit-apart', [x, x ^ 1, x ^ (1 << (w - 1))]))     # same str()/bin() length, nearly equal
  fams.append(('random', [rng.getrandbits(w) for _ in range(2)]))
  return fams

def tdecl(T):
  return f'mk_bits({T[1]})' if T[0] == 'b' else T[1]
def twidth(T):
  return T[1] if T[0] == 'b' else STRUCTS[T[1]]

# attribute names for interface leaves / sub-bundles / interfaces.  The pools deliberately contain names that collide
# with reserved or structural names wherever pymtl3 allows them: `clk` / `reset` as ordinary interface pins, names of
# the enclosing or sibling components and of top-level ports (top, c0, c0_0, in0, out0), the component's own port names
# (in_, out) one level down, and names that differ only by the VCD mangling of indices / separators (a[0] vs a_0,
# a.b vs a__b).
LEAF_POOL = ['clk', 'clk', 'reset', 'reset', 'msg', 'val', 'rdy', 'in_', 'out', 'top', 'a', 'b', 'a_0', 'a__b', 'req',
             'resp', 'cnt', 'c0_0', 'c0', 'in0', 'out0', 'spi', 'x']
IFC_POOL = ['spi', 'a', 'a', 'b', 'a_0', 'a__b', 'imem', 'req', 'top', 'c0_0', 'c0', 'c1_0', 'in0', 'out0', 'x', 'clk_',
            'reset_', 'never0']

# names that contain / start with / end in the reserved names, for ports, wires, list elements and interface pins
RESERVED_LIKE = ['soft_reset', 'reset_n', 'div_clk', 'clk_en', 'gclk', 'clkreset', 'nclk', 'preset', 'clk_', 'reset_']
LEAF_POOL += RESERVED_LIKE
IFC_POOL  += [n for n in RESERVED_LIKE if n not in IFC_POOL]

def draw(rng, pool, n):
  out = []
  while len(out) < n:
    c = rng.choice(pool)
    if c not in out: out.append(c)
  return out

def rand_ifc_names(rng):
  comp = draw(rng, IFC_POOL, 3)
  wires = draw(rng, [n for n in RESERVED_LIKE + ['w', 'a_0', 'x'] if n not in comp], 2)
  return {'leaf': draw(rng, LEAF_POOL, 3), 'bundle': draw(rng, LEAF_POOL, 3), 'comp': comp, 'wires': wires}

def nifc_source(tag, nm):
  """a component with a nested bundle, a list of nested bundles and a flat interface whose attribute names are drawn;
  every T-typed leaf is a different delay of in_, every 1-bit leaf follows a different bit (or its inverse) of a free
  running counter, so all of them toggle and identically named leaves in sibling bundles carry different waveforms"""
  lf, bd, cp = nm['leaf'], nm['bundle'], nm['comp']
  L = [f'class NLeaf{tag}( Interface ):', '  def construct( s, T ):',
       f'    s.{lf[0]} = OutPort( T )', f'    s.{lf[1]} = OutPort( Bits1 )', f'    s.{lf[2]} = OutPort( Bits1 )', '',
       f'class NBundle{tag}( Interface ):', '  def construct( s, T ):',
       f'    s.{bd[0]} = NLeaf{tag}( T )', f'    s.{bd[1]} = NLeaf{tag}( T )', f'    s.{bd[2]} = OutPort( Bits1 )', '',
       f'class NStage{tag}( Component ):', '  def construct( s, T ):',
       '    s.in_ = InPort( T )', '    s.out = OutPort( T )', '    s.cnt = Wire( Bits8 )',
       f'    s.{cp[0]} = NBundle{tag}( T )', f'    s.{cp[1]} = [ NBundle{tag}( T ) for _ in range(2) ]',
       f'    s.{cp[2]} = NLeaf{tag}( T )']
  tl, bl = [], []
  wn = nm.get('wires')
  if wn:
    L += [f'    s.{wn[0]} = Wire( Bits1 )', f'    s.{wn[1]} = [ Wire( Bits1 ) for _ in range(2) ]']
    bl += [f's.{wn[0]}', f's.{wn[1]}[0]', f's.{wn[1]}[1]']
  for B in (f's.{cp[0]}', f's.{cp[1]}[0]', f's.{cp[1]}[1]'):
    for sub in (bd[0], bd[1]):
      tl.append(f'{B}.{sub}.{lf[0]}'); bl += [f'{B}.{sub}.{lf[1]}', f'{B}.{sub}.{lf[2]}']
    bl.append(f'{B}.{bd[2]}')
  tl.append(f's.{cp[2]}.{lf[0]}'); bl += [f's.{cp[2]}.{lf[1]}', f's.{cp[2]}.{lf[2]}']
  L += [f'    s.out //= {tl[-1]}', '    @update_ff', '    def up_nifc():', '      s.cnt <<= s.cnt + 1']
  prev = 's.in_'
  for t in tl:
    L.append(f'      {t} <<= {prev}'); prev = t
  for k, b in enumerate(bl):
    bit = f's.cnt[{k % 4}]'
    L.append(f'      {b} <<= {"~" + bit if (k // 4) % 2 else bit}')
  return '\n'.join(L) + '\n'

def tifc_source(tag, nm):
  lf, pr = nm['leaf'], nm['pair']
  L = []
  for d, port in (('In', 'InPort'), ('Out', 'OutPort')):
    L += [f'class T{d}Leaf{tag}( Interface ):', '  def construct( s, T ):',
          f'    s.{lf[0]} = {port}( T )', f'    s.{lf[1]} = {port}( Bits1 )', '',
          f'class T{d}Pair{tag}( Interface ):', '  def construct( s, T ):',
          f'    s.{pr[0]} = T{d}Leaf{tag}( T )', f'    s.{pr[1]} = T{d}Leaf{tag}( T )', '']
  return '\n'.join(L) + '\n'

def stage_ctor(st, tv):
  k = st[0]
  if k in ('Reg', 'PassThru', 'Nested', 'Inv', 'PtSwap', 'PtFields'): return f'{k}( {tv} )'
  if k == 'Fan': return f'Fan( {tv}, {st[1]} )'
  if k == 'IfcStage': return f'IfcStage( {tv}, {st[1]} )'
  if k == 'Expr': return f'ExprStage( {tv}, {st[1]}, {st[2]} )'
  if k == 'AddK': return f'AddK( {tv}, {st[1]} )'
  if k == 'SliceMix': return f'SliceMix( {tv}, {st[1]}, {st[2]} )'
  raise ValueError(k)
def stage_out(st):
  return 'out[0]' if st[0] == 'Fan' else 'out'

def render(spec, name):
  """spec -> (python source of the design, list of input descriptors (attr, index|None, T))"""
  L = [f'class {name}( Component ):', '  def construct( s ):']
  inputs, classes = [], []
  for j, ch in enumerate(spec['chains']):
    if ch.get('dropped'): continue
    tv = f'T{j}'
    L.append(f'    {tv} = {tdecl(ch["T"])}')
    if ch.get('share') is None:
      L.append(f'    s.in{j} = InPort( {tv} )')
      inputs.append((f'in{j}', None, ch['T']))
      src = f's.in{j}'
    else:
      src = f's.in{ch["share"]}'
    L.append(f'    s.out{j} = OutPort( {tv} )')
    ctors = []
    for i, st in enumerate(ch['stages']):
      if st[0] == 'NIfc':
        classes.append(nifc_source(f'_{j}_{i}', st[1])); ctors.append(f'NStage_{j}_{i}( {tv} )')
      else:
        ctors.append(stage_ctor(st, tv))
    if ch.get('aslist') and ch['stages']:
      L.append(f'    s.c{j} = [ ' + ', '.join(ctors) + ' ]')
      refs = [f's.c{j}[{i}]' for i in range(len(ch['stages']))]
    else:
      refs = []
      for i, st in enumerate(ch['stages']):
        L.append(f'    s.c{j}_{i} = {ctors[i]}')
        refs.append(f's.c{j}_{i}')
    for i, (st, r) in enumerate(zip(ch['stages'], refs)):
      if st[0] == 'Expr':
        for pin in ('c_gt', 'f_eq', 'k_le', 'cat'):
          L.append(f'    s.x{j}_{i}_{pin} = OutPort( {"mk_bits(" + str(2 * twidth(ch["T"])) + ")" if pin == "cat" else "Bits1"} )')
          L.append(f'    s.x{j}_{i}_{pin} //= {r}.{pin}')
    for st, r in zip(ch['stages'], refs):
      L.append(f'    {r}.in_ //= {src}')
      src = f'{r}.{stage_out(st)}'
    L.append(f'    s.out{j} //= {src}')
  xnames = spec.get('names') or {}
  for i, ex in enumerate(spec['extras']):
    k = ex[0]
    nm_ = xnames.get(i)            # drawn attribute name of the wire / port / list this extra creates (None: default)
    if k == 'none':
      pass
    elif k == 'never':
      L.append(f'    s.{nm_ or f"never{i}"} = Wire( {tdecl(ex[1])} )')
    elif k == 'konst':
      L.append(f'    s.{nm_ or f"konst{i}"} = OutPort( {tdecl(ex[1])} )')
      L.append(f'    s.{nm_ or f"konst{i}"} //= {ex[2]}')
    elif k == 'counter':
      L.append(f'    s.cnt{i} = Counter( {tdecl(ex[1])} )')
      L.append(f'    s.{nm_ or f"cnto{i}"} = OutPort( {tdecl(ex[1])} )')
      L.append(f'    s.{nm_ or f"cnto{i}"} //= s.cnt{i}.out')
    elif k == 'topcnt':
      w_ = nm_ or f'tc{i}'
      L.append(f'    s.{w_} = Wire( {tdecl(ex[1])} )')
      L.append(f'    @update_ff')
      L.append(f'    def up_tc{i}():')
      L.append(f'      s.{w_} <<= s.{w_} + {ex[2]}')
    elif k == 'idle':
      L.append(f'    s.idle{i} = Idle( {tdecl(ex[1])} )')
    elif k == 'listports':
      n = ex[2]
      lp = nm_ or f'lp{i}'
      L.append(f'    s.{lp} = [ InPort( {tdecl(ex[1])} ) for _ in range({n}) ]')
      L.append(f'    s.lo{i} = [ OutPort( {tdecl(ex[1])} ) for _ in range({n}) ]')
      L.append(f'    for i in range({n}):')
      L.append(f'      s.lo{i}[i] //= s.{lp}[i]')
      for q in range(n): inputs.append((lp, q, ex[1]))
    elif k == 'topifc':
      n = ex[2]
      nm = ex[3] if len(ex) > 3 else {'leaf': ['msg', 'val'], 'pair': ['req', 'resp']}
      lf, pr = nm['leaf'], nm['pair']
      classes.append(tifc_source(f'_x{i}', nm))
      L.append(f'    s.ti{i} = [ TInPair_x{i}( {tdecl(ex[1])} ) for _ in range({n}) ]')
      L.append(f'    s.to{i} = [ TOutPair_x{i}( {tdecl(ex[1])} ) for _ in range({n}) ]')
      L.append(f'    for i in range({n}):')
      L.append(f'      s.to{i}[i].{pr[0]}.{lf[0]} //= s.ti{i}[i].{pr[0]}.{lf[0]}')
      L.append(f'      s.to{i}[i].{pr[1]}.{lf[0]} //= s.ti{i}[i].{pr[1]}.{lf[0]}')
      L.append(f'      s.to{i}[i].{pr[0]}.{lf[1]} //= s.ti{i}[i].{pr[1]}.{lf[1]}')
      for q in range(n):
        inputs.append((f'ti{i}[{q}].{pr[0]}.{lf[0]}', None, ex[1]))
        inputs.append((f'ti{i}[{q}].{pr[1]}.{lf[0]}', None, ex[1]))
        inputs.append((f'ti{i}[{q}].{pr[1]}.{lf[1]}', None, ('b', 1)))
    elif k == 'wires':
      L.append(f'    s.ww{i} = [ Wire( {tdecl(ex[1])} ) for _ in range({ex[2]}) ]')
    else:
      raise ValueError(k)
  if len(L) == 2: L.append('    pass')
  if spec.get('flow') == 'openloop':
    # the open-loop simulator advances when a top-level method is called again
    L += ['  @method_port', '  def poke( s ):', '    pass']
  return PRELUDE + '\n' + '\n'.join(classes) + '\n' + '\n'.join(L) + '\n', inputs

# ----------------------------------------------------------------------------- random specs
def rand_type(rng, allow_struct=True):
  if allow_struct and rng.random() < 0.3:
    return ('s', rng.choice(['Pt', 'Pt', 'Nest', 'Wide', 'Tagged', 'Big', 'Flag', 'FlagBox', 'FlagList', 'Two', 'TwoBox', 'S64', 'S65']))
  return ('b', rng.choice(BWIDTHS))

def rand_stage(rng, T):
  w = twidth(T)
  opts = ['Reg', 'Reg', 'PassThru', 'PassThru', 'Nested', 'Fan', 'IfcStage', 'NIfc', 'NIfc']
  if T[0] == 'b':
    opts += ['Inv', 'AddK', 'AddK', 'Expr', 'Expr', 'Expr']
    if w >= 2: opts += ['SliceMix']
  if T == ('s', 'Pt'): opts += ['PtSwap', 'PtFields', 'PtSwap']
  k = rng.choice(opts)
  if k == 'Fan': return ('Fan', rng.randint(1, 3))
  if k == 'IfcStage': return ('IfcStage', rng.randint(1, 3))
  if k == 'NIfc': return ('NIfc', rand_ifc_names(rng))
  if k == 'Expr': return ('Expr', rng.choice([0, (1 << w) - 1, rng.randrange(1 << w), rng.randrange(1 << w)]), rng.randint(1, w))
  if k == 'AddK': return ('AddK', rng.randrange(0, 1 << min(w, 16)))
  if k == 'SliceMix':
    h = rng.randint(1, w - 1)
    return ('SliceMix', h, rng.randrange(0, 1 << min(w - h, 16)))
  return (k,)

def rand_spec(rng, big=False):
  nch = rng.randint(0, 5 if big else 3)
  chains = []
  for j in range(nch):
    share = None
    if chains and rng.random() < 0.35:
      c = rng.randrange(len(chains))
      if chains[c].get('share') is None:
        share = c
    T = chains[share]['T'] if share is not None else rand_type(rng)
    ns = rng.choice([0, 1, 1, 2, 2, 3, 4] if big else [0, 1, 1, 2, 2, 3])
    chains.append({'T': T, 'stages': [rand_stage(rng, T) for _ in range(ns)], 'share': share,
                   'aslist': rng.random() < 0.4})
  extras = []
  for _ in range(rng.randint(0, 4 if big else 3)):
    k = rng.choice(['never', 'konst', 'counter', 'topcnt', 'idle', 'listports', 'never', 'topcnt', 'topifc'])
    if k == 'never': extras.append(('never', rand_type(rng)))
    elif k == 'konst':
      T = rand_type(rng, False); extras.append(('konst', T, rng.choice([0, 1, (1 << T[1]) - 1, rng.randrange(1 << T[1])])))
    elif k == 'counter': extras.append(('counter', ('b', rng.choice([1, 2, 3, 8, 33]))))
    elif k == 'topcnt':
      T = ('b', rng.choice([1, 1, 2, 4, 65])); extras.append(('topcnt', T, rng.choice([1, 1, (1 << T[1]) - 1, 0])))
    elif k == 'idle': extras.append(('idle', rand_type(rng)))
    elif k == 'listports': extras.append(('listports', rand_type(rng), rng.randint(1, 3)))
    elif k == 'topifc':
      extras.append(('topifc', rand_type(rng), rng.randint(1, 2), {'leaf': draw(rng, LEAF_POOL, 2), 'pair': draw(rng, LEAF_POOL, 2)}))
  names, used = {}, set()
  for i, ex in enumerate(extras):
    if ex[0] in ('never', 'konst', 'counter', 'topcnt', 'listports') and rng.random() < 0.6:
      nm = rng.choice(RESERVED_LIKE)
      if nm in used: nm = f'x{i}_{nm}'
      used.add(nm); names[i] = nm
  return {'chains': chains, 'extras': extras, 'names': names}

def rand_inputs(rng, inputs, ncyc):
  """per cycle [value per input].  Every input draws from a small pool built from 1-3 `value_families` of its packed
  width (values that collide under cheap comparisons: congruent mod 2^61-1 / 2^31-1 / 2^32 / 2^64 ..., complements,
  bit reversals, rotations, one bit apart, all-zeros/all-ones), so consecutive cycles move between look-alike values,
  old values are revisited, and (hold probability) nets stay unchanged for several cycles."""
  pools = []
  for (_, _, T) in inputs:
    w = twidth(T)
    fams = value_families(rng, w)
    pool = []
    for _, vals in rng.sample(fams, rng.randint(1, min(3, len(fams)))):
      for v in vals[:3]:
        if v not in pool: pool.append(v)
    if len(pool) < 2: pool = [0, (1 << w) - 1]
    pools.append(pool)
  seq, cur = [], [0] * len(inputs)
  hold = rng.choice([0.0, 0.0, 0.3, 0.6, 0.9])
  for t in range(ncyc):
    for i in range(len(inputs)):
      if t == 0 or rng.random() >= hold:
        cur[i] = rng.choice(pools[i])
    seq.append(list(cur))
  return seq

DIRECTED = [
  # smallest design with ordinary interface pins called exactly clk / reset (top-level list of nested interfaces)
  {'chains': [], 'extras': [('topifc', ('b', 4), 1, {'leaf': ['clk', 'reset'], 'pair': ['a', 'b']})]},
  # names that contain / start with / end in the reserved names: wires, ports, list elements, interface pins, interfaces
  {'chains': [{'T': ('b', 4), 'stages': [('NIfc', {'leaf': ['msg', 'soft_reset', 'div_clk'], 'bundle': ['gclk', 'reset_n', 'clkreset'],
                                                    'comp': ['clk_en', 'nclk', 'preset'], 'wires': ['gclk', 'soft_reset']})],
               'share': None, 'aslist': False}],
   'extras': [('never', ('b', 3)), ('konst', ('b', 4), 9), ('counter', ('b', 3)), ('topcnt', ('b', 1), 1), ('listports', ('b', 2), 2),
              ('topcnt', ('b', 2), 1), ('topifc', ('b', 1), 1, {'leaf': ['gclk', 'soft_reset'], 'pair': ['div_clk', 'reset_n']})],
   'names': {0: 'clkreset', 1: 'reset_n', 2: 'div_clk', 3: 'soft_reset', 4: 'gclk', 5: 'clk_en'}},
  # a single component without children: s.clk is in no net and gets its net during the header walk
  {'chains': [{'T': ('b', 4), 'stages': [], 'share': None, 'aslist': False}], 'extras': []},
  {'chains': [], 'extras': []},
  # everything 1-bit
  {'chains': [{'T': ('b', 1), 'stages': [('Reg',), ('Inv',), ('PassThru',)], 'share': None, 'aslist': True},
              {'T': ('b', 1), 'stages': [('Nested',)], 'share': 0, 'aslist': False}], 'extras': [('topcnt', ('b', 1), 1), ('never', ('b', 1))]},
  # more than 94 nets: two-character identifier codes
  {'chains': [{'T': ('b', 3), 'stages': [('Reg',), ('AddK', 5)], 'share': None, 'aslist': False}],
   'extras': [('wires', ('b', 2), 100), ('topcnt', ('b', 2), 1), ('listports', ('b', 5), 3)]},
  # wide values and every struct
  {'chains': [{'T': ('s', 'Wide'), 'stages': [('Reg',), ('Fan', 3), ('PassThru',)], 'share': None, 'aslist': False},
              {'T': ('s', 'Nest'), 'stages': [('Nested',), ('PassThru',)], 'share': None, 'aslist': True},
              {'T': ('s', 'Pt'), 'stages': [('PtSwap',), ('PtFields',), ('Reg',)], 'share': None, 'aslist': False},
              {'T': ('b', 100), 'stages': [('Inv',), ('SliceMix', 37, 12345)], 'share': None, 'aslist': False}],
   'extras': [('konst', ('b', 100), (1 << 100) - 1), ('counter', ('b', 33)), ('idle', ('s', 'Nest'))]},
  # wide values: 61..200 bits and structs with wide fields, through registers, pure connections and list ports
  {'chains': [{'T': ('b', 61), 'stages': [('Reg',)], 'share': None, 'aslist': False},
              {'T': ('b', 64), 'stages': [('PassThru',), ('Reg',)], 'share': None, 'aslist': False},
              {'T': ('s', 'Tagged'), 'stages': [('Nested',)], 'share': None, 'aslist': False},
              {'T': ('s', 'Big'), 'stages': [], 'share': None, 'aslist': False},
              {'T': ('b', 200), 'stages': [('Inv',)], 'share': None, 'aslist': False}],
   'extras': [('listports', ('b', 128), 2), ('listports', ('b', 62), 1)]},
  # interfaces: nested 2-3 levels, lists of interfaces, interfaces inside a list of components, at top level
  {'chains': [{'T': ('b', 8), 'stages': [('IfcStage', 2), ('IfcStage', 1), ('Reg',)], 'share': None, 'aslist': True},
              {'T': ('s', 'Pt'), 'stages': [('IfcStage', 3)], 'share': None, 'aslist': False}],
   'extras': [('topifc', ('b', 5), 2), ('topifc', ('s', 'Tagged'), 1)]},
  # interface attribute names that collide with structural names / manglings (each kind appears, none is a clock)
  {'chains': [{'T': ('s', 'Pt'), 'stages': [('NIfc', {'leaf': ['msg', 'reset', 'top'], 'bundle': ['a', 'b', 'a_0'], 'comp': ['a__b', 'a', 'a_0']}),
                                           ('NIfc', {'leaf': ['in_', 'out', 'c0'], 'bundle': ['c0_0', 'in0', 'out0'], 'comp': ['c0_0', 'c0', 'top']})],
               'share': None, 'aslist': False}],
   'extras': [('topifc', ('s', 'Nest'), 2, {'leaf': ['a', 'reset'], 'pair': ['a', 'a_0']})]},
  # signals driven directly by expression results, at 1, 8 and 64 bits, chained and in a list of components
  {'chains': [{'T': ('b', 1), 'stages': [('Expr', 1, 1), ('Expr', 0, 1)], 'share': None, 'aslist': True},
              {'T': ('b', 8), 'stages': [('Expr', 5, 3), ('Reg',), ('Expr', 255, 8)], 'share': None, 'aslist': False},
              {'T': ('b', 64), 'stages': [('Expr', 7, 61)], 'share': None, 'aslist': False}], 'extras': []},
  # struct types of total width 1 (single field, nested, list of one), 2, 64 and 65 as port, wire and register types
  {'chains': [{'T': ('s', 'Flag'), 'stages': [('PassThru',), ('Reg',)], 'share': None, 'aslist': False},
              {'T': ('s', 'FlagBox'), 'stages': [('Reg',), ('PassThru',)], 'share': None, 'aslist': True},
              {'T': ('s', 'FlagList'), 'stages': [('Nested',)], 'share': None, 'aslist': False},
              {'T': ('s', 'Two'), 'stages': [('Reg',)], 'share': None, 'aslist': False},
              {'T': ('s', 'TwoBox'), 'stages': [('PassThru',), ('Reg',)], 'share': None, 'aslist': False},
              {'T': ('s', 'S64'), 'stages': [('Reg',), ('PassThru',)], 'share': None, 'aslist': False},
              {'T': ('s', 'S65'), 'stages': [('PassThru',), ('Reg',)], 'share': None, 'aslist': False}],
   'extras': [('never', ('s', 'Flag')), ('listports', ('s', 'FlagBox'), 2), ('topifc', ('s', 'FlagList'), 1)]},
  # one input fanned into three chains: one big net across many components
  {'chains': [{'T': ('b', 8), 'stages': [('PassThru',), ('PassThru',)], 'share': None, 'aslist': False},
              {'T': ('b', 8), 'stages': [('Fan', 3), ('PassThru',)], 'share': 0, 'aslist': False},
              {'T': ('b', 8), 'stages': [], 'share': 0, 'aslist': False}], 'extras': [('konst', ('b', 8), 0)]},
]

# ----------------------------------------------------------------------------- run one design
_mod_counter = [0]

def load_design(src, name):
  _mod_counter[0] += 1
  fn = os.path.abspath(f'c16_design_{os.getpid()}_{_mod_counter[0]}.py')
  with open(fn, 'w') as f: f.write(src)
  sp = importlib.util.spec_from_file_location(f'c16_design_{_mod_counter[0]}', fn)
  mod = importlib.util.module_from_spec(sp)
  sp.loader.exec_module(mod)
  return mod, fn

def insert_sampler(top, vcd_func, fn):
  """put fn at the clock edge of every tick schedule the simulation pass closed over: immediately before the first
  flip-flop / posedge-flip block, i.e. after all combinational blocks of the cycle and before any state changes
  (PrepareSimPass: sim_tick and the ff part of sim_reset; OpenLoopCLPass: the method-free schedule shared by the wrapped
  top-level methods and the ff part of sim_reset).  The schedules are recognised by containing the VCD dump function;
  where that function sits inside them is NOT used (a dump moved behind the flip must disagree with the samples).  The
  block at the edge is wrapped in place, so indices into the schedule that a pass precomputed stay valid."""
  edge = list(top._sched.schedule_ff) + list(top._sched.schedule_posedge_flip)
  seen, count = set(), [0]
  def walk(f, depth):
    if depth > 3: return
    for cell in (getattr(f, '__closure__', None) or ()):
      try: v = cell.cell_contents
      except ValueError: continue
      if isinstance(v, list):
        if id(v) not in seen and any(e is vcd_func for e in v):
          seen.add(id(v))
          pos = [k for k, e in enumerate(v) if any(e is g for g in edge)]
          if not pos: pos = [k for k, e in enumerate(v) if getattr(e, '__name__', '') == 'advance_sim_cycle']
          if not pos: pos = [k for k, e in enumerate(v) if e is vcd_func]     # design without any state
          orig = v[pos[0]]
          def at_edge(orig=orig):
            fn(); return orig()
          v[pos[0]] = at_edge
          count[0] += 1
      elif callable(v) and v is not fn and v is not vcd_func and hasattr(v, '__closure__'):
        walk(v, depth + 1)
  roots = [getattr(top, 'sim_tick', None), getattr(top, 'sim_reset', None)]
  from pymtl3.dsl import CalleePort
  roots += [x.method for x in top.get_all_object_filter(lambda x: isinstance(x, CalleePort) and x.get_host_component() is top)]
  for r in roots:
    if r is not None: walk(r, 0)
  if count[0] != 2:
    raise RuntimeError(f'expected the VCD dump function in 2 schedules (tick, reset), found {count[0]}')

FLOWS = ['default', 'default', 'default', 'simple', 'openloop', 'openloop']

def run_design(src, name, inputs, seq, reset, vcd=True, tag='d', flow='default'):
  """returns dict(sigs=[(fullname, width)], samples=[[int]], vcd_text, textwave).
  flow: 'default'  = DefaultPassGroup(vcdwave=, textwave=)                      (dynamic schedule + PrepareSimPass)
        'simple'   = SimpleSimPass with the waveform metadata set on the top     (static schedule + PrepareSimPass)
        'openloop' = GenDAGPass + OpenLoopCLPass, the pipeline inside AutoTickSimPass (method-driven simulator; the
                     design gets a top-level method port `poke`, each further call of it completes one cycle)"""
  from pymtl3.passes.PassGroups import DefaultPassGroup, SimpleSimPass
  from pymtl3.passes.sim.GenDAGPass import GenDAGPass
  from pymtl3.passes.autotick.OpenLoopCLPass import OpenLoopCLPass
  from pymtl3.passes.tracing.VcdGenerationPass import VcdGenerationPass
  from pymtl3.passes.tracing.PrintTextWavePass import PrintTextWavePass
  mod, fn = load_design(src, name)
  top = getattr(mod, name)()
  top.elaborate()
  base = f'c16_{os.getpid()}_{tag}_{_mod_counter[0]}'
  if flow == 'default':
    top.apply(DefaultPassGroup(vcdwave=base if vcd else None, textwave=vcd))
  else:
    if vcd:
      top.set_metadata(VcdGenerationPass.vcd_file_name, base)
      top.set_metadata(PrintTextWavePass.enable, True)
    if flow == 'simple':
      top.apply(SimpleSimPass())
    elif flow == 'openloop':
      top.apply(GenDAGPass())
      top.apply(OpenLoopCLPass(print_line_trace=False))
    else:
      raise ValueError(flow)
  tick = top.poke if flow == 'openloop' else top.sim_tick
  sigs = sorted((x for x in top._dsl.all_signals if x.is_top_level_signal()), key=repr)
  mp = top._sim.signal_object_mapping
  holders = [mp[x][:3] for x in sigs]
  samples = []
  def c16_sample():
    row = []
    for cur, i, is_list in holders:
      v = cur[i] if is_list else getattr(cur, i)
      b = v.to_bits()
      row.append((int(b.nbits), int(b)))
    samples.append(row)
  if vcd:
    insert_sampler(top, top.get_metadata(VcdGenerationPass.vcd_func), c16_sample)
  types = {k: getattr(mod, k) for k in STRUCTS}
  from pymtl3.datatypes import mk_bits
  if reset: top.sim_reset()
  for rowv in seq:
    for (attr, idx, T), v in zip(inputs, rowv):
      obj = top
      for part in re.findall(r'[A-Za-z_]\w*|\[\d+\]', attr):
        obj = obj[int(part[1:-1])] if part[0] == '[' else getattr(obj, part)
      if idx is not None: obj = obj[idx]
      val = mk_bits(twidth(T))(v)
      if T[0] == 's': val = types[T[1]].from_bits(val)
      obj.__imatmul__(val)
    tick()
  # naming convention of the clean implementation: one $scope per component along repr(host) ('s' -> 'top'), and inside it
  # the signal's FULL name relative to its host component (interface prefixes and list indices kept), [ ] -> ( )
  def scope_of(x):
    return tuple(mangle(c) for c in ('top' + repr(x.get_host_component())[1:]).split('.'))
  def rel_of(x):
    h, r = repr(x.get_host_component()), repr(x)
    if not r.startswith(h + '.'): raise RuntimeError(f'{r} is not named under its host {h}')
    return mangle(r[len(h) + 1:])
  res = {'sigs': [('top' + repr(x)[1:], int(x._dsl.Type.nbits)) for x in sigs],
         'where': [(scope_of(x), rel_of(x)) for x in sigs],
         'field': [x.get_field_name() for x in sigs], 'repr': [repr(x) for x in sigs],
         'is_struct': [not hasattr(x._dsl.Type, 'nbits') or hasattr(x._dsl.Type, '__dataclass_fields__') or
                       x._dsl.Type.__name__ in STRUCTS for x in sigs]}
  if vcd:
    # the dump function flushes after every cycle; the file object stays open inside the closure
    with open(base + '.vcd') as f: res['vcd_text'] = f.read()
    res['textwave'] = {k: list(v) for k, v in top.get_metadata(PrintTextWavePass.textwave_dict).items()}
    for r in samples:
      for (n, _), (_, w) in zip(r, res['sigs']):
        if n != w: raise RuntimeError('sampled width differs from declared type width')
    res['samples'] = [[u for _, u in r] for r in samples]
    for p in (base + '.vcd',):
      try: os.unlink(p)
      except OSError: pass
  try: os.unlink(fn)
  except OSError: pass
  return res

# ----------------------------------------------------------------------------- our VCD tokenizer
def mangle(name):
  return name.replace('[', '(').replace(']', ')').replace(':', '__')

def tokenize_vcd(text):
  """-> (vars [((scope path, name inside the scope), width, code)], body tokens [('t', n) | ('v', rawline)])"""
  marker = '$enddefinitions $end'
  pos = text.index(marker)
  head, body = text[:pos], text[pos + len(marker):]
  toks = head.split()
  scopes, vars_, i = [], [], 0
  while i < len(toks):
    t = toks[i]
    if t == '$scope':
      scopes.append(toks[i + 2]); assert toks[i + 3] == '$end'; i += 4
    elif t == '$upscope':
      scopes.pop(); assert toks[i + 1] == '$end'; i += 2
    elif t == '$var':
      j = toks.index('$end', i)
      width, code, nm = int(toks[i + 2]), toks[i + 3], ' '.join(toks[i + 4:j])
      vars_.append(((tuple(scopes), nm), width, code)); i = j + 1
    elif t in ('$date', '$version', '$timescale', '$comment'):
      i = toks.index('$end', i) + 1
    else:
      raise ValueError(f'unexpected header token {t!r}')
  if scopes: raise ValueError('unbalanced $scope')
  out = []
  for ln in body.split('\n'):
    if ln.strip() == '': continue
    if re.fullmatch(r'#\d+', ln.strip()):
      out.append(('t', int(ln.strip()[1:])))
    else:
      out.append(('v', ln))
  return vars_, out

VALUE_LINE = re.compile(r'^(?:([01xzXZ])|[bB]([01xzXZ]+) )(\S+)$')

def py_decode(tokens, clk, codes):
  """reference reader in Python (describes a mismatch and steers shrinking; the verdict is Coq's).  Strict: a body line
  that is neither `#<t>`, `0|1|x|z<code>` nor `b[01xz]+ <code>` is malformed VCD and is reported, never skipped."""
  st, now, closed, malformed = {}, -1, [], []
  for k, v in tokens:
    if k == 't':
      closed.append((now, dict(st))); now = v
    else:
      m = VALUE_LINE.match(v)
      if not m:
        malformed.append(v); continue
      digits = m.group(1) or m.group(2)
      st[m.group(3)] = (len(digits), int(digits, 2)) if set(digits) <= {'0', '1'} else None     # x/z: no two-state value
  rows = [[s.get(c) for c in codes] for (t, s) in closed if t >= 0 and s.get(clk) == (1, 1)]
  wave = [(t, (s.get(clk) or (0, None))[1]) for (t, s) in closed] + [(now, (st.get(clk) or (0, None))[1])]
  return rows, wave, malformed

def cstr(s):
  return '"' + s.replace('"', '""') + '"%string'

def analyse(res):
  """everything derived from one run; returns dict with coq case term + python-side findings"""
  out = {'problems': []}
  vars_, tokens = tokenize_vcd(res['vcd_text'])
  # exact bijection between the design's top-level signals and the $var declarations: per component scope, by the full
  # relative name, no duplicates, nothing missing, nothing extra, equal widths.  Signals are then located by that key.
  show = lambda k: '/'.join(k[0]) + ' : ' + k[1]
  decl, dup = {}, []
  for key, w, code in vars_:
    if key in decl: dup.append(key)
    decl[key] = (w, code)
  for key in sorted(set(dup))[:5]:
    out['problems'].append(('header', f'$var {show(key)} is declared {1 + dup.count(key)} times in one scope: a reader cannot tell '
                                      f'which trace belongs to which signal'))
  want = {key: w for key, (_, w) in zip(res['where'], res['sigs'])}
  if len(want) != len(res['where']): raise RuntimeError('two design signals with one (scope, name)')
  missing, extra = sorted(set(want) - set(decl)), sorted(set(decl) - set(want))
  if missing or extra:
    out['problems'].append(('header', f'signals without a $var of their name in their component scope: {[show(k) for k in missing[:6]]}; '
                                      f'$var declarations that name no signal: {[show(k) for k in extra[:6]]}'))
  for key, w in want.items():
    if key in decl and decl[key][0] != w:
      out['problems'].append(('header', f'{show(key)} declared {decl[key][0]} bits, type has {w}'))
  if out['problems']: return out
  names = ['.'.join(k[0]) + '.' + k[1] for k in res['where']]
  codes = [decl[k][1] for k in res['where']]
  widths = [decl[k][0] for k in res['where']]
  clk = decl[(('top',), 'clk')][1]
  # the clock itself (s.clk and the clk ports on its net) is synthesised by the dump and checked through clock_wave;
  # any OTHER signal that carries the clock's code is compared like every signal (and will disagree)
  # (a component's own clock is the signal whose name relative to its host is exactly `clk`; an interface pin that
  # happens to be called clk is an ordinary signal)
  nonclk = [i for i, c in enumerate(codes) if not (c == clk and res['where'][i][1] == 'clk')]
  samples = res['samples']
  out.update(names=names, codes=codes, widths=widths, clk=clk, nonclk=nonclk, tokens=tokens)
  # ---- python reference check (description of mismatches only)
  rows, wave, malformed = py_decode(tokens, clk, [codes[i] for i in nonclk])
  mism = [{'what': 'malformed VCD: not a value-change line', 'line': ln} for ln in malformed[:4]]
  if len(rows) != len(samples):
    mism.append({'what': 'number of cycles', 'vcd': len(rows), 'simulated': len(samples)})
  for t, (r, srow) in enumerate(zip(rows, samples)):
    for j, i in enumerate(nonclk):
      if r[j] is None or r[j][1] != srow[i] or not (0 < r[j][0] <= widths[i]):
        mism.append({'signal': names[i], 'cycle': t, 'width': widths[i], 'simulator': srow[i],
                     'vcd(digits,value)': r[j], 'code': codes[i]})
  n = len(samples)
  expw = [(-1, 0)] + [x for t in range(n) for x in ((100 * t, 1), (100 * t + 50, 0))] + [(100 * n, 1)]
  if wave != expw:
    d = next((k for k, (a, b) in enumerate(zip(wave, expw)) if a != b), min(len(wave), len(expw)))
    mism.append({'what': 'clock (time, value) as read back', 'first_difference_at': d,
                 'read_back': wave[max(0, d - 2):d + 3], 'expected': expw[max(0, d - 2):d + 3]})
  out['mismatches'] = mism
  # ---- text wave.  Expectation independent of the pass: EVERY top-level signal of EVERY component has a row, except
  # the implicit clock and reset ports of components (name relative to the host exactly `clk` / `reset`); the top's
  # reset has a row.
  tw, twm, pins = res['textwave'], [], []
  for i, r in enumerate(res['repr']):
    if res['where'][i][1] in ('clk', 'reset') and r != 's.reset': continue
    if r not in tw:
      if res['field'][i] in ('clk', 'reset'): pins.append(r)       # an ordinary interface pin that is called clk / reset
      else: twm.append({'signal': r, 'what': 'has no row in the text-wave record'})
      continue
    rec = tw[r]
    if len(rec) != n:
      twm.append({'signal': r, 'what': 'number of cycles', 'recorded': len(rec), 'simulated': n}); continue
    for t, s in enumerate(rec):
      okv = s.startswith('0b') and len(s) == 2 + widths[i] and set(s[2:]) <= {'0', '1'} and int(s[2:], 2) == samples[t][i]
      if not okv:
        twm.append({'signal': r, 'cycle': t, 'simulator': samples[t][i], 'textwave': s}); break
  out['textwave_pins_without_row'] = pins
  out['textwave_mismatches'] = twm
  # ---- model parameters read off the file: net order = order of the default dump
  first_t = next(k for k, (a, _) in enumerate(tokens) if a == 't')
  init_codes = []
  for a, v in tokens[:first_t]:
    m = VALUE_LINE.match(v)
    init_codes.append(m.group(3) if m else v)
  by_code = {}
  for i, c in enumerate(codes): by_code.setdefault(c, []).append(i)
  tie_ok = sorted(init_codes) == sorted(by_code) and len(set(init_codes)) == len(init_codes)
  out['net_sizes'] = sorted(len(v) for v in by_code.values())
  if tie_ok:
    ws = [widths[by_code[c][0]] for c in init_codes]
    k = init_codes.index(clk)
    nets = [c for c in init_codes if c != clk]
    nettr = [[srow[by_code[c][0]] for c in nets] for srow in samples]
  else:
    ws, k, nettr = [1], 0, []
    out['problems'].append(('model-tie', 'the default dump does not list every identifier code exactly once'))
  lines = coq_list([f'LTime {zlit(v)}' if a == 't' else f'LVal {cstr(v)}' for a, v in tokens])
  sigs = coq_list([f'({cstr(codes[i])}, {widths[i]})' for i in nonclk])
  samp = coq_list([coq_list([zlit(srow[i]) for i in nonclk]) for srow in samples])
  out['coq'] = (f'({cstr(clk)}, {sigs},\n {lines},\n {samp},\n {coq_list([zlit(w) for w in ws])}, {k}%nat, '
                f'{coq_list([coq_list([zlit(v) for v in r]) for r in nettr])})')
  return out

MAX_REPORTS = 5

COQ_DEFS = '''
From Coq Require Import Strings.Ascii Strings.String.
Definition case := (string * list (string * Z) * list line * list (list Z) * list Z * nat * list (list Z))%type.
(* 0 = everything agrees; +1 a line is not a two-state value change; +2 some signal at some cycle reads back
   differently from the sample; +4 the clock does not toggle once per cycle; +8 the writer model differs from the file *)
Definition verdict (c : case) : Z :=
  let '(clk, sigs, lines, samples, ws, k, nettr) := c in
  (match parse_lines lines with
   | Some toks =>
       (if rows_match (map snd sigs) samples (decode clk (map fst sigs) toks) then 0 else 2)
       + (if wave_eqb (clock_wave clk toks) (expected_clock (List.length samples)) then 0 else 4)
   | None => 1
   end)
  + (if lines_eqb (vcd_lines ws k nettr) lines then 0 else 8).
'''

def feature_hist(ctx, spec, an, seq, reset):
  h = ctx.hist
  def inc(k, n=1): h[k] = h.get(k, 0) + n
  for ch in spec['chains']:
    inc('chain:' + ('struct' if ch['T'][0] == 's' else 'bits'))
    if ch.get('share') is not None: inc('chain:shared-input')
    for st in ch['stages']: inc('stage:' + st[0])
  for ex in spec['extras']: inc('extra:' + ex[0])
  if reset: inc('with-sim_reset')
  inc('nets-with>=2-signals', sum(1 for s in an['net_sizes'] if s >= 2))
  inc('nets-with>=4-signals', sum(1 for s in an['net_sizes'] if s >= 4))

def lookalike_stats(samples, widths, acc):
  """count consecutive-cycle value CHANGES of any signal that collide under a cheap comparison"""
  if not samples: return
  for i, w in enumerate(widths):
    top, prev = (1 << w) - 1, samples[0][i]
    for r in samples[1:]:
      v = r[i]
      if v != prev:
        if w >= 61 and hash(v) == hash(prev): acc['equal-hash()'] = acc.get('equal-hash()', 0) + 1
        if w > 32 and (v ^ prev) & 0xffffffff == 0: acc['equal-low-32'] = acc.get('equal-low-32', 0) + 1
        if w > 64 and (v ^ prev) & ((1 << 64) - 1) == 0: acc['equal-low-64'] = acc.get('equal-low-64', 0) + 1
        if w > 31 and v % 0x7fffffff == prev % 0x7fffffff: acc['equal-mod-2^31-1'] = acc.get('equal-mod-2^31-1', 0) + 1
        if w > 1 and bin(v).count('1') == bin(prev).count('1'): acc['equal-popcount'] = acc.get('equal-popcount', 0) + 1
        if v == top ^ prev: acc['complement'] = acc.get('complement', 0) + 1
        if {v, prev} == {0, top}: acc['zeros<->ones'] = acc.get('zeros<->ones', 0) + 1
        if w >= 61: acc['changes-of-signals>=61-bits'] = acc.get('changes-of-signals>=61-bits', 0) + 1
      prev = v

def trace_stats(samples):
  """(#signals that never change, #signals that return to an earlier value after leaving it)"""
  if not samples: return 0, 0
  never = revisit = 0
  for i in range(len(samples[0])):
    col = [r[i] for r in samples]
    if len(set(col)) == 1: never += 1
    seen, prev, rv = set(), None, False
    for v in col:
      if v != prev and v in seen: rv = True
      seen.add(v); prev = v
    revisit += rv
  return never, revisit

# ----------------------------------------------------------------------------- shrinking (python reference steers)
def failing(spec, seqd, reset, name):
  """re-run a variant; seqd = per cycle {(attr, idx): value}.  Returns (findings, src, inputs, seq) if it still fails"""
  try:
    src, inputs = render(spec, name)
    seq = [[row[(a, i)] for (a, i, _) in inputs] for row in seqd]
    res = run_design(src, name, inputs, seq, reset, tag='s', flow=spec.get('flow', 'default'))
    an = analyse(res)
  except Exception:
    return None
  bad = [p for p in an['problems'] if p[0] == 'header'] or an.get('mismatches') or an.get('textwave_mismatches')
  return (bad, src, inputs, seq) if bad else None

def shrink(spec, inputs, seq, reset, name, budget=60):
  """greedy: fewest cycles first, then drop extras, stages and whole chains while the python reference reader still
  sees a disagreement.  Names are index-based, so pieces are blanked rather than renumbered."""
  import copy
  seqd = [{(a, i): v for (a, i, _), v in zip(inputs, row)} for row in seq]
  state = {'budget': budget}
  def attempt(sp, sq):
    if state['budget'] <= 0: return None
    state['budget'] -= 1
    return failing(sp, sq, reset, name)
  cur = attempt(spec, seqd)
  if cur is None: return None
  for n in range(0, len(seqd)):
    r = attempt(spec, seqd[:n])
    if r: seqd, cur = seqd[:n], r; break
  changed = True
  while changed and state['budget'] > 0:
    changed = False
    for i in range(len(spec['extras']) - 1, -1, -1):
      if spec['extras'][i][0] == 'none': continue
      sp = copy.deepcopy(spec); sp['extras'][i] = ('none',)
      r = attempt(sp, seqd)
      if r: spec, cur, changed = sp, r, True
    for j in range(len(spec['chains']) - 1, -1, -1):
      ch = spec['chains'][j]
      if ch.get('dropped'): continue
      if not any(c.get('share') == j and not c.get('dropped') for c in spec['chains']):
        sp = copy.deepcopy(spec); sp['chains'][j]['dropped'] = True
        r = attempt(sp, seqd)
        if r: spec, cur, changed = sp, r, True; continue
      for i in range(len(ch['stages']) - 1, -1, -1):
        sp = copy.deepcopy(spec); del sp['chains'][j]['stages'][i]
        r = attempt(sp, seqd)
        if r: spec, cur, changed = sp, r, True
  return spec, cur

# ----------------------------------------------------------------------------- main loop
def check_batch(ctx, batch):
  """batch: list of dicts(spec, name, src, inputs, seq, reset, res, an). Evaluates the Coq verdicts."""
  cases = [b['an']['coq'] for b in batch]
  if not cases: return
  bad = ctx.coq_bad_indices('vcd', 'Base.Prelude Trace.Vcd', COQ_DEFS, 'case', cases, 'verdict c =? 0',
                            shard=max(1, (len(cases) + 7) // 8))
  for i in bad:
    if sum(1 for v in ctx.violations if v[0].startswith('C16:vcd-replay:')) >= MAX_REPORTS:
      ctx.note(f'{len(bad)} disagreeing designs in this batch; only the first {MAX_REPORTS} value disagreements are reported')
      break
    b = batch[i]
    v = ctx.coq_eval('verdict', 'Base.Prelude Trace.Vcd', COQ_DEFS, [f'verdict {cases[i]}'])
    code = int(re.sub(r'[^0-9]', '', v[0]) or '-1')
    h = hashlib.sha1((b['src'] + repr(b['seq']) + str(b['reset']) + b['spec'].get('flow', 'default')).encode()).hexdigest()[:12]
    an = b['an']
    replay = {'design_source': b['src'], 'top': b['name'], 'inputs': [list(x) for x in b['inputs']], 'input_sequence': b['seq'],
              'sim_reset_first': b['reset'], 'flow': b['spec'].get('flow', 'default'), 'coq_verdict_bits': code,
              'mismatches': an.get('mismatches', [])[:6], 'vcd_file_head': b['vcd_head'],
              'note': 'net order inside VcdGenerationPass follows set iteration over signal objects (address based); a re-run can '
                      'order the nets differently, the recorded file head is what was judged'}
    if code & 7:
      sh = None
      try: sh = shrink(b['spec'], b['inputs'], b['seq'], b['reset'], b['name'])
      except Exception: pass
      if sh:
        spec2, (bad2, src2, inputs2, seq2) = sh
        replay.update(design_source=src2, inputs=[list(x) for x in inputs2], input_sequence=seq2, mismatches=bad2[:6],
                      shrunk_from_cycles=len(b['seq']))
      first = (replay['mismatches'] or [{}])[0]
      ctx.violation(f'C16:vcd-replay:{h}',
                    f'the .vcd read back by the Coq reader differs from the simulator (verdict bits {code}: 1=malformed value-change line, '
                    f'2=value, 4=clock): {first}', replay)
    elif sum(1 for v in ctx.violations if v[0].startswith('C16:model-tie:')) < MAX_REPORTS:
      # reader agrees with the samples, only the writer model differs from the file: the model tie is broken
      toks = an['tokens']
      ctx.violation(f'C16:model-tie:{h}',
                    'the value-change body of the real file is not what the proved writer model (vcd_lines) produces for the '
                    'sampled trace, although it reads back correctly: the theorems are no longer about this code',
                    dict(replay, body_head=[str(t) for t in toks[:40]]), found_input=False)

def run(ctx):
  setup_impl_path()
  import pymtl3
  rng = ctx.rng
  quick = ctx.tier == 'quick'
  ndesigns = 120 if quick else 500
  batch_size = 64 if quick else 100
  batch, total_cells, tn, trv, lookalike, struct_moving = [], 0, 0, 0, {}, [0, 0]
  def flush():
    nonlocal batch
    check_batch(ctx, batch); batch = []
  specs = [(sp, False) for sp in DIRECTED] + [(None, True)] * ndesigns
  for n, (sp, randomised) in enumerate(specs):
    big = (not quick) and rng.random() < 0.3
    flow = ('default', 'simple', 'openloop')[n % 3] if sp is not None else rng.choice(FLOWS)
    spec = dict(sp if sp is not None else rand_spec(rng, big), flow=flow)
    name = f'Top{n}'
    src, inputs = render(spec, name)
    ncyc = rng.choice([1, 2, 5, 12, 30, 30, 40]) if quick else rng.choice([0, 1, 3, 10, 30, 60, 120])
    if sp is not None: ncyc = 12
    reset = rng.random() < 0.5
    seq = rand_inputs(rng, inputs, ncyc)
    key = hashlib.sha1((src + repr(seq) + str(reset) + flow).encode()).hexdigest()[:12]
    ctx.hist['flow:' + flow] = ctx.hist.get('flow:' + flow, 0) + 1
    try:
      res = run_design(src, name, inputs, seq, reset, tag=str(n), flow=flow)
    except Exception as e:
      tb = traceback.format_exc()
      # does the design simulate without waveform dumping?  then the dumping is what broke
      try:
        run_design(src, name, inputs, seq, reset, vcd=False, tag=str(n) + 'n', flow=flow)
        ctx.violation(f'C16:dump-raises:{key}', f'simulation with vcdwave/textwave raises {e!r} but runs without',
                      {'design_source': src, 'top': name, 'inputs': [list(x) for x in inputs], 'input_sequence': seq,
                       'sim_reset_first': reset, 'flow': flow, 'traceback': tb[-1500:]})
        continue
      except Exception:
        raise RuntimeError(f'generated design does not simulate (generator bug): {e!r}\n{tb[-800:]}\n{src[-1500:]}')
    an = analyse(res)
    for kind, what in an['problems']:
      if sum(1 for v in ctx.violations if v[0].startswith(f'C16:{kind}:')) >= MAX_REPORTS: continue
      ctx.violation(f'C16:{kind}:{key}', f'{what}',
                    {'design_source': src, 'top': name, 'inputs': [list(x) for x in inputs], 'input_sequence': seq,
                     'sim_reset_first': reset, 'flow': flow}, found_input=(kind == 'header'))
    if 'coq' not in an: continue
    if an['textwave_pins_without_row']:
      # structural key: one finding, whatever design shows it first (the directed minimal design comes first)
      ctx.violation('C16:textwave:no-row:interface-pin-named-clk-or-reset',
                    'PrintTextWavePass records no row for an ordinary signal whose attribute name is exactly `clk` or `reset` when it is '
                    'a pin of an Interface (e.g. s.spi.clk): _collect_sig_func drops every signal with get_field_name() in (clk, reset), '
                    'not only the implicit clock/reset ports of components; the pin toggles in the simulator and is in the VCD, but is '
                    f'absent from textwave_dict / print_textwave(): {an["textwave_pins_without_row"][:4]}',
                    {'design_source': src, 'top': name, 'inputs': [list(x) for x in inputs], 'input_sequence': seq,
                     'sim_reset_first': reset, 'flow': flow, 'signals_without_row': an['textwave_pins_without_row'][:12],
                     'rows_present': sorted(res['textwave'])[:12]})
    if an['textwave_mismatches'] and sum(1 for v in ctx.violations if re.match(r'C16:textwave:[0-9a-f]{12}$', v[0])) < MAX_REPORTS:
      ctx.violation(f'C16:textwave:{key}', f'PrintTextWavePass record differs from the simulator: {an["textwave_mismatches"][0]}',
                    {'design_source': src, 'top': name, 'inputs': [list(x) for x in inputs], 'input_sequence': seq,
                     'sim_reset_first': reset, 'flow': flow, 'mismatches': an['textwave_mismatches'][:6]})
    never, revisit = trace_stats(res['samples'])
    smp = res['samples']
    for i, st_ in enumerate(res['is_struct']):
      if st_ and len(smp) > 1:
        if any(r[i] != smp[0][i] for r in smp[1:]): struct_moving[0] += 1
      if res['field'][i] in ('clk', 'reset') and res['where'][i][1] not in ('clk', 'reset') and len(smp) > 1 \
         and any(r[i] != smp[0][i] for r in smp[1:]):
        struct_moving[1] += 1
    lookalike_stats(res['samples'], [w for _, w in res['sigs']], lookalike)
    tn += never; trv += revisit
    total_cells += len(res['samples']) * len(res['sigs'])
    changes = sum(1 for a, _ in an['tokens'] if a == 'v')
    ctx.count(key, nontrivial=len(res['samples']) > 0 and len(res['sigs']) > 2, cls=f'cycles<={10 * ((len(res["samples"]) + 9) // 10)}')
    feature_hist(ctx, spec, an, seq, reset)
    if n in (3, len(DIRECTED) + 1, len(DIRECTED) + 7):
      ctx.sample({'design': src[len(PRELUDE):], 'signals': len(res['sigs']), 'cycles': len(res['samples']),
                  'nets(sizes)': an['net_sizes'], 'value_change_lines': changes, 'sim_reset_first': reset, 'flow': flow,
                  'vcd_body_head': [v for _, v in an['tokens'][:14]]})
    batch.append(dict(spec=spec, name=name, src=src, inputs=inputs, seq=seq, reset=reset, an=an,
                      vcd_head=res['vcd_text'][res['vcd_text'].index('$scope'):][:3000]))
    if len(batch) >= batch_size: flush()
  flush()
  ctx.extra['signal_cycle_values_compared'] = total_cells
  ctx.extra['lookalike_consecutive_changes'] = lookalike
  ctx.extra['struct_signals_changing_after_cycle0'] = struct_moving[0]
  ctx.extra['interface_pins_named_clk_or_reset_that_toggle'] = struct_moving[1]
  if struct_moving[0] == 0 or struct_moving[1] == 0:
    ctx.note('generator coverage hole in this run: no moving struct-typed signal or no toggling interface pin named clk/reset')
  ctx.extra['signals_never_changing'] = tn
  ctx.extra['signals_revisiting_an_old_value'] = trv

def replay(ctx, r):
  setup_impl_path()
  rp = r['replay']
  inputs = [tuple(x[:2]) + (tuple(x[2]),) for x in rp['inputs']]
  res = run_design(rp['design_source'], rp['top'], inputs, rp['input_sequence'], rp['sim_reset_first'], tag='r',
                   flow=rp.get('flow', 'default'))
  an = analyse(res)
  print(json.dumps({'problems': an['problems'], 'mismatches': an.get('mismatches', [])[:10],
                    'textwave_mismatches': an.get('textwave_mismatches', [])[:10],
                    'textwave_pins_without_row': an.get('textwave_pins_without_row', [])[:10]}, indent=1, default=str))
  if 'coq' in an:
    v = ctx.coq_eval('verdict', 'Base.Prelude Trace.Vcd', COQ_DEFS, [f'verdict {an["coq"]}'])
    print('coq verdict bits:', v[0])
    return 0 if v[0].strip() == '0' and not an['problems'] and not an['textwave_mismatches'] and not an['textwave_pins_without_row'] else 1
  return 1

def main(ctx):
  ctx.trusted += ['harness/c16.py tokenizer: header ($scope/$var) and `#<decimal>` timestamps are read in Python; value-change lines '
                  'are passed to Coq as raw characters and parsed by parse_change',
                  'the sampling function inserted before the dump function (reads the live signal object, packs with to_bits())']
  ctx.assumptions += ['every net default is all-zero (Type() of Bits/bitstruct; bitstruct fields cannot declare defaults) — a hypothesis of '
                      'C16_encode_decode that the line-for-line comparison of vcd_lines with the real file re-checks on every run',
                      'packing of struct-typed signals is to_bits() (its correctness is property C06)',
                      'the text-wave record is compared with the samples in Python (string "0b"+zero-padded binary), not in Coq',
                      's.clk and the clk ports connected to it are excluded from the value comparison: the simulator never toggles '
                      'clk, the dump synthesises it; its shape is checked by clock_wave = expected_clock instead']
  ctx.build_props(extra_models=['theories/Trace/Vcd.vo'])
  try:
    run(ctx)
  except Exception as e:
    ctx.note('correspondence crashed: ' + traceback.format_exc()[-1500:])
    ctx.violation('C16:harness-crash', f'correspondence could not run: {e!r}', {'traceback': traceback.format_exc()}, found_input=False)
  return ctx.finish(rule='case = one generated design (directed corner designs + random chains of library stages over random Bits/bitstruct '
                         'types 1..200 bits, shared inputs, constants, slices, idle wires, counters) x one input sequence drawn per input from a small '
                         'pool of look-alike values (congruent mod 2^61-1/2^31-1/2^32/2^64.., complements, bit reversals, rotations, one bit '
                         'apart, zeros/ones) with random hold probability (values revisited, nets unchanged for runs) x with/without sim_reset; '
                         'distinct = distinct (source, sequence, reset); non-trivial = at least one simulated cycle and more than clk/reset; '
                         'every top-level signal of every component at every cycle is compared inside Coq (decode on the real file vs samples), '
                         'and the proved writer model is compared line-for-line with the file body')
