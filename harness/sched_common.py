"""sched_common.py — shared by C01, C02, C07, C11: random RTL design generator, scheduler drivers,
bit-level footprints, execution-order tracing, Coq design terms for the Sched acceptors."""
import sys, os, random, importlib.util, itertools, re
from common import *

STRUCT_SRC = '''
from pymtl3 import *
@bitstruct
class Pt:
  a: Bits8
  b: Bits4
@bitstruct
class Outer:
  p: Pt
  c: Bits4
@bitstruct
class Vec:
  v: [ Bits4, Bits4, Bits4 ]
  t: Bits2
@bitstruct
class Grid:
  g: [ [ Bits4, Bits4 ], [ Bits4, Bits4 ] ]
  t: Bits2
class Inc( Component ):
  def construct( s, nbits ):
    s.in_ = InPort( nbits ); s.out = OutPort( nbits )
    @update
    def up_inc():
      s.out @= s.in_ + 1
class RegC( Component ):
  def construct( s, nbits ):
    s.in_ = InPort( nbits ); s.out = OutPort( nbits )
    @update_ff
    def up_regc():
      s.out <<= s.in_
class Lane( Component ):
  # several instances per design, with different construct-time constants used as list indices inside the blocks
  def construct( s, nbits, n, k ):
    s.in_ = InPort( nbits ); s.out = OutPort( nbits )
    s.regs = [ Wire( nbits ) for _ in range(n) ]
    s.taps = [ Wire( nbits ) for _ in range(n) ]
    j = ( k + 1 ) % n
    @update_ff
    def up_lane_ff():
      s.regs[k] <<= s.in_
      s.regs[j] <<= s.regs[k]
    @update
    def up_lane_tap():
      s.taps[k] @= s.regs[k] ^ s.in_
    @update
    def up_lane_out():
      s.out @= s.taps[k] + s.regs[j]
class Tie( Component ):
  # constants tied to a slice and to a struct field, the rest driven; instantiated more than once with equal parameters
  def construct( s, c ):
    s.in_ = InPort( 8 ); s.out = OutPort( 8 ); s.o2 = OutPort( 4 )
    s.y = Wire( 8 ); s.q = Wire( Pt )
    s.y[0:3] //= c
    s.y[3:8] //= s.in_[3:8]
    s.q.b //= c + 1
    s.q.a //= s.in_
    @update
    def up_tie():
      s.out @= s.y ^ s.q.a
      s.o2 @= s.q.b
'''
# leaf units of the struct types: (path, width)
STRUCT_UNITS = {'Pt': [('a', 8), ('b', 4)], 'Outer': [('p.a', 8), ('p.b', 4), ('c', 4)]}
STRUCT_WIDTH = {'Pt': 12, 'Outer': 16, 'Vec': 14, 'Grid': 18}

class Gen:
  """Generates an acyclic (at bit level AND at block level) RTL design as Python source."""
  def __init__(s, rng, name, size='small', with_ff=True, with_nets=True, with_children=True, with_constraints=True, with_funcs=True, with_param=True):
    s.rng, s.name = rng, name
    s.with_funcs, s.with_param = with_funcs, with_param
    s.lines = []          # construct body
    s.avail = []          # (expr_text, width, is_plain_signal)
    s.inputs = []         # (name, width)
    s.blocks = []         # names of comb blocks in creation order
    s.nsig = 0
    s.size = size
    s.with_ff, s.with_nets, s.with_children, s.with_constraints = with_ff, with_nets, with_children, with_constraints
    s.regs = []
    s.features = set()
    s.funcs = []          # (@s.func helper name, width): value-returning helpers shared by several blocks
    s.cuts = {}           # signal written piecewise -> cut points
    s.param = False       # construct( s, p=0 ): some blocks have a body that depends on the construct-time parameter

  def w(s):
    return s.rng.choice([1, 2, 3, 4, 7, 8, 8, 12, 16, 31, 32, 33, 64, 65])

  def new_sig(s, kind, typ):
    n = f'{kind[0]}{s.nsig}'; s.nsig += 1
    ctor = {'in': 'InPort', 'out': 'OutPort', 'wire': 'Wire', 'reg': 'Wire'}[kind]
    t = typ[1] if typ[0] == 'struct' else str(typ[1])
    s.lines.append(f's.{n} = {ctor}( {t} )')
    return n

  def units(s, n, typ):
    """ways to drive a signal: list of (target_text, width)"""
    if typ[0] == 'struct':
      if s.rng.random() < 0.3: return [(f's.{n}', STRUCT_WIDTH[typ[1]], typ[1])]
      if typ[1] == 'Outer' and s.rng.random() < 0.4:
        s.features.add('mid-level-struct-write')          # the nested struct field is written as a whole, its leaves are read
        return [(f's.{n}.p', 12, 'Pt'), (f's.{n}.c', 4, None)]
      return [(f's.{n}.{p}', w, None) for p, w in STRUCT_UNITS[typ[1]]]
    W = typ[1]
    if W >= 2 and s.rng.random() < 0.45:
      k = s.rng.randrange(1, W)
      cuts = [0, k, W] if s.rng.random() < 0.6 or W < 4 else sorted({0, k, s.rng.randrange(1, W), W})
      s.cuts[f's.{n}'] = cuts
      return [(f's.{n}[{a}:{b}]', b - a, None) for a, b in zip(cuts, cuts[1:])]
    return [(f's.{n}', W, None)]

  def add_avail(s, n, typ, plain=True):
    if typ[0] == 'struct':
      for p, w in STRUCT_UNITS[typ[1]]: s.avail.append((f's.{n}.{p}', w, True))
      s.avail.append((f's.{n}', STRUCT_WIDTH[typ[1]], 'struct:' + typ[1]))
    else:
      s.avail.append((f's.{n}', typ[1], True))

  def src_expr(s, w):
    """an expression of width w over available sources"""
    rng = s.rng
    cands = [a for a in s.avail if not (isinstance(a[2], str))]
    if s.funcs and rng.random() < 0.3:
      cands = cands + [(f'{fn}()', fw, False) for fn, fw in s.funcs]
    e, ew, _ = rng.choice(cands)
    if getattr(s, 'idx', None) and rng.random() < 0.25:
      # a read through an index that is itself a signal computed in this cycle
      plain = [a for a in s.avail if a[2] is True and re.fullmatch(r's(\.[A-Za-z_0-9]+(\[\d+\])?)+', a[0])]
      def ix(bits):
        c = [a for a in plain if a[1] >= bits]
        if not c: return None
        a = rng.choice(c); lo = rng.randrange(0, a[1] - bits + 1)
        return a[0] if a[1] == bits else f'{a[0]}[{lo}:{lo+bits}]'
      kind = rng.choice(s.idx)
      if kind == 'il':
        i_ = ix(2)
        if i_: e, ew = rng.choice([(f'(s.il[ {i_} ].a)', 8), (f'(s.il[ {i_} ].b)', 4), (f'(s.il[ {i_} ].a[2:7])', 5)])
      else:
        r_, c_ = ix(1), ix(1)
        if r_ and c_: e, ew = rng.choice([(f'(s.tb[ {r_} ][ {c_} ])', 8), (f'(s.tb[ {r_} ][ {c_} ][1:4])', 3)])
    def fit(e, ew):
      if ew == w: return e
      if ew > w:
        lo = rng.randrange(0, ew - w + 1)
        if e in s.cuts and rng.random() < 0.5:
          # a read that strictly encloses one separately written piece of the signal on both sides
          enc = [(a, b) for a, b in zip(s.cuts[e], s.cuts[e][1:]) if a >= 1 and b <= ew - 1 and b - a + 2 <= w]
          if enc:
            a, b = rng.choice(enc)
            lo = rng.randrange(max(0, b + 1 - w), min(a - 1, ew - w) + 1)
            s.features.add('read-encloses-written-piece')
        if e.endswith(']') and ':' in e.rsplit('[', 1)[-1]:
          # slice of a slice: re-base
          base, sl = e.rsplit('[', 1); a, b = sl[:-1].split(':'); a = int(a)
          return f'{base}[{a+lo}:{a+lo+w}]'
        if re.fullmatch(r's(\.[A-Za-z_0-9]+(\[\d+\])?)+', e): return f'{e}[{lo}:{lo+w}]'
        return f'trunc( {e}, {w} )'
      return f'zext( {e}, {w} )' if rng.random() < 0.7 else f'sext( {e}, {w} )'
    x = fit(e, ew)
    for _ in range(rng.choice([0, 0, 1, 1, 2])):
      e2, ew2, _ = rng.choice(cands)
      op = rng.choice(['+', '-', '^', '&', '|'])
      x = f'({x} {op} {fit(e2, ew2)})'
    if rng.random() < 0.15: x = f'(~{x})'
    return x

  def build(s):
    rng = s.rng
    s.param = s.with_param and rng.random() < 0.25
    nin = rng.randrange(1, 4)
    for _ in range(nin):
      typ = ('struct', rng.choice(['Pt', 'Outer'])) if rng.random() < 0.25 else ('bits', s.w())
      n = s.new_sig('in', typ); s.inputs.append((n, typ)); s.add_avail(n, typ)
    # lists of input ports read through SIGNAL-valued indices, with the name continuing after the index
    s.idx = []
    if rng.random() < 0.3:
      s.lines.append('s.il = [ InPort( Pt ) for _ in range(4) ]')
      for i in range(4): s.inputs.append((f'il[{i}]', ('struct', 'Pt')))
      s.idx.append('il'); s.features.add('signal-index:list-of-struct')
    if rng.random() < 0.3:
      s.lines.append('s.tb = [ [ InPort( 8 ) for _ in range(2) ] for _ in range(2) ]')
      for i in range(2):
        for j in range(2): s.inputs.append((f'tb[{i}][{j}]', ('bits', 8)))
      s.idx.append('tb'); s.features.add('signal-index:2d-list')
    # registers (state): readable from the start
    nreg = (rng.randrange(0, 4) if s.size != 'large' or rng.random() < 0.5 else rng.randrange(6, 12)) if s.with_ff else 0
    regs = []
    for _ in range(nreg):
      typ = ('struct', 'Pt') if rng.random() < 0.2 else ('bits', 12 if rng.random() < 0.15 else s.w())
      n = s.new_sig('reg', typ); regs.append((n, typ)); s.add_avail(n, typ)
    listreg = None
    if s.with_ff and rng.random() < 0.35:
      k, lw = rng.randrange(2, 5), s.w()
      s.lines.append(f's.rl = [ Wire( {lw} ) for _ in range({k}) ]')
      listreg = (k, lw)
      for i in range(k): s.avail.append((f's.rl[{i}]', lw, True))
      s.features.add('listreg')
    # a bank of enable-style registers, one branchy update_ff block each (schedulers pack such blocks into meta blocks)
    bank = 0
    if s.with_ff and rng.random() < 0.15:
      bank = rng.randrange(7, 14)
      s.lines.append(f's.bk = [ Wire( 8 ) for _ in range({bank}) ]')
      for i in range(bank): s.avail.append((f's.bk[{i}]', 8, True))
      s.features.add('ff-bank-of-branchy-blocks')
    children = []
    nblk = {'small': rng.randrange(2, 7), 'medium': rng.randrange(5, 14), 'large': rng.randrange(12, 26)}[s.size]
    bi = 0
    for k in range(nblk):
      r = rng.random()
      if s.with_children and r < 0.15:
        cw = s.w(); cn = f'c{len(children)}'; kind = rng.choice(['Inc', 'Inc', 'RegC']) if s.with_ff else 'Inc'
        if rng.random() < 0.35:
          # two or three instances of one parametrised class
          src8 = [a for a in s.avail if a[1] == 8 and a[2] is True]
          if src8:
            if s.with_ff and rng.random() < 0.5:
              n_ = rng.randrange(2, 5); ks = rng.sample(range(n_), min(n_, rng.randrange(2, 4)))
              for k_ in ks:
                cn = f'c{len(children)}'
                s.lines += [f's.{cn} = Lane( 8, {n_}, {k_} )', f'connect( s.{cn}.in_, {rng.choice(src8)[0]} )']
                s.avail.append((f's.{cn}.out', 8, True)); children.append(cn)
              s.features.add('child:Lane-instances-with-different-constants')
            else:
              c_ = rng.randrange(0, 7)
              for _ in range(rng.randrange(2, 4)):
                cn = f'c{len(children)}'
                s.lines += [f's.{cn} = Tie( {c_} )', f'connect( s.{cn}.in_, {rng.choice(src8)[0]} )']
                s.avail.append((f's.{cn}.out', 8, True)); s.avail.append((f's.{cn}.o2', 4, True)); children.append(cn)
              s.features.add('child:Tie-instances-with-constant-tie-offs')
            continue
        srcs = [a for a in s.avail if a[1] == cw and a[2] is True]
        if not srcs: continue
        s.lines.append(f's.{cn} = {kind}( {cw} )')
        s.lines.append(f'connect( s.{cn}.in_, {rng.choice(srcs)[0]} )')
        s.avail.append((f's.{cn}.out', cw, True)); children.append(cn); s.features.add('child:' + kind)
        continue
      if s.with_funcs and rng.random() < 0.18 and len(s.funcs) < 4:
        # a value-returning @s.func helper; later blocks (several of them) and later helpers call it
        fw = s.w(); fn = f'h{len(s.funcs)}'
        s.lines += ['@s.func', f'def {fn}():', f'  return {s.src_expr(fw)}']
        s.funcs.append((fn, fw)); s.features.add('func-helper')
      typ = ('struct', rng.choice(['Pt', 'Outer'])) if rng.random() < 0.2 else ('bits', s.w())
      n = s.new_sig('out' if rng.random() < 0.3 else 'wire', typ)
      us = s.units(n, typ)
      if len(us) > 1: s.features.add('partial-writes')
      if typ[0] == 'struct': s.features.add('struct')
      # split the units between 1..2 blocks and possibly a net
      groups = [us] if len(us) == 1 or rng.random() < 0.4 else ([us[:1], us[1:]] if len(us) == 2 or rng.random() < 0.5 else [[u] for u in us])
      for g in groups:
        if s.with_nets and len(g) == 1 and rng.random() < 0.3:
          t, w, st = g[0]
          if st: srcs = [a for a in s.avail if a[2] == 'struct:' + st]
          else:  srcs = [a for a in s.avail if a[1] == w and a[2] is True]
          if st is None and rng.random() < 0.3:
            # a constant tied to the unit (whole signal, slice or field)
            s.lines.append(f'connect( {t}, {rng.randrange(0, 1 << min(w, 6))} )'); s.features.add('constant-tie-off'); continue
          if srcs:
            s.lines.append(f'connect( {t}, {rng.choice(srcs)[0]} )'); s.features.add('net'); continue
        bn = f'b{bi}'; bi += 1
        body = []
        cond = None
        # a wide decoder: one block with a long if/elif chain (schedulers weigh blocks by their number of branches)
        if len(g) == 1 and g[0][2] is None and g[0][0] == f's.{n}' and rng.random() < 0.12:
          sel = [a for a in s.avail if a[2] is True and a[1] >= 5]
          if sel:
            W_ = g[0][1]; sx = rng.choice(sel)[0]; nbr = rng.randrange(18, 27)
            s.lines += ['@update', f'def {bn}():']
            for q_ in range(nbr):
              s.lines += [f'  {"if" if q_ == 0 else "elif"} {sx}[0:5] == {q_}:', f'    s.{n} @= {s.src_expr(W_)}']
            s.lines += ['  else:', f'    s.{n} @= {s.src_expr(W_)}']
            s.blocks.append(bn); s.features.add('many-branch-decoder')
            continue
        # a block whose body is only a for loop (bit-by-bit copy/xor): schedulers classify such blocks specially
        if len(g) == 1 and g[0][2] is None and g[0][0] == f's.{n}' and 2 <= g[0][1] <= 16 and rng.random() < 0.2:
          W_ = g[0][1]
          srcs = [a for a in s.avail if a[1] == W_ and a[2] is True]
          if srcs:
            a1, a2 = rng.choice(srcs)[0], rng.choice(srcs)[0]
            s.lines += ['@update', f'def {bn}():', f'  for i in range({W_}):', f'    s.{n}[i] @= {a1}[i] ^ {a2}[{W_-1}-i]']
            s.blocks.append(bn); s.features.add('loop-only-block')
            continue
        if rng.random() < 0.25:
          c = rng.choice([a for a in s.avail if not isinstance(a[2], str)])
          cond = f'{c[0]}[0]' if re.fullmatch(r's(\.[A-Za-z_0-9]+(\[\d+\])?)+', c[0]) and c[1] >= 1 else None
        for t, w, st in g:
          if st:
            srcs = [a for a in s.avail if a[2] == 'struct:' + st]
            if srcs and rng.random() < 0.7: e1 = e2 = rng.choice(srcs)[0]
            elif rng.random() < 0.6:
              # construct the value
              e1 = e2 = f'Pt( {s.src_expr(8)}, {s.src_expr(4)} )' if st == 'Pt' else f'Outer( Pt( {s.src_expr(8)}, {s.src_expr(4)} ), {s.src_expr(4)} )'
            else:
              # build the struct fieldwise instead
              for p, fw in STRUCT_UNITS[st]:
                body.append(f'{t}.{p} @= {s.src_expr(fw)}')
              continue
          else:
            e1, e2 = s.src_expr(w), s.src_expr(w)
            ssrc = [a for a in s.avail if isinstance(a[2], str) and STRUCT_WIDTH[a[2][7:]] == w]
            if ssrc and t == f's.{n}' and rng.random() < 0.4:
              e1 = rng.choice(ssrc)[0]; s.features.add('bits-from-struct')          # Bits signal @= struct-typed signal
          if cond:
            body += [f'if {cond}:', f'  {t} @= {e1}', 'else:', f'  {t} @= {e2}']; s.features.add('if')
          else:
            body.append(f'{t} @= {e1}')
        if s.param and len(g) == 1 and g[0][2] is None and not cond and rng.random() < 0.45:
          # the body depends on the construct-time parameter p; same block / target name in both variants
          t, w, _ = g[0]; alt = s.src_expr(w)
          if rng.random() < 0.5 and t == f's.{n}' and '()' not in alt + body[0]:
            bi -= 1
            s.lines += ['if p:', f'  {t} //= lambda: {alt}', 'else:', f'  {t} //= lambda: {body[0].split(" @= ", 1)[1]}']
            s.features.add('param-dependent-lambda')
          else:
            # (pymtl3 caches block metadata per class and block NAME - documented convention in ComponentLevel2.
            #  _cache_func_meta: different bodies need different names)
            s.lines += ['if p:', '  @update', f'  def {bn}_alt():', f'    {t} @= {alt}', 'else:', '  @update', f'  def {bn}():'] + ['    ' + b for b in body]
            s.features.add('param-dependent-block')
          continue
        s.lines.append('@update')
        s.lines.append(f'def {bn}():')
        s.lines += ['  ' + b for b in body]
        s.blocks.append(bn)
      # everything of this signal becomes readable for later blocks
      s.add_avail(n, typ)
    # explicit (forward) block constraints
    if s.with_constraints and len(s.blocks) >= 2 and rng.random() < 0.5:
      seen = set()
      for _ in range(rng.randrange(1, 3)):
        i, j = sorted(rng.sample(range(len(s.blocks)), 2))
        if (i, j) in seen: continue
        seen.add((i, j))
        s.lines.append(f's.add_constraints( U({s.blocks[i]}) < U({s.blocks[j]}) )'); s.features.add('U<U')
    # flip-flop blocks: each register is written by exactly one update_ff block
    fi = 0
    rng.shuffle(regs)
    i = 0
    while i < len(regs):
      grp = regs[i:i + rng.choice([1, 1, 2])]; i += len(grp)
      body = []
      for n, typ in grp:
        # update_ff may only write whole top-level signals
        t = f's.{n}'
        if typ[0] == 'struct':
          srcs = [a for a in s.avail if a[2] == 'struct:' + typ[1]]
          if srcs and rng.random() < 0.5: e = rng.choice(srcs)[0]
          elif typ[1] == 'Pt': e = f'Pt( {s.src_expr(8)}, {s.src_expr(4)} )'
          else: e = f'Outer( Pt( {s.src_expr(8)}, {s.src_expr(4)} ), {s.src_expr(4)} )'
          w = None
        else:
          w = typ[1]; e = s.src_expr(w)
          ssrc = [a for a in s.avail if isinstance(a[2], str) and STRUCT_WIDTH[a[2][7:]] == w]
          if ssrc and rng.random() < 0.6:
            e = rng.choice(ssrc)[0]; s.features.add('bits-reg-from-struct')     # Bits register <<= struct-typed signal
        r = rng.random()
        if w and rng.random() < 0.3:
          # the usual reset idiom (what the register holds after sim_reset depends on the polarity the pass group was given)
          body += ['if s.reset:', f'  {t} <<= {rng.randrange(0, 1 << min(w, 6))}', 'else:', f'  {t} <<= {e}']; s.features.add('ff-reset-idiom')
          continue
        if r < 0.3:
          c = rng.choice([a for a in s.avail if not isinstance(a[2], str) and re.fullmatch(r's(\.[A-Za-z_0-9]+(\[\d+\])?)+', a[0])])
          body += [f'if {c[0]}[0]:', f'  {t} <<= {e}']; s.features.add('ff-hold')
        elif r < 0.45 and w:
          body += [f'{t} <<= {s.src_expr(w)}', f'{t} <<= {e}']; s.features.add('ff-last-wins')
        else:
          body.append(f'{t} <<= {e}')
      s.lines += ['@update_ff', f'def f{fi}():'] + ['  ' + b for b in body]; fi += 1
    if listreg:
      k, lw = listreg
      if rng.random() < 0.5:
        s.lines += ['@update_ff', f'def f{fi}():', f'  s.rl[0] <<= {s.src_expr(lw)}', f'  for i in range({k-1}):', f'    s.rl[i+1] <<= s.rl[i]']; fi += 1
      else:
        # the whole body is one loop with a branch inside (register-file style write enable)
        c = rng.choice([a for a in s.avail if not isinstance(a[2], str) and re.fullmatch(r's(\.[A-Za-z_0-9]+(\[\d+\])?)+', a[0])])
        s.lines += ['@update_ff', f'def f{fi}():', f'  for i in range({k}):', f'    if {c[0]}[i % {c[1]}]:', f'      s.rl[i] <<= s.rl[{k-1} - i]', '    else:', f'      s.rl[i] <<= {s.src_expr(lw)}']; fi += 1
        s.features.add('ff-loop-with-branch')
    for j in range(bank):
      c = rng.choice([a for a in s.avail if not isinstance(a[2], str) and re.fullmatch(r's(\.[A-Za-z_0-9]+(\[\d+\])?)+', a[0])])
      s.lines += ['@update_ff', f'def fb{j}():', f'  if {c[0]}[0]:', f'    s.bk[{j}] <<= {s.src_expr(8)}'] + (['  else:', f'    s.bk[{j}] <<= s.bk[{(j + 1) % bank}]'] if rng.random() < 0.3 else [])
      fi += 1
    if fi: s.features.add('ff')
    s.wrap = rng.random() < 0.3 and not s.idx
    if s.wrap: s.features.add('wrapped-one-level-down')
    return s

  def source(s):
    body = '\n'.join('    ' + l for l in s.lines)
    sig = 's, p=0' if s.param else 's'
    LT = '  def line_trace( s ):\n    return ""\n'
    if not getattr(s, 'wrap', False):
      return STRUCT_SRC + f'\nclass {s.name}( Component ):\n  def construct( {sig} ):\n{body}\n' + LT
    # the generated component sits one level below the top: exercises per-component grouping code paths
    inner = f'\nclass {s.name}_inner( Component ):\n  def construct( {sig} ):\n{body}\n'
    w = ['s.d = %s_inner(%s)' % (s.name, ' p ' if s.param else '')]
    for n, typ in s.inputs:
      t = typ[1] if typ[0] == 'struct' else str(typ[1])
      w += [f's.{n} = InPort( {t} )', f'connect( s.{n}, s.d.{n} )']
    wb = '\n'.join('    ' + l for l in w)
    return STRUCT_SRC + inner + f'\nclass {s.name}( Component ):\n  def construct( {sig} ):\n{wb}\n' + LT

_modcount = [0]
def load_source(ctx, src, name):
  """write the source to a file in the scratch dir and import it (update blocks need inspect.getsource)"""
  _modcount[0] += 1
  mname = f'vgen_{os.getpid()}_{_modcount[0]}'
  path = ctx.scratch / f'{mname}.py'
  path.write_text(src)
  spec = importlib.util.spec_from_file_location(mname, path)
  mod = importlib.util.module_from_spec(spec); sys.modules[mname] = mod
  spec.loader.exec_module(mod)
  return getattr(mod, name), mod

# ------------------------------------------------------------------ schedulers
def kahn_random(V, E, rng):
  V = list(V); ind = {v: 0 for v in V}; out = {v: [] for v in V}
  for u, v in E:
    if u in ind and v in ind: ind[v] += 1; out[u].append(v)
  ready = [v for v in V if ind[v] == 0]; order = []
  while ready:
    u = ready.pop(rng.randrange(len(ready))); order.append(u)
    for v in out[u]:
      ind[v] -= 1
      if ind[v] == 0: ready.append(v)
  return order if len(order) == len(V) else None

def build(cls, sched, rng=None, ff_perm=None, seed=0, prefer=None, trace=False, reset_high=True):
  """elaborate + apply a scheduling pass group. Returns top. Raises whatever the passes raise.
  prefer=(b, a) (indices into Footprints(top).comb, only with sched='forced'): the linear extension of pymtl3's
  constraint graph that runs block b and its ancestors first and block a afterwards (None if the graph orders a before b)"""
  import pymtl3
  from pymtl3.passes.sim.GenDAGPass import GenDAGPass
  from pymtl3.passes.sim.SimpleSchedulePass import SimpleSchedulePass
  from pymtl3.passes.sim.DynamicSchedulePass import DynamicSchedulePass
  from pymtl3.passes.sim.PrepareSimPass import PrepareSimPass
  from pymtl3.passes.sim.WrapGreenletPass import WrapGreenletPass
  from pymtl3.passes.mamba.PassGroups import UnrollSim, HeuTopoUnrollSim, Mamba2020
  from pymtl3.passes.PassGroups import DefaultPassGroup
  top = cls()
  top.elaborate()
  random.seed(seed)
  if sched in ('simple', 'forced'):
    GenDAGPass()(top); WrapGreenletPass()(top); SimpleSchedulePass()(top)
    if sched == 'forced':
      V = top._dag.final_upblks - top.get_all_update_ff()
      Vs = sorted(V, key=lambda b: b.__name__ + repr(top._dag.genblk_writes.get(b, '')))
      if prefer is None:
        o = kahn_random(Vs, top._dag.all_constraints, rng)
      else:
        fpx = Footprints(top); bb, ba = fpx.comb[prefer[0]], fpx.comb[prefer[1]]
        pred = {}
        for (u, v) in top._dag.all_constraints: pred.setdefault(v, set()).add(u)
        anc, todo = {bb}, [bb]
        while todo:
          x = todo.pop()
          for u in pred.get(x, ()):
            if u not in anc and u in V: anc.add(u); todo.append(u)
        if ba in anc: return None
        o1 = kahn_random([v for v in Vs if v in anc], top._dag.all_constraints, rng)
        o2 = kahn_random([v for v in Vs if v not in anc], top._dag.all_constraints, rng)
        o = None if o1 is None or o2 is None else o1 + o2
      assert o is not None
      top._sched.update_schedule = o
    if ff_perm is not None:
      ffs = sorted(top._sched.schedule_ff, key=lambda b: (b.__name__, repr(top.get_update_block_host_component(b))))
      top._sched.schedule_ff = [ffs[i] for i in ff_perm]
    PrepareSimPass(print_line_trace=trace, reset_active_high=reset_high)(top)
  elif sched == 'dynamic':
    if ff_perm is None:
      top.apply(DefaultPassGroup(linetrace=trace, reset_active_high=reset_high))
    else:
      GenDAGPass()(top); WrapGreenletPass()(top); DynamicSchedulePass()(top)
      ffs = sorted(top._sched.schedule_ff, key=lambda b: (b.__name__, repr(top.get_update_block_host_component(b))))
      top._sched.schedule_ff = [ffs[i] for i in ff_perm]
      PrepareSimPass(print_line_trace=trace, reset_active_high=reset_high)(top)
  elif sched == 'unroll':    UnrollSim(print_line_trace=trace, reset_active_high=reset_high)(top)
  elif sched == 'heuristic': HeuTopoUnrollSim(print_line_trace=trace, reset_active_high=reset_high)(top)
  elif sched == 'mamba':     Mamba2020(print_line_trace=trace, reset_active_high=reset_high)(top)
  else: raise ValueError(sched)
  return top

def signals(top):
  """all top-level signals (of every component) in a canonical order"""
  from pymtl3.dsl.Connectable import Signal
  return sorted(top._sim.signal_object_mapping.keys(), key=repr)

def read_sig(top, sig):
  obj, i, is_list, _ = top._sim.signal_object_mapping[sig]
  v = obj[i] if is_list else getattr(obj, i)
  return int(v.to_bits())

def snapshot(top):
  return {repr(s): read_sig(top, s) for s in signals(top)}

def set_input(top, name, value):
  """top-level input ports are assigned with @= on the live Bits/struct object"""
  obj = getattr(top, name) if name.isidentifier() else eval('top.' + name, {'top': top})
  if hasattr(obj, 'from_bits') and not hasattr(obj, '_uint'):
    T = type(obj); obj @= T.from_bits(__import__('pymtl3').Bits(T.nbits, value))
  else:
    obj @= value

# ------------------------------------------------------------------ footprints
def width_of(sig):
  T = sig._dsl.Type
  return T.nbits

def field_interval(parent_type, name, indices):
  """bit interval of field `name[indices...]` inside a value of bitstruct type parent_type, found by probing to_bits"""
  inst = parent_type()
  f = getattr(inst, name)
  holder, key = inst, name
  for ix in (indices or []):
    holder, key = f, ix; f = f[ix]
  ones_t = type(f)
  if hasattr(f, '_uint'):
    val = ones_t((1 << f.nbits) - 1) if hasattr(ones_t, 'nbits') and ones_t.__name__ != 'Bits' else type(f)(f.nbits, (1 << f.nbits) - 1)
  else:
    from pymtl3 import Bits
    val = ones_t.from_bits(Bits(ones_t.nbits, (1 << ones_t.nbits) - 1))
  if isinstance(holder, list): holder[key] = val
  else: setattr(holder, key, val)
  m = int(inst.to_bits())
  lo = (m & -m).bit_length() - 1
  hi = m.bit_length()
  assert m == ((1 << hi) - (1 << lo)), 'field is not contiguous in to_bits()'
  return lo, hi

def interval(sig, roots):
  """(root id, lo, hi) of a signal object inside its top-level signal's packed value"""
  d = sig._dsl
  if sig.is_top_level_signal():
    return (roots[sig], 0, width_of(sig))
  p = d.parent_obj
  r, plo, phi = interval(p, roots)
  if d.slice is not None:
    return (r, plo + d.slice.start, plo + d.slice.stop)
  lo, hi = field_interval(p._dsl.Type, d._my_name, d._my_indices)
  return (r, plo + lo, plo + hi)

class Footprints:
  def __init__(s, top):
    s.top = top
    s.roots = {}
    for x in sorted((y for y in top._dsl.all_signals if y.is_top_level_signal()), key=repr):
      s.roots[x] = len(s.roots)
    rd, wr, _ = top.get_all_upblk_metadata()
    s.ffs = set(top.get_all_update_ff())
    allb = set(top._dag.final_upblks)
    # blocks that call blocking methods are replaced by greenlet wrappers; metadata stays keyed by the original
    s.orig = {v: k for k, v in getattr(top._dag, 'blk_greenlet_mapping', {}).items()}
    og = lambda b: s.orig.get(b, b)
    def host(b):
      try: return repr(top.get_update_block_host_component(og(b)))
      except Exception: return ''
    key = lambda b: (b.__name__, repr(top._dag.genblk_writes.get(b, '')), host(b) if b not in top._dag.genblks else '')
    s.comb = sorted(allb - s.ffs, key=key)
    s.ff = sorted(s.ffs, key=key)
    s.reads, s.writes = {}, {}
    for b in allb:
      r = rd.get(og(b)) if og(b) in rd else top._dag.genblk_reads.get(b, [])
      w = wr.get(og(b)) if og(b) in wr else top._dag.genblk_writes.get(b, [])
      s.reads[b] = sorted({interval(x, s.roots) for x in (r or []) if x.is_signal()})
      s.writes[b] = sorted({interval(x, s.roots) for x in (w or []) if x.is_signal()})
    s.cid = {b: i for i, b in enumerate(s.comb)}
    U_U = top._dsl.all_U_U_constraints
    wrap = {v: k for k, v in s.orig.items()}       # original -> wrapper
    wp = lambda b: wrap.get(b, b)
    # explicit constraints are taken from the DSL-level set (independent of what later passes did with it)
    s.expl = sorted({(s.cid[wp(a)], s.cid[wp(b)]) for (a, b) in U_U if wp(a) in s.cid and wp(b) in s.cid and a is not b})
    s.edges = sorted({(s.cid[a], s.cid[b]) for (a, b) in top._dag.all_constraints if a in s.cid and b in s.cid})
    # top-level signals of one net share ONE storage object after lock_in_simulation: classes of root ids
    s.alias_rep = {}
    try:
      groups = {}
      for q, rid in s.roots.items():
        obj, i, is_list, _ = top._sim.signal_object_mapping[q]
        v = obj[i] if is_list else getattr(obj, i)
        groups.setdefault(id(v), []).append(rid)
      for g_ in groups.values():
        for r_ in g_: s.alias_rep[r_] = min(g_)
    except Exception:
      s.alias_rep = {}

  def fp_term(s, ivs):
    return coq_list([f'({r}%nat, {lo}, {hi})' for r, lo, hi in ivs])

  def design_term(s, blocks=None, expl=None, reads=None, writes=None):
    blocks = s.comb if blocks is None else blocks
    expl = s.expl if expl is None else expl
    if reads is not None or writes is not None:
      r_, w_ = (reads or s.reads), (writes or s.writes)
      def fun2(tbl):
        arms = ' '.join(f'| {i}%nat => {s.fp_term(tbl[b])}' for i, b in enumerate(blocks))
        return f'(fun i => match i with {arms} | _ => [] end)'
      ex = coq_list([f'({a}%nat, {b}%nat)' for a, b in expl])
      return f'(mkDesign {len(blocks)}%nat {fun2(r_)} {fun2(w_)} {ex})'
    def fun(tbl):
      arms = ' '.join(f'| {i}%nat => {s.fp_term(tbl[b])}' for i, b in enumerate(blocks))
      return f'(fun i => match i with {arms} | _ => [] end)'
    ex = coq_list([f'({a}%nat, {b}%nat)' for a, b in expl])
    return f'(mkDesign {len(blocks)}%nat {fun(s.reads)} {fun(s.writes)} {ex})'

def dag_case(fp, expl=None, alias=False):
  """alias=True: the same with signals that share storage merged into one (a block writing `a` also changes every whole
  signal `b` netted to it, so readers of `b` must come after it - through the net block or directly); the whole-signal
  sinks a net block does not physically write are taken out of its write set.
  Coq term (design, G, paths) for Sched.DagAccept.dag_ok: G = pymtl3's constraint edges between the comb blocks,
  paths = for every pair the footprints require (same rule as Accept.Eb, recomputed here only to know which paths to
  look for - Coq decides what is required) one path of G found by BFS. A pair without a path gets none, so the
  acceptor rejects the graph."""
  expl = fp.expl if expl is None else expl
  n = len(fp.comb); X = set(expl)
  succ = {a: [] for a in range(n)}
  for (a, b) in fp.edges: succ[a].append(b)
  reads, writes = fp.reads, fp.writes
  if alias:
    rep = lambda r: fp.alias_rep.get(r, r)
    reads = {b: sorted({(rep(r), lo, hi) for (r, lo, hi) in fp.reads[b]}) for b in fp.comb}
    writes = {}
    for b in fp.comb:
      w_ = {(rep(r), lo, hi) for (r, lo, hi) in fp.writes[b]}
      if b in fp.top._dag.genblks:
        srcs = {rep(r) for (r, lo, hi) in fp.reads[b]}
        # sinks that alias the net's source are not written by the net block (shared storage)
        w_ = {(r, lo, hi) for (r, lo, hi) in w_ if r not in srcs}
      writes[b] = sorted(w_)
  paths = []; missing = []
  for a in range(n):
    need = []
    for b in range(n):
      if a == b: continue
      ov = any(r1 == r2 and l1 < h2 and l2 < h1 for (r1, l1, h1) in writes[fp.comb[a]] for (r2, l2, h2) in reads[fp.comb[b]])
      if (ov and (b, a) not in X) or (a, b) in X: need.append(b)
    if not need: continue
    prev = {a: None}; todo = [a]
    while todo:
      u = todo.pop(0)
      for v in succ[u]:
        if v not in prev and v != u: prev[v] = u; todo.append(v)
    for b in need:
      if b in prev:
        pth = [b]
        while prev[pth[-1]] is not None: pth.append(prev[pth[-1]])
        paths.append(pth[::-1])
      else: missing.append((a, b))
  G = coq_list([f'({a}%nat, {b}%nat)' for a, b in fp.edges])
  P = coq_list([coq_list([f'{x}%nat' for x in pth]) for pth in paths])
  return f'({fp.design_term(expl=expl, reads=reads if alias else None, writes=writes if alias else None)}, {G}, {P})', missing

# ------------------------------------------------------------------ execution-order tracing
class OrderTracer:
  """records which update blocks / net blocks run, in order, while fn() executes"""
  def __init__(s, top, blocks):
    s.keys = {}
    s.multi = {}; s.turn = {}
    bycode = {}
    for i, b in enumerate(blocks):
      host = None
      if b not in top._dag.genblks:
        try: host = top.get_update_block_host_component(b)
        except Exception: host = None
        s.keys[(b.__code__, id(host) if host is not None else None)] = i
      else:
        # generated net blocks: equal source text gives EQUAL code objects (constants tied in several instances of one
        # class); they differ in the component bound to `s` in their globals
        # (whole-signal constant ties compile to EMPTY functions: equal code AND equal globals; such no-ops are
        # indistinguishable and are numbered in turn)
        s.multi.setdefault((b.__code__, ('g', id(b.__globals__.get('s')))), []).append(i)
      bycode.setdefault(b.__code__, []).append(i)
    s.unique = {c: l[0] for c, l in bycode.items() if len(l) == 1}
    s.codes = set(bycode)
    s.order = []
  def _prof(s, frame, event, arg):
    if event == 'call' and frame.f_code in s.codes:
      i = s.unique.get(frame.f_code)
      if i is None:
        # several instances of one class share the code object: tell them apart by the captured component
        h = frame.f_locals.get('s')
        i = s.keys.get((frame.f_code, id(h)))
        if i is None:
          k_ = (frame.f_code, ('g', id(frame.f_globals.get('s'))))
          l_ = s.multi.get(k_)
          if l_:
            # functions that cannot be told apart are EMPTY (their code, constants and globals are equal and they take no
            # arguments): running them is a no-op, so the execution equals one in which the whole group runs at the
            # position of its first member; later calls of the group add nothing
            if len(l_) == 1: i = l_[0]
            elif not s.turn.get(k_):
              s.turn[k_] = 1
              s.order.extend(l_)
            if i is None: return
      if i is not None: s.order.append(i)
  def run(s, fn):
    s.order = []; s.turn = {}
    sys.setprofile(s._prof)
    try: fn()
    finally: sys.setprofile(None)
    return list(s.order)

SCHEDS = ['simple', 'forced', 'dynamic', 'unroll', 'heuristic', 'mamba']

# ------------------------------------------------------------------ state save / restore (harness-side oracle support)
def _leafs(v, out):
  if hasattr(v, '_uint'): out.append(v)
  elif isinstance(v, list):
    for x in v: _leafs(x, out)
  else:
    for k in getattr(v, '__bitstruct_fields__', {}):
      _leafs(getattr(v, k), out)

def live_leaves(top):
  out = []
  seen = set()
  for sig in signals(top):
    obj, i, is_list, _ = top._sim.signal_object_mapping[sig]
    v = obj[i] if is_list else getattr(obj, i)
    l = []; _leafs(v, l)
    for x in l:
      if id(x) not in seen: seen.add(id(x)); out.append(x)
  return out

def save_state(top):
  return [(x, x._uint, getattr(x, '_next', None)) for x in live_leaves(top)]

def restore_state(st):
  for x, u, n in st:
    x._uint = u
    if n is not None: x._next = n

def drive_inputs(top, g, r):
  vals = {}
  for n, typ in g.inputs:
    w = STRUCT_WIDTH[typ[1]] if typ[0] == 'struct' else typ[1]
    v = r.getrandbits(w) if r.random() < 0.8 else r.choice([0, (1 << w) - 1])
    set_input(top, n, v); vals[n] = v
  return vals

def simulate(top, g, seed, cycles, on_eval=None, on_tick=None):
  """drive `cycles` cycles of pseudo-random inputs; returns the list of snapshots (after each eval and each tick)"""
  r = random.Random(seed)
  top.sim_reset()
  tr = []
  for c in range(cycles):
    drive_inputs(top, g, r)
    top.sim_eval_combinational()
    tr.append(snapshot(top))
    if on_eval: on_eval(c)
    top.sim_tick()
    tr.append(snapshot(top))
    if on_tick: on_tick(c)
  return tr

def simulate_ticks(top, g, seed, cycles):
  """the other driving protocol: write the inputs and call sim_tick() only (no explicit sim_eval_combinational);
  line traces, if enabled, are swallowed. Returns the snapshots after each tick."""
  import io, contextlib
  r = random.Random(seed); tr = []
  with contextlib.redirect_stdout(io.StringIO()):
    top.sim_reset()
    for c in range(cycles):
      drive_inputs(top, g, r)
      top.sim_tick()
      tr.append(snapshot(top))
  return tr

def first_diff(a, b):
  for i, (x, y) in enumerate(zip(a, b)):
    if x != y:
      ks = [k for k in x if x[k] != y.get(k)]
      return i, ks[:6], {k: (x[k], y.get(k)) for k in ks[:6]}
  return None


def static_order(top, fp):
  """the schedule list itself, when every entry is a known block (no SCC wrapper)"""
  out = []
  for b in top._sched.update_schedule:
    if b not in fp.cid: return None
    out.append(fp.cid[b])
  return out

def dynamic_writes(top, fp, rng, trials=3):
  """run every combinational block alone on randomised states and record which bits it REALLY changes
  (independent of pymtl3's AST analysis). Returns {block: set of (root id, bit)} restricted to bits that are
  neither declared as written nor aliased (same storage) with a declared-written signal."""
  leaves = live_leaves(top)
  st = save_state(top)
  alias = {}
  for q in fp.roots:
    obj, i, is_list, _ = top._sim.signal_object_mapping[q]
    v = obj[i] if is_list else getattr(obj, i)
    alias.setdefault(id(v), set()).add(fp.roots[q])
  alias_of = {rid: cl for cl in alias.values() for rid in cl}
  extra = {}
  for b in fp.comb:
    if b in top._dag.genblks: continue
    for t in range(trials):
      for x in leaves:
        x._uint = rng.getrandbits(x.nbits)
      before = snapshot(top)
      try: b()
      except Exception: continue
      after = snapshot(top)
      for q, rid in fp.roots.items():
        d = before[repr(q)] ^ after[repr(q)]
        if not d: continue
        allowed = 0
        for (rr, lo, hi) in fp.writes[b]:
          if rr in alias_of[rid]: allowed |= (1 << hi) - (1 << lo)
        d &= ~allowed
        k = 0
        while d:
          if d & 1: extra.setdefault(b, set()).add((rid, k))
          d >>= 1; k += 1
  restore_state(st)
  return extra


def dynamic_reads(top, fp, rng, trials=4):
  """for every combinational block and every top-level signal it does NOT declare as read (nor writes): randomise that
  signal's storage and see whether anything the block writes changes. Returns {block: set of root ids} of undeclared
  reads (independent of pymtl3's AST analysis). Signals sharing storage (one net) count as one."""
  st = save_state(top)
  live = {}
  alias = {}
  for q in fp.roots:
    obj, i, is_list, _ = top._sim.signal_object_mapping[q]
    v = obj[i] if is_list else getattr(obj, i)
    live[q] = v
    alias.setdefault(id(v), set()).add(fp.roots[q])
  alias_of = {rid: cl for cl in alias.values() for rid in cl}
  leaves_of = {}
  for q, v in live.items():
    l = []; _leafs(v, l); leaves_of[q] = l
  all_leaves = live_leaves(top)
  extra = {}
  for b in fp.comb:
    if b in top._dag.genblks: continue
    declared = set()
    for (rr, lo, hi) in fp.reads[b] + fp.writes[b]: declared |= alias_of[rr]
    wroots = {rr for (rr, lo, hi) in fp.writes[b]}
    for q, rid in fp.roots.items():
      if rid in declared: continue
      found = False
      for t in range(trials):
        for x in all_leaves: x._uint = rng.getrandbits(x.nbits)
        base = [(x, x._uint) for x in all_leaves]
        try: b()
        except Exception: break
        out1 = snapshot(top)
        for x, u in base: x._uint = u
        for x in leaves_of[q]: x._uint = rng.getrandbits(x.nbits)
        mid = snapshot(top)
        try: b()
        except Exception: break
        out2 = snapshot(top)
        # compare only what the block writes (declared), ignoring the perturbed signal itself
        for (rr, lo, hi) in fp.writes[b]:
          name = [repr(z) for z, r_ in fp.roots.items() if r_ == rr][0]
          m = (1 << hi) - (1 << lo)
          if (out1[name] & m) != (out2[name] & m) and rr not in alias_of[rid]:
            found = True
        if found: break
      if found: extra.setdefault(b, set()).add(rid)
  restore_state(st)
  return extra
