"""sv_engine.py — the part of the C03 / C12 checks that is common to both backends: run every design, let Coq replay
the emitted module, classify what Coq reports.  See c03.py / c12.py for what is claimed.

Classification of a disagreement (the verdict itself is always Coq's: `simulate` on the parsed text vs the observed
trace).  To tell the KINDS of defect apart the harness re-runs Coq on repaired variants of the same text:
  1. constant sub-expressions folded to the value python computes     -> <pid>:const-subexpr-narrowed:<op> /
                                                                         <pid>:const-subexpr-unfolded-overflow:<op>
  2. text re-read in svparse's lenient mode (missing parentheses restored) -> <pid>:precedence:<shape>
  3. whatever still disagrees                                          -> <pid>:mismatch:<design>   (unique)
A repair "explains" the first disagreement when it disappears or moves to another (cycle, port)."""
from common import *
import sv_common as sv, svparse, sv_gen, sched_common as sc
import collections, signal

class _Watchdog(Exception): pass
def _alarm(signum, frame): raise _Watchdog()

class Res:
  """outcome for one (design, backend)"""
  def __init__(s, d, backend):
    s.d, s.backend = d, backend
    s.status = None       # rejected | unmodelled | syntax | portmap | ok | bad
    s.detail = ''; s.text = None; s.f = None; s.case = None; s.trace = None; s.ports = None; s.topname = None
    s.exc = None; s.why = None; s.tr = None; s.syntax = None; s.lenient = False

def gen_designs(ctx, n, prefix='G', ys_safe_fraction=0.0):
  out = []
  for j in range(n):
    r = random.Random(ctx.rng.randrange(1 << 30))
    safe = r.random() < ys_safe_fraction
    g = sv_gen.Gen(r, f'{prefix}{j}', size=r.choice(['small', 'medium', 'medium', 'large']), uid=f'{prefix}{j}', ys_safe=safe, yosys=ys_safe_fraction > 0).build()
    if safe: g.features.add('ys-safe')
    src = g.source()
    cls, _ = sc.load_source(ctx, src, g.name)
    out.append(sv.Design(g.name, cls, source=src, kind='gen', features=sorted(g.all_features()), limits=g.limits))
  return out

def directed_designs(ctx):
  out = []
  for cls, src, op in sv_gen.directed_const_designs():
    c, _ = sc.load_source(ctx, src, cls)
    out.append(sv.Design(cls, c, source=src, kind='directed', features=['const:' + op, 'tag:const-subexpr']))
  for cls, src, tag, *lim in sv_gen.directed_other_designs():
    c, _ = sc.load_source(ctx, src, cls)
    out.append(sv.Design(cls, c, source=src, kind='directed', features=['tag:' + tag], limits=lim[0] if lim else ()))
  return out

def prepare(ctx, d, backend, ncycles, seed, sim_cache):
  """simulate (once per design, shared by the backends), translate, parse, print the Coq case"""
  r = Res(d, backend)
  signal.signal(signal.SIGALRM, _alarm); signal.alarm(25)
  try:
    return _prepare(ctx, d, backend, ncycles, seed, sim_cache, r)
  except _Watchdog:
    r.status, r.detail = 'rejected', 'watchdog:timeout'
    return r
  finally:
    signal.alarm(0)

def _prepare(ctx, d, backend, ncycles, seed, sim_cache, r):
  try:
    if d.name not in sim_cache:
      sim_cache[d.name] = None
      sim_cache[d.name] = sv.simulate(d, seed, ncycles)
    if sim_cache[d.name] is None:
      r.status, r.detail = 'rejected', 'simulate:rejected-before'
      return r
    r.ports, r.trace = sim_cache[d.name]
    r.text, r.topname = sv.translate(d, backend)
  except sv.Rejected as e:
    r.status, r.detail, r.exc = 'rejected', f'{e.stage}:{type(e.exc).__name__}', e.exc
    return r
  try:
    r.f = svparse.parse_file(r.text)
  except svparse.Unmodelled as e:
    r.status, r.detail = 'unmodelled', str(e); return r
  except svparse.SelectOnExpression as e:
    # not SystemVerilog; remembered as a violation, and the text is re-read leniently so that its behaviour is still checked
    r.syntax = e
    try:
      r.f = svparse.parse_file(r.text, lenient=True); r.lenient = True
    except (svparse.Unmodelled, svparse.SvSyntaxError) as e2:
      r.status, r.detail, r.exc = 'syntax', str(e), e; return r
  except svparse.SvSyntaxError as e:
    r.status, r.detail, r.exc = 'syntax', str(e), e; return r
  except _Watchdog: raise
  except Exception as e:      # the parser itself must never take the check down: an unreadable text is a finding about the text
    r.status, r.detail, r.exc = 'syntax', f'parser failed on the emitted text: {type(e).__name__}: {e}', e; return r
  return finish_case(r, backend)

def finish_case(r, backend):
  mod = r.f.module(r.topname)
  if mod is None:
    r.status, r.detail = 'portmap', f'no module named {r.topname} in the emitted text'; return r
  try:
    r.tr = sv.trace_coq(r.f, mod, r.ports, r.trace, backend)
    want = sv.expected_port_names(r.f, mod, r.ports, backend)
    have = {pn for _, (pn, t, dims) in mod['ports']}
    extra = sorted(have - want - {'clk'})
    if extra: raise sv.PortMapError(f'emitted module has ports that no port of the component maps to: {extra[:6]}')
  except sv.PortMapError as e:
    r.status, r.detail = 'portmap', str(e); return r
  r.case = f'({r.f.coq()}, {r.f.intern.id(r.topname)}%positive, {r.tr})'
  r.status = 'ok'
  return r

def why_many(ctx, tag, cases, per_file=3, jobs=12):
  """for every case (a Coq term of type file * ident * list cyc): [wellformed, outcome, collisions, undriven] as printed by Coq"""
  chunks = [cases[i:i + per_file] for i in range(0, len(cases), per_file)]
  def one(k):
    defs = sv.SV_DEFS + '\n'.join(f'Definition cc{j} : file * ident * list cyc := {c}.' for j, c in enumerate(chunks[k]))
    exprs = [f'{fn} cc{j}' for j in range(len(chunks[k])) for fn in ('why_wf', 'why_sim', 'why_col', 'why_und')]
    o = ctx.coq_eval(f'{tag}{k}', sv.SV_IMPORTS, defs, exprs)
    return [o[4 * j:4 * j + 4] for j in range(len(chunks[k]))]
  from concurrent.futures import ThreadPoolExecutor
  with ThreadPoolExecutor(max_workers=jobs) as ex:
    outs = list(ex.map(one, range(len(chunks))))
  return [o for c in outs for o in c]

def evaluate(ctx, results, tag):
  """Coq decides; results with status ok become ok/bad, with r.why filled for the bad ones"""
  live = [r for r in results if r.status == 'ok']
  if not live: return
  bad = ctx.coq_bad_indices(tag, sv.SV_IMPORTS, sv.SV_DEFS, 'file * ident * list cyc', [r.case for r in live], 'case_ok c', shard=5, jobs=14)
  for i in bad: live[i].status = 'bad'
  badr = [live[i] for i in bad]
  for r, o in zip(badr, why_many(ctx, tag + 'why', [r.case for r in badr])): r.why = o

SIM_RE = re.compile(r'^(Agree|Mismatch (\d+) (\d+)%positive (.*)|NoFixpoint (\d+) (\d+))$', re.S)
def parse_why_text(f, w):
  """-> dict(wellformed, kind, cycle, port, model, collisions, undriven); w = the four printed values"""
  out = {'raw': ' | '.join(w or [])[:600], 'wellformed': None, 'kind': 'unparsed'}
  if not w or len(w) != 4: return out
  m = SIM_RE.match(w[1].strip())
  if not m: return out
  out['wellformed'] = w[0].strip() == 'true'
  if m.group(1) == 'Agree': out['kind'] = 'agree'
  elif m.group(1).startswith('Mismatch'):
    out.update(kind='mismatch', cycle=int(m.group(2)), port=f.intern.name(int(m.group(3))), model=m.group(4))
  else: out.update(kind='nofixpoint', cycle=int(m.group(5)), phase=int(m.group(6)))
  names = lambda txt: re.sub(r'(\d+)%positive', lambda mm: f.intern.name(int(mm.group(1))), txt)
  out['collisions'] = names(w[2].strip()); out['undriven'] = names(w[3].strip())
  return out
def parse_why(r): return parse_why_text(r.f, r.why)

def observed_at(r, cycle, port, backend, f=None):
  """what pymtl3 produced for the emitted port `port` at `cycle` (for the replay file)"""
  f = f or r.f
  ins, outs = r.trace[cycle]
  mod = f.module(r.topname)
  pv = sv.sv_port_values if backend == 'sv' else sv.ys_port_values
  for n, v in pv(f, mod, r.ports, outs, False):
    if n == port: return v
  for rp, isin, ch, T in r.ports:      # the packed internal form of a struct-typed input port (Yosys backend)
    if isin and backend == 'yosys' and sv.ys_name(ch) == port: return f'(VZ {ins[rp]}) [packed value driven on input {rp}]'
  return None

def emitted_lines(text, needle, limit=5):
  return [l.strip()[:400] for l in text.splitlines() if needle in l and not l.strip().startswith('//')][:limit]

def moved(w_before, w_after):
  """did the repair explain the first disagreement?"""
  if w_after['kind'] == 'agree': return True
  return w_after['kind'] == 'mismatch' and (w_after['cycle'], w_after['port']) != (w_before['cycle'], w_before['port'])

def explain(ctx, bad, backend, tag):
  """fills r.w0 (original), r.hits/r.w1 (constants folded), r.repairs/r.w2 (lenient re-read + constants folded)"""
  for r in bad:
    r.w0 = parse_why(r); r.hits = []; r.w1 = None; r.repairs = []; r.w2 = None; r.f2 = None
  s1 = [r for r in bad if r.w0['kind'] == 'mismatch']
  todo = []
  for r in s1:
    hits, restore = sv.repair_file(r.f)
    try:
      if hits:
        r.hits = hits
        todo.append((r, f'({r.f.coq()}, {r.f.intern.id(r.topname)}%positive, {r.tr})'))
    finally: restore()
  for (r, _), o in zip(todo, why_many(ctx, tag + 'r1', [c for _, c in todo])):
    r.w1 = parse_why_text(r.f, o)
  todo = []
  for r in s1:
    if r.w1 is not None and r.w1['kind'] == 'agree': continue
    if r.lenient: continue
    try:
      f2 = svparse.parse_file(r.text, lenient=True)
    except Exception: continue
    if sv.repair_sext_element(f2): f2.repairs.append('sext-of-element')
    if not f2.repairs: continue
    r.f2 = f2; r.repairs = list(f2.repairs)
    sv.repair_file(f2)     # constants folded as well (in place; f2 is only used here)
    mod = f2.module(r.topname)
    tr = sv.trace_coq(f2, mod, r.ports, r.trace, backend)
    todo.append((r, f'({f2.coq()}, {f2.intern.id(r.topname)}%positive, {tr})'))
  for (r, _), o in zip(todo, why_many(ctx, tag + 'r2', [c for _, c in todo])):
    r.w2 = parse_why_text(r.f2, o)

# ---------------------------------------------------------------------- violations
PRECEDENCE = {'reduce-of-binop', 'reduce-of-ifexp', 'sext-of-binop', 'sext-of-ifexp'}

def replay_of(r, w, backend, f=None, note=None):
  d = r.d
  cyc, port = w['cycle'], w['port']
  out = {'design': d.name, 'kind': d.kind, 'backend': backend, 'design_source': d.source, 'design_limits': list(d.limits), 'cycle': cyc, 'port': port,
         'pymtl_value': observed_at(r, cyc, port, backend, f), 'emitted_text_value': w['model'], 'inputs_at_cycle': r.trace[cyc][0],
         'inputs_all_cycles': [c[0] for c in r.trace[:cyc + 1]], 'emitted_lines': emitted_lines(r.text, port.split('__')[0] + ' ') + emitted_lines(r.text, port.split('__')[0] + '[')}
  if note: out['note'] = note
  return out

def report_static(ctx, r, pid, backend):
  """violations that do not need Coq: rejected / unmodelled / syntax / port map"""
  d = r.d
  base = {'design': d.name, 'kind': d.kind, 'backend': backend, 'design_source': d.source}
  if r.syntax is not None:
    det = str(r.syntax)
    what = 'sext-of-trunc' if 'size cast' in det else ('sext-of-literal' if 'a literal' in det else 'sext-of-parenthesised')
    ctx.violation(f'{pid}:syntax:select-on-expression:{what}',
                  f'emitted text is not SystemVerilog: {det[:260]} (design {d.name}; IEEE 1800-2017 A.8.4: a select may only follow an identifier or a concatenation)',
                  dict(base, parser_message=det, emitted_lines=emitted_lines(r.text, "'(", 8)))
  if r.status == 'rejected':
    ctx.hist['rejected:' + r.detail] = ctx.hist.get('rejected:' + r.detail, 0) + 1
  elif r.status == 'unmodelled':
    ctx.hist['unmodelled-construct'] = ctx.hist.get('unmodelled-construct', 0) + 1
    ctx.extra.setdefault('unmodelled', []).append(f'{d.name}: {r.detail[:120]}')
    if d.kind in ('gen', 'directed'):
      ctx.violation(f'{pid}:generator-outside-subset:{d.name}', f'generated design {d.name} uses a construct svparse does not model: {r.detail[:200]}', base, found_input=False)
  elif r.status == 'syntax' and getattr(r.exc, 'kind', '') in ('illegal-literal', 'literal-as-assignment-target'):
    kd = r.exc.kind
    key = f'{pid}:{d.name}:{kd}' if d.kind in ('directed', 'case') else f'{pid}:syntax:{kd}'
    ctx.violation(key, f'{d.name}: emitted text is not Verilog: {r.detail[:200]}', dict(base, parser_message=r.detail, emitted_lines=emitted_lines(r.text, "'d", 10)))
  elif r.status == 'syntax' and re.search(r'\+\s*\]', '\n'.join(l for l in r.text.splitlines() if not l.strip().startswith('//'))):
    hit = [l.strip()[:200] for l in r.text.splitlines() if re.search(r'\+\s*\]', l) and not l.strip().startswith('//')][:3]
    key = f'{pid}:{d.name}:sext-of-variable-part-select' if d.kind in ('directed', 'case') else f'{pid}:syntax:sext-of-variable-part-select'
    ctx.violation(key, f'{d.name}: emitted text is not SystemVerilog: sign extension of a variable part select x[e : e+N] is emitted with a truncated select `x[e +]`: {hit[:1]}', dict(base, parser_message=r.detail, emitted_lines=hit))
  elif r.status == 'syntax':
    ctx.violation(f'{pid}:syntax:{d.name}', f'emitted text of {d.name} does not fit the grammar of the emitted subset: {r.detail[:300]}', dict(base, parser_message=r.detail, emitted_text=r.text[-3000:]))
  elif r.status == 'portmap' and d.kind not in ('directed', 'case') and ('has no flattened port' in r.detail or 'has no port' in r.detail or 'no port of the component maps to' in r.detail):
    cls_ = 'unexpected-port' if 'no port of the component maps to' in r.detail else 'missing-port'
    ctx.violation(f'{pid}:flat-port-list:{cls_}', f'{d.name}: the port list of the emitted module does not match the ports of the component: {r.detail[:300]}', dict(base, emitted_text=r.text[:3000]))
  elif r.status == 'portmap':
    ctx.violation(f'{pid}:portmap:{d.name}', f'{d.name}: emitted port list does not match the component: {r.detail[:300]}', dict(base, emitted_text=r.text[:3000]))

def struct_forms(f):
  """Yosys backend: a struct-typed signal S is emitted as a packed variable S plus variables S__<field>...; returns the
  names of all variables of such families (scalar S with at least one declared S__x)"""
  out = set()
  for m in f.modules:
    names = {pn: dims for _, (pn, t, dims) in m['ports']}
    names.update({n: dims for (n, t, dims) in m['decls']})
    bases = {n for n, dims in names.items() if any(o.startswith(n + '__') for o in names)}
    bases |= {n.rsplit('__', 1)[0] for n in names if re.search(r'__\d+$', n)}          # lists of struct ports: lo__0__f0 ... / lo__f0
    for n in names:
      if n in bases or any(n.startswith(b + '__') for b in bases): out.add(n)
    for n in names:
      # lo__f0 next to lo__0__f0 : the per-field array form of a list of struct ports
      parts = n.split('__')
      if any(re.sub(r'__\d+(?=__|$)', '', o) == n and o != n for o in names): out.add(n)
  return out

def member_accesses(f):
  """member accesses x.f in a text that declares no struct-typed variable at all (the Yosys backend flattens every struct:
  `si3.f3` / `recv.msg` / `recv[0].msg` there are SystemVerilog-backend spellings that leaked through)"""
  out = set()
  for m in f.modules:
    types = {pn: t for _, (pn, t, dims) in m['ports']}; types.update({n: t for (n, t, dims) in m['decls']})
    def visit(e):
      if e[0] == 'member':
        x = e
        while x[0] in ('member', 'index', 'range', 'plus'): x = x[1]
        if x[0] == 'id' and (x[1] not in types or types[x[1]][0] != 'struct'): out.add(x[1])
    for e in svparse.module_exprs(m): svparse.walk_exprs(e, visit)
  return out

def nested_ifc_undeclared(f):
  """Yosys backend, arrays of interfaces nested in arrays of interfaces: the module declares bank__lane__0__msg [0:1] ... but the
  update blocks use bank__lane__msg[i][j], which is not declared anywhere"""
  out = set()
  for m in f.modules:
    declared = {pn for _, (pn, t, dims) in m['ports']} | {n for (n, t, dims) in m['decls']} | {p[0] for p, _ in m['params']}
    squashed = {re.sub(r'__\d+(?=__)', '', n) for n in declared if re.search(r'__\d+__', n)}
    def visit(e):
      if e[0] == 'id' and e[1] not in declared and e[1] in squashed: out.add(e[1])
    for e in svparse.module_exprs(m): svparse.walk_exprs(e, visit)
  return out

def varnames(txt):
  return set(re.findall(r'[A-Za-z_][A-Za-z_0-9$.]*', re.sub(r'K(Assign|Block|Input|Inst)\b', ' ', txt)))

def class_key(r, pid, backend, symptom, w):
  """stable key for a symptom: by design for the fixed design sets, by a signature of the emitted text for random designs"""
  d = r.d
  if symptom in ('no-fixpoint', 'mismatch') and sv.wrapping_loops(r.f):
    return f'{pid}:for-negative-step:unsigned-counter-wraps'
  if symptom in ('not-wellformed', 'mismatch') and r.w0.get('wellformed') is False and sv.oob_constant_indices(r.f) and not (backend == 'yosys' and nested_ifc_undeclared(r.f)):
    return f'{pid}:not-wellformed:index-out-of-declared-range'
  if backend == 'yosys':
    if r.w0.get('wellformed') is False and nested_ifc_undeclared(r.f):
      return f'{pid}:not-wellformed:nested-interface-array-undeclared'
    forms = struct_forms(r.f)
    if symptom == 'multi-driver' and varnames(w.get('collisions', '')) & forms: return f'{pid}:struct-form:multi-driver'
    if symptom == 'undriven':
      und = set(re.findall(r'[A-Za-z_][A-Za-z_0-9$.]*', w.get('undriven', '')))
      mods = {m['name'] for m in r.f.modules}
      if und - mods and (und - mods) <= forms: return f'{pid}:struct-form:undriven'
    if symptom in ('not-wellformed', 'mismatch') and r.w0.get('wellformed') is False and member_accesses(r.f):
      return f'{pid}:not-wellformed:unmangled-member-access'
    if symptom == 'mismatch':
      und = set(re.findall(r'[A-Za-z_][A-Za-z_0-9$.]*', r.w0.get('undriven', ''))) | varnames(r.w0.get('collisions', ''))
      if und & forms: return f'{pid}:struct-granularity:mismatch'
  return f'{pid}:{d.name}:{symptom}'

def report_bad(ctx, r, pid, backend):
  """Keys: directed designs   <pid>:<family>:<shape>        (one per defect shape; the design is its minimal reproduction)
           catalogue designs  <pid>:<design>:<symptoms>     (the catalogue is fixed, the design name is stable)
           random designs     <pid>:<class signature>       (computed from the emitted text, see class_key)
     disagreements explained by a repair experiment always get the key of the repair, whatever the design."""
  d = r.d
  w = r.w0
  def bump(k): ctx.hist[k] = ctx.hist.get(k, 0) + 1
  tags = [f[4:] for f in d.features if f.startswith('tag:')]
  tag = next((t for t in tags if t not in ('control', 'const-subexpr')), None)
  base = {'design': d.name, 'kind': d.kind, 'backend': backend, 'design_source': d.source, 'coq_says': w.get('raw')}
  symptoms = []      # (symptom, message, replay additions)
  if w['kind'] == 'unparsed':
    ctx.violation(f'{pid}:{d.name}:coq-output-unparsed', f'{d.name}: could not read Coq\'s answer: {w.get("raw", "")[:200]}', base, found_input=False)
    return
  bump(f'{backend}:{d.kind}:replay-{w["kind"]}')
  if w['wellformed'] is False:
    bump(f'{backend}:{d.kind}:not-wellformed')
    acc = sorted(member_accesses(r.f))
    oob = sv.oob_constant_indices(r.f)
    symptoms.append(('not-wellformed', 'emitted text fails sv_wellformed (undeclared identifier / ill-typed select / constant index outside the declared range / instance mismatch)' +
                     (f'; constant index outside the declared range (module, select, index, declared size): {oob[:3]}' if oob else '') +
                     (f'; member access on {acc[:4]}, which is not a struct-typed variable of the module' if acc else ''), {'emitted_text': r.text[:5000]}))
  if w.get('collisions', '[]') != '[]':
    bump(f'{backend}:{d.kind}:multi-driver')
    symptoms.append(('multi-driver', f'a variable bit has more than one driver: {w["collisions"][:300]}', {'collisions': w['collisions'], 'emitted_text': r.text[:5000]}))
  if w.get('undriven', '[]') != '[]':
    bump(f'{backend}:{d.kind}:undriven')
    if d.kind == 'case':
      # the catalogue contains components whose SOURCE leaves a port undriven; the translation is faithful there
      bump('undriven-variable(test catalogue; many are undriven in the source)')
    else:
      symptoms.append(('undriven', f'a declared variable has a bit without any driver: {w["undriven"][:300]}', {'undriven': w['undriven'], 'emitted_text': r.text[:5000]}))
  if w['kind'] == 'nofixpoint':
    wl = sv.wrapping_loops(r.f)
    symptoms.append(('no-fixpoint', (f'downward for-loop on an `int unsigned` counter passes below zero and wraps instead of stopping (module, counter, start, bound, step) = {wl[:3]}; ' if wl else '') +
                     f'the emitted module did not settle (cycle {w["cycle"]}, phase {w["phase"]})', {'emitted_text': r.text[:5000], 'emitted_lines': emitted_lines(r.text, 'for (', 6)}))
  if w['kind'] == 'mismatch':
    cur, curf, note = w, r.f, None
    # 1. constants
    if r.w1 is not None and moved(cur, r.w1):
      ops, e, true_v, how = r.hits[0]
      if 'tag:const-subexpr' in d.features: op = next((f[6:] for f in d.features if f.startswith('const:')), ops[-1])
      else: op = ops[-1] if len(ops) == 1 else 'nested'
      fam = 'const-subexpr-narrowed' if how == 'narrowed' else 'const-subexpr-unfolded-overflow'
      ctx.violation(f'{pid}:{fam}:{op}',
                    f'{d.name}: constant sub-expression emitted unfolded ' + ('with operands narrowed to the width of its folded value' if how == 'narrowed' else 'and overflowing the self-determined width of its operands') +
                    f': `{sv.expr_text(e)}` (pymtl3 uses {true_v}); port {cur["port"]} at cycle {cur["cycle"]}: emitted text gives {cur["model"]}, pymtl3 gives {observed_at(r, cur["cycle"], cur["port"], backend)}; folding the constant removes this disagreement',
                    dict(replay_of(r, cur, backend), differing_constant_subexpressions=[(o, sv.expr_text(x), v, h) for o, x, v, h in r.hits[:6]]))
      bump('explained:constant-subexpression')
      cur, note = (None, None) if r.w1['kind'] == 'agree' else (r.w1, 'value computed on the text with the differing constant sub-expressions folded')
    # 2. missing parentheses / sign extension of an element
    if cur is not None and r.w2 is not None and moved(cur, r.w2):
      for t in sorted(set(r.repairs)):
        fam = 'precedence' if t in PRECEDENCE else ('sign-extension' if t == 'sext-of-element' else 'syntax:select-on-expression')
        ctx.violation(f'{pid}:{fam}:{t}',
                      f'{d.name}: ' + ('sign extension of an indexed multi-bit element replicates the whole element instead of its top bit' if t == 'sext-of-element' else f'operator expression emitted without parentheses ({t})') +
                      f'; port {cur["port"]} at cycle {cur["cycle"]}: emitted text gives {cur["model"]}, pymtl3 gives {observed_at(r, cur["cycle"], cur["port"], backend, curf)}; '
                      f're-reading the text with the intended grouping restored removes this disagreement; parser notes: {r.f2.notes[:2]}',
                      dict(replay_of(r, cur, backend, curf, note), parser_notes=r.f2.notes[:6]))
      bump('explained:missing-parentheses')
      cur, curf, note = (None, None, None) if r.w2['kind'] == 'agree' else (r.w2, r.f2, 'value computed on the text with constants folded and parentheses restored')
    # 3. residue
    if cur is not None:
      hint = [f for f in d.features if f in ('sext-of-expr', 'reduce-of-expr')]
      symptoms.append(('mismatch', f'output {cur["port"]} at cycle {cur["cycle"]}: emitted text gives {cur["model"]}, pymtl3 gives {observed_at(r, cur["cycle"], cur["port"], backend, curf)}' +
                       (f' (design uses {hint})' if hint else '') + (f'; {note}' if note else ''), replay_of(r, cur, backend, curf, note)))
  if not symptoms: return
  if d.kind in ('directed', 'case'):
    names = '+'.join(sy for sy, _, _ in symptoms)
    key = f'{pid}:{d.name}:{tag}' if (d.kind == 'directed' and tag) else f'{pid}:{d.name}:{names}'
    rep = dict(base)
    for _, _, extra in symptoms: rep.update(extra)
    ctx.violation(key, f'{d.name}' + (f' [{tag}]' if tag else '') + ': ' + '; '.join(m for _, m, _ in symptoms), rep)
    return
  for sy, msg, extra in symptoms:
    ctx.violation(class_key(r, pid, backend, sy, w), f'{d.name}: {msg}', dict(base, **extra), found_input=(sy != 'no-fixpoint' or bool(sv.wrapping_loops(r.f))))

def run_backend(ctx, pid, backend, designs, ncyc, sim_cache, tagp=''):
  results = []
  t0 = time.time()
  for k, d in enumerate(designs):
    results.append(prepare(ctx, d, backend, ncyc, ctx.seed + k, sim_cache))
  t1 = time.time()
  for lo in range(0, len(results), 400):
    evaluate(ctx, results[lo:lo + 400], f'{tagp}{backend}{lo}')
  t2 = time.time()
  bad = [r for r in results if r.status == 'bad']
  explain(ctx, bad, backend, f'{tagp}{backend}x')
  ctx.extra[f'time_{tagp}{backend}'] = {'pymtl3_simulate_translate_parse_s': round(t1 - t0, 1), 'coq_replay_s': round(t2 - t1, 1), 'coq_classification_s': round(time.time() - t2, 1)}
  for r in results:
    d = r.d
    if r.status in ('ok', 'bad'):
      ctx.count((backend, d.name, sv.text_key(r.text)), True, cls=f'{backend}:{d.kind}:{"agree" if r.status == "ok" else "disagree"}')
    else:
      ctx.count((backend, d.name, r.status, r.detail[:40]), r.status in ('syntax', 'portmap'), cls=f'{backend}:{d.kind}:{r.status}')
    report_static(ctx, r, pid, backend)
    if r.status == 'bad': report_bad(ctx, r, pid, backend)
  return results
