"""sv_engine.py — the part of the C03 / C12 checks that is common to both backends: run every design, let Coq replay
the emitted module, classify what Coq reports.  See c03.py / c12.py for what is claimed."""
from common import *
import sv_common as sv, svparse, sv_gen, sched_common as sc
import collections, signal

class _Watchdog(Exception): pass
def _alarm(signum, frame): raise _Watchdog('design did not finish simulating / translating within the watchdog (e.g. a while-loop in an update block)')

class Res:
  """outcome for one (design, backend)"""
  def __init__(s, d, backend):
    s.d, s.backend = d, backend
    s.status = None       # rejected | unmodelled | syntax | portmap | ok | bad
    s.detail = ''; s.text = None; s.f = None; s.case = None; s.trace = None; s.ports = None; s.topname = None
    s.exc = None; s.why = None

def gen_designs(ctx, n, prefix='G'):
  out = []
  for j in range(n):
    r = random.Random(ctx.rng.randrange(1 << 30))
    g = sv_gen.Gen(r, f'{prefix}{j}', size=r.choice(['small', 'medium', 'medium', 'large']), uid=f'{prefix}{j}').build()
    src = g.source()
    cls, _ = sc.load_source(ctx, src, g.name)
    out.append(sv.Design(g.name, cls, source=src, kind='gen', features=sorted(g.all_features())))
  return out

def directed_designs(ctx):
  out = []
  for cls, src, op in sv_gen.directed_const_designs():
    c, _ = sc.load_source(ctx, src, cls)
    out.append(sv.Design(cls, c, source=src, kind='directed', features=['const:' + op, 'tag:const-subexpr']))
  for cls, src, tag in sv_gen.directed_other_designs():
    c, _ = sc.load_source(ctx, src, cls)
    out.append(sv.Design(cls, c, source=src, kind='directed', features=['tag:' + tag]))
  return out

def prepare(ctx, d, backend, ncycles, seed, sim_cache):
  """simulate (once per design, shared by the backends), translate, parse, print the Coq case"""
  r = Res(d, backend)
  signal.signal(signal.SIGALRM, _alarm); signal.alarm(25)
  try:
    return _prepare(ctx, d, backend, ncycles, seed, sim_cache, r)
  except _Watchdog as e:
    r.status, r.detail = 'rejected', 'watchdog:timeout'
    return r
  finally:
    signal.alarm(0)

def _prepare(ctx, d, backend, ncycles, seed, sim_cache, r):
  try:
    if d.name not in sim_cache:
      sim_cache[d.name] = None
      sim_cache[d.name] = sv.simulate(d, seed, ncycles)
    if sim_cache[d.name] is None:
      r.status, r.detail = 'rejected', 'simulate:rejected-before'
      return r
    r.ports, r.trace = sim_cache[d.name]
    r.text, r.topname = sv.translate(d, backend)
  except sv.Rejected as e:
    r.status, r.detail, r.exc = 'rejected', f'{e.stage}:{type(e.exc).__name__}', e.exc
    return r
  try:
    r.f = svparse.parse_file(r.text)
  except svparse.Unmodelled as e:
    r.status, r.detail = 'unmodelled', str(e); return r
  except svparse.SvSyntaxError as e:
    r.status, r.detail, r.exc = 'syntax', str(e), e; return r
  mod = r.f.module(r.topname)
  if mod is None:
    r.status, r.detail = 'portmap', f'no module named {r.topname} in the emitted text'; return r
  try:
    tr = sv.trace_coq(r.f, mod, r.ports, r.trace, backend)
  except sv.PortMapError as e:
    r.status, r.detail = 'portmap', str(e); return r
  r.tr = tr
  r.case = f'({r.f.coq()}, {r.f.intern.id(r.topname)}%positive, {tr})'
  r.status = 'ok'
  return r

WHY_RE = re.compile(r'^\((true|false), (Agree|Mismatch (\d+) (\d+)%positive (.*?)|NoFixpoint (\d+) (\d+)), (\[.*\]), (\[.*\])\)$', re.S)

def evaluate(ctx, results, tag):
  """Coq decides; results with status ok become ok/bad, with r.why filled for the bad ones"""
  live = [r for r in results if r.status == 'ok']
  if not live: return
  bad = ctx.coq_bad_indices(tag, sv.SV_IMPORTS, sv.SV_DEFS, 'file * ident * list cyc', [r.case for r in live], 'case_ok c', shard=5, jobs=14)
  for i in bad: live[i].status = 'bad'
  badr = [live[i] for i in bad]
  for k in range(0, len(badr), 6):
    chunk = badr[k:k + 6]
    outs = ctx.coq_eval(tag + 'why', sv.SV_IMPORTS, sv.SV_DEFS, [f'case_why {r.case}' for r in chunk])
    for r, o in zip(chunk, outs): r.why = o

def parse_why(r):
  """-> dict(wellformed, kind, cycle, port, model, collisions, undriven)"""
  w = r.why or ''
  m = WHY_RE.match(w.strip())
  out = {'raw': w[:600], 'wellformed': None, 'kind': 'unparsed'}
  if not m: return out
  out['wellformed'] = m.group(1) == 'true'
  if m.group(2) == 'Agree': out['kind'] = 'agree'
  elif m.group(2).startswith('Mismatch'):
    out.update(kind='mismatch', cycle=int(m.group(3)), port=r.f.intern.name(int(m.group(4))), model=m.group(5))
  else: out.update(kind='nofixpoint', cycle=int(m.group(6)), phase=int(m.group(7)))
  names = lambda txt: re.sub(r'(\d+)%positive', lambda mm: r.f.intern.name(int(mm.group(1))), txt)
  out['collisions'] = names(m.group(8)); out['undriven'] = names(m.group(9))
  return out

def observed_at(r, cycle, port, backend):
  """what pymtl3 produced for the emitted port `port` at `cycle` (for the replay file)"""
  ins, outs = r.trace[cycle]
  mod = r.f.module(r.topname)
  pv = sv.sv_port_values if backend == 'sv' else sv.ys_port_values
  for n, v in pv(r.f, mod, r.ports, outs, False):
    if n == port: return v
  return None

def try_repair(ctx, r, tag):
  """candidate defect F4: does the disagreement vanish when the narrowed constant sub-expressions are folded?"""
  hits, restore = sv.repair_file(r.f)
  try:
    if not hits: return None
    case = f'({r.f.coq()}, {r.f.intern.id(r.topname)}%positive, {r.tr})'
  finally:
    restore()
  o = ctx.coq_eval(tag + 'rep', sv.SV_IMPORTS, sv.SV_DEFS, [f"let '(F, top, tr) := {case} in agrees (simulate F top tr)"])
  return hits, o[0].strip() == 'true'

def emitted_lines(text, needle, limit=4):
  return [l.strip() for l in text.splitlines() if needle in l and not l.strip().startswith('//')][:limit]
