"""harness/common.py — shared machinery of every property check (see DESIGN.md §1.3).

  regenerate models -> build the property's theorem file (kernel check + Print Assumptions)
  -> correspondence (implementation vs executable Coq model, evaluated by coqc/vm_compute)
  -> witness search on disagreement -> VIOLATION / KNOWN-FINDING lines -> evidence file.
"""
import os, time, sys, re, json, time, hashlib, random, subprocess, fcntl, shutil, tempfile, traceback
from pathlib import Path
from concurrent.futures import ThreadPoolExecutor

VERIF = Path(__file__).resolve().parent.parent
COQ   = VERIF / 'coq'
REPO  = Path(os.environ.get('VERIF_REPO', '/repo'))
PY    = '/venv/bin/python'

FORBIDDEN = re.compile(r'\b(Admitted|admit|Axiom|Axioms|Parameter|Parameters|Conjecture|Abort All|'
                       r'Unset Guard Checking|bypass_check|Admit Obligations|native_compute)\b|'
                       r'-type-in-type|-impredicative-set|Unset Universe Checking|Unset Positivity Checking')
THM = re.compile(r'^\s*(?:Local\s+|Global\s+|#\[[^\]]*\]\s*)?(Theorem|Lemma|Corollary|Example|Fact|Proposition|Remark)\s+([A-Za-z0-9_\']+)', re.M)

TRUSTED_BASE = [
  'Coq 8.16.1 kernel (coqc); vm_compute used for finite computations and for evaluating the model in cases files; no native_compute',
  'Axioms: none declared by the development; Print Assumptions of every property theorem is parsed on each run and must be "Closed under the global context" (or on the per-property allow-list)',
  'harness/common.py + the per-property harness (case generation, canonicalisation, printing of Coq terms)',
  'CPython 3.12 semantics of unbounded ints and of the pymtl3 code under test',
]

def sh(cmd, timeout=1800, cwd=None, env=None):
  p = subprocess.run(cmd, shell=isinstance(cmd, str), cwd=cwd, env=env, stdout=subprocess.PIPE,
                     stderr=subprocess.STDOUT, text=True, timeout=timeout)
  return p.returncode, p.stdout

class Lock:
  def __init__(self, name='build'):
    self.path = COQ / f'.{name}.lock'
  def __enter__(self):
    self.f = open(self.path, 'w')
    fcntl.flock(self.f, fcntl.LOCK_EX)
    return self
  def __exit__(self, *a):
    fcntl.flock(self.f, fcntl.LOCK_UN); self.f.close()

def zlit(k):
  """Coq Z literal"""
  k = int(k)
  if -(1 << 32) < k < (1 << 32):
    return f'({k})' if k < 0 else str(k)
  # hexadecimal numerals are parsed in linear time by Coq (decimal ones are quadratic)
  return f'(-{hex(-k)})' if k < 0 else hex(k)

def optz(x):
  return 'None' if x is None else f'(Some {zlit(x)})'

def coq_list(items):
  return '[' + '; '.join(items) + ']'

def closure(vfile):
  """transitive PV.* dependencies of a .v file (parsed from its Require lines)"""
  seen, todo = [], [Path(vfile)]
  while todo:
    f = todo.pop()
    if f in seen or not f.exists(): continue
    seen.append(f)
    txt = f.read_text()
    MOD = r'[A-Za-z0-9_]+(?:\.[A-Za-z0-9_]+)*'
    for line in re.findall(r'From\s+PV\s+Require\s+(?:Import\s+|Export\s+)?((?:' + MOD + r'\s*)+)\.(?=\s|$)', txt):
      for mod in line.split():
        todo.append(COQ / 'theories' / (mod.replace('.', '/') + '.v'))
    for line in re.findall(r'(?<!From PV )Require\s+(?:Import\s+|Export\s+)?((?:PV\.' + MOD + r'\s*)+)\.(?=\s|$)', txt):
      for mod in line.split():
        todo.append(COQ / 'theories' / (mod[3:].replace('.', '/') + '.v'))
  return seen

class Ctx:
  def __init__(self, pid, tier='quick', seed=None):
    self.pid, self.tier = pid, tier
    self.seed = int(seed if seed is not None else os.environ.get('VERIF_SEED', '20260925'))
    self.rng = random.Random(self.seed)
    self.t0 = time.time()
    self.evaluations = 0
    self.distinct = set()
    self.samples = []
    self.hist = {}
    self.violations = []       # (key, what, replay_path, found_input)
    self.known_hits = []
    self.notes = []
    self.proof = {'obligations': 0, 'discharged': 0, 'ok': False, 'assumptions': [], 'log': '', 'files': []}
    self.assumptions = []
    self.extra = {}
    self.trusted = list(TRUSTED_BASE)
    self.scratch = Path(tempfile.mkdtemp(prefix=f'verif-{pid}-'))
    self.known = self._load_known()
    self.allow_axioms = set()

  # ------------------------------------------------------------------ known findings
  def _load_known(self):
    p = VERIF / 'known_findings.json'
    if not p.exists(): return []
    try:
      d = json.loads(p.read_text())
    except Exception:
      return []
    return [f for f in d.get('findings', []) if f.get('property') == self.pid]

  # ------------------------------------------------------------------ bookkeeping
  def count(self, case_key, nontrivial=True, cls=None):
    self.evaluations += 1
    if nontrivial:
      self.distinct.add(hashlib.sha1(repr(case_key).encode()).hexdigest()[:16])
    if cls is not None:
      self.hist[cls] = self.hist.get(cls, 0) + 1

  def sample(self, s, limit=8):
    if len(self.samples) < limit: self.samples.append(s)

  def note(self, s):
    self.notes.append(s)

  # ------------------------------------------------------------------ build
  def ensure_project(self):
    if not (COQ / 'Makefile').exists() or not (COQ / '_CoqProject').exists():
      self.refresh_project()

  def refresh_project(self):
    files = sorted(str(p.relative_to(COQ)) for p in (COQ / 'theories').rglob('*.v'))
    txt = '-Q theories PV\n' + '\n'.join(files) + '\n'
    cp = COQ / '_CoqProject'
    if not cp.exists() or cp.read_text() != txt or not (COQ / 'Makefile').exists():
      cp.write_text(txt)
      sh('coq_makefile -f _CoqProject -o Makefile', cwd=COQ)

  def regen(self, cmds):
    """run translators; each cmd is an argv list; returns list of (cmd, output) for refusals"""
    refused = []
    for c in cmds:
      rc, out = sh(c, cwd=VERIF, timeout=300)
      if rc != 0:
        refused.append((' '.join(map(str, c)), out.strip()[-2000:]))
    return refused

  def make(self, targets, jobs=8, timeout=1500):
    with Lock():
      self.refresh_project()
      rc, out = sh(['timeout', str(timeout), 'make', '-k', f'-j{jobs}'] + list(targets), cwd=COQ, timeout=timeout + 60)
    return rc, out

  def build_props(self, gen_cmds=(), extra_models=(), allow_axioms=()):
    """Regenerate, then kernel-check Props/<pid>.v and everything it depends on."""
    self.allow_axioms = set(allow_axioms)
    prop = COQ / 'theories' / 'Props' / f'{self.pid}.v'
    refused = self.regen(gen_cmds)
    files = closure(prop)
    self.proof['files'] = [str(f.relative_to(COQ)) for f in files]
    # static scan
    bad = []
    for f in files:
      txt = re.sub(r'\(\*.*?\*\)', '', f.read_text(), flags=re.S)
      for m in FORBIDDEN.finditer(txt):
        bad.append(f'{f.name}: {m.group(0)}')
    nthm = {f: len(THM.findall(re.sub(r'\(\*.*?\*\)', '', f.read_text(), flags=re.S))) for f in files}
    self.proof['obligations'] = sum(nthm.values())
    # models first (so that the correspondence can run even when a proof file fails)
    if extra_models:
      self.make([m for m in extra_models])
    vo = prop.with_suffix('.vo')
    with Lock():
      if vo.exists(): vo.unlink()
    t = time.time()
    rc, out = self.make([str(vo.relative_to(COQ))])
    self.proof['build_s'] = round(time.time() - t, 1)
    log = out
    discharged = 0
    for f in files:
      v = f.with_suffix('.vo')
      if v.exists() and v.stat().st_mtime >= f.stat().st_mtime:
        discharged += nthm[f]
    self.proof['discharged'] = discharged
    closed = len(re.findall(r'Closed under the global context', out))
    axioms = []
    for blk in re.findall(r'Axioms:\n((?:.+\n?)+?)(?=\n|COQC|Closed|$)', out):
      for line in blk.splitlines():
        m = re.match(r'^([A-Za-z0-9_\.\']+)\s*:', line)
        if m: axioms.append(m.group(1))
    axioms = sorted(set(axioms))
    self.proof['assumptions'] = axioms
    self.proof['closed_theorems'] = closed
    nprint = len(re.findall(r'Print Assumptions', prop.read_text()))
    problems = []
    if refused: problems += [f'translator refused: {c}: {o}' for c, o in refused]
    if bad: problems += [f'forbidden construct {b}' for b in bad]
    if rc != 0 or not vo.exists():
      errs = re.findall(r'File "([^"]+)", line (\d+).*?\nError:(.*?)(?=\n\S|\Z)', out, flags=re.S)
      problems.append('coq build failed: ' + '; '.join(f'{Path(a).name}:{b}:{c.strip()[:300]}' for a, b, c in errs[:4]) if errs else 'coq build failed: ' + out[-800:])
    else:
      un = [a for a in axioms if a not in self.allow_axioms]
      if un: problems.append(f'unexpected axioms: {un}')
      if closed + (1 if axioms else 0) == 0 and nprint > 0:
        problems.append('no Print Assumptions output captured')
    # thorough tier: independent re-check of the compiled theorem file and everything it depends on
    if not problems and self.tier == 'thorough' and os.environ.get('VERIF_NO_COQCHK') != '1':
      t = time.time()
      rc2, out2 = sh(['timeout', '1500', 'coqchk', '-o', '-silent', '-Q', 'theories', 'PV', f'PV.Props.{self.pid}'], cwd=COQ, timeout=1600)
      m = re.search(r'\* Axioms:(.*?)\n\s*\n\* Constants', out2, flags=re.S)
      ax = m.group(1).strip() if m else 'unparsed'
      self.extra['coqchk'] = {'rc': rc2, 'axioms': ax, 'wall_s': round(time.time() - t, 1),
                              'type_in_type': 'type-in-type: <none>' in out2, 'tail': out2[-400:] if rc2 else ''}
      if rc2 != 0: problems.append('coqchk failed: ' + out2[-300:])
      elif ax != '<none>':
        un = [a for a in re.findall(r'[A-Za-z_][A-Za-z0-9_\.\']*', ax) if a not in self.allow_axioms]
        if un: problems.append(f'coqchk reports axioms: {ax[:300]}')
    self.proof['ok'] = not problems
    self.proof['problems'] = problems
    self.proof['log'] = log[-3000:]
    return self.proof['ok']

  # ------------------------------------------------------------------ model evaluation inside Coq
  def coq_bad_indices(self, name, imports, defs, case_type, cases, ok_body, shard=400, jobs=8):
    """cases: list of Coq terms (strings) of type case_type.  ok_body: Gallina bool expression over variable c.
    Returns the global indices on which ok is false (evaluated by coqc with vm_compute)."""
    d = COQ / 'cases'; d.mkdir(exist_ok=True)
    shards = [cases[i:i+shard] for i in range(0, len(cases), shard)]
    files = []
    for k, sc in enumerate(shards):
      f = d / f'{self.pid}_{name}_{os.getpid()}_{k}.v'
      body = [f'From PV Require Import {imports}.', 'Open Scope Z_scope.', defs,
              f'Definition cases : list ({case_type}) := [', ';\n'.join(sc), '].',
              f'Definition ok (c : {case_type}) : bool := {ok_body}.',
              'Eval vm_compute in (bad_indices ok cases).']
      f.write_text('\n'.join(body) + '\n')
      files.append(f)
    def run(f):
      rc, out = sh(['timeout', '600', 'coqc', '-Q', 'theories', 'PV', str(f.relative_to(COQ))], cwd=COQ, timeout=660)
      return rc, out
    bad = []
    t0 = time.time()
    with ThreadPoolExecutor(max_workers=jobs) as ex:
      results = list(ex.map(run, files))
    self.extra.setdefault('coq_evaluation_wall_s', {})[name] = round(time.time() - t0, 1)
    for k, (rc, out) in enumerate(results):
      if rc != 0:
        raise RuntimeError(f'coqc failed on cases file {files[k]}:\n{out[-1500:]}')
      m = re.search(r'=\s*\[(.*?)\]\s*:\s*list nat', out, flags=re.S)
      if not m: raise RuntimeError(f'cannot parse coqc output: {out[-500:]}')
      for n in re.findall(r'(\d+)', m.group(1)):
        bad.append(k * shard + int(n))
    for f in files:
      for ext in ('.v', '.vo', '.glob', '.vok', '.vos'):
        p = f.with_suffix(ext)
        if p.exists(): p.unlink()
      aux = f.parent / ('.' + f.stem + '.aux')
      if aux.exists(): aux.unlink()
    return bad

  def coq_eval(self, name, imports, defs, exprs):
    """Evaluate closed Gallina expressions; returns the raw printed values (strings), one per expr."""
    d = COQ / 'cases'; d.mkdir(exist_ok=True)
    f = d / f'{self.pid}_{name}_{os.getpid()}_e.v'
    body = [f'From PV Require Import {imports}.', 'Open Scope Z_scope.', defs]
    for i, e in enumerate(exprs):
      body.append(f'Definition e{i} := {e}.\nEval vm_compute in e{i}.')
    f.write_text('\n'.join(body) + '\n')
    rc, out = sh(['timeout', '600', 'coqc', '-Q', 'theories', 'PV', str(f.relative_to(COQ))], cwd=COQ, timeout=660)
    for ext in ('.v', '.vo', '.glob', '.vok', '.vos'):
      p = f.with_suffix(ext)
      if p.exists(): p.unlink()
    aux = f.parent / ('.' + f.stem + '.aux')
    if aux.exists(): aux.unlink()
    if rc != 0: raise RuntimeError(f'coqc failed:\n{out[-1500:]}')
    vals = re.findall(r'=\s*(.*?)\n\s*:\s', out, flags=re.S)
    return [re.sub(r'\s+', ' ', v).strip() for v in vals]

  # ------------------------------------------------------------------ violations
  def violation(self, key, what, replay, found_input=True):
    """key: stable identifier of the specific failing input / call site (matched against known findings)."""
    for k in self.known:
      if k.get('key') == key:
        if key not in [h[0] for h in self.known_hits]:
          self.known_hits.append((key, k.get('what', what)))
        return
    if any(v[0] == key for v in self.violations): return
    fam = ':'.join(key.split(':')[:2])
    self._fam = getattr(self, '_fam', {})
    self._fam[fam] = self._fam.get(fam, 0) + 1
    if self._fam[fam] > 5 and os.environ.get('VERIF_NOCAP') != '1':
      self.extra['suppressed_further_violations_' + fam] = self._fam[fam] - 5
      return
    h = hashlib.sha1(key.encode()).hexdigest()[:10]
    path = VERIF / 'replays' / f'{self.pid}-{h}.json'
    path.parent.mkdir(exist_ok=True)
    obj = {'property': self.pid, 'key': key, 'what': what, 'seed': self.seed, 'tier': self.tier,
           'found_failing_input': found_input, 'replay': replay,
           'how_to_replay': f'cd /verif && ./check {self.pid} --replay {path}'}
    path.write_text(json.dumps(obj, indent=1, default=str))
    self.violations.append((key, what, str(path), found_input))

  # ------------------------------------------------------------------ finish
  def finish(self, rule, level='proof', explanation=None):
    # a broken proof obligation with no concrete counterexample is still a violation
    if not self.proof['ok']:
      if not any(v[3] for v in self.violations) and not self.known_hits:
        self.violation(f'{self.pid}:proof-obligation',
                       'proof obligation / model tie no longer checks: ' + '; '.join(self.proof.get('problems', [])),
                       {'theorem_file': f'coq/theories/Props/{self.pid}.v', 'problems': self.proof.get('problems', []),
                        'log_tail': self.proof.get('log', '')[-1500:]}, found_input=False)
    wall = round(time.time() - self.t0, 2)
    cov = {
      'obligations': max(1, self.proof['obligations']),
      'discharged': self.proof['discharged'] if self.proof['ok'] else min(self.proof['discharged'], max(0, self.proof['obligations'] - 1)),
      'checker_cmd': f'make -C /verif/coq theories/Props/{self.pid}.vo   (coqc 8.16.1, full .vo build; Print Assumptions parsed)',
      'trusted_base': self.trusted,
      'evaluations': self.evaluations,
      'distinct_nontrivial': len(self.distinct),
      'rule': rule,
      'samples': self.samples or ['(no correspondence cases in this run)'],
      'input_distribution': self.hist,
      'print_assumptions': {'closed_theorems': self.proof.get('closed_theorems', 0), 'axioms': self.proof['assumptions']},
      'proof_files': self.proof['files'],
      'proof_ok': self.proof['ok'],
      'proof_problems': self.proof.get('problems', []),
      'notes': self.notes,
    }
    if cov['discharged'] < 1: cov['discharged'] = 0
    cov.update(self.extra)
    if explanation: cov['explanation'] = explanation
    ev = {'property_id': self.pid, 'tier': self.tier, 'seed': self.seed, 'level': level, 'coverage': cov,
          'assumptions': self.assumptions, 'wall_s': wall,
          'violations': len(self.violations)}
    if cov['discharged'] == 0:
      # schema wants >=1 for a proof claim; an unproved run is reported through violations instead
      cov['discharged'] = 0
      ev['level'] = 'other'
      cov['explanation'] = 'proof build failed in this run: ' + '; '.join(self.proof.get('problems', []))
    # evidence is only ever written from a run against /repo itself; runs against a scratch worktree (VERIF_REPO, used to
    # try seeded changes) leave their evidence in seeded/_evidence_scratch/ (git-ignored)
    evdir = VERIF / 'evidence' if str(REPO) == '/repo' else VERIF / 'seeded' / '_evidence_scratch'
    evdir.mkdir(parents=True, exist_ok=True)
    (evdir / f'{self.pid}.json').write_text(json.dumps(ev, indent=1, default=str))
    shutil.rmtree(self.scratch, ignore_errors=True)
    for key, what in self.known_hits:
      print(f'KNOWN-FINDING: property={self.pid} {what}')
    for key, what, path, found in self.violations:
      print(f'VIOLATION property={self.pid} replay={path}' + ('' if found else ' no-failing-input-found'))
      print(f'  {what[:400]}')
    print(f'[{self.pid}] tier={self.tier} seed={self.seed} proof_ok={self.proof["ok"]} '
          f'obligations={self.proof["obligations"]} discharged={self.proof["discharged"]} '
          f'evaluations={self.evaluations} distinct={len(self.distinct)} violations={len(self.violations)} '
          f'known={len(self.known_hits)} wall={wall}s')
    return 1 if self.violations else 0


def setup_impl_path():
  """make `import pymtl3` resolve to REPO's working tree"""
  sys.path.insert(0, str(REPO))
  for m in list(sys.modules):
    if m == 'pymtl3' or m.startswith('pymtl3.'):
      del sys.modules[m]

def err_class(e):
  """map a Python exception to the model's small error enum"""
  if isinstance(e, ZeroDivisionError): return 'EZeroDiv'
  if isinstance(e, IndexError): return 'EIndex'
  if isinstance(e, AssertionError): return 'EAssert'
  if isinstance(e, ValueError): return 'EValue'
  if isinstance(e, (TypeError, AttributeError)): return 'EType'
  return 'EOther'
