"""C17 — library queues are FIFOs with their advertised same-cycle behaviour.

proof  : coq/theories/Props/C17.v  (models Lib/Fifo.v, Lib/QueueRTL.v, Lib/QueueCL.v; proofs Lib/QueueProofs.v)
  sentence of the property                                   theorem(s)
  "messages delivered = messages accepted, in order, none    C17_spec_fifo_order (spec), C17_run_fifo (any refining machine),
   lost, duplicated or invented"                              C17_{ctrl,e1,s1,p1,v1,vq,cl}_fifo (each concrete model from its
                                                              initial state: accepted = delivered ++ still-queued)
  "occupancy count exact, never exceeds the capacity"        C17_spec_count, C17_spec_capacity, C17_rules (f_count = |abs s| <= n),
                                                              C17_ctrl_fifo (count register = length of the abstraction)
  "enqueue iff not full, dequeue iff not empty, + pipe:      C17_spec_enq_rdy, C17_spec_deq_rdy, C17_spec_pipe_when_full,
   enq-when-full iff a dequeue that cycle, + bypass:          C17_spec_bypass_when_empty, C17_rules (same rules on every
   deq-when-empty iff an enqueue that cycle"                  refining machine's ports)
  "for every queue ... RTL and cycle-level; any capacity"    C17_{ctrl,e1,s1,p1,v1,vq,cl}_cycle : one clock cycle of each
                                                              concrete model (parametric in n >= 1 and the kind) = one cycle of
                                                              the specification, abstraction abs s = [regs((head+i) mod n)|i<count]
  reset                                                      C17_spec_reset, C17_reset, C17_ctrl_reset
tie    : T-diff.  Every queue class of queues.py, enrdy_queues.py, valrdy_queues.py, cl_queues.py, stream/queues.py is
         simulated by pymtl3 (DefaultPassGroup) at capacities 1..5 and driven cycle by cycle with protocol-legal offer
         sequences (en only when rdy on en/rdy and method interfaces; anything on val/rdy interfaces).  Per cycle the
         applied inputs, the observed rdy/val/msg/count ports AND the internal registers (head/tail/count/register file,
         or full/entry, or enq_ptr/deq_ptr/full) are written into a Coq case; coqc (vm_compute, Lib/QueueCheck.v) replays
         the FIFO specification and the concrete model and returns the histories that disagree.  A disagreeing history is
         truncated and shrunk by re-simulation, re-confirmed in Coq and reported.
keys   : C17:<file>.<class>:n=<capacity>:construct[:<Exception>]   the class cannot be built at that capacity (plain = clog2(1)==0 -> Bits0)
         C17:<file>.<class>:n=<capacity>:history[:<deviation>]      a legal offer history on which the ports leave the rules; <deviation> in
              enq-rdy-low (key without suffix: rdy low although not full, nothing else wrong) | enq-rdy-high | deq-rdy-low | deq-rdy-high |
              enq-fire-* | deq-fire-* | wrong-msg | deq-from-empty | count | overflow | unclassified  -- one report per class x deviation
         C17:<file>.<class>:n=<capacity>:model / :exception          ports respect the spec but registers leave the Coq model / simulation raised
views  : every read-only port / method is judged too.  RTL: the count output every cycle, and the data output (deq.ret, send.msg,
         deq.msg of val/rdy queues) whenever deq_rdy / val is up, fired or not (Fifo.fifo_head; C17_spec_head_is_delivered /
         _is_oldest; deviation kind wrong-head).  CL: the consumer calls peek.rdy() every cycle and peek() on pseudo-randomly chosen
         cycles before its deq; judged by the CL model replay (ready iff the deque the consumer's block finds is non-empty, value =
         its oldest element = what deq returns, nothing removed: C17_cl_peek, C17_cl_peek_then_deq; kinds peek-rdy / peek-wrong);
         len(queue) is read as the count.  NormalQueueCL is run without peek (free block order) and with it (family cl+peek).
         A third, PEEK-ONLY watcher block is run around every CL queue with producer / watcher / consumer declared in all 6 orders
         (families cl+watch[pwc..cwp]); what it sees is judged by QueueCL.cl_at_watcher = the position the class's declared
         constraints advertise (Normal: before both other blocks; Pipe: never a message enqueued this cycle; Bypass: always the
         message enqueued this cycle; before/after the consumer as observed): kinds watcher-peek-rdy / watcher-peek-wrong.
chains : harness/c17_chains.py -- the same queues AS USED through the library's own CL<->RTL adapters (RecvRTL2SendCL,
         RecvCL2SendRTL, the give->recv And adapter, stream Send/RecvQueueAdapter, StallCL in between) assembled with plain
         `connect`, and CL producers that keep ONE Bits / bitstruct message object and update it in place (also for every CL
         queue directly: family cl+reuse).  Judged end to end by the certified stream acceptor (C17_stream_acceptor: accepted
         stream = delivered stream, keys C17:chain.<chain>[<msg type>].<QueueClass>:n=<k>:stream:<wrong-msg|invented|lost|overflow>)
         and per RTL queue inside the chain by passive port/register monitors with the full specification (keys
         C17:chain.<chain>[..]/<file>.<Class>:n=<k>:history...).  The adapters' own ready timing is outside C17's text and is
         not demanded; the message streams through them are.
partial: the Bits widths of head/tail/count are not modelled (nat registers + proved bounds);
         the T-gen stretch of DESIGN (translating *CtrlRTL automatically) is not done: the concrete models are hand-written
         and tied by the register-level differential replay above.
"""
import itertools
from common import *

KIND = {'Normal': 0, 'Pipe': 1, 'Bypass': 2}
IMPORTS = 'Base.Prelude Lib.Fifo Lib.QueueRTL Lib.QueueCL Lib.QueueCheck'
CASE_T = 'Z * Z * Z * list ccode'

# ---------------------------------------------------------------------------------------------- a reference in Python
# used ONLY to steer shrinking (never for the verdict: every reported history is re-confirmed by coqc)
def py_peek_ok(r, q, ef):
  """peek observed at the start of the consumer's block: ready iff the deque it finds is non-empty, value = its oldest element"""
  pk = r.get('pk')
  ok = True
  if pk is not None:
    pr, pc, pv, enq_first = pk
    st = q + [r['msg']] if (enq_first and ef) else q
    ok = bool(pr) == bool(st) and (not pc or (bool(st) and pv == st[0]))
  return ok

def py_watch_state(kind, r, q, ef, df):
  """mirror of QueueCL.cl_at_watcher"""
  wk = r['wk']
  if kind == 0: return q
  base = q + [r['msg']] if (kind == 2 and ef) else q
  return base[1:] if (wk[3] and df) else base

def py_watch_ok(kind, r, q, ef, df):
  wk = r.get('wk')
  if wk is None: return True
  st = py_watch_state(kind, r, q, ef, df)
  return bool(wk[0]) == bool(st) and (not wk[1] or (bool(st) and wk[2] == st[0]))

def py_spec_first_bad(kind, n, hist):
  q = []
  for i, r in enumerate(hist):
    if r['rst']: q = []; continue
    full, empty = len(q) >= n, len(q) == 0
    if kind == 0: er, dr = not full, not empty
    elif kind == 1:
      dr = not empty; er = (not full) or (r['wd'] and dr)
    else:
      er = not full; dr = (not empty) or (r['we'] and er)
    ef, df = bool(r['we'] and er), bool(r['wd'] and dr)
    q1 = q + [r['msg']] if ef else q
    ok = (r['er'] is None or bool(r['er']) == bool(er)) and (r['dr'] is None or bool(r['dr']) == bool(dr)) \
         and bool(r['ef']) == ef and bool(r['df']) == df and (not df or (q1 and r['out'] == q1[0])) \
         and (r['cnt'] is None or r['cnt'] == len(q)) \
         and (not r.get('head') or not dr or not q1 or r['out'] == q1[0]) and py_peek_ok(r, q, ef) and py_watch_ok(kind, r, q, ef, df)
    if not ok: return i
    q = q1[1:] if df else q1
  return None

def py_deviations(kind, n, hist):
  """Per-cycle deviations from the rules of the property, as (cycle, kind-of-deviation) pairs.  Unlike the strict replay
  above (and the Coq one) the queue content here FOLLOWS THE OBSERVED TRANSFERS, so that deviations of different kinds in
  one history are told apart (a known deviation does not mask a new one).  Used only to name/key and shrink findings."""
  q, dev = [], []
  for i, r in enumerate(hist):
    if r['rst']: q = []; continue
    full, empty = len(q) >= n, len(q) == 0
    ef, df = bool(r['ef']), bool(r['df'])
    er = (not full) or (kind == 1 and df)          # pipe: enqueue-when-full iff a dequeue happens this cycle
    dr = (not empty) or (kind == 2 and ef)         # bypass: dequeue-when-empty iff an enqueue happens this cycle
    if r['er'] is not None:
      if bool(r['er']) != er: dev.append((i, 'enq-rdy-low' if er else 'enq-rdy-high'))
      if ef != bool(r['we'] and r['er']): dev.append((i, 'enq-fire-inconsistent'))
    elif ef != bool(r['we'] and er): dev.append((i, 'enq-fire-low' if er else 'enq-fire-high'))
    if r['dr'] is not None:
      if bool(r['dr']) != dr: dev.append((i, 'deq-rdy-low' if dr else 'deq-rdy-high'))
      if df != bool(r['wd'] and r['dr']): dev.append((i, 'deq-fire-inconsistent'))
    elif df != bool(r['wd'] and dr): dev.append((i, 'deq-fire-low' if dr else 'deq-fire-high'))
    if r['cnt'] is not None and r['cnt'] != len(q): dev.append((i, 'count'))
    q1 = q + [r['msg']] if ef else q
    if r.get('head') and r['dr'] and q1 and r['out'] != q1[0]: dev.append((i, 'wrong-head'))
    pk = r.get('pk')
    if pk is not None:
      st = q1 if pk[3] else q
      if bool(pk[0]) != bool(st): dev.append((i, 'peek-rdy'))
      elif pk[1] and pv_differs(pk, st): dev.append((i, 'peek-wrong'))
    wk = r.get('wk')
    if wk is not None:
      st = py_watch_state(kind, r, q, ef, df)
      if bool(wk[0]) != bool(st): dev.append((i, 'watcher-peek-rdy'))
      elif wk[1] and ((not st) or wk[2] != st[0]): dev.append((i, 'watcher-peek-wrong'))
    if df:
      if not q1: dev.append((i, 'deq-from-empty'))
      elif r['out'] != q1[0]: dev.append((i, 'wrong-msg'))
      q1 = q1[1:]
    if len(q1) > n: dev.append((i, 'overflow'))
    q = q1
  return dev

def pv_differs(pk, st): return (not st) or pk[2] != st[0]

def first_some(diag):
  """earliest cycle named in a Coq `(option nat * option nat)` diagnosis, None if both are None"""
  xs = [int(x) for x in re.findall(r'Some (\d+)', diag)]
  return min(xs) if xs else None

def first_of_kind(kind, n, hist, what):
  for i, k in py_deviations(kind, n, hist):
    if k == what: return i
  return None

# ---------------------------------------------------------------------------------------------- drivers
class Drv:
  """one simulated queue instance + the way its interface is driven for one cycle"""
  has_reset = True
  def __init__(s, family, cls_name, kind, n, mid, make):
    s.family, s.cls_name, s.kind, s.n, s.mid, s.make = family, cls_name, KIND[kind], n, mid, make
    s.top = None
  @property
  def label(s): return f'{s.family}.{s.cls_name}:n={s.n}'
  def fresh(s):
    s.top = s.make()
    s.top.elaborate()
    from pymtl3 import DefaultPassGroup
    s.top.apply(DefaultPassGroup())
    s.top.sim_reset()
    s.after_fresh()
  def after_fresh(s): pass
  def internals(s): return (0, 0, 0, [])
  keyword = 'history'        # middle part of the violation key ('stream' for end-to-end chain judgements)
  chain = False
  replayable = True          # can a history be re-simulated on a fresh instance (for shrinking)?
  def first_bad(s, hist): return py_spec_first_bad(s.kind, s.n, hist)
  def deviations(s, hist): return py_deviations(s.kind, s.n, hist)
  head = 0                   # 1: the data output (deq.ret / send.msg) is a valid peek-like view whenever deq_rdy / val is up
  def rec(s, rst, we, msg, wd, ein, din, er, dr, ef, df, out, cnt, ints, pk=None):
    return {'head': s.head, 'pk': pk, 'rst': int(rst), 'we': int(we), 'msg': int(msg), 'wd': int(wd), 'ein': int(ein), 'din': int(din),
            'er': None if er is None else int(er), 'dr': None if dr is None else int(dr), 'ef': int(ef), 'df': int(df),
            'out': int(out), 'cnt': None if cnt is None else int(cnt), 'ints': ints}

class GiveDrv(Drv):
  head = 1
  """queues.py: enq = en/rdy recv interface, deq = en/rdy give interface (deq.en in, deq.rdy/ret out), count port.
  en is raised only when the rdy seen in the same cycle is high (rdy of a pipe queue depends on deq.en, deq.rdy of a
  bypass queue on enq.en: the en signals are raised until nothing changes)."""
  def cycle(s, rst, we, msg, wd):
    q = s.top
    q.reset @= rst; q.enq.msg @= msg; q.enq.en @= 0; q.deq.en @= 0
    q.sim_eval_combinational()
    en = de = 0
    for _ in range(4):
      er, dr = int(q.enq.rdy), int(q.deq.rdy)
      nen, nde = we & er, wd & dr
      if (nen, nde) == (en, de): break
      en, de = nen, nde
      q.enq.en @= en; q.deq.en @= de
      q.sim_eval_combinational()
    er, dr = int(q.enq.rdy), int(q.deq.rdy)
    assert (not en or er) and (not de or dr), 'driver raised en without rdy'
    r = s.rec(rst, we, msg, wd, en, de, er, dr, en, de, int(q.deq.ret), int(q.count), s.internals())
    q.sim_tick()
    return r

class ValRdyDrv(Drv):
  head = 1
  """stream/queues.py (recv/send, count) and valrdy_queues.py (enq/deq): val/rdy on both sides, no constraint on inputs"""
  inp, outp = 'recv', 'send'
  def count(s): return int(s.top.count)
  def cycle(s, rst, we, msg, wd):
    q = s.top; i, o = getattr(q, s.inp), getattr(q, s.outp)
    q.reset @= rst; i.msg @= msg; i.val @= we; o.rdy @= wd
    q.sim_eval_combinational()
    er, dr = int(i.rdy), int(o.val)
    r = s.rec(rst, we, msg, wd, we, wd, er, dr, we & er, wd & dr, int(o.msg), s.count(), s.internals())
    q.sim_tick()
    return r

class PushDrv(Drv):
  """enrdy_queues.py: enq = en/rdy recv interface, deq = en/rdy SEND interface (the queue drives deq.en, we drive deq.rdy).
  The dequeue offer is deq.rdy; the observable on that side is the fire signal deq.en (+ deq.msg)."""
  def cycle(s, rst, we, msg, wd):
    q = s.top
    q.reset @= rst; q.enq.msg @= msg; q.enq.en @= 0; q.deq.rdy @= wd
    q.sim_eval_combinational()
    er = int(q.enq.rdy); en = we & er
    q.enq.en @= en
    q.sim_eval_combinational()
    assert int(q.enq.rdy) == er
    r = s.rec(rst, we, msg, wd, en, wd, er, None, en, int(q.deq.en), int(q.deq.msg), None, s.internals())
    q.sim_tick()
    return r

class CLDrv(Drv):
  """cl_queues.py: a producer block and a consumer block call enq / deq (only when the rdy() they just read is true);
  pymtl3's scheduler orders the two blocks according to the queue's method constraints."""
  has_reset = False
  def cycle(s, rst, we, msg, wd):
    h = s.top
    assert not rst
    cnt = len(h.dut.queue)
    h.want_enq, h.want_deq, h.msg, h.log = we, wd, msg, []
    h.want_peek = int((msg * 7 + we + 2 * wd) % 4 != 0)    # read-only calls interleaved pseudo-randomly (a function of the offer: replayable)
    h.sim_tick()
    log = dict((x[0], x) for x in h.log)
    assert len(h.log) == (3 if 'watch' in log else 2)
    order = [x[0] for x in h.log if x[0] != 'watch']
    full_order = [x[0] for x in h.log]
    if s.mid is None: s.mid = 8 if order[0] == 'enq' else 9
    assert (8 if order[0] == 'enq' else 9) == s.mid, 'the schedule changed between cycles'
    _, er, ef = log['enq']; _, dr, df, out = log['deq'][:4]
    pk = None
    if len(log['deq']) > 4:      # (peek.rdy(), peek() called?, value) observed at the start of the consumer's block
      pr, pc, pv = log['deq'][4:7]
      pk = (int(pr), int(pc), int(pv), int(s.mid == 8))
    r = s.rec(0, we, msg, wd, we, wd, er, dr, ef, df, out if df else 0, cnt, (0, 0, 0, []), pk)
    if 'watch' in log:           # peek-only watcher block: (rdy, called, value, ran after the consumer's block, ran after the producer's block)
      _, wr, wc, wv = log['watch']
      r['wk'] = (int(wr), int(wc), int(wv), int(full_order.index('watch') > full_order.index('deq')), int(full_order.index('watch') > full_order.index('enq')))
    return r

def make_drivers(tier):
  from pymtl3 import Component, Bits8, update_once
  import pymtl3.stdlib.queues.queues as Q
  import pymtl3.stdlib.stream.queues as S
  import pymtl3.stdlib.queues.enrdy_queues as P
  import pymtl3.stdlib.queues.cl_queues as C
  notes = []
  # valrdy_queues.py imports InValRdyIfc / OutValRdyIfc from pymtl3.stdlib.ifcs, which does not define them in this tree.
  # The file is dead code as shipped; to still exercise its logic the two names are bound (in THIS process only) to the
  # identical msg/val/rdy interfaces of pymtl3.stdlib.stream.ifcs.
  V = None
  try:
    import pymtl3.stdlib.queues.valrdy_queues as V
  except ImportError as e:
    notes.append(f'valrdy_queues.py is not importable as shipped ({e}); loaded with stream.ifcs Recv/SendIfcRTL bound to InValRdyIfc/OutValRdyIfc')
    import pymtl3.stdlib.ifcs as I, pymtl3.stdlib.stream.ifcs as SI
    I.InValRdyIfc, I.OutValRdyIfc = SI.RecvIfcRTL, SI.SendIfcRTL
    sys.modules.pop('pymtl3.stdlib.queues.valrdy_queues', None)
    try:
      import pymtl3.stdlib.queues.valrdy_queues as V
    finally:
      del I.InValRdyIfc, I.OutValRdyIfc
  T = Bits8
  drv = []
  caps = [1, 2, 3, 4, 5]

  # ---- queues.py
  for kind in ('Normal', 'Pipe', 'Bypass'):
    cls = getattr(Q, f'{kind}QueueRTL'); one = getattr(Q, f'{kind}Queue1EntryRTL')
    for n in caps:
      d = GiveDrv('queues', cls.__name__, kind, n, 3 if n == 1 else 1, (lambda cls=cls, n=n: cls(T, num_entries=n)))
      if n == 1: d.internals = (lambda d=d: (0, 0, int(d.top.q.full), [int(d.top.q.entry)]))
      else: d.internals = (lambda d=d: (int(d.top.ctrl.head), int(d.top.ctrl.tail), int(d.top.ctrl.count), [int(x) for x in d.top.dpath.queue.regs]))
      drv.append(d)
    d = GiveDrv('queues', one.__name__, kind, 1, 3, (lambda one=one: one(T)))
    d.internals = (lambda d=d: (0, 0, int(d.top.full), [int(d.top.entry)]))
    drv.append(d)
  # ---- stream/queues.py
  for kind in ('Normal', 'Pipe', 'Bypass'):
    cls = getattr(S, f'{kind}QueueRTL'); one = getattr(S, f'{kind}Queue1EntryRTL')
    for n in caps:
      d = ValRdyDrv('stream', cls.__name__, kind, n, 4 if n == 1 else 2, (lambda cls=cls, n=n: cls(T, num_entries=n)))
      if n == 1: d.internals = (lambda d=d: (0, 0, int(d.top.q.full), [int(d.top.q.entry)]))
      else: d.internals = (lambda d=d: (int(d.top.ctrl.head), int(d.top.ctrl.tail), int(d.top.ctrl.count), [int(x) for x in d.top.dpath.rf.regs]))
      drv.append(d)
    d = ValRdyDrv('stream', one.__name__, kind, 1, 4, (lambda one=one: one(T)))
    d.internals = (lambda d=d: (0, 0, int(d.top.full), [int(d.top.entry)]))
    drv.append(d)
  # ---- enrdy_queues.py
  for kind in ('Normal', 'Pipe', 'Bypass'):
    cls = getattr(P, f'{kind}Queue1RTL')
    d = PushDrv('enrdy', cls.__name__, kind, 1, 5, (lambda cls=cls: cls(T)))
    d.internals = (lambda d=d: (0, 0, int(d.top.full.out), [int(d.top.buffer.out)]))
    d.has_reset = (kind == 'Bypass')      # Normal/Pipe keep `full` in a Reg without reset
    drv.append(d)
  d = PushDrv('enrdy', 'BypassQueue2RTL', 'Bypass', 2, 0, (lambda: P.BypassQueue2RTL(T)))
  drv.append(d)
  # ---- valrdy_queues.py
  if V is not None:
    for kind in ('Normal', 'Pipe', 'Bypass'):
      cls = getattr(V, f'{kind}Queue1RTL')
      d = ValRdyDrv('valrdy', cls.__name__, kind, 1, 6, (lambda cls=cls: cls(T)))
      d.inp, d.outp = 'enq', 'deq'; d.count = (lambda: None); d.has_reset = False
      d.internals = (lambda d=d: (0, 0, int(d.top.full), [int(d.top.buffer.out)]))
      drv.append(d)
    for n in caps:
      d = ValRdyDrv('valrdy', 'NormalQueueRTL', 'Normal', n, 7, (lambda n=n: V.NormalQueueRTL(n, T)))
      d.inp, d.outp = 'enq', 'deq'
      d.count = (lambda d=d: d.n - int(d.top.num_free_entries))
      d.internals = (lambda d=d: (int(d.top.ctrl.deq_ptr), int(d.top.ctrl.enq_ptr), int(d.top.ctrl.full), [int(x) for x in d.top.dpath.queue.regs]))
      drv.append(d)
  # ---- cl_queues.py
  class CLHarness(Component):
    def construct(s, QT, n, peek=False):
      s.dut = QT(num_entries=n)
      s.want_enq = 0; s.want_deq = 0; s.want_peek = 0; s.msg = 0; s.log = []
      if peek:
        @update_once
        def producer():
          r = bool(s.dut.enq.rdy()); f = False
          if s.want_enq and r:
            s.dut.enq(s.msg); f = True
          s.log.append(('enq', r, f))
        @update_once
        def consumer():
          # read-only view first: peek.rdy() every cycle, peek() on some cycles; then the dequeue as usual
          pr = bool(s.dut.peek.rdy()); pc = False; pv = 0
          if pr and s.want_peek:
            pv = int(s.dut.peek()); pc = True
          r = bool(s.dut.deq.rdy()); f = False; m = 0
          if s.want_deq and r:
            m = int(s.dut.deq()); f = True
          s.log.append(('deq', r, f, m, pr, pc, pv))
        return
      @update_once
      def producer():
        r = bool(s.dut.enq.rdy()); f = False
        if s.want_enq and r:
          s.dut.enq(s.msg); f = True
        s.log.append(('enq', r, f))
      @update_once
      def consumer():
        r = bool(s.dut.deq.rdy()); f = False; m = 0
        if s.want_deq and r:
          m = int(s.dut.deq()); f = True
        s.log.append(('deq', r, f, m))
  class CLWatchHarness(Component):
    """producer, consumer and a PEEK-ONLY watcher as three separate blocks, declared in the given order (the scheduler's
    tie-break follows declaration order; the class's own method constraints must put the watcher where the kind advertises)"""
    def construct(s, QT, n, perm):
      s.dut = QT(num_entries=n)
      s.want_enq = 0; s.want_deq = 0; s.want_peek = 0; s.msg = 0; s.log = []
      for which in perm:
        if which == 'p':
          @update_once
          def producer():
            r = bool(s.dut.enq.rdy()); f = False
            if s.want_enq and r:
              s.dut.enq(s.msg); f = True
            s.log.append(('enq', r, f))
        elif which == 'c':
          @update_once
          def consumer():
            r = bool(s.dut.deq.rdy()); f = False; m = 0
            if s.want_deq and r:
              m = int(s.dut.deq()); f = True
            s.log.append(('deq', r, f, m))
        else:
          @update_once
          def watcher():
            pr = bool(s.dut.peek.rdy()); pc = False; pv = 0
            if pr and s.want_peek:
              pv = int(s.dut.peek()); pc = True
            s.log.append(('watch', pr, pc, pv))
  for kind in ('Normal', 'Pipe', 'Bypass'):
    cls = getattr(C, f'{kind}QueueCL')
    for n in caps:
      for perm in ('pwc', 'pcw', 'wpc', 'wcp', 'cpw', 'cwp'):
        drv.append(CLDrv(f'cl+watch[{perm}]', cls.__name__, kind, n, None, (lambda cls=cls, n=n, perm=perm: CLWatchHarness(cls, n, perm))))
  for kind in ('Normal', 'Pipe', 'Bypass'):
    cls = getattr(C, f'{kind}QueueCL')
    for n in caps:
      # Pipe / Bypass: the consumer also peeks (their block order is fixed by the constraints anyway).  NormalQueueCL: peek's
      # constraints force the consumer's block first, so it is run both without peek (scheduler's free choice) and with it.
      drv.append(CLDrv('cl', cls.__name__, kind, n, None, (lambda cls=cls, n=n, pk=(kind != 'Normal'): CLHarness(cls, n, pk))))
      if kind == 'Normal':
        drv.append(CLDrv('cl+peek', cls.__name__, kind, n, None, (lambda cls=cls, n=n: CLHarness(cls, n, True))))
  # ---- cl_queues.py again, with a producer that keeps ONE message object and updates it in place every cycle
  # (Bits8 at odd capacities, a two-field bitstruct at even ones) and the chains through the interface adapters
  import c17_chains
  chains, MT, Pair = c17_chains.build(sys.modules[__name__])
  class CLReuseHarness(Component):
    def construct(s, QT, n, mt):
      s.dut = QT(num_entries=n); s.mt = mt
      s.want_enq = 0; s.want_deq = 0; s.msg = 0; s.log = []
      s.obj = mt.mk(0)
      @update_once
      def producer():
        s.mt.assign(s.obj, s.msg)
        r = bool(s.dut.enq.rdy()); f = False
        if s.want_enq and r:
          s.dut.enq(s.obj); f = True
        s.log.append(('enq', r, f))
      @update_once
      def consumer():
        r = bool(s.dut.deq.rdy()); f = False; m = 0
        if s.want_deq and r:
          m = s.mt.to_int(s.dut.deq()); f = True
        s.log.append(('deq', r, f, m))
  for kind in ('Normal', 'Pipe', 'Bypass'):
    cls = getattr(C, f'{kind}QueueCL')
    for n in caps:
      mt = MT(Bits8 if n % 2 else Pair)
      drv.append(CLDrv(f'cl+reuse[{mt.name}]', cls.__name__, kind, n, None, (lambda cls=cls, n=n, mt=mt: CLReuseHarness(cls, n, mt))))
  return drv, notes, chains

# ---------------------------------------------------------------------------------------------- Coq terms
def code(r):
  pk = r.get('pk')
  f = (r['rst'] | r['we'] << 1 | r['wd'] << 2 | (r['er'] is not None) << 3 | (r['er'] or 0) << 4
       | (r['dr'] is not None) << 5 | (r['dr'] or 0) << 6 | r['ef'] << 7 | r['df'] << 8 | r['ein'] << 9 | r['din'] << 10
       | (r['cnt'] is not None) << 11 | (r.get('head', 0) & 1) << 12)
  a, b, c, regs = r['ints']
  if pk is not None:
    f |= pk[1] << 13 | pk[0] << 14 | 1 << 15
    regs = [pk[2]]
  wk = r.get('wk')
  if wk is not None:
    regs = [pk[2] if pk is not None else 0, 1 | wk[0] << 1 | wk[1] << 2 | wk[3] << 3, wk[2]]
  nib = lambda v: v if 0 <= v < 15 else 15          # 15 = "out of range" (legal values are <= 5 at capacities 1..5)
  x = f | r['msg'] << 16 | r['out'] << 24 | nib(r['cnt'] or 0) << 32 | nib(a) << 36 | nib(b) << 40 | nib(c) << 44 | len(regs) << 48
  for j, v in enumerate(regs): x |= v << (52 + 8 * j)
  assert 0 <= r['msg'] < 256 and 0 <= r['out'] < 256 and len(regs) < 16 and all(0 <= v < 256 for v in regs)
  return hex(x)

def case_term(d, hist):
  return f'({d.mid}, {d.kind}, {d.n}, [' + ';'.join(code(r) for r in hist) + '])'

# ---------------------------------------------------------------------------------------------- offer sequences
class MsgGen:
  """tiny alphabet (1 symbol bit) + a counter payload: all messages in flight are pairwise distinct and non-zero"""
  def __init__(s, rng): s.rng, s.ctr = rng, 0
  def next(s):
    s.ctr += 1
    return (s.rng.getrandbits(1) << 7) | (1 + s.ctr % 127)
  def accepted(s): pass

class DupGen:
  """payloads that force EQUAL messages to be in flight together (a queue that retires/selects by value instead of by
  position is invisible with pairwise distinct payloads).  `pattern` is a finite word over a 1..3 symbol alphabet that is
  repeated cyclically (v,w,v / palindromes / all-equal runs) or None = uniformly random symbols.  The pattern advances only
  when the offered message was ACCEPTED, so the queued sequence is exactly the pattern whatever the offer timing is."""
  def __init__(s, rng, alphabet, pattern=None): s.rng, s.alpha, s.pattern, s.i, s.cur = rng, alphabet, pattern, 0, None
  def next(s):
    if s.cur is None:
      s.cur = s.alpha[s.pattern[s.i % len(s.pattern)]] if s.pattern else s.rng.choice(s.alpha)
    return s.cur
  def accepted(s): s.i += 1; s.cur = None

ALPHABETS = [[7], [7, 9], [0, 1], [5, 6, 7], [0]]
PATTERNS = [[0, 1, 0], [0, 1, 1, 0], [0, 0, 1], [0, 1, 0, 0, 1], [0, 1, 2, 1, 0], [0, 0, 0, 1]]

def dup_plans(rng, d, quick):
  """(tag, wants, payload generator) with duplicate payloads in flight"""
  n = d.n
  out = []
  # directed: fill the queue with every word over a 2-symbol alphabet, then (a) drain, (b) stream through while full, then drain
  words = list(itertools.product(range(2), repeat=n))
  if len(words) > 8 and quick: words = rng.sample(words, 8)
  for w in words:
    alpha = rng.choice([[7, 9], [0, 1]])
    out.append(('dup-fill', [(0, 1, 0)] * n + [(0, 0, 1)] * n, DupGen(rng, alpha, list(w) + [1 - w[0]])))
    out.append(('dup-stream', [(0, 1, 0)] * n + [(0, 1, 1)] * (n + 1) + [(0, 0, 1)] * n, DupGen(rng, alpha, list(w) + list(w[::-1]))))
  # random offer timing with cyclic patterns (v,w,v ; palindromes ; runs) and with random symbols from tiny alphabets
  for k in range(2 if quick else 10):
    pat = PATTERNS[(k + n) % len(PATTERNS)]
    fits = [a for a in ALPHABETS if len(a) > max(pat)]
    alpha = fits[k % len(fits)]
    out.append(('dup-pattern', random_wants(rng, 80 if quick else 200, False), DupGen(rng, alpha, pat)))
  for k in range(2 if quick else 10):
    out.append(('dup-random', random_wants(rng, 80 if quick else 200, d.has_reset and k % 2 == 1), DupGen(rng, ALPHABETS[(k + n) % len(ALPHABETS)])))
  return out

def exhaustive_wants(n, depth, rots, rot_depth):
  """prefix that puts the queue at a chosen (head position, occupancy), then EVERY (want_enq, want_deq) sequence of the given depth.
  prefix = R cycles offering both (rotates head/tail), then L cycles offering enq only (fills)."""
  for L in range(n + 1):
    for seq in itertools.product(range(4), repeat=depth):
      yield 'exh', [(0, 1, 0)] * L + [(0, c >> 1, c & 1) for c in seq]
  for R in rots:
    for L in (range(n + 1) if rot_depth > 2 else sorted({0, max(0, n - 1), n})):     # quick: boundary occupancies only
      for seq in itertools.product(range(4), repeat=rot_depth):
        yield 'exh-rot', [(0, 1, 1)] * R + [(0, 1, 0)] * L + [(0, c >> 1, c & 1) for c in seq]

def random_wants(rng, length, resets):
  w = []
  pe = pd = 0.5
  for t in range(length):
    if t % 25 == 0:
      pe, pd = rng.choice([0.15, 0.5, 0.85, 1.0]), rng.choice([0.15, 0.5, 0.85, 1.0])
    rst = 1 if (resets and rng.random() < 0.02) else 0
    w.append((rst, int(rng.random() < pe), int(rng.random() < pd)))
  return w

def run_case(d, wants, mg):
  """run one case on the live instance: starts from the empty queue (reset cycle, or the drain that ended the previous case)"""
  hist = []
  seq = list(wants)
  if d.has_reset: seq = [(1, 0, 0)] + seq
  else: seq = [(0, we, wd) for (_, we, wd) in seq] + [(0, 0, 1)] * (d.n + 2)
  d.partial = hist
  for rst, we, wd in seq:
    r = d.cycle(rst, we, mg.next(), wd)
    if r['ef']: mg.accepted()
    hist.append(r)
  return hist

def replay_fresh(d, offers):
  """re-simulate (rst, we, msg, wd) tuples on a brand-new instance"""
  d.fresh()
  return [d.cycle(rst, we, msg, wd) for rst, we, msg, wd in offers]

def shrink(d, hist, find):
  """smallest history (greedy delta debugging by re-simulation on fresh instances) on which find(history) still returns a cycle"""
  bad = find(hist)
  if bad is None: return hist, None
  if not d.replayable: return hist[:bad + 1], min(bad, len(hist) - 1)
  offers = [(r['rst'], r['we'], r['msg'], r['wd']) for r in hist[:bad + 1]]
  try:
    cur = replay_fresh(d, offers)
  except Exception:
    return hist[:bad + 1], bad
  if find(cur) is None: return hist[:bad + 1], bad      # depends on what earlier histories left behind: keep the original prefix
  offers, cur = offers[:find(cur) + 1], cur[:find(cur) + 1]
  chunk = max(1, len(offers) // 2)
  budget = 300                                   # re-simulations
  while budget > 0:
    i, progress = 0, False
    while i < len(offers) and budget > 0:
      cand = offers[:i] + offers[i + chunk:]
      budget -= 1
      try:
        h2 = replay_fresh(d, cand) if cand else []
        b2 = find(h2)
      except Exception:
        b2 = None
      if b2 is not None:
        offers, cur, progress = cand[:b2 + 1], h2[:b2 + 1], True
      else:
        i += chunk
    if chunk > 1: chunk //= 2
    elif not progress: break
  return cur, find(cur)

# ---------------------------------------------------------------------------------------------- main
def run(ctx):
  import gc
  gc.disable()          # millions of small acyclic records are kept alive until the report: generational GC passes only cost time
  t_run = time.time()
  setup_impl_path()
  quick = ctx.tier == 'quick'
  rng = ctx.rng
  drivers, notes, chains = make_drivers(ctx.tier)
  for x in notes: ctx.note(x)
  depth = 3 if quick else 4
  nrand = 2 if quick else 12
  cases, meta = [], []
  mg = MsgGen(rng)
  cycles = 0
  unsupported = []
  t_sim = time.time()
  for d in drivers:
    try:
      d.fresh()
    except Exception as e:
      unsupported.append((d, e)); continue
    # rotations: quick = the wrap boundary only (head at n-1 / n), thorough = every head position
    rots = ([d.n - 1, d.n] if quick else list(range(1, d.n + 2))) if d.n > 1 else []
    light = d.family.startswith('cl+reuse') or d.family.startswith('cl+watch')     # same classes as 'cl' (fully enumerated there); here only the producer differs
    plans = list(exhaustive_wants(d.n, 2 if light else depth, [] if light else rots, 2 if quick else 3))
    if not quick and d.n <= 2 and not light:    # every offer sequence of depth 5 from the empty queue
      plans += [('exh-deep', [(0, c >> 1, c & 1) for c in seq]) for seq in itertools.product(range(4), repeat=5)]
    plans += [('rnd', random_wants(rng, 120 if quick else 200, d.has_reset)) for _ in range(nrand)]
    if d.family.startswith('cl+watch'):      # 6 block orders x 15 queues: short enumeration at the boundary occupancies + one random history
      plans = [(t, w) for t, w in exhaustive_wants(d.n, 2, [], 2) if sum(1 for x in w[:-2] if x == (0, 1, 0)) in ((0, d.n) if quick else (0, d.n - 1, d.n))]
      plans += [('rnd', random_wants(rng, 60 if quick else 200, False)) for _ in range(1 if quick else 4)]
      plans = [(tag, wants, mg) for tag, wants in plans]
    else:
      plans = [(tag, wants, mg) for tag, wants in plans] + dup_plans(rng, d, quick)
    for tag, wants, gen in plans:
      try:
        hist = run_case(d, wants, gen)
      except Exception as e:
        # the simulated component (or the legality assertion of the driver) blew up in the middle of a history
        part = getattr(d, 'partial', [])
        ctx.violation(f'C17:{d.label}:exception', f'{d.label}: simulation raised {type(e).__name__}: {str(e)[:200]} after {len(part)} cycle(s) of a legal offer history',
                      {'queue': d.label, 'plan': tag, 'error': traceback.format_exc()[-1500:], 'cycles_before_the_exception': part[-40:]})
        break
      cycles += len(hist)
      cases.append(case_term(d, hist)); meta.append((d, tag, hist))
      key = (d.label, tuple((r['rst'], r['we'], r['wd']) + ((r['msg'],) if tag.startswith('dup') else ()) for r in hist))
      nontrivial = any(r['ef'] for r in hist) and any(r['df'] for r in hist)
      ctx.count(key, nontrivial, cls=f'{d.label}:{tag}')
  # ---- chains through the library's interface adapters (harness/c17_chains.py): end-to-end streams + per-queue port monitors
  nchain = 2 if quick else 6
  clen = 90 if quick else 200
  for ci, d in enumerate(chains):
    try:
      d.fresh()
    except Exception as e:
      ctx.violation(f'C17:{d.label}:construct:{type(e).__name__}', f'{d.label}: the chain cannot be built/simulated: {type(e).__name__}: {str(e)[:300]}',
                    {'chain': d.label, 'error': traceback.format_exc()[-1500:]})
      continue
    for k in range(nchain):
      # alternate distinguishing-counter payloads and duplicate-forcing payloads; offers in bursts; drained at the end
      gen = mg if (k + ci) % 2 == 0 else DupGen(rng, ALPHABETS[(k + ci) % 4], PATTERNS[(k + ci) % len(PATTERNS)] if k % 3 else None)
      if isinstance(gen, DupGen) and gen.pattern and max(gen.pattern) >= len(gen.alpha): gen = DupGen(rng, [5, 6, 7], gen.pattern)
      wants = [(0, we, wd) for _, we, wd in random_wants(rng, clen, False)] + [(0, 0, 1)] * (d.n + 8)
      marks = [len(m.hist) for m in d.monitors]
      hist = []
      d.partial = hist
      try:
        for _, we, wd in wants:
          r = d.cycle(0, we, gen.next(), wd)
          if r['ef']: gen.accepted()
          hist.append(r)
      except Exception as e:
        ctx.violation(f'C17:{d.label}:exception', f'{d.label}: simulation raised {type(e).__name__}: {str(e)[:200]} after {len(hist)} cycle(s)',
                      {'chain': d.label, 'error': traceback.format_exc()[-1500:], 'cycles_before_the_exception': hist[-40:]})
        break
      cycles += len(hist)
      tag = 'chain-ctr' if gen is mg else 'chain-dup'
      cases.append(case_term(d, hist)); meta.append((d, tag, hist))
      ctx.count((d.label, tuple((r['we'], r['wd'], r['msg']) for r in hist)), any(r['df'] for r in hist), cls=f'{d.label}:{tag}')
      for m, mark in zip(d.monitors, marks):
        mh = m.hist[mark:]
        cases.append(case_term(m, mh)); meta.append((m, tag + '/monitor', mh))
        ctx.count((m.label, tuple((r['we'], r['wd'], r['msg']) for r in mh)), any(r['df'] for r in mh), cls=f'{m.label}:{tag}')
  ctx.extra['chain_configurations'] = len(chains)
  ctx.extra['simulated_cycles'] = cycles
  ctx.extra['simulation_s'] = round(time.time() - t_sim, 1)
  t_coq = time.time()
  ctx.extra['queue_configurations'] = len(drivers) - len(unsupported)
  for d, e in unsupported:
    bits0 = isinstance(e, AssertionError) and 'Bits0' in str(e)      # clog2(1) == 0 -> mk_bits(0)
    ctx.violation(f'C17:{d.label}:construct' + ('' if bits0 else f':{type(e).__name__}'), f'{d.label}: the queue cannot be built/simulated at this capacity: {type(e).__name__}: {str(e)[:200]}',
                  {'class': d.label, 'capacity': d.n, 'error': repr(e)[:500], 'expected': 'a FIFO of this capacity (property: any capacity)'})
  for i in (0, len(cases) // 3, 2 * len(cases) // 3, len(cases) - 1):
    d, tag, hist = meta[i]
    ctx.sample({'queue': d.label, 'plan': tag, 'cycles': len(hist), 'first_cycles': hist[:4], 'coq': cases[i][:300]})

  bad = ctx.coq_bad_indices('hist', IMPORTS, '', CASE_T, cases, 'case_ok c', shard=1500)
  ctx.extra['disagreeing_histories'] = len(bad)
  ctx.extra['coq_replay_s'] = round(time.time() - t_coq, 1)
  t_rep = time.time()
  # group the disagreeing histories by queue and by KIND of deviation; one shrunk report (and one key) per group
  groups, model_only = {}, {}
  for i in bad:
    d, tag, hist = meta[i]
    if d.first_bad(hist) is None:
      model_only.setdefault(d.label, i); continue
    kinds = sorted(set(k for _, k in d.deviations(hist))) or ['unclassified']
    for k in kinds:
      j = groups.get((d.label, k))
      if j is None or len(meta[j][2]) > len(hist): groups[(d.label, k)] = i
  ctx.extra['queues_with_disagreement'] = sorted(set(l for l, _ in groups) | set(model_only))
  ctx.extra['deviation_kinds'] = sorted(f'{l}:{k}' for l, k in groups)
  for label, i in model_only.items():
    d, tag, hist = meta[i]
    diag = ctx.coq_eval('diag', IMPORTS, '', [f'case_diagnosis {cases[i]}'])[0]
    ctx.violation(f'C17:{d.label}:model', f'{d.label}: history respects the FIFO spec but leaves the concrete Coq model of this class (first bad cycle: spec, any = {diag})',
                  {'queue': d.label, 'plan': tag, 'diagnosis(spec,any)': diag, 'history': hist[:60], 'coq_case': cases[i][:4000]}, found_input=False)
  for (label, k), i in sorted(groups.items()):
    d, tag, hist = meta[i]
    if k == 'unclassified':
      find = lambda h, d=d: d.first_bad(h)
    else:
      find = lambda h, d=d, k=k: next((c for c, kk in d.deviations(h) if kk == k), None)
    small, at = shrink(d, hist, find)
    if at is None: small, at = hist, len(hist) - 1
    term = f'({d.mid if d.mid is not None else 0}, {d.kind}, {d.n}, [' + ';'.join(code(r) for r in small) + '])'
    conf = ctx.coq_eval('conf', IMPORTS, '', [f'case_diagnosis {term}'])
    m = first_some(conf[0])
    if m is None:
      ctx.note(f'{label}:{k}: the shrunk history is not rejected by the Coq specification replay ({conf[0]}); reporting the original history')
      small, at = hist, len(hist) - 1
      term = cases[i]
      conf = ctx.coq_eval('conf', IMPORTS, '', [f'case_diagnosis {term}'])
      m = first_some(conf[0])
    cq = m if m is not None else at
    offers = [(x['rst'], x['we'], x['msg'], x['wd']) for x in small]
    if d.chain:
      acc = [x['msg'] for x in small if x['ef']]; dlv = [x['out'] for x in small if x['df']]
      ctx.violation(f'C17:{d.label}:stream:{k}',
                    f'{d.label} [{k}]: the message streams through the chain differ (Coq stream acceptor rejects cycle {cq} of {len(small)}): accepted at the producer = {acc}; '
                    f'delivered at the consumer = {dlv}; inputs (rst,want_enq,msg shown,want_deq) = {offers[:40]}',
                    {'chain': d.label, 'bound_on_outstanding': d.n, 'deviation': k, 'plan': tag, 'inputs(rst,want_enq,msg,want_deq)': offers, 'accepted': acc, 'delivered': dlv,
                     'observed': small, 'coq_first_bad_cycle': conf[0], 'coq_case': term, 'deviations_by_cycle(python classifier)': d.deviations(small),
                     'original_history_cycles': len(hist)})
      continue
    exp = ctx.coq_eval('exp', IMPORTS, '', [f'case_expect {term} {cq}%nat'])[0]
    r = small[min(cq, len(small) - 1)]
    # the plain ":history" key is reserved for the mildest deviation (enq_rdy low although the queue is not full, nothing else
    # wrong: back-pressure only, contents unaffected); every other kind of deviation carries its own suffix
    key = f'C17:{d.label}:history' + ('' if k == 'enq-rdy-low' else f':{k}')
    ctx.violation(key,
                  f'{d.label} [{k}] leaves the FIFO specification in cycle {cq} of: (rst,want_enq,msg,want_deq) = {offers}; observed there enq_rdy={r["er"]} '
                  f'deq_rdy/val={r["dr"]} enq_fire={r["ef"]} deq_fire={r["df"]} msg/data={r["out"]} count={r["cnt"]} peek(rdy,called,value,after_enq)={r.get("pk")} watcher(rdy,called,value,after_consumer,after_producer)={r.get("wk")}; the Coq spec expects '
                  f'(enq_rdy,deq_rdy,enq_fire,deq_fire,msg,count,queue) = {exp}',
                  {'queue': d.label, 'kind': d.kind, 'capacity': d.n, 'deviation': k, 'plan': tag, 'offers(rst,want_enq,msg,want_deq)': offers,
                   'observed': small, 'coq_first_bad_cycle(spec, any)': conf[0], 'coq_spec_expects_at_that_cycle': exp, 'coq_case': term,
                   'deviations_by_cycle(python classifier)': d.deviations(small), 'original_history_cycles': len(hist)})
  _timing(ctx, t_run, t_rep)

def _timing(ctx, t_run, t_rep):
  ctx.extra['report_s'] = round(time.time() - t_rep, 1); ctx.extra['run_s'] = round(time.time() - t_run, 1)

def main(ctx):
  ctx.trusted += ['Lib/QueueCheck.v (decoding of the observed-cycle tuples, dispatch to the model replays) and the drivers in harness/c17.py',
                  'pymtl3 DefaultPassGroup simulation (sim_eval_combinational / sim_tick) as the semantics of the queue components']
  ctx.assumptions += [
    'register widths (Bits clog2(n), clog2(n+1)) are not modelled: Coq registers are nat and the proved invariants head<n, count<=n bound them; the differential replay compares the real registers every cycle at n=1..5',
    'concrete models in Lib/QueueRTL.v / QueueCL.v are hand-written mirrors of the *CtrlRTL / *DpathRTL / 1-entry / CL classes, tied by per-cycle register-level replay, not generated from source',
    'en/rdy interfaces are driven legally (en only with rdy, found by raising en signals to the fixpoint within the cycle); val/rdy interfaces are driven with arbitrary val/rdy',
    'enrdy_queues.py NormalQueue1RTL/PipeQueue1RTL and valrdy_queues.py 1-entry queues keep `full` in a register without reset and the CL queues never clear their deque: they are exercised without mid-run resets (the property text does not speak about reset)',
    'valrdy_queues.py is loaded with InValRdyIfc/OutValRdyIfc bound to the stream val/rdy interfaces because pymtl3.stdlib.ifcs does not define them in this tree',
    'chains: the same-cycle ready rules are judged per library queue only (directly driven, and monitored passively inside chains); end to end through adapters/StallCL only the accepted/delivered streams and a bound on outstanding messages are judged; GetRTL2GiveCL cannot be instantiated in this tree (reads s.get.msg, GetIfcRTL has .ret) so no chain goes through it; chains are run without mid-run resets',
    'CL queues: peek is called from the consumer block (start of the block); NormalQueueCL is checked for the block order the scheduler actually chose (the theorem covers both orders); push-style enrdy queues expose no data output outside a transfer, so no peek-like view is judged there',
    'message payload: Bits8, 1 symbol bit + counter; entry types other than Bits8 are not exercised']
  import stdlib_gen
  # T-gen: the real component's update blocks are translated on every run (translators/stdlib2coq.py) and proved equal to
  # the hand model at small parameters (Props/C17_gen.v)
  ctx.build_props(gen_cmds=stdlib_gen.gen_cmds('queues'), extra_models=['theories/Lib/QueueCheck.vo'])
  try:
    run(ctx)
  except Exception as e:
    ctx.note('correspondence crashed: ' + traceback.format_exc()[-1500:])
    ctx.violation('C17:harness-crash', f'correspondence could not run: {e!r}', {'traceback': traceback.format_exc()}, found_input=False)
  return ctx.finish(rule='case = one queue class x capacity 1..5 x one offer history starting from the empty queue: (a) exhaustive: prefix (rotate head R times, fill L=0..n) then every '
                         '(want_enq,want_deq) sequence of depth 3 (quick) / 4 (thorough; plus every sequence of depth 5 from empty for n<=2), (b) random 200-cycle histories with '
                         'bursty offer rates and 2% resets, (c) duplicate payloads in flight: every 2-symbol word filling the queue then drained / streamed through, cyclic v,w,v / palindrome / run patterns and random symbols from 1..3-symbol alphabets (incl. 0) under random offer timing; messages otherwise carry a distinguishing counter; distinct = distinct (class, capacity, offer sequence); non-trivial = at least one message accepted '
                         'and one delivered; every cycle compares rdy/val/fire/msg/count and the internal registers with the Coq spec and concrete model (coqc vm_compute); (d) chains through the stdlib interface adapters with reused message objects: random bursty offers + drain, accepted vs delivered streams judged by the Coq stream acceptor, embedded RTL queues monitored and judged by the full spec')
