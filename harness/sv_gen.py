"""sv_gen.py — random pymtl3 RTL designs restricted to constructs the translation passes accept (C03, C12).

The generator emits Python SOURCE (update blocks need inspect.getsource).  Every design is legal for the pymtl3
simulator by construction: each signal bit has one writer, blocks only read signals that are already defined
(no combinational cycle), int operands always fit the width of the Bits operand, dynamic indices cannot run out of
range.  Constructs: Bits ports/wires of many widths, slices, bit selects, random (nested) bitstruct types with list
fields on ports and wires, lists of ports, interfaces and lists of interfaces, sub-components (fixed library and
recursively generated children, also in lists), closure ints / closure Bits / module-level constants, CONSTANT
INTEGER ARITHMETIC inside comparisons, shifts, arithmetic and BitsN(...) (the shape of candidate defect F4),
temporaries, constant for-loops (1-3 range arguments, negative steps), if/elif/else, IfExp, concat / zext / sext /
trunc / reduce_*, update_ff blocks with reset / enable / last-write-wins, connects (whole, slices, struct fields,
constants), lambda connections."""
import random, re

WIDTHS = [1, 1, 2, 2, 3, 4, 4, 5, 7, 8, 8, 8, 12, 16, 16, 31, 32, 32, 33, 64, 65, 128]

PREAMBLE = '''from pymtl3 import *
class InIfc( Interface ):
  def construct( s, Type ):
    s.msg = InPort( Type ); s.val = InPort(); s.rdy = OutPort()
class OutIfc( Interface ):
  def construct( s, Type ):
    s.msg = OutPort( Type ); s.val = OutPort(); s.rdy = InPort()
class LibInc( Component ):
  def construct( s, nbits, amt ):
    s.in_ = InPort( nbits ); s.out = OutPort( nbits )
    @update
    def up_inc():
      s.out @= s.in_ + amt
class LibReg( Component ):
  def construct( s, nbits ):
    s.in_ = InPort( nbits ); s.en = InPort(); s.out = OutPort( nbits )
    @update_ff
    def up_reg():
      if s.reset:
        s.out <<= 0
      elif s.en:
        s.out <<= s.in_
class LibSel( Component ):
  def construct( s, nbits, n ):
    s.in_ = [ InPort( nbits ) for _ in range(n) ]
    s.sel = InPort( clog2(n) )
    s.out = OutPort( nbits )
    @update
    def up_sel():
      s.out @= s.in_[ s.sel ]
'''

def clog2(n): return max(1, (n - 1).bit_length())

class Sig:
  """a readable, fully defined Bits-typed place: text, width, whether it can be sliced (a signal / field / element)"""
  def __init__(s, text, w, sliceable=True, net_ok=True): s.text, s.w, s.sliceable, s.net_ok = text, w, sliceable, net_ok

class StructT:
  def __init__(s, name, fields): s.name, s.fields = name, fields     # fields: [(fname, ('bits', w) | ('struct', StructT) | ('list', n, elt))]
  def width(s): return sum(ft_width(ft) for _, ft in s.fields)
def ft_width(ft):
  if ft[0] == 'bits': return ft[1]
  if ft[0] == 'struct': return ft[1].width()
  return ft[1] * ft_width(ft[2])
def ft_text(ft):
  if ft[0] == 'bits': return f'Bits{ft[1]}'
  if ft[0] == 'struct': return ft[1].name
  return '[ ' + ', '.join([ft_text(ft[2])] * ft[1]) + ' ]'
def leaves(prefix, ft):
  """[(text, width)] of every Bits leaf below a place of type ft"""
  if ft[0] == 'bits': return [(prefix, ft[1])]
  if ft[0] == 'struct':
    out = []
    for n, f in ft[1].fields: out += leaves(f'{prefix}.{n}', f)
    return out
  out = []
  for i in range(ft[1]): out += leaves(f'{prefix}[{i}]', ft[2])
  return out

class Gen:
  def __init__(s, rng, name, depth=0, size='medium', uid='', focus=None, ys_safe=False, yosys=False):
    s.rng, s.name, s.depth, s.size, s.uid = rng, name, depth, size, uid
    # ys_safe: keep every struct-typed wire / output at ONE granularity (written and read as a whole, outputs only of
    # structs with plain Bits fields): the Yosys backend keeps `x` and `x__field` as unrelated variables otherwise
    # (reported separately by directed designs), and that would hide everything else it does
    s.ys_safe = ys_safe
    s.yosys = yosys          # the design is meant for the Yosys backend too (nested interfaces with port arrays: the SV backend rejects them)
    s.focus = focus
    # known-defect shapes are generated only in a fraction of the designs, so that the other designs can expose
    # NEW kinds of disagreement (each shape also has directed minimal designs, see directed_designs below)
    s.allow_narrow = rng.random() < 0.3       # constant operands wider than the context (candidate defect F4)
    s.allow_sext_expr = rng.random() < 0.12   # sext( <operator expression> )
    s.allow_reduce_expr = rng.random() < 0.12 # reduce_*( <operator expression> )
    s.allow_wrap = rng.random() < 0.1         # negative-step loop whose counter would pass below zero
    s.pre = []            # class-level preamble lines (struct types, child classes)
    s.head = []           # construct(): local constants
    s.lines = []          # construct(): declarations, blocks, connects
    s.avail = []          # [Sig]
    s.structs = []        # StructT
    s.struct_sigs = []    # (text, StructT) readable whole struct signals
    s.nsig = s.nblk = s.ntmp = 0
    s.consts = []         # (name, int value) closure ints
    s.bconsts = []        # (name, width, value) closure Bits
    s.lists = []          # (text, n, w) readable lists of Bits signals of power-of-two length
    s.features = set()
    s.children = []       # child Gen objects (their class source goes first)
    s.in_ports = []
    s.fams = []           # readable array families: (format, dims, width)
    s.limits = []         # input value limits the stimulus must respect: (regex on the port repr, int modulus | [(lo, width, modulus)])

  # ------------------------------------------------------------------ helpers
  def w(s): return s.rng.choice(WIDTHS)
  def name_sig(s, k):
    s.nsig += 1
    return f'{k}{s.nsig}'
  def feat(s, f): s.features.add(f)
  def pick(s, xs): return s.rng.choice(xs)

  def mk_struct(s, depth=0, force=None):
    rng = s.rng
    name = f'St{s.uid}_{len(s.structs)}'
    fields = []
    for i in range(rng.randrange(1, 5)):
      r = rng.random()
      if force and i == 0 and s.structs:
        r = {'struct': 0.7, 'list-of-bits': 0.85, 'list-of-struct': 0.95}[force]
      if r < 0.55 or depth >= 1 and r < 0.8: ft = ('bits', rng.choice([1, 2, 3, 4, 4, 8, 8, 16, 5, 32]))
      elif r < 0.75 and depth < 1 and s.structs:
        ft = ('struct', rng.choice(s.structs))
      elif r < 0.9: ft = ('list', rng.randrange(1, 5), ('bits', rng.choice([1, 2, 4, 8, 3])))
      elif depth < 1 and s.structs: ft = ('list', rng.randrange(1, 4), ('struct', rng.choice(s.structs)))
      else: ft = ('bits', rng.choice([2, 6, 8]))
      fields.append((f'f{i}', ft))
    T = StructT(name, fields)
    s.pre += ['@bitstruct', f'class {name}:'] + [f'  {n}: {ft_text(ft)}' for n, ft in fields]
    s.structs.append(T)
    s.feat('struct')
    if any(ft[0] == 'list' for _, ft in fields): s.feat('struct-list-field')
    if any(ft[0] == 'struct' or ft[0] == 'list' and ft[2][0] == 'struct' for _, ft in fields): s.feat('nested-struct')
    return T

  # ------------------------------------------------------------------ constant integer expressions (F4 shape)
  def const_expr(s, w, hi=None):
    """(text, value): a python-int expression with 0 <= value < 2^w (and <= hi) built from closure/global ints.
    Unless s.allow_narrow, every integer that occurs in it also fits w bits (nothing is narrowed when emitted)."""
    rng = s.rng
    top = (1 << w) - 1 if hi is None else min(hi, (1 << w) - 1)
    lim = (1 << w) - 1
    target = rng.choice([0, 1, top, top // 2, rng.randrange(0, top + 1), rng.randrange(0, top + 1)])
    target = max(0, min(target, top))
    if rng.random() < 0.25: return str(target), target
    def cname(v):
      for n, x in s.consts:
        if x == v and rng.random() < 0.7: return n
      n = f'k{len(s.consts)}'
      s.consts.append((n, v)); s.head.append(f'{n} = {v}')
      return n
    form = rng.choice(['shr', 'sub', 'mod', 'and', 'add', 'mul', 'shr', 'mod', 'sub', 'shl', 'nest'])
    narrow = s.allow_narrow
    ok = lambda *xs: narrow or all(0 <= x <= lim for x in xs)
    if form == 'shr':
      k = rng.randrange(1, 4)
      v = ((target << k) | rng.randrange(0, 1 << k)) if narrow else rng.randrange(0, lim + 1)
      t = v >> k
      if ok(v, k) and t <= top: s.feat('const:>>'); return f'({cname(v)} >> {k})', t
    if form == 'sub':
      m = rng.randrange(1, 9)
      if ok(target + m, m): s.feat('const:-'); return f'({cname(target + m)} - {m})', target
    if form == 'mod':
      m = rng.choice([2, 4, 8, 3, 5, 16]); t = target % m; v = t + m * rng.randrange(0, 5)
      if ok(v, m): s.feat('const:%'); return f'({cname(v)} % {m})', t
    if form == 'and':
      m = rng.choice([1, 3, 7, 15, 6]); v = rng.randrange(0, 64 if narrow else lim + 1); t = v & m
      if t <= top and ok(v, m): s.feat('const:&'); return f'({cname(v)} & {m})', t
    if form == 'add':
      a = rng.randrange(0, target + 1); s.feat('const:+'); return f'({cname(a)} + {target - a})', target
    if form == 'mul':
      m = rng.choice([2, 3]); t = (target // m) * m
      if ok(m): s.feat('const:*'); return f'({cname(t // m)} * {m})', t
    if form == 'shl':
      k = rng.randrange(1, 3); t = (target >> k) << k
      if ok(k): s.feat('const:<<'); return f'({cname(t >> k)} << {k})', t
    if form == 'nest':
      k = rng.randrange(1, 3); m = rng.randrange(1, 5); v = ((target << k) | rng.randrange(0, 1 << k)) + m
      if ok(v, m, k): s.feat('const:nested'); return f'(({cname(v)} - {m}) >> {k})', target
    return str(target), target

  # ------------------------------------------------------------------ expressions
  # Every generator returns (text, is_const).  pymtl3's type checker FOLDS an operator whose operands are all
  # constants and re-types the result by its value, which makes it reject width-strict uses of such a node; the
  # generator therefore never builds an operator with only constant operands (int constant sub-expressions are
  # generated on purpose, by const_expr, as direct operands of an operator whose other operand is a signal).
  def sig_leaf(s, w):
    rng = s.rng
    same = [a for a in s.avail if a.w == w]
    wider = [a for a in s.avail if a.w > w and a.sliceable]
    r = rng.random()
    if same and (r < 0.6 or not wider): return rng.choice(same).text
    if wider:
      a = rng.choice(wider); lo = rng.randrange(0, a.w - w + 1)
      if w == 1 and rng.random() < 0.6: s.feat('bitsel'); return f'{a.text}[{lo}]'
      s.feat('slice'); return f'{a.text}[{lo}:{lo + w}]'
    narrower = [a for a in s.avail if a.w < w]
    a = rng.choice(narrower); s.feat('zext'); return f'zext( {a.text}, {w} )'

  def leaf(s, w):
    rng = s.rng
    r = rng.random()
    if r < 0.68: return s.sig_leaf(w), False
    ls = [l for l in s.lists if l[2] == w]
    if ls and r < 0.82:
      t, n, _ = rng.choice(ls)
      kidx = [b for b in s.bconsts if b[1] == clog2(n) and b[2] < n]
      if not kidx and rng.random() < 0.25:
        nm = f'KX{len(s.bconsts)}'; v = rng.randrange(n); s.head.append(f'{nm} = Bits{clog2(n)}( {v} )')
        s.bconsts.append((nm, clog2(n), v)); kidx = [s.bconsts[-1]]
      if kidx and rng.random() < 0.3: s.feat('index-by-bits-const'); return f'{t}[ {rng.choice(kidx)[0]} ]', False
      sel = [a for a in s.avail if a.w == clog2(n) and (1 << a.w) == n]
      if sel and rng.random() < 0.6: s.feat('dyn-index'); return f'{t}[ {rng.choice(sel).text} ]', False
      return f'{t}[{rng.randrange(n)}]', False
    bc = [b for b in s.bconsts if b[1] == w]
    if bc and r < 0.93: s.feat('bits-const-use'); return rng.choice(bc)[0], True
    if r < 0.97 and w <= 128:
      if rng.random() < 0.5:
        t, v = s.const_expr(w); s.feat('BitsN(const-expr)'); return f'Bits{w}( {t} )', True
      return f'Bits{w}( {rng.randrange(0, 1 << min(w, 16))} )', True
    return s.sig_leaf(w), False

  def expr(s, w, d=0): return s.expr2(w, d)[0]
  def cond(s): return s.nonconst(1, 1)
  def nonconst(s, w, d):
    t, c = s.expr2(w, d)
    return s.sig_leaf(w) if c else t

  def expr2(s, w, d=0):
    rng = s.rng
    if d >= 3 or rng.random() < 0.25 + 0.15 * d: return s.leaf(w)
    r = rng.random()
    E = lambda ww: s.expr2(ww, d + 1)
    N = lambda ww: s.nonconst(ww, d + 1)
    def pair(ww):
      (a, ca), (b, cb) = E(ww), E(ww)
      if ca and cb:
        if rng.random() < 0.5: a = s.sig_leaf(ww)
        else: b = s.sig_leaf(ww)
      return a, b
    if w == 1 and r < 0.35:
      k = rng.random()
      ow = s.w() if rng.random() < 0.7 else rng.choice([2, 3, 4])
      op = rng.choice(['<', '<=', '>', '>=', '==', '!='])
      if k < 0.45:
        t, v = s.const_expr(ow); s.feat('cmp-const'); s.feat('cmp')
        return (f'({N(ow)} {op} {t})' if rng.random() < 0.8 else f'({t} {op} {N(ow)})'), False
      if k < 0.8:
        a, b = pair(ow); s.feat('cmp'); return f'({a} {op} {b})', False
      f = rng.choice(['reduce_and', 'reduce_or', 'reduce_xor']); s.feat(f)
      if s.allow_reduce_expr: s.feat('reduce-of-expr'); return f'{f}( {N(ow)} )', False
      return f'{f}( {s.sig_leaf(ow)} )', False
    if r < 0.45:
      op = rng.choice(['+', '-', '&', '|', '^', '+', '-', '*'])
      if rng.random() < 0.3:
        t, v = s.const_expr(w); s.feat('arith-const')
        return (f'({N(w)} {op} {t})' if rng.random() < 0.8 else f'({t} {op} {N(w)})'), False
      a, b = pair(w); s.feat('arith:' + op); return f'({a} {op} {b})', False
    if r < 0.57:
      op = rng.choice(['<<', '>>'])
      if rng.random() < 0.5:
        t, v = s.const_expr(w, hi=w + 2); s.feat('shift-const'); return f'({N(w)} {op} {t})', False
      a, b = pair(w); s.feat('shift-var'); return f'({a} {op} {b})', False
    if r < 0.64: s.feat('invert'); return f'(~{N(w)})', False
    if r < 0.74: s.feat('ifexp'); return f'({E(w)[0]} if {N(1)} else {E(w)[0]})', False
    if r < 0.82 and w >= 2:
      a = rng.randrange(1, w); s.feat('concat')
      if w >= 3 and rng.random() < 0.3:
        b = rng.randrange(1, w - a + 1) if w - a > 1 else 1
        if w - a - b > 0: return f'concat( {N(a)}, {E(b)[0]}, {E(w - a - b)[0]} )', False
      return f'concat( {N(a)}, {E(w - a)[0]} )', False
    if r < 0.9 and w >= 2:
      k = rng.randrange(1, w); f = rng.choice(['zext', 'sext']); s.feat(f)
      if f == 'sext' and not s.allow_sext_expr:
        for _ in range(6):
          a = s.sig_leaf(k)
          if not (k > 1 and re.search(r'\[\d+\]$', a)): break      # an indexed multi-bit element: known defect shape
        else: return f'zext( {a}, {w} )', False
        return f'sext( {a}, {w} )', False
      if f == 'sext': s.feat('sext-of-expr')
      return f'{f}( {N(k)}, {w} )', False
    if r < 0.96 and w < 128:
      k = rng.choice([x for x in WIDTHS if x > w]); s.feat('trunc')
      a = N(k)
      if s.ys_safe and re.fullmatch(r's\.\w+(\[[^\]]*\])*(\.\w+(\[[^\]]*\])*)+', a):
        # the Yosys backend leaks the SystemVerilog spelling of a member access that is the direct operand of trunc()
        # (known finding, directed designs D_trunc_*): keep it out of the designs meant to expose other things
        a = f'({a} + 0)' if False else f'zext( {a}, {k + 1} )' if k < 128 else a
        return (f'trunc( {a}, {w} )', False)
      return f'trunc( {a}, {w} )', False
    return s.leaf(w)

  # ------------------------------------------------------------------ declarations
  def decl(s, kind, w):
    n = s.name_sig({'InPort': 'i', 'OutPort': 'o', 'Wire': 'w'}[kind])
    s.lines.append(f's.{n} = {kind}( {w} )')
    if kind == 'InPort': s.in_ports.append((f's.{n}', w))
    return f's.{n}'
  def decl_struct(s, kind, T):
    n = s.name_sig({'InPort': 'si', 'OutPort': 'so', 'Wire': 'sw'}[kind])
    s.lines.append(f's.{n} = {kind}( {T.name} )')
    return f's.{n}'
  def add_struct_avail(s, text, T, leaves_ok=True):
    s.struct_sigs.append((text, T))
    if not leaves_ok: return
    # (a connect() whose source is a field of a struct written as a whole by a block makes pymtl3 raise NoWriterError,
    #  so struct leaves are never used as the source of a net)
    for t, w in leaves(text, ('struct', T)): s.avail.append(Sig(t, w, net_ok=False))

  def assign_stmts(s, target, w, op):
    """statements that define `target` (a w-bit place) completely"""
    rng = s.rng
    r = rng.random()
    if r < 0.2:
      s.feat('if'); c = s.cond()
      out = [f'if {c}:', f'  {target} {op} {s.expr(w)}']
      if rng.random() < 0.4: out += [f'elif {s.cond()}:', f'  {target} {op} {s.expr(w)}']; s.feat('elif')
      return out + ['else:', f'  {target} {op} {s.expr(w)}']
    if r < 0.3:
      s.feat('default-then-if')
      return [f'{target} {op} {s.expr(w)}', f'if {s.cond()}:', f'  {target} {op} {s.expr(w)}']
    if r < 0.5:
      return s.tmp_pattern(target, w, op)
    return [f'{target} {op} {s.expr(w)}']

  def new_tmp(s, w):
    s.ntmp += 1; t = f't{s.ntmp}'
    sig = Sig(t, w, sliceable=False, net_ok=False); s.avail.append(sig); s._tmp_added.append(sig)
    return t

  def scoped(s, fn):
    """run a statement generator whose output will be nested under if/else/for: temporaries it creates stay local to it"""
    n0 = len(s._tmp_added)
    out = fn()
    for a in s._tmp_added[n0:]:
      if a in s.avail: s.avail.remove(a)
    del s._tmp_added[n0:]
    return out

  def use_tmp(s, t, tw, w):
    if tw == w: return t
    return f'trunc( {t}, {w} )' if tw > w else f'zext( {t}, {w} )'

  def tmp_pattern(s, target, w, op):
    """statements that define `target` through temporaries (python locals): plain, chained multi-target, reassigned and
    read in between, assigned in both branches of an if; the temporaries are always READ by a later statement of the block.
    Used for `@=` in update blocks and for `<<=` in update_ff blocks."""
    rng = s.rng
    k = rng.random()
    tw = w if rng.random() < 0.7 else s.w()
    bop = lambda: rng.choice(['^', '+', '-', '|', '&'])
    if k < 0.2:
      s.feat('tmpvar')
      e = s.expr(tw); t = s.new_tmp(tw)
      return [f'{t} = {e}', f'{target} {op} ({s.use_tmp(t, tw, w)} {bop()} {s.expr(w)})']
    if k < 0.5:
      s.feat('tmpvar-chained')
      e = s.expr(tw)
      n = rng.choice([2, 2, 3]); ts = [s.new_tmp(tw) for _ in range(n)]
      out = [' = '.join(ts) + f' = {e}']
      a, b = rng.sample(ts, 2)
      sh = rng.randrange(0, min(w, 4) + 1) if w > 1 else 0
      out.append(f'{target} {op} ({s.use_tmp(a, tw, w)} {bop()} ({s.use_tmp(b, tw, w)} >> {sh}))')
      return out
    if k < 0.75:
      s.feat('tmpvar-reassigned')
      e = s.expr(tw); t = s.new_tmp(tw)
      out = [f'{t} = {e}']
      eu = f'({t} {bop()} {s.nonconst(tw, 2)})'                          # reads t between its two assignments
      u = s.new_tmp(tw)
      out.append(f'{u} = {eu}')
      out.append(f'{t} = ({t} {bop()} {s.nonconst(tw, 2)})')
      if rng.random() < 0.5: out.append(f'{u} = ({u} {rng.choice(["+", "^"])} {t})')
      out.append(f'{target} {op} ({s.use_tmp(t, tw, w)} {bop()} {s.use_tmp(u, tw, w)})')
      return out
    s.feat('tmpvar-if')
    c = s.cond()
    e1, e2 = s.expr(tw), s.expr(tw)
    t = s.new_tmp(tw)
    out = [f'if {c}:', f'  {t} = {e1}', 'else:', f'  {t} = {e2}']
    out.append(f'{target} {op} {s.use_tmp(t, tw, w)}' if rng.random() < 0.5 else f'{target} {op} ({s.use_tmp(t, tw, w)} {bop()} {s.expr(w)})')
    return out

  def write_struct(s, target, T, op):
    rng = s.rng
    same = [t for t, TT in s.struct_sigs if TT is T and t != target]
    r = rng.random()
    if op == '<<=':      # update_ff may only write whole top-level signals
      flat = all(ft[0] == 'bits' for _, ft in T.fields)
      if same and (r < 0.5 or not flat): s.feat('struct-copy'); return [f'{target} {op} {rng.choice(same)}']
      if flat:
        s.feat('struct-inst')
        return [f'{target} {op} {T.name}( ' + ', '.join(s.expr(ft[1]) for _, ft in T.fields) + ' )']
      return None
    if same and r < 0.35: s.feat('struct-copy'); return [f'{target} {op} {rng.choice(same)}']
    if same and r < 0.55:
      s.feat('struct-copy-then-field')
      lv = leaves(target, ('struct', T)); t, w = rng.choice(lv)
      return [f'{target} {op} {rng.choice(same)}', f'{t} {op} {s.expr(w)}']
    if r < 0.12 and op == '@=' and not s.ys_safe and all(ft[0] == 'bits' for _, ft in T.fields):
      # constant bitstruct in an update block: closure constant or all-constant instantiation
      # (the Yosys backend raises VerilogTranslationError for the closure form: counted as rejected there)
      if rng.random() < 0.5:
        nm = f'KS{len(s.bconsts)}_{s.nsig}'; s.head.append(f'{nm} = {s.const_inst(("struct", T))}'); s.feat('struct-closure-const')
        return [f'{target} {op} {nm}']
      s.feat('struct-inst-const'); return [f'{target} {op} {s.const_inst(("struct", T))}']
    if r < 0.75 and all(ft[0] == 'bits' for _, ft in T.fields):
      s.feat('struct-inst')
      return [f'{target} {op} {T.name}( ' + ', '.join(s.expr(ft[1]) for _, ft in T.fields) + ' )']
    s.feat('struct-fieldwise')
    return [f'{t} {op} {s.expr(w)}' for t, w in leaves(target, ('struct', T))]

  def comb_block(s, body):
    s.nblk += 1
    s.lines += ['@update', f'def blk{s.nblk}():'] + ['  ' + b for b in body]
  def ff_block(s, body):
    s.nblk += 1
    s.lines += ['@update_ff', f'def ffb{s.nblk}():'] + ['  ' + b for b in body]

  # ------------------------------------------------------------------ build
  def build(s, n_in=None, n_out=None):
    rng = s.rng
    s._tmp_added = []
    top = s.depth == 0
    # Bits constants: closure (local of construct) and module level, values >= 10, >= 16, near 2^n
    for i in range(rng.randrange(1, 5)):
      w = s.w() if rng.random() < 0.5 else rng.choice([2, 4, 5, 8, 8, 16, 32])
      if w > 128: continue
      top_v = (1 << w) - 1
      v = rng.choice([10, 11, 15, 16, 17, 37, 99, 200, 255, 256, 4095, top_v, top_v - 1, top_v >> 1, (top_v >> 1) + 1, rng.randrange(0, top_v + 1), rng.randrange(0, top_v + 1)])
      v = min(v, top_v)
      if rng.random() < 0.4:
        nm = f'KG{s.uid}_{i}'; s.pre.append(f'{nm} = Bits{w}( {v} )'); s.feat('global-bits')
      else:
        nm = f'KB{i}'; s.head.append(f'{nm} = Bits{w}( {v} )'); s.feat('closure-bits-decl')
      s.bconsts.append((nm, w, v))
    nstruct = rng.choice([0, 1, 1, 2]) if s.focus != 'struct' else rng.choice([2, 3])
    for _ in range(nstruct): s.mk_struct()
    # inputs
    for _ in range(n_in if n_in is not None else rng.randrange(2, 5)):
      w = s.w(); t = s.decl('InPort', w); s.avail.append(Sig(t, w))
    for T in s.structs:
      if rng.random() < 0.8:
        t = s.decl_struct('InPort', T); s.add_struct_avail(t, T); s.feat('struct-inport')
    if rng.random() < 0.45:
      n = rng.choice([2, 2, 4, 3]); w = rng.choice([1, 4, 8, 16])
      nm = s.name_sig('li'); s.lines.append(f's.{nm} = [ InPort( {w} ) for _ in range({n}) ]'); s.feat('port-list')
      for i in range(n): s.avail.append(Sig(f's.{nm}[{i}]', w))
      if n & (n - 1) == 0:
        s.lists.append((f's.{nm}', n, w))
        sel = s.decl('InPort', clog2(n)); s.avail.append(Sig(sel, clog2(n)))
    if top and rng.random() < 0.35:
      w = rng.choice([4, 8, 16]); s.feat('interface')
      if rng.random() < 0.5:
        s.lines.append(f's.recv = InIfc( Bits{w} )'); s.avail += [Sig('s.recv.msg', w), Sig('s.recv.val', 1)]
        s._ifc_out = [('s.recv.rdy', 1)]
      else:
        n = rng.choice([2, 3]); s.feat('interface-list')
        s.lines.append(f's.recv = [ InIfc( Bits{w} ) for _ in range({n}) ]')
        s._ifc_out = []
        for i in range(n):
          s.avail += [Sig(f's.recv[{i}].msg', w), Sig(f's.recv[{i}].val', 1)]; s._ifc_out.append((f's.recv[{i}].rdy', 1))
      if rng.random() < 0.6:
        s.lines.append(f's.send = OutIfc( Bits{w} )'); s.avail.append(Sig('s.send.rdy', 1))
        s._ifc_out += [('s.send.msg', w), ('s.send.val', 1)]
    else: s._ifc_out = []
    if top and rng.random() < 0.4: s.add_ifc_tree()
    # registers (readable from the start)
    regs = []
    for _ in range(rng.randrange(0, 4)):
      w = s.w(); kind = 'OutPort' if rng.random() < 0.3 else 'Wire'
      t = s.decl(kind, w); regs.append((t, w)); s.avail.append(Sig(t, w))
    sregs = []
    for T in s.structs:
      flat = all(ft[0] == 'bits' for _, ft in T.fields)
      if rng.random() < 0.3 and (flat or any(TT is T for _, TT in s.struct_sigs)):
        kind = 'Wire' if (rng.random() < 0.6 or (s.ys_safe and not flat)) else 'OutPort'
        t = s.decl_struct(kind, T); sregs.append((t, T)); s.add_struct_avail(t, T, leaves_ok=not (s.ys_safe and kind == 'Wire')); s.feat('struct-reg')
    listreg = None
    if rng.random() < 0.3:
      n = rng.choice([2, 3, 4]); w = rng.choice([1, 4, 8, 32]); nm = s.name_sig('rl')
      s.lines.append(f's.{nm} = [ {"OutPort" if rng.random() < 0.4 else "Wire"}( {w} ) for _ in range({n}) ]')
      listreg = (f's.{nm}', n, w)
      for i in range(n): s.avail.append(Sig(f's.{nm}[{i}]', w))
    # combinational part
    nunit = {'small': rng.randrange(2, 5), 'medium': rng.randrange(4, 9), 'large': rng.randrange(8, 16)}[s.size]
    pending_out = list(s._ifc_out)
    for u in range(nunit):
      r = rng.random()
      if r < 0.14: s.add_child(); continue
      if r < 0.22: s.add_list_unit(); continue
      if r < 0.30: s.add_array_unit(); continue
      if r < 0.36 and top: s.add_varslice_unit(); continue
      if r < 0.42: s.add_lambda_bank(); continue
      if r < 0.50 and top: s.add_struct_array_unit(); continue
      if r < 0.62 and top: s.add_structural_unit(); continue
      if r < 0.67: s.add_const_struct_connect(); continue
      if r < 0.40 and s.structs: s.add_struct_unit(); continue
      if r < 0.50: s.add_connect_unit(); continue
      # plain Bits target(s)
      if pending_out and rng.random() < 0.5: t, w = pending_out.pop(0)
      else:
        w = s.w(); t = s.decl('OutPort' if rng.random() < 0.45 else 'Wire', w)
      body = []
      s._tmp_added = []
      if w >= 2 and rng.random() < 0.3:
        cuts = sorted({0, w, rng.randrange(1, w), rng.randrange(1, w)})
        parts = [(f'{t}[{a}:{b}]', b - a) for a, b in zip(cuts, cuts[1:])]; s.feat('partial-writes')
        if len(parts) > 1 and rng.random() < 0.4:
          for (pt, pw) in parts[:1]: s.comb_block(s.finish_tmp(s.assign_stmts(pt, pw, '@=')))
          parts = parts[1:]; s.feat('two-blocks-one-signal')
          s._tmp_added = []
        for pt, pw in parts: body += s.assign_stmts(pt, pw, '@=')
      else:
        body += s.assign_stmts(t, w, '@=')
      s.comb_block(s.finish_tmp(body))
      s.avail.append(Sig(t, w))
    for t, w in pending_out:
      s._tmp_added = []
      s.comb_block(s.finish_tmp(s.assign_stmts(t, w, '@=')))
    # sequential part
    rng.shuffle(regs)
    i = 0
    while i < len(regs):
      grp = regs[i:i + rng.choice([1, 1, 2])]; i += len(grp)
      body = []
      s._tmp_added = []
      style = rng.choice(['reset', 'plain', 'enable', 'lastwins', 'tmp', 'tmp'])
      for t, w in grp:
        if style == 'reset':
          rv = rng.randrange(0, 1 << min(w, 8)); s.feat('ff-reset')
          body += ['if s.reset:', f'  {t} <<= {rv}', 'else:'] + ['  ' + x for x in s.scoped(lambda: s.assign_stmts(t, w, '<<='))]
        elif style == 'enable': s.feat('ff-enable'); body += [f'if {s.cond()}:', f'  {t} <<= {s.expr(w)}']
        elif style == 'tmp': s.feat('ff-tmpvar'); body += s.tmp_pattern(t, w, '<<=')
        elif style == 'lastwins': s.feat('ff-last-wins'); body += [f'{t} <<= {s.expr(w)}', f'if {s.cond()}:', f'  {t} <<= {s.expr(w)}']
        else: body += s.assign_stmts(t, w, '<<=')
      s.ff_block(s.finish_tmp(body))
    for t, T in sregs:
      body = s.write_struct(t, T, '<<=')
      if body is None: body = [f'{t} <<= {t}']
      if rng.random() < 0.4: body = [f'if {s.cond()}:'] + ['  ' + b for b in body]; s.feat('ff-struct-enable')
      s.ff_block(body)
    if listreg:
      t, n, w = listreg; s.feat('ff-list-shift')
      k = rng.random()
      if k < 0.5: body = [f'{t}[0] <<= {s.expr(w)}', f'for i in range({n - 1}):', f'  {t}[i+1] <<= {t}[i]']
      elif k < 0.8 and not s.ys_safe: body = [f'{t}[0] <<= {s.expr(w)}', f'for i in range({n - 1}, 0, -1):', f'  {t}[i] <<= {t}[i-1]']; s.feat('for-neg-step')
      else: body = [f'for i in range({n}):', f'  if {s.cond()}:', f'    {t}[i] <<= {s.expr(w)}']
      s.ff_block(body)
    return s

  def finish_tmp(s, body):
    for a in s._tmp_added:
      if a in s.avail: s.avail.remove(a)
    s._tmp_added = []
    return body

  # ------------------------------------------------------------------ units
  def add_child(s):
    rng = s.rng
    k = len(s.children) + sum(1 for l in s.lines if l.startswith('s.c'))
    r = rng.random()
    cn = f'c{s.name_sig("")}'
    if r < 0.3:
      w = s.w(); amt = rng.randrange(0, 1 << min(w, 4)); s.feat('child:LibInc')
      s.lines.append(f's.{cn} = LibInc( {w}, {amt} )')
      s.connect_to(f's.{cn}.in_', w); s.avail.append(Sig(f's.{cn}.out', w))
    elif r < 0.5:
      w = s.w(); s.feat('child:LibReg')
      s.lines.append(f's.{cn} = LibReg( {w} )')
      s.connect_to(f's.{cn}.in_', w); s.connect_to(f's.{cn}.en', 1); s.avail.append(Sig(f's.{cn}.out', w))
    elif r < 0.65:
      w = rng.choice([1, 4, 8, 16]); n = rng.choice([2, 4]); s.feat('child:LibSel(port-list)')
      s.lines.append(f's.{cn} = LibSel( {w}, {n} )')
      for i in range(n): s.connect_to(f's.{cn}.in_[{i}]', w)
      s.connect_to(f's.{cn}.sel', clog2(n)); s.avail.append(Sig(f's.{cn}.out', w))
    elif r < 0.8:
      w = s.w(); n = rng.choice([2, 3]); s.feat('child-list')
      s.lines.append(f's.{cn} = [ LibInc( {w}, {rng.randrange(0, 2)} ) for _ in range({n}) ]')
      for i in range(n):
        if i == 0 or rng.random() < 0.4: s.connect_to(f's.{cn}[{i}].in_', w)
        else: s.lines.append(f's.{cn}[{i}].in_ //= s.{cn}[{i-1}].out'); s.feat('child-chain')
      s.avail.append(Sig(f's.{cn}[{n-1}].out', w))
    elif s.depth < 2:
      g = Gen(random.Random(rng.randrange(1 << 30)), f'{s.name}_C{len(s.children)}', depth=s.depth + 1, size='small', uid=f'{s.uid}c{len(s.children)}', ys_safe=s.ys_safe)
      g.build(n_in=rng.randrange(1, 3))
      s.children.append(g); s.feat('child:generated')
      s.lines.append(f's.{cn} = {g.name}()')
      for t, w in g.in_ports: s.connect_to(f's.{cn}.{t[2:]}', w)
      # struct / list inputs of the child that are not plain: drive them
      for t, T in g.struct_inputs():
        # child struct types are local to the child: connect fieldwise from a block
        body = [f's.{cn}.{lt[2:]} @= {s.expr(w)}' for lt, w in leaves(t, ('struct', T))]
        s.comb_block(body)
      for t, w in g.other_inputs(): s.connect_to(f's.{cn}.{t[2:]}', w)
      for a in g.outputs(): s.avail.append(Sig(f's.{cn}.{a[0][2:]}', a[1]))

  def outputs(s):
    """plain Bits OutPorts of this component: (text, width)"""
    out = []
    for l in s.lines:
      m = re.fullmatch(r'(s\.o\d+) = OutPort\( (\d+) \)', l)
      if m: out.append((m.group(1), int(m.group(2))))
    return out
  def struct_inputs(s):
    out = []
    for l in s.lines:
      m = re.fullmatch(r'(s\.si\d+) = InPort\( (\w+) \)', l)
      if m: out.append((m.group(1), next(T for T in s.structs if T.name == m.group(2))))
    return out
  def other_inputs(s):
    out = []
    for l in s.lines:
      m = re.fullmatch(r'(s\.li\d+) = \[ InPort\( (\d+) \) for _ in range\((\d+)\) \]', l)
      if m: out += [(f'{m.group(1)}[{i}]', int(m.group(2))) for i in range(int(m.group(3)))]
    return out

  def connect_to(s, target, w):
    """drive a w-bit place (a child input) from available sources"""
    rng = s.rng
    same = [a for a in s.avail if a.w == w and a.sliceable and a.net_ok]
    wider = [a for a in s.avail if a.w > w and a.sliceable and a.net_ok]
    r = rng.random()
    if same and r < 0.5: s.lines.append(f'{target} //= {rng.choice(same).text}'); s.feat('connect'); return
    if wider and r < 0.7:
      a = rng.choice(wider); lo = rng.randrange(0, a.w - w + 1)
      s.lines.append(f'{target} //= {a.text}[{lo}:{lo + w}]'); s.feat('connect-slice'); return
    if r < 0.78: s.lines.append(f'{target} //= {rng.randrange(0, 1 << min(w, 8))}'); s.feat('connect-const'); return
    if r < 0.9 and re.fullmatch(r's\.\w+', target): s.lines.append(f'{target} //= lambda: {s.nonconst(w, 1)}'); s.feat('lambda'); return
    s._tmp_added = []
    s.comb_block(s.finish_tmp(s.assign_stmts(target, w, '@=')))

  def add_connect_unit(s):
    rng = s.rng
    w = s.w(); t = s.decl('OutPort' if rng.random() < 0.5 else 'Wire', w)
    if w >= 2 and rng.random() < 0.4:
      k = rng.randrange(1, w); s.feat('connect-partial')
      s.connect_to(f'{t}[0:{k}]', k); s.connect_to(f'{t}[{k}:{w}]', w - k)
    else: s.connect_to(t, w)
    s.avail.append(Sig(t, w))

  def add_list_unit(s):
    rng = s.rng
    n = rng.choice([2, 3, 4, 5]); w = rng.choice([1, 4, 8, 16, 33]); kind = 'OutPort' if rng.random() < 0.5 else 'Wire'
    nm = s.name_sig('lo' if kind == 'OutPort' else 'lw')
    s.lines.append(f's.{nm} = [ {kind}( {w} ) for _ in range({n}) ]'); s.feat('signal-list')
    srcs = [l for l in s.lists if l[2] == w and l[1] >= n]
    form = rng.choice(['range1', 'range2', 'range3', 'neg', 'unrolled'])
    if s.ys_safe and form == 'neg': form = 'range2'      # YosysBehavioralTranslatorL2.visit_For crashes (AttributeError) on a negative step
    s._tmp_added = []
    if form == 'unrolled':
      body = []
      for i in range(n): body += s.assign_stmts(f's.{nm}[{i}]', w, '@=')
    else:
      s.feat('for:' + form)
      hdr = {'range1': f'for i in range({n}):', 'range2': f'for i in range(1, {n}):', 'range3': f'for i in range(0, {n}, 1):',
             'neg': f'for i in range({n - 1}, 0, -1):'}[form]
      if form == 'range3' and n >= 4 and rng.random() < 0.5:
        # two interleaved loops with step 2
        s.feat('for:step2')
        body = [f'for i in range(0, {n}, 2):', f'  s.{nm}[i] @= {s.loop_rhs(w, srcs)}', f'for i in range(1, {n}, 2):', f'  s.{nm}[i] @= {s.loop_rhs(w, srcs)}']
      else:
        inner = [f's.{nm}[i] @= {s.loop_rhs(w, srcs)}']
        if rng.random() < 0.3:
          s.feat('tmpvar-in-loop')
          def mk():
            e = s.loop_rhs(w, srcs); t = s.new_tmp(w)
            return [f'{t} = {e}', f's.{nm}[i] @= ({t} {rng.choice(["+", "^", "-"])} {s.nonconst(w, 2)})']
          inner = s.scoped(mk)
        elif rng.random() < 0.3: inner = [f'if {s.cond()}:', f'  s.{nm}[i] @= {s.loop_rhs(w, srcs)}', 'else:', f'  s.{nm}[i] @= {s.expr(w)}']; s.feat('for-if')
        body = [hdr] + ['  ' + x for x in inner]
        if form in ('neg', 'range2'): body += s.assign_stmts(f's.{nm}[0]', w, '@=')
    s.comb_block(s.finish_tmp(body))
    for i in range(n): s.avail.append(Sig(f's.{nm}[{i}]', w))
    if n & (n - 1) == 0: s.lists.append((f's.{nm}', n, w))

  def loop_rhs(s, w, srcs):
    rng = s.rng
    if srcs and rng.random() < 0.6:
      t = rng.choice(srcs)[0]; s.feat('loop-index-read')
      return f'({t}[i] {rng.choice(["+", "^", "&", "-"])} {s.expr(w)})'
    return s.expr(w)

  def add_struct_unit(s):
    rng = s.rng
    T = rng.choice(s.structs)
    flat = all(ft[0] == 'bits' for _, ft in T.fields)
    kind = 'OutPort' if rng.random() < 0.6 else 'Wire'
    if s.ys_safe and not flat: kind = 'Wire'
    same = [x for x, TT in s.struct_sigs if TT is T]
    if s.ys_safe and not (flat or same): return
    t = s.decl_struct(kind, T)
    leaves_ok = not (s.ys_safe and kind == 'Wire')
    if rng.random() < 0.25 and same and not s.ys_safe:
      s.lines.append(f'{t} //= {rng.choice(same)}'); s.feat('connect-struct'); s.add_struct_avail(t, T); return
    s._tmp_added = []
    body = s.write_struct(t, T, '<<=' if False else '@=') if not s.ys_safe else s.write_struct_whole(t, T, same, flat)
    s.comb_block(s.finish_tmp(body))
    s.add_struct_avail(t, T, leaves_ok)

  def write_struct_whole(s, target, T, same, flat):
    if same and (s.rng.random() < 0.5 or not flat): s.feat('struct-copy'); return [f'{target} @= {s.rng.choice(same)}']
    s.feat('struct-inst')
    return [f'{target} @= {T.name}( ' + ', '.join(s.expr(ft[1]) for _, ft in T.fields) + ' )']


  # ------------------------------------------------------------------ arrays: families of equally shaped signals
  # A family is a format with one {} per dimension, e.g. 's.bank[{}].lane[{}].rsp' or 's.m3[{}][{}]', its dimensions
  # and the element width.  Target families are driven completely by a base statement (nested loops / partly or fully
  # unrolled, the loop variables and constants at every index position) and then partly overwritten by "rich" loops:
  # negative steps, steps that do not divide the range, ranges crossing a power of two, the loop variable used as index,
  # in index arithmetic, in arithmetic, inside explicit BitsN(i) casts, in comparisons and as shift amount.
  def fam_elems(s, fmt, dims):
    import itertools
    return [fmt.format(*ix) for ix in itertools.product(*[range(d) for d in dims])]

  def index_expr(s, d, lvs):
    """an index expression for a dimension of size d; lvs = [(name, values)] of the loop variables in scope"""
    rng = s.rng
    cands = []
    for n, vals in lvs:
      if all(0 <= v < d for v in vals): cands += [n, n]
      fits = all(0 <= v < d for v in vals)       # otherwise the type checker rejects the index width
      if fits and all(0 <= d - 1 - v < d for v in vals): cands.append(f'{d - 1} - {n}')
      if fits and all(0 <= v - 1 < d for v in vals): cands.append(f'{n} - 1')
      if fits and all(0 <= v + 1 < d for v in vals): cands.append(f'{n} + 1')
    if cands and rng.random() < 0.8: s.feat('index-by-loopvar'); return rng.choice(cands)
    return str(rng.randrange(d))

  def lv_term(s, w, lvs):
    """(text or None): a w-bit term that uses a loop variable as a VALUE"""
    rng = s.rng
    ok = [(n, vals) for n, vals in lvs if max(vals) < (1 << w) and min(vals) >= 0]
    if not ok: return None
    n, vals = rng.choice(ok)
    k = rng.random()
    base = s.nonconst(w, 2)
    if k < 0.38 and w <= 128: s.feat('loopvar:BitsN(i)'); return f'({base} {rng.choice(["^", "+", "-", "&", "|"])} Bits{w}( {n} ))'
    if k < 0.5: s.feat('loopvar:arith'); return f'({base} {rng.choice(["+", "-", "^", "|"])} {n})'
    if k < 0.65: s.feat('loopvar:shift'); return f'({base} {rng.choice(["<<", ">>"])} {n})'
    if k < 0.8 and w <= 128: s.feat('loopvar:BitsN(i)'); return f'(Bits{w}( {n} ) {rng.choice(["+", "^", "-"])} {base})'
    if k < 0.9:
      ow = rng.choice([x for x in (2, 3, 4, 5, 8, 16) if (1 << x) > max(vals)]); s.feat('loopvar:cmp')
      return f'zext( {s.nonconst(ow, 2)} {rng.choice(["<", "<=", ">", ">=", "==", "!="])} {n}, {w} )' if w > 1 else f'({s.nonconst(ow, 2)} {rng.choice(["<", ">=", "==", "!="])} {n})'
    s.feat('loopvar:arith'); return f'({n} {rng.choice(["+", "^", "|"])} {base})'

  def fam_rhs(s, w, lvs, srcs):
    """right-hand side for one element of a w-bit family; srcs = [(fmt, dims, w)] readable families"""
    rng = s.rng
    parts = []
    same = [f for f in srcs if f[2] == w]
    other = [f for f in srcs if f[2] != w]
    if same and rng.random() < 0.75:
      fmt, dims, _ = rng.choice(same); s.feat('family-read')
      parts.append(fmt.format(*[s.index_expr(d, lvs) for d in dims]))
    elif other and rng.random() < 0.5:
      fmt, dims, ow = rng.choice(other); s.feat('family-read')
      e = fmt.format(*[s.index_expr(d, lvs) for d in dims])
      parts.append(f'zext( {e}, {w} )' if ow < w else f'trunc( {e}, {w} )')
    if rng.random() < 0.6:
      t = s.lv_term(w, lvs)
      if t: parts.append(t)
    if not parts or rng.random() < 0.4: parts.append(s.nonconst(w, 1))
    e = parts[0]
    for q in parts[1:]: e = f'({e} {rng.choice(["+", "^", "-", "&", "|"])} {q})'
    return e

  def rich_range(s, d):
    """(header args, values) of a loop over a dimension of size d"""
    rng = s.rng
    for _ in range(20):
      if rng.random() < 0.45 and not s.ys_safe:
        a = rng.randrange(0, d); step = -rng.choice([1, 1, 2, 3]); b = rng.randrange(0, a + 1)
        args = (a, b, step)
        vv = list(range(*args))
        if vv and vv[-1] + step < 0 and not s.allow_wrap: continue      # `int unsigned` counter would wrap: known defect shape
        if vv and vv[-1] + step < 0: s.feat('for:negative-step-below-zero')
      else:
        a = rng.randrange(0, min(d, 3)); step = rng.choice([1, 2, 2, 3, 3, 5]); b = rng.randrange(a, d + 1)
        args = (a, b, step) if (step != 1 or rng.random() < 0.5) else ((a, b) if a else (b,))
      vals = list(range(*args))
      if vals: break
    else: args, vals = (d,), list(range(d))
    if len(args) == 3 and args[2] < 0: s.feat('for:negative-step')
    if len(args) == 3 and args[2] > 1: s.feat('for:step>1' + ('' if (args[1] - args[0]) % args[2] == 0 else ':non-dividing'))
    return ', '.join(map(str, args)), vals

  def drive_family(s, fmt, dims, w, srcs, op='@='):
    """statements (one update block body) that define every element of the family"""
    rng = s.rng
    names = ['i', 'j', 'k', 'm'][:len(dims)]
    body = []
    # ---- base: every element once
    form = rng.choice(['loops', 'loops', 'mixed', 'unrolled']) if len(dims) > 1 else rng.choice(['loops', 'loops', 'unrolled'])
    total = 1
    for d in dims: total *= d
    if form == 'unrolled' and total > 12: form = 'loops'
    if form == 'loops':
      lvs = [(n, list(range(d))) for n, d in zip(names, dims)]
      ind = ''
      for n, d in zip(names, dims): body.append(f'{ind}for {n} in range({d}):'); ind += '  '
      body.append(f'{ind}{fmt.format(*names)} {op} {s.fam_rhs(w, lvs, srcs)}')
      s.feat(f'family-{len(dims)}d:nested-loops')
    elif form == 'mixed':
      # loop over some dimensions, constants at the others
      looped = [rng.random() < 0.5 for _ in dims]
      if all(looped) or not any(looped): looped[rng.randrange(len(dims))] ^= True
      import itertools
      const_dims = [range(d) if not l else [None] for d, l in zip(dims, looped)]
      for cix in itertools.product(*const_dims):
        lvs = [(n, list(range(d))) for n, d, l in zip(names, dims, looped) if l]
        ind = ''
        for n, d, l in zip(names, dims, looped):
          if l: body.append(f'{ind}for {n} in range({d}):'); ind += '  '
        idx = [n if l else str(c) for n, l, c in zip(names, looped, cix)]
        body.append(f'{ind}{fmt.format(*idx)} {op} {s.fam_rhs(w, lvs, srcs)}')
      s.feat(f'family-{len(dims)}d:loops+constants')
    else:
      import itertools
      for ix in itertools.product(*[range(d) for d in dims]):
        body.append(f'{fmt.format(*ix)} {op} {s.fam_rhs(w, [], srcs)}')
      s.feat(f'family-{len(dims)}d:unrolled')
    # ---- overrides with rich loops (the last write of the block wins, in pymtl3 and in an always block alike)
    for _ in range(rng.choice([0, 1, 1, 2])):
      p = rng.randrange(len(dims))
      hdr, vals = s.rich_range(dims[p])
      lvs = [(names[p], vals)]
      ind = '  '
      body.append(f'for {names[p]} in range( {hdr} ):')
      idx = []
      for q, d in enumerate(dims):
        if q == p: idx.append(names[p])
        elif rng.random() < 0.4 and len(dims) > 1:
          body.append(f'{ind}for {names[q]} in range({d}):'); ind += '  '; lvs.append((names[q], list(range(d)))); idx.append(names[q])
        else: idx.append(str(rng.randrange(d)))
      tgt = fmt.format(*idx)
      if rng.random() < 0.4:
        kk = rng.choice(vals); s.feat('loopvar:if-cmp')
        body.append(f'{ind}if {names[p]} {rng.choice([">", "<", ">=", "==", "!="])} {kk}:')
        body.append(f'{ind}  {tgt} {op} {s.fam_rhs(w, lvs, srcs)}')
        if rng.random() < 0.5: body += [f'{ind}else:', f'{ind}  {tgt} {op} {s.fam_rhs(w, lvs, srcs)}']
      else:
        body.append(f'{ind}{tgt} {op} {s.fam_rhs(w, lvs, srcs)}')
      # index arithmetic on the target: neighbour element, when it stays in range
      if rng.random() < 0.3 and all(0 <= v - 1 < dims[p] for v in vals):
        idx2 = list(idx); idx2[p] = f'{names[p]} - 1'; s.feat('index-arith-target')
        body.append(f'{ind}{fmt.format(*idx2)} {op} {s.fam_rhs(w, lvs, srcs)}')
    return body

  def add_array_unit(s):
    """multi-dimensional lists of ports / wires (1-3 dimensions)"""
    rng = s.rng
    nd = rng.choice([1, 2, 2, 2, 3]) if s.depth == 0 else 1
    dims = [rng.choice([2, 3, 4, 5, 7, 8, 9, 11, 16, 17]) if nd == 1 else rng.choice([2, 2, 3, 4, 5]) for _ in range(nd)]
    while len(dims) > 1 and __import__('math').prod(dims) > 24: dims[dims.index(max(dims))] -= 1
    w = rng.choice([1, 4, 5, 8, 8, 16, 32, 33])
    def ctor(kind, w, dims):
      e = f'{kind}( {w} )'
      for d in reversed(dims): e = f'[ {e} for _ in range({d}) ]'
      return e
    srcs = list(s.fams)
    if s.depth == 0 and rng.random() < 0.7:
      nm = s.name_sig('mi'); sw = w if rng.random() < 0.7 else rng.choice([4, 8, 16])
      s.lines.append(f's.{nm} = {ctor("InPort", sw, dims)}')
      fam = (f's.{nm}' + '[{}]' * nd, list(dims), sw); s.fams.append(fam); srcs.append(fam)
      for e in s.fam_elems(fam[0], dims): s.avail.append(Sig(e, sw))
    kind = 'OutPort' if (rng.random() < 0.55 and s.depth == 0) else 'Wire'
    nm = s.name_sig('mo' if kind == 'OutPort' else 'mw')
    s.lines.append(f's.{nm} = {ctor(kind, w, dims)}')
    fmt = f's.{nm}' + '[{}]' * nd
    s.feat(f'array-{nd}d')
    s._tmp_added = []
    s.comb_block(s.finish_tmp(s.drive_family(fmt, dims, w, srcs)))
    s.fams.append((fmt, list(dims), w))
    for e in s.fam_elems(fmt, dims): s.avail.append(Sig(e, w))
    if nd == 1 and dims[0] & (dims[0] - 1) == 0: s.lists.append((f's.{nm}', dims[0], w))

  def add_varslice_unit(s):
    """variable part selects  x[ e : e + N ]  whose offset e is an element of a port list (constant or loop-variable index),
    a slice or a bit of a signal, a struct field, an element of a packed array field, or such a thing plus a constant.
    pymtl3 raises IndexError when e + N leaves x (and e + N is computed in the width of e), so the ports that feed e are
    dedicated inputs whose values the stimulus keeps small enough (s.limits)."""
    rng = s.rng
    W = rng.choice([2, 8, 12, 16, 16, 24, 32, 33, 64])
    we = clog2(W)
    N = 1 if W == 2 else rng.choice([n for n in (1, 2, 3, 4, 8) if n < W])
    cmax = 0 if W == 2 else rng.choice([0, 0, 1, 2])
    emax = min(W - N, (1 << we) - 1 - N) - cmax
    if emax < 0: return
    x = s.decl('InPort', W); s.avail.append(Sig(x, W))
    offs = []      # offset expressions
    kinds = rng.sample(['list', 'slice', 'bit', 'struct'], rng.randrange(1, 4))
    loop_list = None
    for kd in kinds:
      if kd == 'list':
        n = rng.choice([2, 3, 4]); nm = s.name_sig('vo')
        s.lines.append(f's.{nm} = [ InPort( {we} ) for _ in range({n}) ]'); s.limits.append((rf's\.{nm}\[', emax + 1))
        offs += [f's.{nm}[{i}]' for i in range(n)]; loop_list = (f's.{nm}', n); s.feat('varslice:offset-list-element')
      elif kd == 'slice':
        nm = s.name_sig('vb'); lo = rng.randrange(0, 4)
        s.lines.append(f's.{nm} = InPort( {we + 5} )'); s.limits.append((rf's\.{nm}$', [(lo, we, emax + 1)]))
        offs.append(f's.{nm}[{lo}:{lo + we}]'); s.feat('varslice:offset-slice')
      elif kd == 'bit' and we == 1:
        nm = s.name_sig('vb'); k = rng.randrange(0, 4)
        s.lines.append(f's.{nm} = InPort( 4 )'); s.limits.append((rf's\.{nm}$', [(k, 1, emax + 1)]))
        offs.append(f's.{nm}[{k}]'); s.feat('varslice:offset-bit')
      elif kd == 'struct':
        tn = f'Vs{s.uid}_{s.nsig}'; na = rng.choice([1, 2, 3])
        s.pre += ['@bitstruct', f'class {tn}:', f'  off: Bits{we}', f'  arr: [ ' + ', '.join([f'Bits{we}'] * na) + ' ]', '  pad: Bits3']
        nm = s.name_sig('vs'); s.lines.append(f's.{nm} = InPort( {tn} )')
        # layout: off | arr[na-1] ... arr[0] | pad      (first field most significant, element 0 least significant)
        s.limits.append((rf's\.{nm}$', [(3 + na * we, we, emax + 1)] + [(3 + j * we, we, emax + 1) for j in range(na)]))
        offs += [f's.{nm}.off'] + [f's.{nm}.arr[{j}]' for j in range(na)]; s.feat('varslice:offset-struct-field'); s.feat('varslice:offset-packed-array-element')
    if not offs: return
    m = len(offs) + (1 if loop_list else 0)
    on = s.name_sig('vy'); s.lines.append(f's.{on} = [ OutPort( {N} ) for _ in range({m}) ]')
    body = []
    for k, e in enumerate(offs):
      c = rng.randrange(0, cmax + 1)
      if c and rng.random() < 0.6: e = f'{e} + {c}'; s.feat('varslice:offset-arith')
      sel = f'{x}[ {e} : {e} + {N} ]'
      if N > 1 and rng.random() < 0.3:
        q = rng.randrange(1, N); s.feat('varslice:trunc'); sel = f'zext( trunc( {sel}, {q} ), {N} )'
      elif N > 1 and s.allow_sext_expr and rng.random() < 0.5:
        q = rng.randrange(1, N); s.feat('varslice:sext'); sel = f'trunc( sext( {sel}, {N + q} ), {N} )'
      body.append(f's.{on}[{k}] @= {sel}')
    if loop_list:
      t, n = loop_list
      # the last output collects the selections of all list elements, indexed by the loop variable
      s.ntmp += 1; acc = f't{s.ntmp}'
      body.append(f'{acc} = Bits{N}( 0 )')
      body += [f'for i in range({n}):', f'  {acc} = {acc} ^ {x}[ {t}[i] : {t}[i] + {N} ]', f's.{on}[{m - 1}] @= {acc}']
      s.feat('tmpvar-accumulated-in-loop')
      s.feat('varslice:offset-list-element-loopvar')
    s.comb_block(body)
    for k in range(m): s.avail.append(Sig(f's.{on}[{k}]', N))

  def add_ifc_tree(s):
    """interfaces nested in (lists of) interfaces, 1-3 levels, every output member driven from an update block"""
    rng = s.rng
    # (every 3-level nesting of interfaces makes VStructuralTranslatorL3 raise TypeError: rarely generated, counted as rejected)
    depth = (3 if rng.random() < 0.04 else rng.choice([1, 2, 2, 2])) if not s.ys_safe else 1
    u = s.uid
    # innermost interface: ports only
    members = {}     # class name -> [(member path fmt, dims, kind, w)]
    prev = None
    # containers from the outside in: s.bank, then .sub of each level
    is_list = [rng.random() < 0.75 for c in range(depth)]     # is_list[0] = s.bank, is_list[c] = .sub of level depth-c
    for lvl in range(depth):
      cn = f'Ifc{u}_{lvl}'
      L = [f'class {cn}( Interface ):', '  def construct( s ):']
      mem = []
      for k in range(rng.randrange(1, 3)):
        w = rng.choice([1, 2, 4, 8, 8, 16]); L.append(f'    s.d{k} = InPort( {w} )'); mem.append((f'.d{k}', [], 'in', w))
      for k in range(rng.randrange(1, 3)):
        w = rng.choice([1, 4, 8, 8, 16]); L.append(f'    s.q{k} = OutPort( {w} )'); mem.append((f'.q{k}', [], 'out', w))
      if prev is not None:
        if is_list[depth - lvl]:
          n = rng.choice([1, 2, 3, 3, 4]); L.append(f'    s.sub = [ {prev}() for _ in range({n}) ]')
          mem += [('.sub[{}]' + f, [n] + d, k, w) for f, d, k, w in members[prev]]
        else:
          L.append(f'    s.sub = {prev}()'); mem += [('.sub' + f, d, k, w) for f, d, k, w in members[prev]]
      members[cn] = mem; prev = cn
      s.pre += L
    if is_list[0]:
      n = rng.choice([2, 2, 3, 4]); s.lines.append(f's.bank = [ {prev}() for _ in range({n}) ]')
      fams = [('s.bank[{}]' + f, [n] + d, k, w) for f, d, k, w in members[prev]]
    else:
      s.lines.append(f's.bank = {prev}()'); fams = [('s.bank' + f, d, k, w) for f, d, k, w in members[prev]]
    s.feat(f'interface-tree:{depth}-levels')
    if any(len(d) >= 2 for _, d, _, _ in fams): s.feat('nested-interface-array')
    srcs = []
    for f, d, k, w in fams:
      if k == 'in':
        if d: srcs.append((f, d, w)); s.fams.append((f, d, w))
        for e in (s.fam_elems(f, d) if d else [f]): s.avail.append(Sig(e, w))
    for f, d, k, w in fams:
      if k != 'out': continue
      s._tmp_added = []
      if d: body = s.drive_family(f, d, w, srcs + [x for x in s.fams if x not in srcs])
      else: body = s.assign_stmts(f, w, '@=')
      s.comb_block(s.finish_tmp(body))
    for f, d, k, w in fams:
      if k == 'out':
        for e in (s.fam_elems(f, d) if d else [f]): s.avail.append(Sig(e, w))


  # ------------------------------------------------------------------ arrays of struct-typed ports / wires
  def add_struct_array_unit(s):
    """1-D / 2-D lists of ports (and a wire list) of a bitstruct type that has list fields whose length differs from the
    length of the enclosing list, read element by element (constant indices and loop variables at every position) and
    passed on to a sub-component that has the same list of struct ports"""
    rng = s.rng
    nleaf = lambda T: len(leaves('', ('struct', T)))
    lists_ok = [T for T in s.structs if any(ft[0] == 'list' for _, ft in T.fields) and nleaf(T) <= 8]
    if lists_ok and rng.random() < 0.5: T = rng.choice(lists_ok)
    else:
      # a small record of its own: a vector, a list of vectors, sometimes a list of small structs
      name = f'Rec{s.uid}_{s.nsig}'
      fields = [('a', ('bits', rng.choice([1, 3, 4, 8]))), ('b', ('list', rng.choice([2, 3, 3, 4]), ('bits', rng.choice([1, 2, 3, 8]))))]
      small = [X for X in s.structs if nleaf(X) <= 2]
      if small and rng.random() < 0.5: fields.append(('c', ('list', rng.choice([1, 2, 3]), ('struct', rng.choice(small)))))
      rng.shuffle(fields)
      T = StructT(name, fields)
      s.pre += ['@bitstruct', f'class {name}:'] + [f'  {n}: {ft_text(ft)}' for n, ft in fields]
      s.structs.append(T); s.feat('struct'); s.feat('struct-list-field')
    inner = [ft[1] for _, ft in T.fields if ft[0] == 'list']
    nd = 1 if rng.random() < 0.75 else 2
    def size(): return rng.choice([x for x in (1, 2, 3, 4) if x not in inner] or [2])
    dims = [size() for _ in range(nd)]
    while __import__('math').prod(dims) * nleaf(T) > 30 and max(dims) > 1: dims[dims.index(max(dims))] -= 1
    def ctor(kind):
      e = f'{kind}( {T.name} )'
      for d in reversed(dims): e = f'[ {e} for _ in range({d}) ]'
      return e
    nm = s.name_sig('sa'); s.lines.append(f's.{nm} = {ctor("InPort")}')
    s.feat(f'struct-port-array-{nd}d')
    import itertools
    elems = [f's.{nm}' + ''.join(f'[{i}]' for i in ix) for ix in itertools.product(*[range(d) for d in dims])]
    lv = []
    for e in elems:
      s.struct_sigs.append((e, T))
      for t, w in leaves(e, ('struct', T)): s.avail.append(Sig(t, w, net_ok=False)); lv.append((t, w))
    # one output per leaf position of the struct: the XOR over the enclosing list of that leaf, once with constants
    # everywhere and once with loop variables for the enclosing dimensions
    leafs = leaves('', ('struct', T))
    on = s.name_sig('sr'); body = []
    outs = []
    for k, (suffix, w) in enumerate(leafs[:6]):
      o = s.decl('OutPort' if rng.random() < 0.7 else 'Wire', w); outs.append((o, w))
      if rng.random() < 0.5:
        body.append(f'{o} @= ' + ' ^ '.join(f'{e}{suffix}' for e in elems))
      else:
        s.ntmp += 1; acc = f't{s.ntmp}'; names = ['i', 'j'][:nd]
        body.append(f'{acc} = Bits{w}( 0 )')
        ind = ''
        for n_, d in zip(names, dims): body.append(f'{ind}for {n_} in range({d}):'); ind += '  '
        body.append(f'{ind}{acc} = {acc} ^ s.{nm}' + ''.join(f'[{n_}]' for n_ in names) + suffix)
        body.append(f'{o} @= {acc}'); s.feat('struct-port-array:loopvar-index')
    s.comb_block(body)
    for o, w in outs: s.avail.append(Sig(o, w))
    # a wire list of the same shape, connected element by element, and a sub-component with such ports
    if rng.random() < 0.5:
      wn = s.name_sig('sq'); s.lines.append(f's.{wn} = {ctor("Wire")}')
      for ix in itertools.product(*[range(d) for d in dims]):
        sel = ''.join(f'[{i}]' for i in ix); s.lines.append(f's.{wn}{sel} //= s.{nm}{sel}')
      s.feat('struct-wire-array')
      src = wn
    else: src = nm
    if rng.random() < 0.5 and s.depth == 0:
      cn = f'SubRec{s.uid}_{s.nsig}'; leaf = rng.choice(leafs); ix0 = ''.join(f'[{rng.randrange(d)}]' for d in dims); ix1 = ''.join(f'[{d - 1}]' for d in dims)
      s.pre += [f'class {cn}( Component ):', '  def construct( s ):', f'    s.in_ = {ctor("InPort")}', f'    s.out = OutPort( {leaf[1]} )',
                '    @update', '    def up_rec():', f'      s.out @= s.in_{ix0}{leaf[0]} ^ s.in_{ix1}{leaf[0]}']
      ci = s.name_sig('cr'); s.lines.append(f's.{ci} = {cn}()')
      for ix in itertools.product(*[range(d) for d in dims]):
        sel = ''.join(f'[{i}]' for i in ix); s.lines.append(f's.{ci}.in_{sel} //= s.{src}{sel}')
      s.avail.append(Sig(f's.{ci}.out', leaf[1])); s.feat('struct-port-array:subcomponent')

  # ------------------------------------------------------------------ structural hierarchy: arrays of components / interfaces / ports
  def add_structural_unit(s):
    """a generated sub-component (single or in a list) with port arrays (BitsN / struct-typed), an array of interfaces
    whose ports are arrays and scalars in every name order, optionally a nested interface mixing array and scalar members;
    everything of unequal lengths.  The parent connects every child port structurally, element by element, with a further
    select after the array index (struct field / packed index / slice) on either side, and exposes the results."""
    rng = s.rng
    u = f'{s.uid}_{s.nsig}'
    P = rng.choice([1, 2, 3]); K = rng.choice([x for x in (1, 2, 3) if x != P]); single = rng.random() < 0.25
    if single: K = 1
    w = rng.choice([4, 8, 8, 16])
    # a small struct with a vector field, a second vector and (sometimes) a packed array field
    use_struct = rng.random() < 0.6 and not s.ys_safe      # struct-typed ports of sub-components hit the known Yosys struct-form defects
    sn = f'LP{u}'
    sfields = [('hi', ('bits', rng.choice([4, 8]))), ('lo', ('bits', rng.choice([2, 4])))]
    if rng.random() < 0.5: sfields.insert(rng.randrange(3), ('vv', ('list', rng.choice([2, 3]), ('bits', rng.choice([2, 4])))))
    if use_struct:
      s.pre += ['@bitstruct', f'class {sn}:'] + [f'  {n}: {ft_text(ft)}' for n, ft in sfields]
      ST = StructT(sn, sfields); s.feat('structural:struct-port-array')
    # interface with port arrays and scalars; member names chosen so that every sorted order occurs
    use_ifc = rng.random() < 0.65
    L = rng.choice([x for x in (1, 2, 3) if x != K] or [2]); J = rng.choice([x for x in (1, 2) if x != L] or [2])
    # member names with random first letters: members are visited sorted by name, so every order of array / scalar occurs
    pf = [rng.choice('abmz') for _ in range(4)]
    sc_in, sc_out, ar_in, ar_out = f'{pf[0]}_tin', f'{pf[1]}_tout', f'{pf[2]}_req', f'{pf[3]}_resp'
    scalar_too = rng.random() < 0.7
    nested = use_ifc and s.yosys and rng.random() < 0.65
    if use_ifc:
      inner = [f'class CI{u}( Interface ):', '  def construct( s ):',
               f'    s.{ar_in} = [ InPort( {w} ) for _ in range({L}) ]', f'    s.{ar_out} = [ OutPort( {w} ) for _ in range({L}) ]']
      if scalar_too: inner += [f'    s.{sc_in} = InPort( {w} )', f'    s.{sc_out} = OutPort( {w} )']
      s.pre += inner
      if nested:
        s.pre += [f'class CO{u}( Interface ):', '  def construct( s ):', f'    s.bundle = CI{u}()', '    s.sel_in = InPort( 4 )', '    s.sel_out = OutPort( 4 )']
        s.feat('structural:nested-interface-with-port-arrays')
      s.feat('structural:interface-array-with-port-arrays')
    ifc_cls = f'CO{u}' if nested else f'CI{u}'
    ifc_list = use_ifc and not nested and rng.random() < 0.8      # nested interfaces stay single (arrays of them are a known Yosys defect)
    T = sn if use_struct else str(w)
    cl = [f'class Lane{u}( Component ):', '  def construct( s ):',
          f'    s.in_ = [ InPort( {T} ) for _ in range({P}) ]', f'    s.out = [ OutPort( {T} ) for _ in range({P}) ]',
          f'    s.raw_in = [ InPort( {w} ) for _ in range({P}) ]', f'    s.raw_out = [ OutPort( {w} ) for _ in range({P}) ]']
    rot = rng.randrange(P)
    cl += [f'    for i in range({P}):', f'      s.out[i] //= s.in_[ (i + {rot}) % {P} ]']
    if rng.random() < 0.5: cl += [f'      s.raw_out[i] //= s.raw_in[i]']
    else: cl += ['    @update', '    def up_lane():', f'      for i in range({P}):', f'        s.raw_out[i] @= s.raw_in[ {P - 1} - i ] + {rng.randrange(1, 9)}']
    if use_ifc:
      pre_ = 's.port[j]' if ifc_list else 's.port'
      mem = '.bundle' if nested else ''
      cl.append(f'    s.port = [ {ifc_cls}() for _ in range({J}) ]' if ifc_list else f'    s.port = {ifc_cls}()')
      body = [f'for i in range({L}):', f'  {pre_}{mem}.{ar_out}[i] //= {pre_}{mem}.{ar_in}[ (i + 1) % {L} ]']
      if scalar_too: body.append(f'{pre_}{mem}.{sc_out} //= {pre_}{mem}.{sc_in}')
      if nested: body.append(f'{pre_}.sel_out //= {pre_}.sel_in')
      if ifc_list: cl += [f'    for j in range({J}):'] + ['      ' + b for b in body]
      else: cl += ['    ' + b for b in body]
    s.pre += cl
    ln = s.name_sig('ln')
    s.lines.append(f's.{ln} = Lane{u}()' if single else f's.{ln} = [ Lane{u}() for _ in range({K}) ]')
    s.feat('structural:component-' + ('single' if single else 'array'))
    n = K * P
    def child(k): return f's.{ln}' if single else f's.{ln}[{k}]'
    # ---- parent side: inputs
    if use_struct:
      fieldwise_in = rng.random() < 0.4
      if fieldwise_in:
        s.feat('structural:select-after-index:writer-side')
        srcs = {}
        for fn, ft in sfields:
          if ft[0] == 'bits':
            nm = s.name_sig('xi'); s.lines.append(f's.{nm} = [ InPort( {ft[1]} ) for _ in range({n}) ]'); srcs[fn] = nm
          else:
            nm = s.name_sig('xi'); s.lines.append(f's.{nm} = [ InPort( {ft[2][1]} ) for _ in range({n * ft[1]}) ]'); srcs[fn] = nm
      else:
        sin = s.name_sig('xs'); s.lines.append(f's.{sin} = [ InPort( {sn} ) for _ in range({n}) ]')
    else:
      sin = s.name_sig('xs'); s.lines.append(f's.{sin} = [ InPort( {w} ) for _ in range({n}) ]')
    rin = s.name_sig('xr'); s.lines.append(f's.{rin} = [ InPort( {w} ) for _ in range({n}) ]')
    for k in range(K):
      for i in range(P):
        q = k * P + i
        if use_struct and fieldwise_in:
          for fn, ft in sfields:
            if ft[0] == 'bits': s.lines.append(f'{child(k)}.in_[{i}].{fn} //= s.{srcs[fn]}[{q}]')
            else:
              for e in range(ft[1]): s.lines.append(f'{child(k)}.in_[{i}].{fn}[{e}] //= s.{srcs[fn]}[{q * ft[1] + e}]')
        else: s.lines.append(f'{child(k)}.in_[{i}] //= s.{sin}[{q}]')
        s.lines.append(f'{child(k)}.raw_in[{i}] //= s.{rin}[{q}]')
    # ---- parent side: outputs, whole and with one more select after the array index
    outs = []
    def out_list(width, count, tag):
      nm = s.name_sig('xo'); s.lines.append(f's.{nm} = [ OutPort( {width} ) for _ in range({count}) ]'); outs.append((nm, width, count)); return nm
    whole = out_list(T, n, 'whole') if rng.random() < 0.7 else None
    fsel = []
    if use_struct:
      for fn, ft in sfields:
        if rng.random() < 0.7:
          if ft[0] == 'bits': fsel.append((fn, ft[1], out_list(ft[1], n, fn), None)); s.feat('structural:select-after-index:field')
          else: fsel.append((fn, ft[2][1], out_list(ft[2][1], n, fn), rng.randrange(ft[1]))); s.feat('structural:select-after-index:packed-index')
    a = rng.randrange(0, w - 1); b = rng.randrange(a + 1, w + 1)
    nib = out_list(b - a, n, 'slice') if rng.random() < 0.7 else None
    if nib: s.feat('structural:select-after-index:slice')
    rawo = out_list(w, n, 'raw') if (nib is None or rng.random() < 0.5) else None
    for k in range(K):
      for i in range(P):
        q = k * P + i
        if whole: s.lines.append(f's.{whole}[{q}] //= {child(k)}.out[{i}]')
        for fn, fw, nm, e in fsel:
          s.lines.append(f's.{nm}[{q}] //= {child(k)}.out[{i}].{fn}' + (f'[{e}]' if e is not None else ''))
        if nib: s.lines.append(f's.{nib}[{q}] //= {child(k)}.raw_out[{i}][{a}:{b}]')
        if rawo: s.lines.append(f's.{rawo}[{q}] //= {child(k)}.raw_out[{i}]')
    # ---- the interfaces of the child
    if use_ifc:
      JJ = J if ifc_list else 1
      tot = K * JJ * L
      pin = s.name_sig('xp'); s.lines.append(f's.{pin} = [ InPort( {w} ) for _ in range({tot}) ]')
      pout = out_list(w, tot, 'ifc')
      sl = rng.random() < 0.4
      pout2 = out_list(b - a, tot, 'ifc-slice') if sl else None
      if scalar_too:
        tin = s.name_sig('xt'); s.lines.append(f's.{tin} = [ InPort( {w} ) for _ in range({K * JJ}) ]'); tout = out_list(w, K * JJ, 'ifc-scalar')
      if nested:
        nin = s.name_sig('xn'); s.lines.append(f's.{nin} = [ InPort( 4 ) for _ in range({K * JJ}) ]'); nout = out_list(4, K * JJ, 'ifc-sel')
      mem = '.bundle' if nested else ''
      for k in range(K):
        for j in range(JJ):
          pj = f'{child(k)}.port[{j}]' if ifc_list else f'{child(k)}.port'
          for i in range(L):
            q = (k * JJ + j) * L + i
            s.lines.append(f'{pj}{mem}.{ar_in}[{i}] //= s.{pin}[{q}]')
            s.lines.append(f's.{pout}[{q}] //= {pj}{mem}.{ar_out}[{i}]')
            if pout2: s.lines.append(f's.{pout2}[{q}] //= {pj}{mem}.{ar_out}[{i}][{a}:{b}]')
          if scalar_too:
            s.lines.append(f'{pj}{mem}.{sc_in} //= s.{tin}[{k * JJ + j}]'); s.lines.append(f's.{tout}[{k * JJ + j}] //= {pj}{mem}.{sc_out}')
          if nested:
            s.lines.append(f'{pj}.sel_in //= s.{nin}[{k * JJ + j}]'); s.lines.append(f's.{nout}[{k * JJ + j}] //= {pj}.sel_out')
    for nm, width, count in outs:
      if isinstance(width, int):
        for q in range(count): s.avail.append(Sig(f's.{nm}[{q}]', width))
    # ---- the same kind of interface on the top component itself
    if use_ifc and rng.random() < 0.4:
      tn = s.name_sig('tp'); JT = rng.choice([x for x in (1, 2, 3) if x != L] or [2])
      tl = not nested and rng.random() < 0.8
      s.lines.append(f's.{tn} = [ {ifc_cls}() for _ in range({JT}) ]' if tl else f's.{tn} = {ifc_cls}()')
      mem = '.bundle' if nested else ''
      for j in range(JT if tl else 1):
        pj = f's.{tn}[{j}]' if tl else f's.{tn}'
        for i in range(L): s.lines.append(f'{pj}{mem}.{ar_out}[{i}] //= {pj}{mem}.{ar_in}[{(i + 1) % L}]')
        if scalar_too: s.lines.append(f'{pj}{mem}.{sc_out} //= {pj}{mem}.{sc_in}')
        if nested: s.lines.append(f'{pj}.sel_out //= {pj}.sel_in')
      s.feat('structural:top-interface-with-port-arrays')

  # ------------------------------------------------------------------ blocks created in a python loop, constant tables
  def add_lambda_bank(s):
    """several update blocks of ONE component made by a python for-loop (`//= lambda:`), each with its own value of the
    loop variable, reading constant tables indexed by it: a module-level list of ints, a closure list of ints, a closure
    list of Bits, a list of Bits stored on the component (s.tab[i]); the loop variable also as int and as signal-list index"""
    rng = s.rng
    n = rng.choice([2, 3, 4, 4, 5]); w = rng.choice([2, 4, 8, 8, 16, 32, 33])
    lim = (1 << w) - 1
    def vals(): return [rng.choice([rng.randrange(0, lim + 1), rng.randrange(0, min(lim, 40) + 1), lim, lim >> 1]) for _ in range(n)]
    tabs = []
    for kd in rng.sample(['global-int', 'closure-int', 'closure-bits', 'attr-bits'], rng.randrange(1, 4)):
      k = s.name_sig('')
      v = vals()
      if len(set(v)) == 1: v[-1] = (v[-1] + 1) & lim
      if kd == 'global-int': nm = f'TG{s.uid}_{k}'; s.pre.append(f'{nm} = {v}')
      elif kd == 'closure-int': nm = f'TC{k}'; s.head.append(f'{nm} = {v}')
      elif kd == 'closure-bits': nm = f'KL{k}'; s.head.append(f'{nm} = [ ' + ', '.join(f'Bits{w}( {x} )' for x in v) + ' ]')
      else: nm = f's.tab{k}'; s.lines.append(f'{nm} = [ ' + ', '.join(f'Bits{w}( {x} )' for x in v) + ' ]')
      tabs.append(nm); s.feat('table:' + kd)
    outs = []
    for _ in tabs:
      kind = 'OutPort' if (rng.random() < 0.5 and s.depth == 0) else 'Wire'
      nm = s.name_sig('lb'); s.lines.append(f's.{nm} = [ {kind}( {w} ) for _ in range({n}) ]'); outs.append(nm)
    lsts = [l for l in s.lists if l[2] == w and l[1] >= n]
    s.lines.append(f'for i in range({n}):')
    for nm, tab in zip(outs, tabs):
      a = s.nonconst(w, 1)
      if lsts and rng.random() < 0.4: a = f'{rng.choice(lsts)[0]}[i]'; s.feat('lambda:signal-list[i]')
      e = f'({a} {rng.choice(["+", "^", "-", "|", "&"])} {tab}[i])'
      if rng.random() < 0.3 and n - 1 <= lim: e = f'({e} {rng.choice(["+", "^"])} i)'; s.feat('lambda:loopvar-int')
      s.lines.append(f'  s.{nm}[i] //= lambda: {e}')
    s.feat('lambda-bank')
    if rng.random() < 0.4:
      # a second loop over the same tables with another index mapping (same text TAB[i], other values per target)
      nm2 = s.name_sig('lb'); s.lines.append(f's.{nm2} = [ Wire( {w} ) for _ in range({n}) ]')
      s.lines += [f'for i in range({n}):', f'  s.{nm2}[{n - 1} - i] //= lambda: ({s.nonconst(w, 1)} {rng.choice(["+", "^"])} {rng.choice(tabs)}[i])']
      outs.append(nm2); s.feat('lambda-bank:second-loop')
    for nm in outs:
      for i in range(n): s.avail.append(Sig(f's.{nm}[{i}]', w))
      if n & (n - 1) == 0: s.lists.append((f's.{nm}', n, w))

  def const_inst(s, ft):
    """python text of a constant of field type ft"""
    rng = s.rng
    if ft[0] == 'bits':
      v = rng.randrange(0, 1 << min(ft[1], 16))
      return str(v) if rng.random() < 0.5 else f'Bits{ft[1]}( {v} )'
    if ft[0] == 'struct': return f'{ft[1].name}( ' + ', '.join(s.const_inst(f) for _, f in ft[1].fields) + ' )'
    return '[ ' + ', '.join(s.const_inst(ft[2]) if ft[2][0] != 'bits' else f'Bits{ft[2][1]}( {rng.randrange(0, 1 << min(ft[2][1], 16))} )' for _ in range(ft[1])) + ' ]'

  def add_const_struct_connect(s):
    """structural connection whose writer is a CONSTANT bitstruct (nested struct / packed array of struct / packed array
    of BitsN fields), followed by further structural connections in the same component"""
    rng = s.rng
    if not s.structs or rng.random() < 0.6:
      if not s.structs: s.mk_struct()
      T = s.mk_struct(force=rng.choice(['struct', 'list-of-bits', 'list-of-struct', 'list-of-struct']))
    else: T = rng.choice(s.structs)
    flat = all(ft[0] == 'bits' for _, ft in T.fields)
    kind = 'OutPort' if (rng.random() < 0.5 and s.depth == 0 and (flat or not s.ys_safe)) else 'Wire'
    t = s.decl_struct(kind, T)
    s.lines.append(f'{t} //= {s.const_inst(("struct", T))}')
    s.feat('connect-const-struct')
    if any(ft[0] == 'list' and ft[2][0] == 'struct' for _, ft in T.fields): s.feat('connect-const-struct:array-of-struct')
    s.add_struct_avail(t, T, leaves_ok=not (s.ys_safe and kind == 'Wire'))
    for _ in range(rng.randrange(1, 3)): s.add_connect_unit()

  # ------------------------------------------------------------------ source
  def class_source(s):
    out = []
    for c in s.children: out += c.class_source()
    out += s.pre
    out.append(f'class {s.name}( Component ):')
    out.append('  def construct( s ):')
    out += ['    ' + l for l in s.head + s.lines]
    return out
  def all_features(s):
    f = set(s.features)
    for c in s.children: f |= c.all_features()
    return f
  def source(s):
    return PREAMBLE + '\n'.join(s.class_source()) + '\n'

# ---------------------------------------------------------------------- directed minimal designs for the F4 shape
def directed_const_designs():
  """(name, source, key): a w-bit input combined with a closure-constant sub-expression whose operand needs more bits
  than w while the folded value fits"""
  out = []
  cases = [
    ('cmp-shr', 2, 'n = 6', 's.out @= s.in_ < (n >> 1)', 1, '>>'),
    ('cmp-mod', 2, 'n = 7', 's.out @= s.in_ == (n % 4)', 1, '%'),
    ('cmp-sub', 2, 'n = 9', 's.out @= s.in_ >= (n - 7)', 1, '-'),
    ('cmp-and', 2, 'n = 14', 's.out @= s.in_ != (n & 3)', 1, '&'),
    ('cmp-div', 2, 'n = 12', 's.out @= s.in_ <= (n / 4)', 1, '/'),
    ('add-shr', 3, 'n = 22', 's.out @= s.in_ + (n >> 2)', 3, '>>'),
    ('add-mod', 3, 'n = 13', 's.out @= s.in_ + (n % 8)', 3, '%'),
    ('shl-shr', 4, 'n = 38', 's.out @= s.in_ << (n >> 4)', 4, '>>'),
    ('shr-mod', 4, 'n = 19', 's.out @= s.in_ >> (n % 4)', 4, '%'),
    ('bits-shr', 2, 'n = 6', 's.out @= s.in_ ^ Bits2( n >> 1 )', 2, '>>'),
    ('cmp-sub-lit', 1, 'n = 2', 's.out @= s.in_ < (n - 1)', 1, '-'),
    ('cmp-nested', 2, 'n = 29', 's.out @= s.in_ < ((n - 5) >> 3)', 1, 'nested'),
    ('sub-fits', 4, 'n = 6', 's.out @= s.in_ + (n >> 1)', 4, '>>'),      # control: nothing is narrowed (6 fits 4 bits)
  ]
  for name, w, const, stmt, ow, op in cases:
    cls = 'D_' + name.replace('-', '_')
    src = f'''from pymtl3 import *
class {cls}( Component ):
  def construct( s ):
    {const}
    s.in_ = InPort( {w} )
    s.out = OutPort( {ow} )
    @update
    def up():
      {stmt}
'''
    out.append((cls, src, op))
  return out

DPT = '''from pymtl3 import *
@bitstruct
class DPt:
  a: Bits8
  b: Bits4
@bitstruct
class DNest:
  p: DPt
  c: Bits4
@bitstruct
class DVec:
  v: [ Bits4, Bits4, Bits4 ]
  t: Bits2
@bitstruct
class DRec:
  a: Bits4
  b: [ Bits3, Bits3, Bits3 ]
@bitstruct
class DPt3:
  x: Bits3
  y: Bits5
@bitstruct
class DPoly:
  tag: Bits2
  pts: [ DPt3, DPt3 ]
  last: DPt3
class DBundle( Interface ):
  def construct( s ):
    s.lane_in = [ InPort( 8 ) for _ in range(3) ]; s.lane_out = [ OutPort( 8 ) for _ in range(3) ]
    s.tag_in = InPort( 8 ); s.tag_out = OutPort( 8 )
class DChannel( Interface ):
  def construct( s ):
    s.bundle = DBundle(); s.sel_in = InPort( 4 ); s.sel_out = OutPort( 4 )
class DBankIfc( Interface ):
  def construct( s ):
    s.req = [ InPort( 8 ) for _ in range(3) ]; s.resp = [ OutPort( 8 ) for _ in range(3) ]
class DBank( Component ):
  def construct( s ):
    s.port = [ DBankIfc() for _ in range(2) ]
    for j in range(2):
      for i in range(3):
        s.port[j].resp[i] //= s.port[j].req[ (i + 1) % 3 ]
class DIfc( Interface ):
  def construct( s ):
    s.msg = InPort( 8 ); s.val = InPort()
class DInner( Interface ):
  def construct( s ):
    s.msg = InPort( 8 ); s.rsp = OutPort( 8 )
class DOuter( Interface ):
  def construct( s ):
    s.lane = [ DInner() for _ in range(3) ]
'''

def directed_other_designs():
  """(class name, source, tag): minimal designs for the other defect shapes found by the random designs, plus controls"""
  def mk(cls, decls, stmt):
    return f'''from pymtl3 import *
class {cls}( Component ):
  def construct( s ):
    {decls}
    @update
    def up():
      {stmt}
'''
  io = 's.a = InPort( 4 ); s.b = InPort( 4 ); s.c = InPort( 1 ); s.w = InPort( 8 ); '
  return [
    ('D_sext_trunc',  mk('D_sext_trunc',  io + 's.o = OutPort( 8 )', 's.o @= sext( trunc( s.w, 4 ), 8 )'), 'sext-of-trunc'),
    ('D_sext_paren',  mk('D_sext_paren',  io + 's.o = OutPort( 8 )', 's.o @= sext( s.a + (s.b ^ s.a), 8 )'), 'sext-of-parenthesised'),
    ('D_sext_lit',    mk('D_sext_lit',    io + 's.o = OutPort( 8 )', 's.o @= sext( s.a - 1, 8 )'), 'sext-of-literal'),
    ('D_sext_binop',  mk('D_sext_binop',  io + 's.o = OutPort( 8 )', 's.o @= sext( s.a + s.b, 8 )'), 'sext-of-binop'),
    ('D_sext_ifexp',  mk('D_sext_ifexp',  io + 's.o = OutPort( 8 )', 's.o @= sext( s.a if s.c else s.b, 8 )'), 'sext-of-ifexp'),
    ('D_red_xor',     mk('D_red_xor',     io + 's.o = OutPort( 1 )', 's.o @= reduce_xor( s.a ^ s.b )'), 'reduce-of-binop'),
    ('D_red_or',      mk('D_red_or',      io + 's.o = OutPort( 1 )', 's.o @= reduce_or( s.a & s.b )'), 'reduce-of-binop'),
    ('D_red_ifexp',   mk('D_red_ifexp',   io + 's.o = OutPort( 1 )', 's.o @= reduce_or( s.a if s.c else s.b )'), 'reduce-of-ifexp'),
    ('D_red_and',     mk('D_red_and',     io + 's.o = OutPort( 1 )', 's.o @= reduce_and( s.a | s.b )'), 'reduce-of-binop'),
    # controls: the same operators on plain signals / slices / concatenations translate correctly
    ('D_sext_sig',    mk('D_sext_sig',    io + 's.o = OutPort( 8 )', 's.o @= sext( s.a, 8 )'), 'control'),
    ('D_sext_slice',  mk('D_sext_slice',  io + 's.o = OutPort( 8 )', 's.o @= sext( s.w[2:6], 8 )'), 'control'),
    ('D_sext_concat', mk('D_sext_concat', io + 's.o = OutPort( 8 )', 's.o @= sext( concat( s.c, s.a[0:3] ), 8 )'), 'control'),
    ('D_sext_inv',    mk('D_sext_inv',    io + 's.o = OutPort( 8 )', 's.o @= sext( ~s.a, 8 )'), 'control'),
    ('D_sext_elem',   mk('D_sext_elem',   's.in_ = [ InPort( 4 ) for _ in range(2) ]; s.o = OutPort( 8 )', 's.o @= sext( s.in_[1], 8 )'), 'sext-of-element'),
    ('D_shift_ovf',   mk('D_shift_ovf',   's.n = 2; s.w = InPort( 8 ); s.o = OutPort( 8 )'.replace('s.n = 2; ', ''), 's.o @= s.w >> (K_OVF + 2)').replace('from pymtl3 import *', 'from pymtl3 import *\nK_OVF = 2'), 'const-unfolded-overflow'),
    # struct-typed signals accessed at two granularities (the Yosys backend keeps x and x__field as separate variables)
    ('D_st_wire_wf',  mk('D_st_wire_wf', 's.i = InPort( DPt ); s.w = Wire( DPt ); s.o = OutPort( 8 )', 's.w @= s.i\n      s.o @= s.w.a').replace('from pymtl3 import *', DPT), 'struct:wire-written-whole-read-by-field'),
    ('D_st_wire_fw',  mk('D_st_wire_fw', 's.x = InPort( 8 ); s.y = InPort( 4 ); s.w = Wire( DPt ); s.o = OutPort( 12 )', 's.w.a @= s.x\n      s.w.b @= s.y\n      s.o @= s.w').replace('from pymtl3 import *', DPT), 'struct:wire-written-by-field-read-whole'),
    ('D_st_out_f',    mk('D_st_out_f', 's.x = InPort( 8 ); s.y = InPort( 4 ); s.o = OutPort( DPt )', 's.o.a @= s.x\n      s.o.b @= s.y').replace('from pymtl3 import *', DPT), 'struct:outport-written-by-field'),
    ('D_st_out_w',    mk('D_st_out_w', 's.i = InPort( DPt ); s.o = OutPort( DPt )', 's.o @= s.i').replace('from pymtl3 import *', DPT), 'control'),
    ('D_st_nest_out', mk('D_st_nest_out', 's.i = InPort( DNest ); s.o = OutPort( DNest )', 's.o @= s.i').replace('from pymtl3 import *', DPT), 'struct:nested-outport'),
    ('D_st_list_out', mk('D_st_list_out', 's.i = InPort( DVec ); s.o = OutPort( DVec )', 's.o @= s.i').replace('from pymtl3 import *', DPT), 'struct:list-field-outport'),
    ('D_st_in_field', mk('D_st_in_field', 's.i = InPort( DNest ); s.o = OutPort( 12 ); s.o2 = OutPort( 8 )', 's.o @= s.i.p\n      s.o2 @= s.i.p.a').replace('from pymtl3 import *', DPT), 'control'),
    ('D_trunc_field', mk('D_trunc_field', 's.i = InPort( DPt ); s.o = OutPort( 4 )', 's.o @= trunc( s.i.a, 4 )').replace('from pymtl3 import *', DPT), 'trunc-of-struct-field'),
    ('D_trunc_ifc',   mk('D_trunc_ifc', 's.recv = DIfc(); s.o = OutPort( 4 )', 's.o @= trunc( s.recv.msg, 4 )').replace('from pymtl3 import *', DPT), 'trunc-of-interface-member'),
    ('D_loop_desc',   mk('D_loop_desc', 's.in_ = InPort( 4 ); s.o = [ OutPort( 4 ) for _ in range(8) ]', 's.o[0] @= 0\n      for i in range( 7, 0, -1 ):\n        s.o[i] @= s.in_ ^ Bits4( i )'), 'control'),
    ('D_loop_wrap',   mk('D_loop_wrap', 's.in_ = InPort( 4 ); s.o = [ OutPort( 4 ) for _ in range(8) ]', 'for i in range( 8 ):\n        s.o[i] @= 0\n      for i in range( 4, 0, -3 ):\n        s.o[i] @= s.in_'), 'for-negative-step-below-zero'),
    ('D_nested_ifc',  mk('D_nested_ifc', 's.bank = [ DOuter() for _ in range(2) ]', 'for i in range(2):\n        for j in range(3):\n          s.bank[i].lane[j].rsp @= s.bank[i].lane[j].msg + 1').replace('from pymtl3 import *', DPT), 'nested-interface-array'),
    ('D_array_2d',    mk('D_array_2d', 's.m = [ [ InPort( 8 ) for _ in range(3) ] for _ in range(2) ]; s.o = [ [ OutPort( 8 ) for _ in range(3) ] for _ in range(2) ]', 'for i in range(2):\n        for j in range(3):\n          s.o[i][j] @= s.m[1 - i][j] + Bits8( j )'), 'control'),
    ('D_sext_varslice', mk('D_sext_varslice', 's.x = InPort( 16 ); s.e = InPort( 4 ); s.o = OutPort( 8 )', 's.o @= sext( s.x[ s.e : s.e + 4 ], 8 )'), 'control', [(r's\.e$', 12)]),      # regression: was emitted as x[e +] before fix 1ddf52a
    ('D_zext_varslice', mk('D_zext_varslice', 's.x = InPort( 16 ); s.e = InPort( 4 ); s.o = OutPort( 8 )', 's.o @= zext( s.x[ s.e : s.e + 4 ], 8 )'), 'control', [(r's\.e$', 12)]),
    ('D_struct_array', mk('D_struct_array', 's.in_ = [ InPort( DRec ) for _ in range(2) ]; s.o = OutPort( 3 ); s.o2 = OutPort( 4 )', 's.o @= s.in_[0].b[2] ^ s.in_[1].b[2] ^ s.in_[1].b[0]\n      s.o2 @= s.in_[0].a + s.in_[1].a').replace('from pymtl3 import *', DPT), 'control'),
    ('D_poly_port',   mk('D_poly_port', 's.poly = InPort( DPoly ); s.o = OutPort( 3 )', 's.o @= s.poly.pts[0].x ^ s.poly.pts[1].x ^ s.poly.last.x').replace('from pymtl3 import *', DPT), 'control'),
    ('D_nested_ifc_mixed', mk('D_nested_ifc_mixed', 's.chan = DChannel(); s.o = OutPort( 8 )', 's.o @= s.chan.bundle.lane_in[0] ^ s.chan.bundle.tag_in').replace('    @update', '    for i in range(3):\n      s.chan.bundle.lane_out[i] //= s.chan.bundle.lane_in[ (i + 1) % 3 ]\n    s.chan.bundle.tag_out //= s.chan.bundle.tag_in\n    s.chan.sel_out //= s.chan.sel_in\n    @update').replace('from pymtl3 import *', DPT), 'control'),
    ('D_subcomp_ifc_arrays', mk('D_subcomp_ifc_arrays', 's.in_ = [ InPort( 8 ) for _ in range(6) ]; s.out = [ OutPort( 8 ) for _ in range(6) ]; s.o = OutPort( 8 )', 's.o @= s.in_[0]').replace('    @update', '    s.bank = DBank()\n    for j in range(2):\n      for i in range(3):\n        s.bank.port[j].req[i] //= s.in_[ j * 3 + i ]\n        s.out[ j * 3 + i ] //= s.bank.port[j].resp[i]\n    @update').replace('from pymtl3 import *', DPT), 'control'),
    ('D_red_sig',     mk('D_red_sig',     io + 's.o = OutPort( 1 )', 's.o @= reduce_xor( s.w ) & reduce_or( s.a ) | reduce_and( s.b )'), 'control'),
  ]
