"""svparse.py — fail-closed parser from the text emitted by pymtl3's VerilogTranslationPass / YosysTranslationPass
to a Coq term of SV/SvSyntax.v (hand-written tokenizer + recursive descent).

  parse_file(text)          -> SvFile   (raises Unmodelled / SvSyntaxError)
  SvFile.coq()              -> Gallina term of type `file`
  SvFile.intern.id(name)    -> the positive that stands for identifier `name`

Two kinds of refusal, never a silent skip:
  Unmodelled      the text uses a construct we recognise but do not model (`**`, signed arithmetic, parameters,
                  functions, generate, imported Verilog, ...): the design is COUNTED as `unmodelled construct`
  SvSyntaxError   the text does not fit the grammar of the emitted subset at all; for designs built only from
                  constructs of the subset this is a candidate "syntactically invalid" violation to investigate

Trusted glue in here (stated in the evidence): interning of identifiers (one positive per distinct spelling, per
file; loop variables declared inside a `for` header are renamed `<block>.<name>` so that two blocks do not share a
variable), expansion of typedef names into their packed struct type, folding of LITERAL part-select bounds
`[3'd5:3'd2]` to integers, `x += e` read as `x = x + e`, `integer`/`int unsigned` read as 32-bit unsigned.
"""
import re

class Unmodelled(Exception): pass
class SvSyntaxError(Exception):
  kind = 'grammar'
class IllegalLiteral(SvSyntaxError):
  """e.g. 8'dc8: hexadecimal digits after 'd"""
  kind = 'illegal-literal'
class LiteralTarget(SvSyntaxError):
  """assign 8'd7 = x;  /  assign { 4'd1, 4'd2 } = ...; : the left-hand side of an assignment must be a net or variable"""
  kind = 'literal-as-assignment-target'
class SelectOnExpression(SvSyntaxError):
  """`( e )[i]`, `N'( e )[i]`, `N'dV[i]`: IEEE 1800-2017 A.8.4 allows a select only after a (hierarchical) identifier or a
  concatenation — the text is not SystemVerilog"""
  kind = 'select-on-expression'

KEYWORDS_UNMODELLED = {
  'function', 'endfunction', 'task', 'endtask', 'generate', 'endgenerate', 'genvar', 'initial', 'parameter', 'interface',
  'endinterface', 'modport', 'always_latch', 'case', 'casez', 'casex', 'endcase', 'while', 'do', 'signed', 'unique',
  'priority', 'import', 'package', 'negedge', 'inout', 'defparam', 'assert', 'enum', 'union', 'real', 'string', 'bit',
  'byte', 'shortint', 'longint', 'wait', 'fork', 'join', 'forever', 'repeat', 'return', 'break', 'continue', 'void',
  'static', 'automatic', 'var', 'tri', 'supply0', 'supply1', 'wand', 'wor',
}

TOKEN_RE = re.compile(r'''
   (?P<ws>\s+)
 | (?P<lcom>//[^\n]*)
 | (?P<bcom>/\*.*?\*/)
 | (?P<slit>\d+\s*'\s*[sS]?[dDhHbBoO]\s*[0-9a-fA-F_xXzZ?]+)
 | (?P<ulit>'[sS]?[dDhHbBoO]\s*[0-9a-fA-F_xXzZ?]+)
 | (?P<num>\d[\d_]*)
 | (?P<id>[A-Za-z_][A-Za-z_0-9$]*)
 | (?P<sysid>\$[A-Za-z_][A-Za-z_0-9$]*)
 | (?P<dir>`[A-Za-z_][A-Za-z_0-9]*)
 | (?P<str>"[^"\n]*")
 | (?P<op><<<|>>>|===|!==|<<=|>>=|\*\*|<<|>>|<=|>=|==|!=|&&|\|\||\+:|-:|\+=|-=|\+\+|--|~&|~\||~\^|\^~|'\{|->|::|[-+*/%&|^~!<>=?:;,.()\[\]{}#@'])
''', re.X | re.S)

def tokenize(text):
  toks, pos, n = [], 0, len(text)
  line = 1; saw_dir = False
  while pos < n:
    m = TOKEN_RE.match(text, pos)
    if not m:
      if saw_dir: raise Unmodelled(f'line {line}: imported Verilog (compiler directives present), cannot tokenize {text[pos:pos+20]!r}')
      raise SvSyntaxError(f'line {line}: cannot tokenize {text[pos:pos+30]!r}')
    kind = m.lastgroup; s = m.group(kind)
    if kind == 'dir': saw_dir = True
    if kind not in ('ws', 'lcom', 'bcom'):
      toks.append((kind, s, line))
    line += s.count('\n'); pos = m.end()
  toks.append(('eof', '', line))
  return toks

class Interner:
  def __init__(s):
    s.ids, s.names = {}, []
  def id(s, name):
    if name not in s.ids:
      s.ids[name] = len(s.names) + 1; s.names.append(name)
    return s.ids[name]
  def name(s, i): return s.names[i - 1]

def zl(k):
  k = int(k)
  if k < 0: return f'(-{hex(-k)})' if -k >= (1 << 32) else f'({k})'
  return hex(k) if k >= (1 << 32) else str(k)

def clist(xs): return '[' + '; '.join(xs) + ']'

# ---------------------------------------------------------------------- types (python side)
def pwidth(t):
  if t[0] == 'bits': return t[1]
  if t[0] == 'struct': return sum(pwidth(ft) for _, ft in t[1])
  return t[1] * pwidth(t[2])

class SvFile:
  def __init__(s):
    s.intern = Interner(); s.typedefs = {}; s.typedef_order = []; s.modules = []; s.notes = []
  def ptype_coq(s, t):
    if t[0] == 'bits': return f'(PBits {zl(t[1])})'
    if t[0] == 'struct': return '(PStruct ' + clist([f'({s.intern.id(f)}%positive, {s.ptype_coq(ft)})' for f, ft in t[1]]) + ')'
    return f'(PArr {zl(t[1])} {s.ptype_coq(t[2])})'
  def expr_coq(s, e):
    k = e[0]; P = lambda n: f'{s.intern.id(n)}%positive'; E = s.expr_coq
    if k == 'lit': return f'(ELit {zl(e[1])} {zl(e[2])})'
    if k == 'num': return f'(ENum {zl(e[1])})'
    if k == 'id': return f'(EId {P(e[1])})'
    if k == 'member': return f'(EMember {E(e[1])} {P(e[2])})'
    if k == 'index': return f'(EIndex {E(e[1])} {E(e[2])})'
    if k == 'range': return f'(ERange {E(e[1])} {zl(e[2])} {zl(e[3])})'
    if k == 'plus': return f'(EPlusRange {E(e[1])} {E(e[2])} {zl(e[3])})'
    if k == 'concat': return '(EConcat ' + clist([E(x) for x in e[1]]) + ')'
    if k == 'repl': return f'(ERepl {zl(e[1])} {E(e[2])})'
    if k == 'un': return f'(EUn {e[1]} {E(e[2])})'
    if k == 'bin': return f'(EBin {e[1]} {E(e[2])} {E(e[3])})'
    if k == 'cond': return f'(ECond {E(e[1])} {E(e[2])} {E(e[3])})'
    if k == 'cast': return f'(ECast {zl(e[1])} {E(e[2])})'
    raise AssertionError(k)
  def stmt_coq(s, st):
    k = st[0]; E = s.expr_coq
    if k == 'blk': return f'(SBlocking {E(st[1])} {E(st[2])})'
    if k == 'nb': return f'(SNonBlocking {E(st[1])} {E(st[2])})'
    if k == 'if': return f'(SIf {E(st[1])} {clist([s.stmt_coq(x) for x in st[2]])} {clist([s.stmt_coq(x) for x in st[3]])})'
    if k == 'for':
      _, v, init, cmp, bound, inc, step, body = st
      return f'(SFor {s.intern.id(v)}%positive {E(init)} {cmp} {E(bound)} {inc} {E(step)} {clist([s.stmt_coq(x) for x in body])})'
    raise AssertionError(k)
  def init_coq(s, i):
    if i[0] == 'arr': return '(IArr ' + clist([s.init_coq(x) for x in i[1]]) + ')'
    return f'(IExpr {s.expr_coq(i[1])})'
  def decl_coq(s, d):
    name, t, dims = d
    return f'(mkdecl {s.intern.id(name)}%positive {s.ptype_coq(t)} {clist([zl(x) for x in dims])})'
  def item_coq(s, it):
    k = it[0]; P = lambda n: f'{s.intern.id(n)}%positive'
    if k == 'assign': return f'(IAssign {s.expr_coq(it[1])} {s.expr_coq(it[2])})'
    if k == 'comb': return f'(IComb {P(it[1])} {clist([s.stmt_coq(x) for x in it[2]])})'
    if k == 'ff': return f'(IFF {P(it[1])} {clist([s.stmt_coq(x) for x in it[2]])})'
    if k == 'inst': return f'(IInst {P(it[1])} {P(it[2])} ' + clist([f'({P(p)}, {s.expr_coq(e)})' for p, e in it[3]]) + ')'
    raise AssertionError(k)
  def module_coq(s, m):
    ports = clist([f'({"DIn" if d == "input" else "DOut"}, {s.decl_coq(dc)})' for d, dc in m['ports']])
    params = clist([f'({s.decl_coq(dc)}, {s.init_coq(i)})' for dc, i in m['params']])
    decls = clist([s.decl_coq(dc) for dc in m['decls']])
    items = clist([s.item_coq(it) for it in m['items']])
    return f'(mkmod {s.intern.id(m["name"])}%positive\n  {ports}\n  {params}\n  {decls}\n  {items})'
  def coq(s):
    tds = clist([f'({s.intern.id(n)}%positive, {s.ptype_coq(s.typedefs[n])})' for n in s.typedef_order])
    return '(mkfile ' + tds + '\n ' + clist([s.module_coq(m) for m in s.modules]) + ')'
  def module(s, name):
    for m in s.modules:
      if m['name'] == name: return m
    return None

# ---------------------------------------------------------------------- parser
BINOPS = [   # precedence levels, lowest first (IEEE 1800-2017 Table 11-2), all left associative
  [('||', 'BLOr')], [('&&', 'BLAnd')], [('|', 'BOr')], [('^', 'BXor')], [('&', 'BAnd')],
  [('==', 'BEq'), ('!=', 'BNe')], [('<', 'BLt'), ('<=', 'BLe'), ('>', 'BGt'), ('>=', 'BGe')],
  [('<<', 'BShl'), ('>>', 'BShr')], [('+', 'BAdd'), ('-', 'BSub')], [('*', 'BMul'), ('/', 'BDiv'), ('%', 'BMod')],
]
UNOPS = {'~': 'UNot', '-': 'UNeg', '+': 'UPlus', '&': 'URedAnd', '|': 'URedOr', '^': 'URedXor', '!': 'ULogNot'}
UNMODELLED_OPS = {'**', '<<<', '>>>', '===', '!==', '~&', '~|', '~^', '^~', '->', '::', '++', '--', '<<=', '>>=', '-:'}

def lit_value(tok):
  m = re.fullmatch(r"(\d+)?\s*'\s*([sS]?)([dDhHbBoO])\s*([0-9a-fA-F_xXzZ?]+)", tok)
  size, sign, base, digits = m.groups()
  if sign: raise Unmodelled(f'signed literal {tok}')
  if re.search(r'[xXzZ?]', digits): raise Unmodelled(f'x/z literal {tok}')
  b = {'d': 10, 'h': 16, 'b': 2, 'o': 8}[base.lower()]
  if not re.fullmatch({10: r'[0-9_]+', 16: r'[0-9a-fA-F_]+', 2: r'[01_]+', 8: r'[0-7_]+'}[b], digits):
    raise IllegalLiteral(f"illegal digits in the base-{b} literal `{tok}`")
  v = int(digits.replace('_', ''), b)
  if size is None: raise Unmodelled(f'unsized based literal {tok}')
  return int(size), v

class Parser:
  def __init__(s, text, lenient=False):
    # lenient = REPAIR MODE used only to classify a disagreement (never to accept a design): the three shapes below are
    # read the way the translator evidently meant them, and each reading is recorded in f.repairs
    #   ( ^ a op b )            -> ^( a op b )            reduce_*( a op b ) emitted without parentheses
    #   { n { a op b[k] } }     -> { n { {a op b}[k] } }  sext( a op b ) / sext( c ? a : b ) emitted without parentheses
    #   N'( e )[k], ( e )[k]    -> { N'( e ) }[k]         sext( trunc(..) ) etc.: select on a non-identifier
    s.lenient = lenient
    s.toks = tokenize(text); s.i = 0; s.f = SvFile(); s.f.repairs = []
    s.local_rename = {}     # loop variables declared in a for header: name -> unique name (within the current block)
    s.blk_label = None; s.local_decls = []
  # -- token helpers
  def peek(s, k=0): return s.toks[s.i + k]
  def at(s, v, k=0): return s.toks[s.i + k][1] == v and s.toks[s.i + k][0] in ('op', 'id')
  def next(s):
    t = s.toks[s.i]; s.i += 1
    return t
  def err(s, msg):
    k, v, ln = s.peek()
    ctx = ' '.join(t[1] for t in s.toks[max(0, s.i - 6): s.i + 6])
    return SvSyntaxError(f'line {ln}: {msg}; at {v!r} in `{ctx}`')
  def expect(s, v):
    if not s.at(v): raise s.err(f'expected {v!r}')
    return s.next()
  def ident(s):
    k, v, ln = s.peek()
    if k != 'id': raise s.err('expected identifier')
    if v in KEYWORDS_UNMODELLED: raise Unmodelled(f'keyword `{v}` (line {ln})')
    s.i += 1
    return v
  def number(s):
    k, v, ln = s.peek()
    if k != 'num': raise s.err('expected number')
    s.i += 1
    return int(v.replace('_', ''))
  # -- file
  def parse_file(s):
    while s.peek()[0] != 'eof':
      k, v, ln = s.peek()
      if k == 'dir': raise Unmodelled(f'compiler directive {v} (line {ln})')
      if v == 'typedef': s.typedef()
      elif v == 'module': s.module()
      elif k == 'id' and v in KEYWORDS_UNMODELLED: raise Unmodelled(f'keyword `{v}` (line {ln})')
      else: raise s.err('expected typedef or module')
    return s.f
  # -- types
  def packed_dims(s):
    dims = []
    while s.at('['):
      s.next(); hi = s.const_int(); s.expect(':'); lo = s.const_int(); s.expect(']')
      if lo != 0 or hi < 0: raise Unmodelled(f'packed dimension [{hi}:{lo}]')
      dims.append(hi + 1)
    return dims
  def unpacked_dims(s):
    dims = []
    while s.at('['):
      s.next(); lo = s.const_int()
      if s.at(':'):
        s.next(); hi = s.const_int()
        if lo != 0 or hi < 0: raise Unmodelled(f'unpacked dimension [{lo}:{hi}]')
        dims.append(hi + 1)
      else:
        dims.append(lo)
      s.expect(']')
    return dims
  def const_int(s):
    e = s.expr()
    v = s.fold(e)
    if v is None: raise Unmodelled('non-literal constant in a dimension / part-select bound')
    return v
  def fold(s, e):
    """constant bounds / dimensions: literals, localparams with a literal value, size casts and + - * of those,
    evaluated self-determined (N'dV and N'(e) reduce modulo 2^N, a binary operator works at the wider operand width)"""
    r = s.cfold(e)
    return None if r is None else r[1]
  def cfold(s, e):
    k = e[0]
    if k == 'lit':
      if e[2] >= (1 << e[1]): s.f.notes.append(f"literal {e[1]}'d{e[2]} in a constant bound does not fit its width")
      return e[1], e[2] % (1 << e[1])
    if k == 'num': return 32, e[1] % (1 << 32)
    if k == 'id':
      for (n, t, dims), i in getattr(s, 'cur', {}).get('params', []):
        if n == e[1] and not dims and t[0] == 'bits' and i[0] == 'expr':
          r = s.cfold(i[1])
          return None if r is None else (t[1], r[1] % (1 << t[1]))
      return None
    if k == 'cast':
      r = s.cfold(e[2])
      if r is None: return None
      if r[1] >= (1 << e[1]): s.f.notes.append(f"constant bound: cast {e[1]}'(...) truncates the value {r[1]}")
      return e[1], r[1] % (1 << e[1])
    if k == 'bin' and e[1] in ('BAdd', 'BSub', 'BMul'):
      a, b = s.cfold(e[2]), s.cfold(e[3])
      if a is None or b is None: return None
      w = max(a[0], b[0])
      v = {'BAdd': a[1] + b[1], 'BSub': a[1] - b[1], 'BMul': a[1] * b[1]}[e[1]]
      return w, v % (1 << w)
    return None
  def is_type_start(s):
    k, v, _ = s.peek()
    return k == 'id' and (v in ('logic', 'wire', 'reg', 'integer', 'int') or v in s.f.typedefs)
  def dtype(s):
    """data type incl. packed dimensions -> python ptype"""
    k, v, ln = s.peek()
    if v in ('logic', 'wire', 'reg'):
      s.next()
      if s.at('logic') and v in ('wire',): s.next()
      if s.at('signed'): raise Unmodelled('signed declaration')
      dims = s.packed_dims()
      if not dims: return ('bits', 1)
      t = ('bits', dims[-1])
      for d in reversed(dims[:-1]): t = ('arr', d, t)
      return t
    if v == 'integer':
      s.next(); s.f.notes.append('integer (signed 32-bit) read as 32-bit unsigned'); return ('bits', 32)
    if v == 'int':
      s.next()
      if s.at('unsigned'): s.next()
      else: s.f.notes.append('int (signed 32-bit) read as 32-bit unsigned')
      return ('bits', 32)
    if v in s.f.typedefs:
      s.next(); t = s.f.typedefs[v]
      dims = s.packed_dims()
      for d in reversed(dims): t = ('arr', d, t)
      return t
    raise s.err('expected a data type')
  def typedef(s):
    s.expect('typedef'); s.expect('struct'); s.expect('packed'); s.expect('{')
    fields = []
    while not s.at('}'):
      t = s.dtype(); f = s.ident(); s.expect(';')
      fields.append((f, t))
    s.expect('}'); name = s.ident(); s.expect(';')
    if not fields: raise s.err('empty struct')
    if name in s.f.typedefs:
      if s.f.typedefs[name] != ('struct', fields): raise SvSyntaxError(f'typedef {name} redefined with a different body')
      return
    s.f.typedefs[name] = ('struct', fields); s.f.typedef_order.append(name)
  # -- module
  def module(s):
    s.expect('module'); name = s.ident()
    if s.at('#'): raise Unmodelled('module parameters')
    m = {'name': name, 'ports': [], 'params': [], 'decls': [], 'items': []}
    s.cur = m
    s.expect('(')
    if not s.at(')'):
      while True:
        d = s.ident()
        if d not in ('input', 'output'): raise s.err('expected input/output')
        t = s.dtype(); pn = s.ident(); dims = s.unpacked_dims()
        m['ports'].append((d, (pn, t, dims)))
        if s.at(','): s.next(); continue
        break
    s.expect(')'); s.expect(';')
    s.cur = m
    while not s.at('endmodule'):
      if s.peek()[0] == 'eof': raise s.err('missing endmodule')
      s.item(m)
    s.expect('endmodule')
    s.f.modules.append(m)
  def item(s, m):
    k, v, ln = s.peek()
    if k == 'dir': raise Unmodelled(f'compiler directive {v} (line {ln})')
    if v == 'localparam':
      s.next(); t = s.dtype(); n = s.ident(); dims = s.unpacked_dims(); s.expect('='); i = s.init(); s.expect(';')
      m['params'].append(((n, t, dims), i)); return
    if v == 'assign':
      s.next(); l = s.lvalue(); s.expect('='); r = s.expr(); s.expect(';')
      m['items'].append(('assign', l, r)); return
    if v == 'always_comb':
      s.next(); lab, body = s.block(m); m['items'].append(('comb', lab, body)); return
    if v in ('always_ff', 'always'):
      s.next(); s.expect('@'); s.expect('(')
      if s.at('*'):
        s.next(); s.expect(')')
        if v == 'always_ff': raise s.err('always_ff @(*)')
        lab, body = s.block(m); m['items'].append(('comb', lab, body)); return
      if not s.at('posedge'): raise Unmodelled(f'sensitivity list (line {ln})')
      s.next(); ck = s.ident(); s.expect(')')
      if ck != 'clk': raise Unmodelled(f'clock {ck}')
      lab, body = s.block(m); m['items'].append(('ff', lab, body)); return
    if s.is_type_start():
      t = s.dtype()
      while True:
        n = s.ident(); dims = s.unpacked_dims()
        if s.at('='): raise Unmodelled('declaration with initialiser')
        m['decls'].append((n, t, dims))
        if s.at(','): s.next(); continue
        break
      s.expect(';'); return
    if k == 'id' and s.peek(1)[0] == 'id':
      mn = s.ident(); inst = s.ident()
      s.expect('(')
      conns = []
      if not s.at(')'):
        while True:
          s.expect('.'); p = s.ident(); s.expect('(')
          if s.at(')'): raise Unmodelled('unconnected port')
          e = s.expr(); s.expect(')')
          conns.append((p, e))
          if s.at(','): s.next(); continue
          break
      s.expect(')'); s.expect(';')
      m['items'].append(('inst', mn, inst, conns)); return
    if k == 'id' and v in KEYWORDS_UNMODELLED: raise Unmodelled(f'keyword `{v}` (line {ln})')
    if k == 'id' and s.peek(1)[1] == '#': raise Unmodelled('parameterised instance')
    raise s.err('unrecognised module item')
  def init(s):
    if s.at("'{"):
      s.next(); xs = []
      while True:
        xs.append(s.init())
        if s.at(','): s.next(); continue
        break
      s.expect('}')
      return ('arr', xs)
    return ('expr', s.expr())
  # -- statements
  _anon = 0
  def block(s, m):
    """the statement after always_*: returns (label, [stmt])"""
    s.local_rename = {}
    label = None
    if s.at('begin') and s.peek(1)[1] == ':':
      label = s.peek(2)[1]
    if label is None:
      Parser._anon += 1; label = f'__anon_block_{Parser._anon}'
    s.blk_label = label
    body = s.stmt(m)
    s.local_rename = {}
    return label, body
  def stmt(s, m):
    """returns a LIST of statements (begin/end blocks are flattened)"""
    k, v, ln = s.peek()
    if v == 'begin':
      s.next()
      if s.at(':'): s.next(); s.ident()
      out = []
      while not s.at('end'):
        if s.peek()[0] == 'eof': raise s.err('missing end')
        out += s.stmt(m)
      s.next()
      return out
    if v == 'if':
      s.next(); s.expect('('); c = s.expr(); s.expect(')')
      t = s.stmt(m); f = []
      if s.at('else'): s.next(); f = s.stmt(m)
      return [('if', c, t, f)]
    if v == 'for':
      s.next(); s.expect('(')
      local = False
      if s.at('int') or s.at('integer'):
        s.dtype(); local = True
      var = s.ident()
      if local:
        new = f'{s.blk_label}.{var}'
        s.local_rename[var] = new
        if not any(d[0] == new for d in m['decls']): m['decls'].append((new, ('bits', 32), []))
      var = s.local_rename.get(var, var)
      s.expect('='); init = s.expr(); s.expect(';')
      v2 = s.local_rename.get(s.ident(), None) or s.toks[s.i - 1][1]
      if v2 != var: raise s.err('for: condition on a different variable')
      ck, cv, _ = s.next()
      cmpop = {'<': 'BLt', '>': 'BGt', '<=': 'BLe', '>=': 'BGe', '!=': 'BNe'}.get(cv)
      if cmpop is None: raise s.err('for: unsupported comparison')
      bound = s.expr(); s.expect(';')
      v3 = s.local_rename.get(s.ident(), None) or s.toks[s.i - 1][1]
      if v3 != var: raise s.err('for: increment of a different variable')
      if s.at('+=') or s.at('-='):
        inc = 'BAdd' if s.next()[1] == '+=' else 'BSub'
        step = s.expr()
      else:
        s.expect('=')
        v4 = s.local_rename.get(s.ident(), None) or s.toks[s.i - 1][1]
        if v4 != var: raise s.err('for: increment form')
        o = s.next()[1]
        if o not in '+-': raise s.err('for: increment operator')
        inc = 'BAdd' if o == '+' else 'BSub'
        step = s.expr()
      s.expect(')')
      body = s.stmt(m)
      return [('for', var, init, cmpop, bound, inc, step, body)]
    if k == 'id' and v in KEYWORDS_UNMODELLED: raise Unmodelled(f'keyword `{v}` (line {ln})')
    if k == 'sysid': raise Unmodelled(f'system task {v}')
    l = s.lvalue()
    if s.at('='): s.next(); r = s.expr(); s.expect(';'); return [('blk', l, r)]
    if s.at('<='): s.next(); r = s.expr(); s.expect(';'); return [('nb', l, r)]
    raise s.err('expected = or <= after an lvalue')
  # -- expressions
  def lvalue(s):
    k, v, ln = s.peek()
    if k in ('slit', 'num', 'ulit'): raise LiteralTarget(f'line {ln}: a literal is the target of an assignment: `{v} = ...`')
    if s.at('{'):
      save = s.i
      try: e = s.primary()
      except SvSyntaxError: e = None
      lits = []
      if e is not None: walk_exprs(e, lambda x: lits.append(x) if x[0] in ('lit', 'num') and True else None)
      s.i = save
      def only_lits(x):
        return x[0] in ('lit', 'num') or (x[0] == 'concat' and all(only_lits(y) for y in x[1])) or (x[0] == 'repl' and only_lits(x[2]))
      if e is not None and only_lits(e): raise LiteralTarget(f'line {ln}: a concatenation of literals is the target of an assignment')
      raise Unmodelled('concatenation as assignment target')
    name = s.ident()
    return s.selects(('id', s.local_rename.get(name, name)))
  def selects(s, e):
    while True:
      if s.at('.'):
        s.next(); f = s.ident(); e = ('member', e, f)
      elif s.at('['):
        s.next(); a = s.expr()
        if s.at(':'):
          s.next(); b = s.expr(); s.expect(']')
          hi, lo = s.fold(a), s.fold(b)
          if hi is None or lo is None: raise Unmodelled('non-literal part-select bound')
          e = ('range', e, hi, lo)
        elif s.at('+:'):
          s.next(); w = s.const_int(); s.expect(']')
          e = ('plus', e, a, w)
        elif s.at('-:'): raise Unmodelled('-: part select')
        else:
          s.expect(']'); e = ('index', e, a)
      else:
        return e
  def expr(s):
    c = s.binary(0)
    if s.at('?'):
      s.next(); a = s.expr(); s.expect(':'); b = s.expr()
      return ('cond', c, a, b)
    return c
  def binary(s, lvl):
    if lvl == len(BINOPS): return s.unary()
    e = s.binary(lvl + 1)
    while True:
      k, v, ln = s.peek()
      if k == 'op' and v in UNMODELLED_OPS: raise Unmodelled(f'operator {v} (line {ln})')
      hit = [c for (t, c) in BINOPS[lvl] if k == 'op' and t == v]
      if not hit: return e
      s.next()
      r = s.binary(lvl + 1)
      e = ('bin', hit[0], e, r)
  def unary(s):
    if s._inject is not None: return s.primary()
    k, v, ln = s.peek()
    if k == 'op' and v in UNMODELLED_OPS: raise Unmodelled(f'operator {v} (line {ln})')
    if k == 'op' and v in UNOPS:
      s.next(); a = s.unary()
      if v in '&|^' and s.peek()[0] == 'op' and (s.peek()[1] == '?' or any(s.peek()[1] == t for lvl in BINOPS for (t, c) in lvl)):
        # `( ^ a ^ b )`: the reduction applies to `a` only.  (legitimate text always closes the parenthesis right after
        # the operand of a reduction: visit_Reduce emits `( op value )`)
        s.f.notes.append(f'line {ln}: reduction operator {v} binds to the first operand of an unparenthesised expression')
        if s.lenient:
          s.f.repairs.append('reduce-of-ifexp' if s.peek()[1] == '?' else 'reduce-of-binop')
          rest = s.continue_binary(a)
          return ('un', UNOPS[v], rest)
      return ('un', UNOPS[v], a)
    return s.primary()
  def continue_binary(s, left):
    """lenient mode: parse `left op x op y ...` up to the closing parenthesis with the normal precedences"""
    # re-enter the precedence climber with `left` as an already parsed primary
    s._inject = left
    try: return s.expr()
    finally: s._inject = None
  def hoist_select(s, e):
    """a op b[k]  ->  { a op b }[k] : move the select that ends the right-most operand to the whole expression"""
    def strip(x):
      if x[0] == 'bin':
        r = strip(x[3]); return None if r is None else (('bin', x[1], x[2], r[0]), r[1])
      if x[0] == 'cond':
        r = strip(x[3]); return None if r is None else (('cond', x[1], x[2], r[0]), r[1])
      if x[0] == 'index': return (x[1], x[2])
      return None
    r = strip(e)
    return None if r is None else ('index', ('concat', [r[0]]), r[1])
  def lenient_select(s, e, tag):
    if s.lenient and s.at('['):
      s.next(); a = s.expr(); s.expect(']')
      s.f.repairs.append(tag)
      return ('index', ('concat', [e]), a)
    return e
  def no_select(s, what):
    if s.at('[') and s.lenient:
      s._pending_select = what
      return
    if s.at('['):
      k, v, ln = s.peek()
      ctx = ' '.join(t[1] for t in s.toks[max(0, s.i - 8): s.i + 4])
      raise SelectOnExpression(f'line {ln}: select applied to {what}: `{ctx}`')
  _inject = None
  def primary(s):
    if s._inject is not None:
      e = s._inject; s._inject = None
      return e
    k, v, ln = s.peek()
    if k == 'slit':
      s.next(); w, val = lit_value(v)
      if w <= 0: raise s.err('zero-width literal')
      s.no_select('a literal')
      return s.lenient_select(('lit', w, val), 'sext-of-literal')
    if k == 'ulit': raise Unmodelled(f'unsized based literal {v}')
    if k == 'num':
      n = s.number()
      if s.at("'"):
        if s.peek(1)[1] != '(': raise s.err('bad cast')
        s.next(); s.next(); a = s.expr(); s.expect(')')
        if n <= 0: raise s.err('zero-width cast')
        s.no_select('a size cast')
        return s.lenient_select(('cast', n, a), 'sext-of-trunc')
      return ('num', n)
    if k == 'sysid': raise Unmodelled(f'system function {v}')
    if v == '(':
      s.next(); e = s.expr(); s.expect(')')
      s.no_select('a parenthesised expression')
      return s.lenient_select(e, 'sext-of-parenthesised')
    if v == '{':
      s.next()
      first = s.expr()
      if s.at('{'):
        n = s.fold(first)
        if n is None: raise Unmodelled('non-literal replication count')
        s.next(); xs = [s.expr()]
        while s.at(','): s.next(); xs.append(s.expr())
        s.expect('}'); s.expect('}')
        if n <= 0: raise s.err('non-positive replication count')
        if s.at('['): raise Unmodelled('select on a replication')
        if len(xs) == 1 and xs[0][0] in ('bin', 'cond'):
          s.f.notes.append(f'line {ln}: replication of an unparenthesised operator expression `{{ {n} {{ ... }} }}`')
          if s.lenient:
            fixed = s.hoist_select(xs[0])
            if fixed is not None:
              s.f.repairs.append('sext-of-binop' if xs[0][0] == 'bin' else 'sext-of-ifexp'); xs = [fixed]
        return ('repl', n, xs[0] if len(xs) == 1 else ('concat', xs))
      xs = [first]
      while s.at(','): s.next(); xs.append(s.expr())
      s.expect('}')
      c = ('concat', xs)
      if s.at('['):           # concatenation [ range_expression ] is legal; only the bit select is modelled
        s.next(); a = s.expr()
        if not s.at(']'): raise Unmodelled('part select on a concatenation')
        s.next()
        if s.at('['): raise s.err('second select on a concatenation')
        return ('index', c, a)
      return c
    if k == 'id':
      if v in KEYWORDS_UNMODELLED: raise Unmodelled(f'keyword `{v}` (line {ln})')
      name = s.ident()
      if s.at("'"): raise Unmodelled('type cast')
      if s.at('('): raise Unmodelled(f'function call {name}')
      return s.selects(('id', s.local_rename.get(name, name)))
    raise s.err('expected an expression')

def parse_file(text, lenient=False):
  return Parser(text, lenient).parse_file()

# ---------------------------------------------------------------------- small static helpers used by the harnesses
def walk_exprs(e, fn):
  fn(e)
  k = e[0]
  if k in ('member', 'range'): walk_exprs(e[1], fn)
  elif k in ('index', 'plus'): walk_exprs(e[1], fn); walk_exprs(e[2], fn)
  elif k == 'concat':
    for x in e[1]: walk_exprs(x, fn)
  elif k in ('repl', 'un', 'cast'): walk_exprs(e[2], fn)
  elif k == 'bin': walk_exprs(e[2], fn); walk_exprs(e[3], fn)
  elif k == 'cond':
    for x in e[1:]: walk_exprs(x, fn)

def module_exprs(m):
  """every expression of a module (rvalues and lvalues)"""
  out = []
  def st(x):
    if x[0] in ('blk', 'nb'): out.extend([x[1], x[2]])
    elif x[0] == 'if':
      out.append(x[1])
      for y in x[2] + x[3]: st(y)
    elif x[0] == 'for':
      out.extend([x[2], x[4], x[6]])
      for y in x[7]: st(y)
  for it in m['items']:
    if it[0] == 'assign': out.extend([it[1], it[2]])
    elif it[0] in ('comb', 'ff'):
      for y in it[2]: st(y)
    elif it[0] == 'inst': out.extend(e for _, e in it[3])
  return out

def overflowing_literals(f):
  """sized literals whose value does not fit (N'dV with V >= 2^N): SystemVerilog truncates them silently"""
  hits = []
  for m in f.modules:
    for e in module_exprs(m):
      walk_exprs(e, lambda x: hits.append((m['name'], x[1], x[2])) if x[0] == 'lit' and x[2] >= (1 << x[1]) else None)
  return hits

if __name__ == '__main__':
  import sys
  f = parse_file(open(sys.argv[1]).read())
  print(f.coq()[:3000]); print(f.notes)
