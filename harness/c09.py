"""C09 — structurally illegal designs are always rejected at elaboration; defect-free designs elaborate.

theorems (Props/C09.v; models Elab/Address.v, Elab/Defects.v; proofs Elab/AddressProofs.v, Elab/DefectsProofs.v):
  C09_walk_iff_shared_bit / C09_walk_eq_overlap_in_design
                              the structural walk pymtl3 uses (same object / ancestor chain either way / overlapping sibling
                              slice with Connectable._overlap) relates two well-formed signal objects IFF their bit intervals
                              in the packed root share a bit: no two-driver bit can escape the walk, no disjoint pair is flagged
  C09_defect_order_indep / C09_bit_level_defect_order_indep / C09_defect_same_statements
                              "for every ordering of its statements": bit_level_defect (and the faithful model) is invariant
                              under permutation of the update-block write/read facts and of the connect statements, under
                              swapping the sides of any connect, and under repeating statements
  C09_elab_model_iff_bit_level
                              the faithful model of the implementation's checks (_check_upblk_writes, writer resolution,
                              _check_port_in_upblk, _check_port_in_nets, operator checks) decides exactly the bit-level property
                              on every well-formed design in which no block writes two overlapping sibling slices and no net
                              has two overlapping members
  C09_elab_complete_refuted   ... and the first exception is real: witness of the over-rejection
tie (T-diff): random hierarchies with 0 or 1 injected defect (two drivers of a bit: block/block, block/net, net/net, two
  drivers in one net; undriven net; connection loop; port rules Types 1-9 and the loopback rule; wrong assignment operator in
  update / update_ff) and legal near misses (touching slices, parent and field written in one block, duplicate connect,
  loopback at the parent, ...), each elaborated under ~10 statement orders / side flips.  The exception CLASS of
  top.elaborate() (or none) is compared, inside Coq, with
     bit_level_defect   (the property: drivers per bit + port table)      -> disagreement = VIOLATION of C09
     elab_model         (faithful structural model incl. known deviations) -> used to classify a disagreement: "the
                                                                              implementation behaves like its structural model";
                                                                              recorded in the evidence, never a violation by itself
  Accept-vs-reject must be the same for every order; every exception class observed in any order must be one of the
  admissible alternatives of the decision (C09_defect_alts_spec: all offending statements of the FIRST failing check
  stage; with a single defect that is exactly the decision).
partial: error families are compared by exception class only; the order in which two simultaneous defects are reported is
  modelled as the order of the checks in elaborate() and only single injected defects are generated; the iterative writer
  resolution is modelled as a monotone parallel fixed point (proved order-independent), its agreement with the sequential
  loop of _resolve_value_connections rests on the differential run (faithful model vs implementation).
"""
from common import *
import re
import elab_common as ec
from elab_common import EP, ConstEP, Sig, twidth, fits, parts, whole
import c08

FAMILY = {'MultiWriterError': 1, 'NoWriterError': 2, 'InvalidConnectionError': 3, 'SignalTypeError': 4,
          'UpdateBlockWriteError': 5, 'UpdateFFBlockWriteError': 6, 'UpdateFFNonTopLevelSignalError': 7}
FAMNAME = {0: 'accepted', 1: 'MultiWriter', 2: 'NoWriter', 3: 'InvalidConnection', 4: 'SignalType(port rule)', 5: 'UpdateBlockWrite',
           6: 'UpdateFFBlockWrite', 7: 'UpdateFFNonTopLevelSignal', 99: 'other exception'}
OPS = {'@=': 'OpAt', '<<=': 'OpShl', '=': 'OpEq'}

def sub_ep(rng, x, q=None, width=None):
  """a random sub object of signal x (whole / field / slice)"""
  q = q or rng.choice(parts(x))
  e = EP(x, q[0], q[1], q[2], q[3], q[4])
  if q[1][0] == 'b' and q[1][1] >= 2 and rng.random() < 0.5:
    W = q[1][1]; w = width or rng.randrange(1, W)
    a = rng.randrange(0, W - w + 1)
    e = EP(x, q[0] + f'[{a}:{a + w}]', ('b', w), q[2] + a, q[2] + a + w, q[4] + [('S', q[2] + a, q[2] + a + w)])
  return e

def slice_of(leaf_ep, a, b):
  """slice [a:b] (relative) of a Bits-typed, non-slice end point"""
  return EP(leaf_ep.sig, leaf_ep.suffix + f'[{a}:{b}]', ('b', b - a), leaf_ep.lo + a, leaf_ep.lo + b, leaf_ep.chain + [('S', leaf_ep.lo + a, leaf_ep.lo + b)])

def parent_ep(e):
  """the parent object of an end point (None for a top-level signal)"""
  if not e.chain: return None
  x = e.sig
  for q in parts(x):
    if q[4] == e.chain[:-1]: return EP(x, q[0], q[1], q[2], q[3], q[4])
  return None

def const_text(rng, T): return c08.Builder.const_text(type('R', (), {'rng': rng})(), T)

class Inj:
  """defect / near-miss injection on top of a constructively legal design"""
  def __init__(s, rng, d, b):
    s.rng, s.d, s.b = rng, d, b
    s.nb = 100

  def host_for_write(s, x):
    """component whose update block may legally write signal x"""
    return x.inst if x.kind in ('out', 'wire') else x.inst[:-1]

  def new_blk(s, host, lines, writes, reads=(), ff=False):
    name = f'xb{s.nb}'; s.nb += 1
    if not ff and s.rng.random() < 0.4: lines = s.b.wrap_helpers(host, lines)       # the driver acts through @s.func helpers
    s.d.stmts[host].append(('blk', name, ff, lines, list(writes), list(reads)))
    return name

  def blk_writes(s):
    return [(h, st, e) for h, st in s.d.blocks() for e, op in st[4]]

  def readers(s):
    """end points that a net drives (reader side), from the builder's bookkeeping"""
    return s.b.reader_eps

  # ---- two drivers of a bit
  def related(s, e, how):
    rng = s.rng
    if how == 'same': return e
    if how == 'ancestor': return parent_ep(e)
    if how == 'descendant':
      if e.chain and e.chain[-1][0] == 'S': return None
      if e.T[0] == 's':
        q = rng.choice([q for q in parts(e.sig) if len(q[4]) > len(e.chain) and q[4][:len(e.chain)] == e.chain])
        return EP(e.sig, q[0], q[1], q[2], q[3], q[4])
      W = e.T[1]
      if W < 2: return None
      a = rng.randrange(0, W - 1); b = rng.randrange(a + 1, W + 1)
      if (a, b) == (0, W): b = W - 1
      return slice_of(e, a, b)
    if how in ('sibling-overlap', 'sibling-touch'):
      if not (e.chain and e.chain[-1][0] == 'S'): return None
      p = parent_ep(e); a, b = e.lo - p.lo, e.hi - p.lo; W = p.hi - p.lo
      if how == 'sibling-touch':
        opts = ([(b, rng.randrange(b + 1, W + 1))] if b < W else []) + ([(rng.randrange(0, a), a)] if a > 0 else [])
      else:
        opts = [(x, y) for x in range(0, W) for y in range(x + 1, W + 1) if x < b and a < y and (x, y) != (a, b)]
      if not opts: return None
      x, y = rng.choice(opts)
      return slice_of(p, x, y)
    return None

  def inj_blk_blk(s, how, same_block=False):
    ws = [(h, st, e) for h, st, e in s.blk_writes() if not st[2]]
    s.rng.shuffle(ws)
    for h, st, e in ws:
      e2 = s.related(e, how)
      if e2 is None: continue
      if how == 'sibling-touch' and not s.b.free(e2): continue
      line = f'{e2.local(h)} @= {const_text(s.rng, e2.T)}'
      if same_block:
        st[3].append(line); st[4].append((e2, '@='))
      else:
        s.new_blk(h, [line], [(e2, '@=')])
      s.b.drv[e2.sig.root] = s.b.drv.get(e2.sig.root, 0) | e2.mask
      return True
    return False

  def inj_blk_net(s, how):
    rs = list(s.readers()); s.rng.shuffle(rs)
    for v in rs:
      e2 = s.related(v, how)
      if e2 is None: continue
      if how == 'sibling-touch' and not s.b.free(e2): continue
      h = s.host_for_write(v.sig)
      if h not in s.d.insts: continue
      s.new_blk(h, [f'{e2.local(h)} @= {const_text(s.rng, e2.T)}'], [(e2, '@=')])
      s.b.drv[e2.sig.root] = s.b.drv.get(e2.sig.root, 0) | e2.mask
      return True
    return False

  def inj_net_net(s, how):
    rs = [v for v in s.readers() if v.sig.kind in ('out', 'wire')]; s.rng.shuffle(rs)
    for v in rs:
      e2 = s.related(v, how)
      if e2 is None or e2.T[0] != 'b': continue
      if how == 'sibling-touch' and not s.b.free(e2): continue
      c = s.b.const_for(e2.T, v.sig.inst, tied=e2)
      if c is None: continue
      s.d.stmts[v.sig.inst].append(('conn', e2, c))
      s.b.drv[e2.sig.root] = s.b.drv.get(e2.sig.root, 0) | e2.mask
      return True
    return False

  # ---- undriven net
  def inj_nowriter(s, touching=False):
    rng, d = s.rng, s.d
    if touching:
      ws = [(h, st, e) for h, st, e in s.blk_writes() if e.chain and e.chain[-1][0] == 'S' and e.sig.kind in ('out', 'wire')]
      rng.shuffle(ws)
      for h, st, e in ws:
        e2 = s.related(e, 'sibling-touch')
        if e2 is None or not s.b.free(e2): continue
        for x in [y for y in d.insts[e.sig.inst].sigs if y.kind in ('out', 'wire')]:
          vs = [v for v in fits(x, e2.T, rng) if s.b.free(v) and v.sig is not e2.sig]
          if vs:
            d.stmts[e.sig.inst].append(('conn', e2, rng.choice(vs))); return True
      return False
    for _ in range(10):
      p = rng.choice(sorted(d.insts)); i = d.insts[p]
      xs = [x for x in i.sigs if x.kind in ('out', 'wire')]
      if len(xs) < 2: continue
      x, y = rng.sample(xs, 2)
      a = sub_ep(rng, x)
      if not s.b.free(a): continue
      vs = [v for v in fits(y, a.T, rng) if s.b.free(v)]
      if vs:
        d.stmts[p].append(('conn', a, rng.choice(vs))); return True
    return False

  # ---- connection loop / repeated statement
  def inj_loop(s, duplicate=False):
    rng, d = s.rng, s.d
    cs = d.conns(); rng.shuffle(cs)
    if duplicate:
      for h, st in cs:
        if isinstance(st[1], ConstEP) or isinstance(st[2], ConstEP): continue     # repeating connect( x, const ) adds a second constant driver
        d.stmts[h].append(('conn', st[2], st[1]) if rng.random() < 0.5 else ('conn', st[1], st[2])); return True
      return False
    for h, st in cs:
      for h2, st2 in cs:
        if st2 is st or h2 != h: continue
        shared = {st[1].full, st[2].full} & {st2[1].full, st2[2].full}
        if len(shared) != 1: continue
        u = st[1] if st[2].full in shared else st[2]
        w = st2[1] if st2[2].full in shared else st2[2]
        if isinstance(u, ConstEP) or isinstance(w, ConstEP) or u.full == w.full: continue
        d.stmts[h].append(('conn', u, w)); return True
    return False

  # ---- port rules, update blocks
  def inj_port_blk(s, what, level=None):
    """level: 'top' = the offending block lives in the elaboration top itself, 'inner' = in a component below it"""
    rng, d = s.rng, s.d
    insts = sorted(d.insts)
    if level == 'top': insts = [()]
    elif level == 'inner': insts = [p for p in insts if p != ()]
    if not insts: return False
    withkids = [p for p in insts if d.insts[p].children]
    if what == 'read-child-wire' and withkids:
      p = rng.choice(withkids); c = rng.choice(d.insts[p].children)
      xs = [x for x in c.sigs if x.kind == 'wire']
      if not xs: return False
      x = rng.choice(xs); z = Sig(p, f'zt{s.nb}', 'wire', x.T); d.insts[p].sigs.append(z)
      s.new_blk(p, [f's.{z.name} @= {whole(x).local(p)}'], [(whole(z), '@=')], [whole(x)]); return True
    if what in ('read-child-port',) and withkids:      # legal
      p = rng.choice(withkids); c = rng.choice(d.insts[p].children)
      x = rng.choice([x for x in c.sigs if x.kind != 'wire']); z = Sig(p, f'zt{s.nb}', 'wire', x.T); d.insts[p].sigs.append(z)
      s.new_blk(p, [f's.{z.name} @= {whole(x).local(p)}'], [(whole(z), '@=')], [whole(x)]); return True
    if what in ('write-child-out', 'write-child-wire') and withkids:
      p = rng.choice(withkids); c = rng.choice(d.insts[p].children)
      xs = [x for x in c.sigs if x.kind == ('out' if what == 'write-child-out' else 'wire')]
      if not xs: return False
      e = sub_ep(rng, rng.choice(xs))
      s.new_blk(p, [f'{e.local(p)} @= {const_text(rng, e.T)}'], [(e, '@=')]); return True
    if what == 'write-own-in':
      p = rng.choice(insts); xs = [x for x in d.insts[p].sigs if x.kind == 'in']
      e = sub_ep(rng, rng.choice(xs))
      s.new_blk(p, [f'{e.local(p)} @= {const_text(rng, e.T)}'], [(e, '@=')]); return True
    if what == 'write-child-in' and withkids:            # legal when nothing else drives it
      p = rng.choice(withkids); c = rng.choice(d.insts[p].children)
      e = sub_ep(rng, rng.choice([x for x in c.sigs if x.kind == 'in']))
      if not s.b.free(e): return False
      s.new_blk(p, [f'{e.local(p)} @= {const_text(rng, e.T)}'], [(e, '@=')]); return True
    if what == 'write-grandchild-in':
      ps = [p for p in withkids if any(c.children for c in d.insts[p].children)]
      if not ps: return False
      p = rng.choice(ps); c = rng.choice([c for c in d.insts[p].children if c.children]); g = rng.choice(c.children)
      e = sub_ep(rng, rng.choice([x for x in g.sigs if x.kind == 'in']))
      s.new_blk(p, [f'{e.local(p)} @= {const_text(rng, e.T)}'], [(e, '@=')]); return True
    return False

  # ---- port rules, nets: a driven end point feeds a free end point somewhere near in the hierarchy, whatever its kind
  def inj_port_net(s):
    rng, d = s.rng, s.d
    srcs = [e for e in s.b.writer_eps + s.readers() if isinstance(e, EP)]
    rng.shuffle(srcs)
    for u in srcs[:8]:
      C = d.insts[u.sig.inst]
      near = [(C, C.path)] + [(k, C.path) for k in C.children]
      if C.parent is not None:
        near += [(C.parent, C.parent.path)] + [(k, C.parent.path) for k in C.parent.children]
        if C.parent.parent is not None: near.append((C.parent.parent, C.parent.parent.path))
      near += [(g, C.path) for k in C.children for g in k.children]
      rng.shuffle(near)
      for K, host in near[:4]:
        xs = list(K.sigs); rng.shuffle(xs)
        for x in xs[:4]:
          vs = [v for v in fits(x, u.T, rng) if s.b.free(v)]
          if vs:
            v = rng.choice(vs)
            d.stmts[host].append(('conn', u, v) if rng.random() < 0.5 else ('conn', v, u))
            s.b.drv[v.sig.root] = s.b.drv.get(v.sig.root, 0) | v.mask
            return True
    return False

  def inj_far_net(s, want=None):
    """a connection written in a component H at least two levels above one of the two hosts: cousins (hosts at equal depth
    under different children of H), uncle/nephew, grandparent/grandchild, and one grandchild reached twice (its OutPort to
    its own InPort / Wire); a driven end point feeds a free one, whatever the port kinds"""
    rng, d = s.rng, s.d
    hs = [p for p in sorted(d.insts) if any(k.children for k in d.insts[p].children)]
    if not hs: return False
    drivers = [e for e in s.b.writer_eps + s.readers() + [e for h, st, e in s.blk_writes()] if isinstance(e, EP)]
    for _ in range(30):
      H = d.insts[rng.choice(hs)]
      sub = {H.path: 0}
      for k in H.children:
        sub[k.path] = 1
        for g in k.children: sub[g.path] = 2
      us = [e for e in drivers if e.sig.inst in sub]
      if not us: continue
      rel = want or rng.choice(['cousins', 'cousins', 'uncle', 'grand', 'same', 'any'])
      u = rng.choice(us)
      du = sub[u.sig.inst]
      def ok_host(p):
        dv = sub[p]
        if max(du, dv) < 2: return False
        if rel == 'cousins': return du == 2 and dv == 2 and p[:-1] != u.sig.inst[:-1]
        if rel == 'uncle':   return {du, dv} == {1, 2} and (p[:-1] != u.sig.inst if dv == 2 else u.sig.inst[:-1] != p)
        if rel == 'grand':   return {du, dv} == {0, 2}
        if rel == 'same':    return p == u.sig.inst
        return True
      hosts = [p for p in sub if ok_host(p)]
      if rel == 'cousins':
        outs = [e for e in us if sub[e.sig.inst] == 2 and e.sig.kind == 'out']
        if outs and rng.random() < 0.7:
          u = rng.choice(outs); du = 2; hosts = [p for p in sub if ok_host(p)]
      rng.shuffle(hosts)
      for p in hosts[:4]:
        xs = list(d.insts[p].sigs); rng.shuffle(xs)
        if rel == 'cousins' and u.sig.kind == 'out' and rng.random() < 0.7: xs = [x for x in xs if x.kind == 'in'] or xs
        for x in xs[:5]:
          vs = [v for v in fits(x, u.T, rng) if s.b.free(v) and v.full != u.full]
          if vs:
            v = rng.choice(vs)
            d.stmts[H.path].append(('conn', u, v) if rng.random() < 0.5 else ('conn', v, u))
            s.b.drv[v.sig.root] = s.b.drv.get(v.sig.root, 0) | v.mask
            d.notes['far'] = (rel, u.sig.kind, v.sig.kind, u.sig.inst == v.sig.inst)
            return True
    return False

  def inj_const_port(s, fanout=False):
    """a constant written in component H drives some free Bits end point in H, in a child of H or in a grandchild of H,
    whatever its port kind: every host relation x port kind of the port-direction rule with a constant as the driver"""
    rng, d = s.rng, s.d
    for _ in range(12):
      H = d.insts[rng.choice(sorted(d.insts))]
      near = [H] * 2 + list(H.children) * 3 + [g for k in H.children for g in k.children]
      K = rng.choice(near)
      x = rng.choice(K.sigs)
      e = sub_ep(rng, x)
      if e.T[0] != 'b':
        qs = [q for q in parts(x) if q[1][0] == 'b']
        e = sub_ep(rng, x, rng.choice(qs))
      if not s.b.free(e): continue
      c = s.b.const_for(e.T, H.path, tied=e)
      if c is None: continue
      d.stmts[H.path].append(('conn', e, c) if rng.random() < 0.5 else ('conn', c, e))
      s.b.drv[e.sig.root] = s.b.drv.get(e.sig.root, 0) | e.mask
      s.b.writer_eps.append(c); s.b.reader_eps.append(e)
      if fanout:
        opts = s.b.reader_options(e); rng.shuffle(opts)
        for y, host in opts[:6]:
          vs = [v for v in fits(y, e.T, rng) if s.b.free(v)]
          if vs:
            v = rng.choice(vs)
            d.stmts[host].append(('conn', e, v)); s.b.drv[v.sig.root] = s.b.drv.get(v.sig.root, 0) | v.mask
            s.b.reader_eps.append(v); break
      return True
    return False

  def free_fit(s, inst, kinds, T, avoid=()):
    xs = [x for x in inst.sigs if x.kind in kinds and x not in avoid]; s.rng.shuffle(xs)
    for x in xs:
      vs = [v for v in fits(x, T, s.rng) if s.b.free(v)]
      if vs: return s.rng.choice(vs)
    return None

  def take(s, e):
    s.b.drv[e.sig.root] = s.b.drv.get(e.sig.root, 0) | e.mask
    return e

  def inj_chain(s, kind):
    """chain-shaped nets through child ports.  The port-direction rule is applied edge by edge along the walk from the
    writer, so the same set of signals can be legal as a star (w0 -> child.in, w0 -> w1) and illegal as a chain
    (w0 -> child.in -> w1: a child's InPort drives the parent's wire)."""
    rng, d = s.rng, s.d
    ps = [p for p in sorted(d.insts) if d.insts[p].children]; rng.shuffle(ps)
    T = ('b', rng.choice([4, 8, 8, 16, 1, 3]))
    for p in ps:
      P = d.insts[p]; K1 = rng.choice(P.children); K2 = rng.choice(P.children)
      def blk_drive(e):
        h = s.host_for_write(e.sig)
        s.new_blk(h, [f'{e.local(h)} @= {const_text(rng, e.T)}'], [(e, '@=')])
      if kind in ('down-up', 'star(legal)'):
        w0 = s.free_fit(P, ('wire', 'out'), T)
        if w0 is None: continue
        s.take(w0)
        ci = s.free_fit(K1, ('in',), T); w1 = s.free_fit(P, ('wire', 'out'), T, avoid=(w0.sig,))
        if ci is None or w1 is None: continue
        s.take(ci); s.take(w1); blk_drive(w0)
        d.stmts[p].append(('conn', w0, ci))
        d.stmts[p].append(('conn', ci, w1) if kind == 'down-up' else ('conn', w0, w1))
        return True
      if kind == 'wire-up':
        cw = s.free_fit(K1, ('wire',), T); w1 = s.free_fit(P, ('wire', 'out'), T)
        if cw is None or w1 is None: continue
        s.take(cw); s.take(w1); blk_drive(cw)
        d.stmts[p].append(('conn', w1, cw)); return True
      if kind == 'in-up-via-block':
        # the parent's block writes the child's InPort (legal), which then drives the parent's wire (not legal)
        ci = s.free_fit(K1, ('in',), T); w1 = s.free_fit(P, ('wire', 'out'), T)
        if ci is None or w1 is None: continue
        s.take(ci); s.take(w1); blk_drive(ci)
        d.stmts[p].append(('conn', ci, w1)); return True
      if kind == 'up-down(legal)':
        co = s.free_fit(K1, ('out',), T); w = s.free_fit(P, ('wire', 'out'), T); ci = s.free_fit(K2, ('in',), T)
        if co is None or w is None or ci is None: continue
        s.take(co); s.take(w); s.take(ci); blk_drive(co)
        d.stmts[p].append(('conn', co, w)); d.stmts[p].append(('conn', ci, w)); return True
      if kind == 'two-children(legal)':
        co = s.free_fit(K1, ('out',), T); ci = s.free_fit(K2, ('in',), T)
        if co is None or ci is None: continue
        s.take(co); s.take(ci)
        ko = s.free_fit(K2, ('out', 'wire'), T); po = s.free_fit(P, ('out', 'wire'), T)
        if ko is None or po is None or ko.sig.kind != 'out': continue
        s.take(ko); s.take(po); blk_drive(co)
        d.stmts[p].append(('conn', co, ci)); d.stmts[K2.path].append(('conn', ko, ci)); d.stmts[p].append(('conn', po, ko)); return True
    return False

  def inj_loopback(s, at_parent):
    """child output port drives an input port of the same child: legal only when connected in the parent"""
    rng, d = s.rng, s.d
    srcs = [e for e in s.b.writer_eps + s.readers() + [e for h, st, e in s.blk_writes()] if isinstance(e, EP) and e.sig.kind == 'out' and e.sig.inst != ()]
    rng.shuffle(srcs)
    for u in srcs:
      C = d.insts[u.sig.inst]
      for x in [x for x in C.sigs if x.kind == 'in']:
        vs = [v for v in fits(x, u.T, rng) if s.b.free(v)]
        if vs:
          v = rng.choice(vs)
          d.stmts[C.parent.path if at_parent else C.path].append(('conn', u, v))
          s.b.drv[v.sig.root] = s.b.drv.get(v.sig.root, 0) | v.mask
          return True
    return False

  # ---- assignment operators
  def inj_op(s, what):
    rng, d = s.rng, s.d
    blks = d.blocks(); rng.shuffle(blks)
    if what == 'ff-nontop':
      for p in sorted(d.insts, key=lambda _: rng.random()):
        for x in [x for x in d.insts[p].sigs if x.kind in ('out', 'wire') and s.b.drv.get(x.root, 0) == 0 and twidth(x.T) >= 2]:
          qs = [q for q in parts(x) if q[0] != '']
          e = EP(x, *rng.choice(qs)) if qs else slice_of(whole(x), 0, rng.randrange(1, twidth(x.T)))
          s.new_blk(p, [f'{e.local(p)} <<= {const_text(rng, e.T)}'], [(e, '<<=')], ff=True)
          s.b.drv[x.root] = e.mask; return True
      return False
    for h, st in blks:
      ff = st[2]
      ok = {'upd-eq': (not ff, '='), 'upd-shl': (not ff, '<<='), 'upd-aug': (not ff, '+='),
            'ff-at': (ff, '@='), 'ff-eq': (ff, '='), 'ff-aug': (ff, '|=')}[what]
      if not ok[0] or not st[4]: continue
      k = rng.randrange(len(st[4]))
      e, old = st[4][k]
      if what.endswith('aug') and e.T[0] != 'b': continue
      # the k-th write statement is the k-th line that assigns a signal
      cand_lines = [i for i, l in enumerate(st[3]) if f' {old} ' in l]
      if len(cand_lines) != len(st[4]): continue            # some writes of this block live in helper functions
      idx = cand_lines[k]
      st[3][idx] = st[3][idx].replace(f' {old} ', f' {ok[1]} ', 1)
      st[4][k] = (e, ok[1])
      return True
    return False

REPEAT = {'upd-eq': (False, '='), 'upd-shl': (False, '<<='), 'ff-at': (True, '@='), 'ff-eq': (True, '=')}

def inj_op_repeat(j, what, form):
  """one block assigns the SAME signal object several times and exactly one of the assignments, at any position, uses the
  wrong operator: straight-line, default + if/else override, both branches of an if, or two loops over one list of signals"""
  rng, d = j.rng, j.d
  ffwant, wrong = REPEAT[what]
  right = '<<=' if ffwant else '@='
  if form == 'loops':
    for p in sorted(d.insts, key=lambda _: rng.random()):
      els = [x for x in d.insts[p].sigs if x.lst and x.kind in ('out', 'wire')]
      if not els or any(j.b.drv.get(x.root, 0) for x in els): continue
      dims = els[0].lst[1]; iv = 'ijk'[:len(dims)]
      def loop(op):
        L = [('  ' * n) + f'for {iv[n]} in range({dims[n]}):' for n in range(len(dims))]
        return L + [('  ' * len(dims)) + f's.{els[0].lst[0]}' + ''.join(f'[{v}]' for v in iv) + f' {op} {rng.randrange(0, 8)}']
      ops = [wrong, right] if rng.random() < 0.3 else [right, wrong]
      lines = loop(ops[0]) + loop(ops[1])
      writes = [(whole(x), ops[0]) for x in els] + [(whole(x), ops[1]) for x in els]
      name = f'xb{j.nb}'; j.nb += 1
      d.stmts[p].append(('blk', name, ffwant, lines, writes, []))
      for x in els: j.b.drv[x.root] = c08.full_mask(x)
      return True
    return False
  blks = [(h, st) for h, st in d.blocks() if st[2] == ffwant and st[4]]; rng.shuffle(blks)
  for h, st in blks:
    k = rng.randrange(len(st[4])); e, old = st[4][k]
    if old != right: continue
    cand_lines = [i for i, l in enumerate(st[3]) if f' {old} ' in l]
    if len(cand_lines) != len(st[4]): continue
    idx = cand_lines[k]
    t = e.local(h); rhs = lambda: const_text(rng, e.T)
    n = rng.choice([2, 2, 3]); pos = rng.randrange(n)
    ops = [wrong if i == pos else right for i in range(n)]
    if form == 'straight':
      new = [f'{t} {op} {rhs()}' for op in ops]
    else:
      ins = [x for x in d.insts[h].sigs if x.kind == 'in' and x.T[0] == 'b']
      if not ins: continue
      c = f's.{rng.choice(ins).name}[0]'
      new = ([f'{t} {ops[0]} {rhs()}'] if n == 3 else []) + [f'if {c}:', f'  {t} {ops[-2]} {rhs()}', 'else:', f'  {t} {ops[-1]} {rhs()}']
    st[3][idx:idx + 1] = new
    st[4][k:k + 1] = [(e, op) for op in ops]
    return True
  return False

def add_ff_blocks(rng, d, b):
  for p in sorted(d.insts):
    i = d.insts[p]
    if rng.random() < 0.5: continue
    xs = [x for x in i.sigs if x.kind in ('out', 'wire') and b.drv.get(x.root, 0) == 0]
    rng.shuffle(xs)
    lines, writes = [], []
    for x in xs[:rng.choice([1, 1, 2])]:
      b.drv[x.root] = c08.full_mask(x)
      lines.append(f's.{x.name} <<= {b.const_text(x.T)}'); writes.append((whole(x), '<<='))
    if lines:
      name = f'uf{b.nblk}'; b.nblk += 1
      d.stmts[p].append(('blk', name, True, lines, writes, []))

Builder9 = c08.Builder

INJECTIONS = [
  # (name, weight, function)
  ('none', 10, lambda j: True),
  ('blk-blk:same', 2, lambda j: j.inj_blk_blk('same')),
  ('blk-blk:ancestor', 2, lambda j: j.inj_blk_blk('ancestor')),
  ('blk-blk:descendant', 2, lambda j: j.inj_blk_blk('descendant')),
  ('blk-blk:sibling-overlap', 3, lambda j: j.inj_blk_blk('sibling-overlap')),
  ('blk-blk:sibling-touch(legal)', 3, lambda j: j.inj_blk_blk('sibling-touch')),
  ('same-blk:ancestor(legal)', 2, lambda j: j.inj_blk_blk('ancestor', same_block=True)),
  ('same-blk:descendant(legal)', 2, lambda j: j.inj_blk_blk('descendant', same_block=True)),
  ('same-blk:sibling-touch(legal)', 2, lambda j: j.inj_blk_blk('sibling-touch', same_block=True)),
  ('same-blk:sibling-overlap(F6)', 2, lambda j: j.inj_blk_blk('sibling-overlap', same_block=True)),
  ('blk-net:same', 2, lambda j: j.inj_blk_net('same')),
  ('blk-net:ancestor', 2, lambda j: j.inj_blk_net('ancestor')),
  ('blk-net:descendant', 2, lambda j: j.inj_blk_net('descendant')),
  ('blk-net:sibling-overlap', 2, lambda j: j.inj_blk_net('sibling-overlap')),
  ('blk-net:sibling-touch(legal)', 2, lambda j: j.inj_blk_net('sibling-touch')),
  ('net-net:same', 2, lambda j: j.inj_net_net('same')),
  ('net-net:ancestor', 1, lambda j: j.inj_net_net('ancestor')),
  ('net-net:descendant', 2, lambda j: j.inj_net_net('descendant')),
  ('net-net:sibling-overlap', 2, lambda j: j.inj_net_net('sibling-overlap')),
  ('net-net:sibling-touch(legal)', 2, lambda j: j.inj_net_net('sibling-touch')),
  ('nowriter', 3, lambda j: j.inj_nowriter()),
  ('nowriter:touching-slice', 2, lambda j: j.inj_nowriter(touching=True)),
  ('loop', 4, lambda j: j.inj_loop()),
  ('duplicate-connect(legal)', 2, lambda j: j.inj_loop(duplicate=True)),
  ('port-blk:read-child-wire@top', 1, lambda j: j.inj_port_blk('read-child-wire', 'top')),
  ('port-blk:read-child-wire@inner', 1, lambda j: j.inj_port_blk('read-child-wire', 'inner')),
  ('port-blk:read-child-port@top(legal)', 1, lambda j: j.inj_port_blk('read-child-port', 'top')),
  ('port-blk:read-child-port@inner(legal)', 1, lambda j: j.inj_port_blk('read-child-port', 'inner')),
  ('port-blk:write-child-out@top', 1, lambda j: j.inj_port_blk('write-child-out', 'top')),
  ('port-blk:write-child-out@inner', 1, lambda j: j.inj_port_blk('write-child-out', 'inner')),
  ('port-blk:write-child-wire@top', 1, lambda j: j.inj_port_blk('write-child-wire', 'top')),
  ('port-blk:write-child-wire@inner', 1, lambda j: j.inj_port_blk('write-child-wire', 'inner')),
  ('port-blk:write-own-in@top', 2, lambda j: j.inj_port_blk('write-own-in', 'top')),
  ('port-blk:write-own-in@inner', 2, lambda j: j.inj_port_blk('write-own-in', 'inner')),
  ('port-blk:write-child-in@top(legal)', 1, lambda j: j.inj_port_blk('write-child-in', 'top')),
  ('port-blk:write-child-in@inner(legal)', 1, lambda j: j.inj_port_blk('write-child-in', 'inner')),
  ('port-blk:write-grandchild-in@top', 1, lambda j: j.inj_port_blk('write-grandchild-in', 'top')),
  ('port-blk:write-grandchild-in@inner', 1, lambda j: j.inj_port_blk('write-grandchild-in', 'inner')),
  ('chain:down-up', 4, lambda j: j.inj_chain('down-up')),
  ('chain:wire-up', 3, lambda j: j.inj_chain('wire-up')),
  ('chain:in-up-via-block', 2, lambda j: j.inj_chain('in-up-via-block')),
  ('chain:star(legal)', 2, lambda j: j.inj_chain('star(legal)')),
  ('chain:up-down(legal)', 2, lambda j: j.inj_chain('up-down(legal)')),
  ('chain:two-children(legal)', 2, lambda j: j.inj_chain('two-children(legal)')),
  ('port-net:any', 10, lambda j: j.inj_port_net()),
  ('far-net:cousins', 5, lambda j: j.inj_far_net('cousins')),
  ('far-net:uncle-nephew', 2, lambda j: j.inj_far_net('uncle')),
  ('far-net:grandparent-grandchild', 2, lambda j: j.inj_far_net('grand')),
  ('far-net:same-component', 3, lambda j: j.inj_far_net('same')),
  ('far-net:any', 3, lambda j: j.inj_far_net()),
  ('const-port:any', 8, lambda j: j.inj_const_port()),
  ('const-port:any+fanout', 4, lambda j: j.inj_const_port(fanout=True)),
  ('loopback:inside', 3, lambda j: j.inj_loopback(False)),
  ('loopback:at-parent(legal)', 2, lambda j: j.inj_loopback(True)),
  ('op:upd-eq', 2, lambda j: j.inj_op('upd-eq')),
  ('op:upd-shl', 2, lambda j: j.inj_op('upd-shl')),
  ('op:upd-aug', 1, lambda j: j.inj_op('upd-aug')),
  ('op:ff-at', 2, lambda j: j.inj_op('ff-at')),
  ('op:ff-eq', 2, lambda j: j.inj_op('ff-eq')),
  ('op:ff-aug', 1, lambda j: j.inj_op('ff-aug')),
  ('op:ff-nontop', 2, lambda j: j.inj_op('ff-nontop')),
  ('op-repeat:upd-eq:straight', 2, lambda j: inj_op_repeat(j, 'upd-eq', 'straight')),
  ('op-repeat:upd-eq:ifelse', 2, lambda j: inj_op_repeat(j, 'upd-eq', 'ifelse')),
  ('op-repeat:upd-eq:loops', 1, lambda j: inj_op_repeat(j, 'upd-eq', 'loops')),
  ('op-repeat:upd-shl:straight', 2, lambda j: inj_op_repeat(j, 'upd-shl', 'straight')),
  ('op-repeat:upd-shl:ifelse', 2, lambda j: inj_op_repeat(j, 'upd-shl', 'ifelse')),
  ('op-repeat:upd-shl:loops', 1, lambda j: inj_op_repeat(j, 'upd-shl', 'loops')),
  ('op-repeat:ff-at:straight', 2, lambda j: inj_op_repeat(j, 'ff-at', 'straight')),
  ('op-repeat:ff-at:ifelse', 2, lambda j: inj_op_repeat(j, 'ff-at', 'ifelse')),
  ('op-repeat:ff-at:loops', 1, lambda j: inj_op_repeat(j, 'ff-at', 'loops')),
  ('op-repeat:ff-eq:straight', 2, lambda j: inj_op_repeat(j, 'ff-eq', 'straight')),
  ('op-repeat:ff-eq:ifelse', 2, lambda j: inj_op_repeat(j, 'ff-eq', 'ifelse')),
  ('op-repeat:ff-eq:loops', 1, lambda j: inj_op_repeat(j, 'ff-eq', 'loops')),
  ('same-net-overlap', 2, None),          # built by the net generator
  ('same-blk:parent+field,sibling-in-net', 2, None),
]

def gen_design(rng, name, inj):
  d = ec.gen_hierarchy(rng, name, rich=False, deep=inj.startswith('far-net'))
  b = Builder9(rng, d)
  d.mode = 'legal'
  b.add_blocks('parent+field' if inj.startswith('same-blk:parent+field') else None)
  add_ff_blocks(rng, d, b)
  want = rng.choice([1, 2, 3, 4, 6, 9])
  n = c08.force_sibling_net(rng, d, b)
  for _ in range(30):
    if n >= want: break
    n += b.add_net(overlap_readers=(inj == 'same-net-overlap' and 'same-net-overlap' not in d.features))
  d.builder = b
  ok = True
  fn = next(f for nm, w, f in INJECTIONS if nm == inj)
  if fn is not None: ok = bool(fn(Inj(rng, d, b)))
  elif inj == 'same-net-overlap': ok = 'same-net-overlap' in d.features
  else: ok = 'blk-parent+field' in d.features and n > 0
  return d, ok

# ---------------------------------------------------------------- Coq design term
def coq_design(d, orders=None, flips=None):
  insts = sorted(d.insts)
  cid = {p: i for i, p in enumerate(insts)}
  par = coq_list(['None' if p == () else f'Some {cid[p[:-1]]}%nat' for p in insts])
  nodes, rows = {}, []
  roots = {}
  def rid(r):
    if r not in roots: roots[r] = len(roots) + 1         # root 0 is reserved for the default entry of the signal table
    return roots[r]
  def chain_t(ch): return coq_list([f'{"Fld" if k == "F" else "Slc"} {lo} {hi}' for k, lo, hi in ch])
  def nid(e, host=None):
    key = e.full if not isinstance(e, ConstEP) else ('const', e.full)
    if key in nodes: return nodes[key]
    nodes[key] = len(rows)
    if isinstance(e, ConstEP):
      rows.append(f'mkSig PConst {cid[e.host]}%nat (mkAddr {rid(key)}%nat 1 [])')
    else:
      k = {'in': 'PIn', 'out': 'POut', 'wire': 'PWire'}[e.sig.kind]
      rows.append(f'mkSig {k} {cid[e.sig.inst]}%nat (mkAddr {rid(e.sig.root)}%nat {twidth(e.sig.T)} {chain_t(e.chain)})')
    return nodes[key]
  wr, rd, cn = [], [], []
  bid = 0
  for h in insts:
    st = d.stmts[h]
    for k in (orders or {}).get(h, range(len(st))):
      t = st[k]
      if t[0] == 'conn':
        a, b = nid(t[1]), nid(t[2])
        if (flips or {}).get((h, k), (False, 0))[0]: a, b = b, a
        cn.append(f'mkC {a}%nat {b}%nat {cid[h]}%nat')
      elif t[0] == 'blk':
        _, name, ff, lines, writes, reads = t
        myid = sorted(x[1] for hh in insts for x in d.stmts[hh] if x[0] == 'blk').index(name)
        for e, op in writes:
          wr.append(f'mkW {myid}%nat {cid[h]}%nat {"true" if ff else "false"} {nid(e)}%nat {OPS.get(op, "OpAug")}')
        for e in reads:
          rd.append(f'mkR {myid}%nat {cid[h]}%nat {nid(e)}%nat')
  for p in insts:
    for c in d.insts[p].children:
      for n in ('clk', 'reset'):
        a, b = whole(Sig(c.path, n, 'in', ('b', 1))), whole(Sig(p, n, 'in', ('b', 1)))
        cn.append(f'mkC {nid(a)}%nat {nid(b)}%nat {cid[p]}%nat')
  return f'(mkD {par} {coq_list(rows)} {coq_list(wr)} {coq_list(rd)} {coq_list(cn)})'

DEFS = '''
Definition code (o : option defect) : nat :=
  match o with None => 0 | Some MultiWriter => 1 | Some NoWriter => 2 | Some InvalidConn => 3 | Some PortRule => 4
  | Some BlkWrite => 5 | Some FFBlkWrite => 6 | Some FFNonTop => 7 end%nat.
Definition dcode (d : defect) : nat := code (Some d).
(* the observed outcome (0 = accepted, else the family code) is one of the admissible answers *)
Definition admissible (alts : list defect) (obs : nat) : bool :=
  match obs with 0%nat => match alts with [] => true | _ => false end | _ => existsb (fun d => Nat.eqb (dcode d) obs) alts end.
Definition ctype := (design * nat)%type.
'''
IMPORTS = 'Base.Prelude Sched.Accept Elab.Nets Elab.Address Elab.Defects'

def sameblk_parent_child(d):
  for h, st in d.blocks():
    ws = [e for e, op in st[4]]
    for e1 in ws:
      for e2 in ws:
        if e1.sig is e2.sig and len(e1.chain) < len(e2.chain) and e2.chain[:len(e1.chain)] == e1.chain: return True
  return False

def sameblk_sibling_overlap(d):
  for h, st in d.blocks():
    ws = [e for e, op in st[4] if e.chain and e.chain[-1][0] == 'S']
    for e1 in ws:
      for e2 in ws:
        if e1 is not e2 and e1.sig is e2.sig and e1.chain[:-1] == e2.chain[:-1] and e1.chain != e2.chain and e1.lo < e2.hi and e2.lo < e1.hi: return True
  return False

def aug_assign(d):
  return any(op not in OPS for h, st in d.blocks() for e, op in st[4])

def pattern_key(d, obs, model, unstable=False):
  """stable keys of the deviations that are understood (one root cause each); None = not a recognised pattern"""
  if aug_assign(d) and obs == 99: return 'C09:augmented-assignment-raises-TypeError'
  far = d.notes.get('far')
  if far and far[3] and far[1] == 'out' and far[2] == 'in' and obs == 99 and model == 3:
    return 'C09:far-loopback-raises-AssertionError'          # OutPort -> InPort of one component, connected two or more levels above it
  if sameblk_sibling_overlap(d) and obs == 1 and model == 0: return 'C09:same-block-overlapping-slices'
  if 'same-net-overlap' in d.features and obs == 0 and model == 1: return 'C09:same-net-overlapping-slices'
  if sameblk_parent_child(d) and (unstable or (obs, model) in ((2, 0), (0, 1), (1, 0))): return 'C09:same-block-parent-and-child-write'
  return None

def run(ctx):
  setup_impl_path()
  import pymtl3
  quick = ctx.tier == 'quick'
  rng = ctx.rng
  ndes = 200 if quick else 3000
  names = [nm for nm, w, f in INJECTIONS for _ in range(w)]
  cases_bit, cases_faith, meta = [], [], []
  junk = []
  applied = {}
  for j in range(ndes):
    inj = names[j % len(names)] if j < 2 * len(names) else rng.choice(names)
    for attempt in range(4):
      d, ok = gen_design(random.Random(rng.randrange(1 << 30)), f'E{j}', inj)
      if ok: break
    if not ok:
      ctx.hist['not-applicable:' + inj] = ctx.hist.get('not-applicable:' + inj, 0) + 1
      inj = 'none*'
    applied[inj] = applied.get(inj, 0) + 1
    feats = set(d.features)
    cv = {}
    for h, st in d.conns():
      for e in (st[1], st[2]):
        if isinstance(e, ConstEP): cv.setdefault((h, e.value), set()).add(e.T)
    if any(len(v) > 1 for v in cv.values()) or any(sum(1 for hh, st in d.conns() if hh == h and any(isinstance(e, ConstEP) and e.value == val for e in (st[1], st[2]))) > 1 for (h, val) in cv):
      feats.add('equal-constants-in-one-component')
    for f in feats: ctx.hist['feature:' + f] = ctx.hist.get('feature:' + f, 0) + 1
    clsname = f'Top_{d.name}'
    K = 10 if quick else 12
    if inj.startswith('same-blk:parent+field'): K = 40
    outs = []
    for v in range(K):
      orders, flips = (None, None) if v == 0 else d.variant(rng)
      src = d.source(orders=orders, flips=flips)
      junk.append([object() for _ in range(rng.randrange(0, 40))])
      if len(junk) > 50: junk = junk[25:]
      r = ec.elaborate_src(ctx.scratch, src, clsname)
      code = 0 if r[0] == 'ok' else FAMILY.get(r[1], 99)
      outs.append((code, src, r, orders, flips))
      ctx.count((d.name, v), True, cls=f'{inj} -> {FAMNAME[code]}')
    c0 = outs[0][0]
    # "for every ordering": accept-vs-reject must not depend on the order.  (Which of several simultaneous defects is reported
    # first may: every observed class is checked below against the admissible alternatives of the decision model.)
    stable = all((o[0] == 0) == (c0 == 0) for o in outs)
    if not stable:
      v = next(i for i, o in enumerate(outs) if (o[0] == 0) != (c0 == 0))
      rej = outs[v][0] or c0
      key = pattern_key(d, c0, outs[v][0], unstable=True) or f'C09:order-dependent:{inj}:accepted-vs-{FAMNAME[rej]}'
      ctx.violation(key, f'design {d.name} (injection "{inj}"): statement order 0 -> {FAMNAME[c0]} ({outs[0][2][1] if c0 else ""}) but order {v} of the same statements -> {FAMNAME[outs[v][0]]} ({outs[v][2][1] if outs[v][0] else ""})',
                    {'design_source_order0': outs[0][1], f'design_source_order{v}': outs[v][1], 'injection': inj,
                     'classes_per_order': [FAMNAME[o[0]] for o in outs]})
    # the model is evaluated on the description in generation order, in one permuted order, and on the first order of
    # every further exception class that was observed
    pick = [0, min(3, K - 1)]
    for v, o in enumerate(outs):
      if o[0] not in [outs[u][0] for u in pick]: pick.append(v)
    for v in pick:
      code, src, r, orders, flips = outs[v]
      term = coq_design(d, orders, flips)
      cases_bit.append(f'({term}, {code}%nat)'); cases_faith.append(cases_bit[-1])
      meta.append((d, inj, src, r, v, stable))
    if j < 3: ctx.sample({'design': d.name, 'injection': inj, 'source_tail': outs[0][1][-600:], 'elaborate': FAMNAME[c0]})
  bad_bit = ctx.coq_bad_indices('bit', IMPORTS, DEFS, 'ctype', cases_bit, 'wf_design_addrs (fst c) && admissible (defect_alts bitlevel (fst c)) (snd c)', shard=40)
  bad_f = ctx.coq_bad_indices('faith', IMPORTS, DEFS, 'ctype', cases_faith, 'wf_design_addrs (fst c) && admissible (defect_alts faithful (fst c)) (snd c)', shard=40)
  fset = set(bad_f)
  if bad_bit:
    sel = bad_bit[:60]
    verdicts = ctx.coq_eval('why_bit', IMPORTS, DEFS, [f'code (bit_level_defect (fst {cases_bit[i]}))' for i in sel])
    alts = ctx.coq_eval('alts_bit', IMPORTS, DEFS, [f'map dcode (defect_alts bitlevel (fst {cases_bit[i]}))' for i in sel])
    wf = ctx.coq_eval('wf_bit', IMPORTS, DEFS, [f'wf_design_addrs (fst {cases_bit[i]})' for i in sel])
    for n, i in enumerate(sel):
      d, inj, src, r, v, stable = meta[i]
      try: mv = int(verdicts[n].split('%')[0])
      except Exception: mv = -1
      al = [FAMNAME.get(int(x), x) for x in re.findall(r'(\d+)', alts[n])]
      obs = 0 if r[0] == 'ok' else FAMILY.get(r[1], 99)
      if wf[n].strip() != 'true':
        ctx.violation('C09:harness-wf', f'address universe of {d.name} is not well-formed ({wf[n]})', {'design_source': src}, found_input=False); continue
      key = pattern_key(d, obs, mv) or f'C09:verdict:{inj}:{FAMNAME.get(mv, mv)}-but-{FAMNAME[obs]}'
      what = (f'design {d.name} (injection "{inj}", order {v}): bit-level decision = {FAMNAME.get(mv, mv)}' + (f' (admissible: {al})' if len(al) > 1 else '') + ' but top.elaborate() -> '
              f'{FAMNAME[obs]}' + (f' [{r[1]}: {r[2][:160]}]' if obs else '')
              + (' (the faithful structural model of the elaboration checks reproduces the implementation\'s answer)' if i not in fset else ''))
      ctx.violation(key, what, {'design_source': src, 'injection': inj, 'model_verdict': FAMNAME.get(mv, mv), 'admissible': al, 'observed': FAMNAME[obs],
                                'exception': None if r[0] == 'ok' else [r[1], r[2]], 'faithful_model_agrees_with_implementation': i not in fset,
                                'coq_design': cases_bit[i][:4000]})
  # the faithful model is a validation aid: where the implementation meets the bit-level decision but not the faithful model,
  # one of the modelled deviations has been repaired in the implementation (not a violation of C09)
  bset = set(bad_bit)
  drift = [i for i in bad_f if i not in bset]
  if drift:
    ctx.note(f'{len(drift)} cases where elaboration agrees with bit_level_defect but not with the faithful model elab_model '
             f'(a modelled deviation is no longer present in the implementation), e.g. {meta[drift[0]][0].name} injection "{meta[drift[0]][1]}"')
  ctx.extra.update({'designs': ndes, 'injections_applied': applied, 'model_cases': len(cases_bit),
                    'disagree_bitlevel': len(bad_bit), 'disagree_faithful': len(bad_f)})

def main(ctx):
  ctx.trusted += ['harness/elab_common.py + harness/c08.py (Builder): design generator; harness/c09.py: defect injection and the translation of a generated design into the fact lists of Elab/Defects.v (addresses = chains of absolute bit ranges, cross-checked by wf_design_addrs inside Coq)']
  ctx.assumptions += ['error families are compared by exception class only (message text is not modelled)',
                      'at most one defect is injected per design; the relative order of two simultaneous defects follows the order of the checks in elaborate()',
                      'UpdateFFNonTopLevelSignalError (update_ff writing a slice / field) is treated as part of the assignment rules of update_ff blocks',
                      'the sequential writer-resolution loop is modelled by a monotone parallel fixed point; agreement is established differentially (faithful model vs implementation on every generated design)']
  ctx.build_props(extra_models=['theories/Elab/Nets.vo', 'theories/Elab/Address.vo', 'theories/Elab/Defects.vo'])
  try:
    run(ctx)
  except Exception as e:
    ctx.violation('C09:harness-crash', f'correspondence could not run: {e!r}', {'traceback': traceback.format_exc()}, found_input=False)
  return ctx.finish(rule='constructively legal random hierarchy (1-3 levels, Bits/struct signals, slices, fields, constants, update and update_ff blocks, nets through child ports) '
                         '+ exactly one injection from a catalogue of 43 defect / near-miss kinds; each under 10 statement orders x side flips; distinct = (design, order)')

def replay(ctx, r):
  """./check C09 --replay f : re-elaborate the stored design(s) and compare with the recorded model verdict"""
  seen = ec.replay_sources(ctx, r)
  rp = r.get('replay', {})
  rc = 0
  allo = set()
  for k, o in seen.items(): allo |= set(o)
  if len(allo) > 1: print('REPRODUCED: the same statements give different outcomes:', sorted(allo)); rc = 1
  mv = rp.get('model_verdict')
  if mv is not None:
    fams = rp.get('admissible') or [mv]
    if mv == 'accepted': fams = ['accepted']
    exp = {'accepted' if f == 'accepted' else next((k for k, c in FAMILY.items() if FAMNAME[c] == f), f) for f in fams}
    print(f'model verdict: {mv} (admissible outcome classes: {sorted(exp)})')
    if any(o not in exp for o in allo): print('REPRODUCED: elaboration outcome differs from the decision model'); rc = 1
  shutil.rmtree(ctx.scratch, ignore_errors=True)
  return rc
