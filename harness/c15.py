"""C15 — replacing a component yields the same design as building it directly.

theorems (Props/C15.v, model Elab/Replace.v, proofs Elab/ReplaceProofs.v; unbounded: any hierarchy, any slot, any sequence):
  "all queryable design metadata ... equals, up to object identity, that of a design constructed from scratch with the
   replacement in place"                   C15_metadata_is_union_of_local_contributions (metadata = disjoint union of
                                           name-keyed local contributions), C15_delete_add_eq_build (+ _checked: the saved
                                           names re-evaluate iff the replacement exposes the same interface names),
                                           C15_outside_untouched
  "on a child at any depth or list position - once or repeatedly"
                                           C15_replace_seq (induction over the sequence; a slot is any name), C15_replace_twice
  "nothing belonging to the removed component remains reachable"
                                           C15_no_residue_after_delete, C15_no_residue, C15_saved_refs_resolve
  comparison evaluated by the harness      C15_case_ok_sound, C15_views_replace_seq
  nets and their writers / simulation      functions of (signals, adjacency, block write sets) resp. of the design: covered by
                                           C08 / C01 on the model side; HERE decided differentially (replaced vs scratch build).
tie: T-diff, twice.  (1) inside the implementation: one generated source, instantiated (a) as the base design followed by
     replace_component / replace_component_with_obj and (b) from scratch with the replacements in place (slot table);
     name-keyed canonical dumps of components, signals, method ports, update blocks (+ff/once), read/write/call sets, U_U /
     RD_U / WR_U / M constraints, adjacency, value nets (writer + members), method nets, all_named_objects are compared,
     both are simulated for 20 cycles, and everything reachable from top._dsl / every live component's _dsl is scanned for
     objects of the removed subtrees.  (2) against the Coq model: the hierarchy description, the replacement sequence and
     the rows observed after the replacements are checked by Replace.case_ok inside Coq (both views(meta(H[..])) and
     views(replace_seq_meta(meta H))).
partial: the Coq model is the name-keyed algebra (what delete/add must achieve), not a line-by-line model of
     _delete_component/_add_component; value nets, method nets and simulation are compared only differentially.
"""
from common import *
import sched_common as sc
import re, gc

PRELUDE = '''from pymtl3 import *
from pymtl3.dsl import *
TABLE = {}
def pick( s, seg, default ):
  return TABLE.get( repr(s) + '.' + seg, default )
@bitstruct
class Pq:
  x: Bits4
  y: Bits4
@bitstruct
class St:
  a: Bits8
  p: Pq
  v: [ Bits4, Bits4, Bits4 ]
  m: [ [ Bits2, Bits2 ], [ Bits2, Bits2 ] ]
'''
# sub-signals of a St-typed signal: (path segments, width, the further signals pymtl3 creates as a side effect of touching it)
ST_FIELDS = [(('a',), 8, []), (('p', 'x'), 4, [('p',)]), (('p', 'y'), 4, [('p',)])] + \
            [((f'v[{i}]',), 4, [(f'v[{j}]',) for j in range(3) if j != i]) for i in range(3)] + \
            [((f'm[{i}][{j}]',), 2, [(f'm[{a}][{b}]',) for a in range(2) for b in range(2) if (a, b) != (i, j)]) for i in range(2) for j in range(2)]

def nm(*segs): return tuple(segs)
def expr(name): return 's' + ''.join(x if x.startswith('[') else '.' + x for x in name)
def bits_repr(n, v): return f'Bits{n}(0x{v:0{(n + 3) // 4}x})'

class CD:
  """description of one generated component class: source lines + local facts (names relative to the component) + child slots"""
  def __init__(s, name, method, forward=False, cid=0):
    s.name, s.method, s.forward, s.cid = name, method, forward, cid
    s.lines, s.facts, s.slots, s.nblk = [], [('comp',), ('sig', nm('clk')), ('sig', nm('reset'))], [], 0
    s.features = set()
    if method:
      # forward: the callee port has no method of its own; it is connected to a child's callee port (an internal method net)
      s.lines += ['s.recv = CalleePort()' if forward else 's.recv = CalleePort( method=s.recv_ )', 's.acc = 0', 's.kk = k']
      s.facts.append(('meth', nm('recv')))
  def sig(s, n, ctor, w):
    s.lines.append(f's.{n} = {ctor}( {w} )'); s.facts.append(('sig', nm(n)))
  def blk(s, name, kind, body, reads=(), writes=(), calls=()):
    deco = {'up': '@update', 'ff': '@update_ff', 'once': '@update_once'}[kind]
    s.lines += [deco, f'def {name}():'] + ['  ' + b for b in body]
    s.facts.append(('blk', name, kind))
    s.facts += [('rd', name, r) for r in reads] + [('wr', name, w) for w in writes] + [('call', name, c) for c in calls]
  def touch(s, base, fld):
    """name of sub-signal fld of the St signal `base` (a relative name); records the signals created as a side effect"""
    path, w, side = fld
    for t in side:
      if ('touch', base + t) not in s.facts: s.facts.append(('touch', base + t))
    return base + path
  def source(s):
    body = ''.join(f'    {l}\n' for l in s.lines)
    m = f'  def recv_( s, v ):\n    s.acc = v\n    return v + 16 * s.kk + {1000 * s.cid}\n' if s.method and not s.forward else ''
    return f'class {s.name}( Component ):\n  def construct( s, k=1, p=0 ):\n{body}{m}'

class Gen:
  def __init__(s, rng, tag, method=None, maxdepth=None):
    s.rng, s.tag = rng, tag
    s.method = rng.random() < 0.4 if method is None else method
    s.maxdepth = rng.choice([1, 1, 2, 2, 3]) if maxdepth is None else maxdepth
    s.classes = []
    s.leaves = []
    s.features = set()

  def fresh(s, p):
    return f'{p}{s.tag}_{len(s.classes)}'

  # ---------------------------------------------------------------- leaf classes
  def gen_leaf(s, rich=None):
    rng = s.rng
    cd = CD(s.fresh('L'), s.method, cid=len(s.classes)); s.classes.append(cd)
    cd.sig('in_', 'InPort', 8); cd.sig('out', 'OutPort', 8)
    comb = []          # (blk name, reads, writes) in dataflow order
    prev = nm('in_')
    def addc(body, reads, writes):
      b = f'b{cd.nblk}'; cd.nblk += 1
      cd.blk(b, 'up', body, reads, writes); comb.append((b, set(reads), set(writes))); return b
    rich = rng.random() < 0.75 if rich is None else rich
    nw = rng.randrange(1, 4) if rich else rng.randrange(0, 2)
    extra = []
    for i in range(nw):
      cd.sig(f'w{i}', 'Wire', 8)
      op = rng.choice(['+', '^', '-'])
      addc([f's.w{i} @= {expr(prev)} {op} k'], [prev], [nm(f'w{i}')]); prev = nm(f'w{i}')
    if rich and rng.random() < 0.5:        # a constant-driven wire read by a block
      cd.sig('c4', 'Wire', 4); v = rng.randrange(16)
      cd.lines.append(f's.c4 //= {v}'); cd.facts.append(('edge', ('s', nm('c4')), ('c', bits_repr(4, v))))
      extra.append(('zext( s.c4, 8 )', nm('c4'))); cd.features.add('leaf-const')
    if rich and rng.random() < 0.5:        # a block reading a slice of the input port
      lo = rng.randrange(0, 5); cd.sig('v4', 'Wire', 4)
      addc([f's.v4 @= s.in_[{lo}:{lo+4}]'], [nm('in_', f'[{lo}:{lo+4}]')], [nm('v4')])
      extra.append(('zext( s.v4, 8 )', nm('v4'))); cd.features.add('leaf-slice')
    if rich and rng.random() < 0.4:        # an internal net through a slice
      cd.sig('n4', 'Wire', 4); lo = rng.randrange(0, 5)
      cd.lines.append(f'connect( s.n4, {expr(prev)}[{lo}:{lo+4}] )')
      cd.facts.append(('edge', ('s', nm('n4')), ('s', prev + (f'[{lo}:{lo+4}]',))))
      extra.append(('zext( s.n4, 8 )', nm('n4'))); cd.features.add('leaf-net')
    if rich and rng.random() < 0.45:       # a register
      cd.sig('r', 'Wire', 8); f = f'f{cd.nblk}'; cd.nblk += 1
      cd.blk(f, 'ff', [f's.r <<= {expr(prev)}'], [prev], [nm('r')]); extra.append(('s.r', nm('r'))); cd.features.add('leaf-ff')
    use = [e for e in extra if rng.random() < 0.8]
    rhs = ' + '.join([expr(prev)] + [e for e, _ in use]) + ' + p'      # p: only ever set through the parameter tree (set_param)
    reads = [prev] + [n for _, n in use]
    if rng.random() < 0.25:
      f = f'f{cd.nblk}'; cd.nblk += 1
      cd.blk(f, 'ff', [f's.out <<= {rhs}'], reads, [nm('out')]); cd.features.add('leaf-out-ff')
    else:
      addc([f's.out @= {rhs}'], reads, [nm('out')])
    if s.method and rng.random() < 0.6:
      cd.blk('up_o', 'once', ['s.acc = s.acc + 1']); cd.features.add('leaf-once')
      if rng.random() < 0.7:
        if rng.random() < 0.5: cd.lines.append('s.add_constraints( M(s.recv) < U(up_o) )'); cd.facts.append(('M', ('m', nm('recv')), ('b', 'up_o'), 'False'))
        else:                  cd.lines.append('s.add_constraints( U(up_o) < M(s.recv) )'); cd.facts.append(('M', ('b', 'up_o'), ('m', nm('recv')), 'False'))
        cd.features.add('leaf-M')
    # struct-typed output port: fields / nested fields / list-field elements written by blocks of this component
    cd.sig('so', 'OutPort', 'St')
    # (every class drives so.a and so.v[0], so that an ancestor may connect to them whatever the slot holds)
    flds = [ST_FIELDS[0], ST_FIELDS[3]] + rng.sample(ST_FIELDS[1:3] + ST_FIELDS[4:], rng.randrange(0, 2))
    for fld in flds:
      w = fld[1]; tgt = cd.touch(nm('so'), fld)
      if w == 8: src_e, rds = expr(prev), [prev]
      else:
        lo = rng.randrange(0, 9 - w); src_e, rds = f'{expr(prev)}[{lo}:{lo + w}]', [prev + (f'[{lo}:{lo + w}]',)]
      b = f'bs{cd.nblk}'; cd.nblk += 1
      cd.blk(b, 'up', [f'{expr(tgt)} @= {src_e}'], rds, [tgt])
    cd.features.add('leaf-struct-port-fields')
    if rich and rng.random() < 0.4:
      # an internal struct wire: fields written by a block, read by an update_ff block and by a lambda block
      cd.sig('st', 'Wire', 'St')
      wf = rng.sample(ST_FIELDS, rng.randrange(1, 4))
      body, wrs, rds = [], [], []
      for fld in wf:
        w = fld[1]; tgt = cd.touch(nm('st'), fld)
        if w == 8: body.append(f'{expr(tgt)} @= {expr(prev)}'); rds.append(prev)
        else:
          lo = rng.randrange(0, 9 - w); body.append(f'{expr(tgt)} @= {expr(prev)}[{lo}:{lo + w}]'); rds.append(prev + (f'[{lo}:{lo + w}]',))
        wrs.append(tgt)
      b = f'bt{cd.nblk}'; cd.nblk += 1
      cd.blk(b, 'up', body, rds, wrs)
      rf = rng.choice(wf); cd.sig('rs', 'Wire', rf[1]); f = f'ft{cd.nblk}'; cd.nblk += 1
      cd.blk(f, 'ff', [f's.rs <<= {expr(cd.touch(nm("st"), rf))}'], [cd.touch(nm('st'), rf)], [nm('rs')])
      if rng.random() < 0.6:
        lf = rng.choice(wf); cd.sig('lw', 'Wire', lf[1])
        cd.lines.append(f's.lw //= lambda: {expr(cd.touch(nm("st"), lf))} + 1')
        cd.facts += [('blk', '{LAM}lw', 'up'), ('rd', '{LAM}lw', cd.touch(nm('st'), lf)), ('wr', '{LAM}lw', nm('lw'))]
        cd.features.add('leaf-lambda-reads-field')
      cd.features.add('leaf-struct-wire')
    s.constraints(cd, comb, 0.75 if rich else 0.3)
    cd.blocks_for_parents = [((), b) for b, _, _ in comb]
    s.leaves.append(cd)
    return cd

  def constraints(s, cd, comb, p):
    """explicit constraints, all pointing forward in the dataflow order of the comb blocks (so the design stays schedulable)"""
    rng = s.rng
    if len(comb) < 2 or rng.random() > p: return
    idx = {b: i for i, (b, _, _) in enumerate(comb)}
    # only the component's own wires: a constraint on a port would order blocks against writers / readers that live outside
    vars_ = sorted({v for _, r, w in comb for v in (r | w) if len(v) == 1 and v[0] not in ('in_', 'out')})
    if not vars_: return
    cons, seen = [], set()
    for _ in range(rng.randrange(1, 4)):
      kind = rng.choice(['WR<', 'WR>', 'RD<', 'RD>', 'UU'])
      if kind == 'UU':
        i, j = sorted(rng.sample(range(len(comb)), 2))
        key = ('UU', comb[i][0], comb[j][0])
        if key in seen: continue
        seen.add(key); cons.append(f'U({comb[i][0]}) < U({comb[j][0]})'); cd.facts.append(key); cd.features.add('c-UU')
        continue
      v = rng.choice(vars_)
      W = [idx[b] for b, r, w in comb if v in w]; R = [idx[b] for b, r, w in comb if v in r]
      S = W if kind[:2] == 'WR' else R
      if not S: continue
      if kind[2] == '<':       # RD/WR(v) < U(bj): bj after all of them
        js = [j for j in range(len(comb)) if all(j > i for i in S)]
        if not js: continue
        b = comb[rng.choice(js)][0]; key = (kind[:2] + 'U', v, '<', b)
        if key in seen: continue
        txt = f'{kind[:2]}({expr(v)}) < U({b})' if rng.random() < 0.5 else f'U({b}) > {kind[:2]}({expr(v)})'
      else:                     # U(bi) < RD/WR(v): bi before all of them
        js = [j for j in range(len(comb)) if all(j < i for i in S)]
        if not js: continue
        b = comb[rng.choice(js)][0]; key = (kind[:2] + 'U', v, '>', b)
        if key in seen: continue
        txt = f'U({b}) < {kind[:2]}({expr(v)})' if rng.random() < 0.5 else f'{kind[:2]}({expr(v)}) > U({b})'
      seen.add(key); cons.append(txt); cd.facts.append(key); cd.features.add('c-' + kind[:2] + 'U')
    if cons: cd.lines.append('s.add_constraints( ' + ', '.join(cons) + ' )')

  # ---------------------------------------------------------------- components with child slots
  def gen_wrapper(s, depth, nest=True):
    """a purely structural component (no update block of its own): children chained by connections, and explicit U-U / RD-U /
    WR-U constraints declared HERE over update blocks of its children / grandchildren (forward along the dataflow)"""
    rng = s.rng
    kids = []
    for i in range(rng.randrange(2, 4)):
      if i == 0 and nest and rng.random() < 0.3: c = s.gen_wrapper(depth + 1, nest=False)
      elif s.leaves and rng.random() < 0.3: c = rng.choice(s.leaves)
      else: c = s.gen_leaf()
      kids.append((f'x{i}', c, rng.randrange(1, 9)))
    cd = CD(s.fresh('W'), s.method, forward=s.method, cid=len(s.classes)); s.classes.append(cd)
    cd.sig('in_', 'InPort', 8); cd.sig('out', 'OutPort', 8)
    for seg, c, k in kids:
      cd.lines.append(f's.{seg} = pick( s, "{seg}", {c.name} )( {k} )'); cd.slots.append((seg, c, k))
      cd.facts += [('edge', ('s', nm(seg, 'clk')), ('s', nm('clk'))), ('edge', ('s', nm(seg, 'reset')), ('s', nm('reset')))]
    if s.method:
      cd.lines.append('connect( s.recv, s.x0.recv )'); cd.facts.append(('medge', nm('recv'), nm('x0', 'recv')))
    src = nm('in_')
    for i, (seg, c, k) in enumerate(kids):
      cd.lines.append(f's.{seg}.in_ //= {expr(src)}'); cd.facts.append(('edge', ('s', nm(seg, 'in_')), ('s', src)))
      cd.sig(f't{i}', 'Wire', 8)
      cd.lines.append(f's.t{i} //= s.{seg}.out'); cd.facts.append(('edge', ('s', nm(f't{i}')), ('s', nm(seg, 'out'))))
      # the child's output port fans out: to the wire t_i AND directly to the next sibling's input port (or to out)
      src = nm(seg, 'out') if rng.random() < 0.6 else nm(f't{i}')
    cd.lines.append(f's.out //= {expr(src)}'); cd.facts.append(('edge', ('s', nm('out')), ('s', src)))
    cd.sig('so', 'OutPort', 'St')
    cd.lines.append(f's.so //= s.{kids[-1][0]}.so'); cd.facts.append(('edge', ('s', nm('so')), ('s', nm(kids[-1][0], 'so'))))
    blocks = [[((seg,) + path, b) for path, b in getattr(c, 'blocks_for_parents', [])] for seg, c, k in kids]
    def gub(path, b): return f'{expr(path)}.get_update_block( "{b}" )'
    cons, seen = [], set()
    for _ in range(rng.randrange(1, 4)):
      kind = rng.choice(['UU', 'UU', 'RD', 'WR'])
      i, j = sorted(rng.sample(range(len(kids)), 2))
      if kind == 'UU' and blocks[i] and blocks[j]:
        (p1, b1), (p2, b2) = rng.choice(blocks[i]), rng.choice(blocks[j])
        key = ('UUc', p1, b1, p2, b2)
        if key in seen: continue
        cons.append(f'U({gub(p1, b1)}) < U({gub(p2, b2)})')
      elif kind == 'RD' and blocks[i]:
        p1, b1 = rng.choice(blocks[i]); v = nm(f't{rng.randrange(i, len(kids))}')
        key = ('RDUc', v, '>', p1, b1)
        if key in seen: continue
        cons.append(f'U({gub(p1, b1)}) < RD({expr(v)})')
      elif kind == 'WR' and blocks[j]:
        p2, b2 = rng.choice(blocks[j]); v = nm(f't{rng.randrange(0, j)}')
        key = ('WRUc', v, '<', p2, b2)
        if key in seen: continue
        cons.append(f'WR({expr(v)}) < U({gub(p2, b2)})')
      else: continue
      seen.add(key); cd.facts.append(key)
    if cons: cd.lines.append('s.add_constraints( ' + ', '.join(cons) + ' )')
    cd.blocks_for_parents = [b for bl in blocks[-1:] for b in bl]
    cd.features |= {'structural-wrapper'}
    if cons: s.features.add('wrapper-constraints-over-descendant-blocks')
    return cd

  def child_class(s, depth):
    rng = s.rng
    if depth < s.maxdepth and rng.random() < 0.2: return s.gen_wrapper(depth)
    if depth < s.maxdepth and rng.random() < 0.45: return s.gen_inner(depth)
    if s.leaves and rng.random() < 0.35: return rng.choice(s.leaves)
    return s.gen_leaf()

  def gen_inner(s, depth, top=False):
    rng = s.rng
    kids = []          # (seg, class, k)
    ngroups = rng.randrange(1, 4)
    for gi in range(ngroups):
      r = rng.random()
      if r < 0.45:
        kids.append([(f'a{gi}', s.child_class(depth + 1), rng.randrange(1, 9))])
      elif r < 0.8:
        n = rng.randrange(1, 4); c = s.child_class(depth + 1)
        kids.append([(f'l{gi}[{i}]', c if rng.random() < 0.8 else s.child_class(depth + 1), rng.randrange(1, 9)) for i in range(n)])
        s.features.add('list-slot')
      else:
        n, m = rng.randrange(1, 3), rng.randrange(1, 3); c = s.child_class(depth + 1)
        kids.append([(f'l{gi}[{i}][{j}]', c, rng.randrange(1, 9)) for i in range(n) for j in range(m)])
        s.features.add('list2d-slot')
    forward = s.method and not top and rng.random() < 0.5
    cd = CD(s.fresh('T' if top else 'P'), s.method and not top, forward, cid=len(s.classes)); s.classes.append(cd)
    if forward: s.features.add('callee-forwarded-to-child')
    cd.sig('in_', 'InPort', 8); cd.sig('out', 'OutPort', 8)
    # declarations of the slots (lists are written as nested literal lists of pick(...)( k ))
    for grp in kids:
      base = grp[0][0].split('[')[0]
      if '[' not in grp[0][0]:
        seg, c, k = grp[0]; cd.lines.append(f's.{seg} = pick( s, "{seg}", {c.name} )( {k} )')
      else:
        dims = grp[0][0].count('[')
        def item(seg, c, k): return f'pick( s, "{seg}", {c.name} )( {k} )'
        if dims == 1:
          cd.lines.append(f's.{base} = [ ' + ', '.join(item(*x) for x in grp) + ' ]')
        else:
          rows = {}
          for x in grp: rows.setdefault(x[0].split('[')[1], []).append(x)
          cd.lines.append(f's.{base} = [ ' + ', '.join('[ ' + ', '.join(item(*x) for x in rows[r]) + ' ]' for r in sorted(rows)) + ' ]')
      for seg, c, k in grp:
        cd.slots.append((seg, c, k))
        cd.facts += [('edge', ('s', nm(seg, 'clk')), ('s', nm('clk'))), ('edge', ('s', nm(seg, 'reset')), ('s', nm('reset')))]
    if forward:
      seg = rng.choice(cd.slots)[0]
      cd.lines.append(f'connect( s.recv, {expr(nm(seg))}.recv )'); cd.facts.append(('medge', nm('recv'), nm(seg, 'recv')))
    if s.method and rng.random() < 0.5:
      # a caller port of this component connected to a child's callee port, called from an update_once block
      seg = rng.choice(cd.slots)[0]
      cd.lines += ['s.cp = CallerPort()', f'connect( s.cp, {expr(nm(seg))}.recv )']
      cd.facts += [('meth', nm('cp')), ('medge', nm('cp'), nm(seg, 'recv'))]
      cd.blk('up_cp', 'once', ['s.cp( 2 )'], [], [], [nm('cp')]); s.features.add('caller-port-connected-inside')
    comb = []
    src = nm('in_')
    t = 0
    for seg, c, k in cd.slots:
      X = expr(nm(seg))
      # ---- how the child's input is driven
      r = rng.random()
      wr_blk = None
      if r < 0.55:
        cd.lines.append(f'{X}.in_ //= {expr(src)}'); cd.facts.append(('edge', ('s', nm(seg, 'in_')), ('s', src)))
      elif r < 0.8:
        b = wr_blk = f'up_wr{cd.nblk}'; cd.nblk += 1
        cd.blk(b, 'up', [f'{X}.in_ @= {expr(src)}'], [src], [nm(seg, 'in_')]); comb.append((b, {src}, {nm(seg, 'in_')})); s.features.add('parent-writes-child-port')
      else:
        v = rng.randrange(256)
        cd.lines.append(f'{X}.in_ //= {v}'); cd.facts.append(('edge', ('s', nm(seg, 'in_')), ('c', bits_repr(8, v)))); s.features.add('parent-const-to-child')
      # ---- how the child's output is consumed
      tw = f't{t}'; t += 1
      cd.sig(tw, 'Wire', 8)
      r = rng.random()
      if r < 0.4:
        cd.lines.append(f's.{tw} //= {X}.out'); cd.facts.append(('edge', ('s', nm(tw)), ('s', nm(seg, 'out'))))
        if rng.random() < 0.35:
          # fan-out: the same output port of the child is connected directly to a second signal of the parent
          cd.sig(f'fo{t}', 'Wire', 8)
          cd.lines.append(f's.fo{t} //= {X}.out'); cd.facts.append(('edge', ('s', nm(f'fo{t}')), ('s', nm(seg, 'out')))); s.features.add('child-port-fan-out')
      elif r < 0.6:
        b = f'up_rd{cd.nblk}'; cd.nblk += 1
        cd.blk(b, 'up', [f's.{tw} @= {X}.out'], [nm(seg, 'out')], [nm(tw)]); comb.append((b, {nm(seg, 'out')}, {nm(tw)})); s.features.add('parent-reads-child-port')
      elif r < 0.8:
        cut = rng.randrange(1, 8)
        cd.lines.append(f'connect( s.{tw}[0:{cut}], {X}.out[0:{cut}] )')
        cd.facts.append(('edge', ('s', nm(tw, f'[0:{cut}]')), ('s', nm(seg, 'out', f'[0:{cut}]'))))
        b = f'up_hi{cd.nblk}'; cd.nblk += 1
        cd.blk(b, 'up', [f's.{tw}[{cut}:8] @= {X}.out[{cut}:8]'], [nm(seg, 'out', f'[{cut}:8]')], [nm(tw, f'[{cut}:8]')])
        s.features.add('parent-slices-child-port')
      else:
        f = f'fn{cd.nblk}'; b = f'up_fn{cd.nblk}'; cd.nblk += 1
        cd.lines += ['@s.func', f'def {f}():', f'  s.{tw} @= {X}.out']
        cd.blk(b, 'up', [f'{f}()'], [nm(seg, 'out')], [nm(tw)], [nm('@' + f)]); comb.append((b, {nm(seg, 'out')}, {nm(tw)})); s.features.add('parent-func-reads-child-port')
      if s.method and rng.random() < 0.4:
        b = f'up_call{cd.nblk}'; cd.nblk += 1
        cd.blk(b, 'once', [f'{X}.recv( 1 )'], [], [], [nm(seg, 'recv')]); s.features.add('parent-calls-child-method')
        if rng.random() < 0.3:
          cd.lines.append(f's.add_constraints( M({X}.recv) < U({b}) )'); cd.facts.append(('M', ('m', nm(seg, 'recv')), ('b', b), 'False'))
          s.features.add('parent-M-on-child-method')
      if wr_blk and rng.random() < 0.25:
        # a value constraint declared by the parent on a child's port: the block feeding the child runs before every reader of its output
        cd.lines.append(f's.add_constraints( U({wr_blk}) < RD({X}.out) )'); cd.facts.append(('RDU', nm(seg, 'out'), '>', wr_blk))
        s.features.add('parent-constraint-on-child-port')
      if c.slots and rng.random() < 0.2:
        # a block of this component reads a port of a GRANDchild (legal: any port may be read)
        gseg = rng.choice(c.slots)[0]
        b = f'up_gr{cd.nblk}'; cd.nblk += 1; cd.sig(f'g{cd.nblk}', 'Wire', 8)
        cd.blk(b, 'up', [f's.g{cd.nblk} @= {X}{expr(nm(gseg))[1:]}.out'], [nm(seg, gseg, 'out')], [nm(f'g{cd.nblk}')]); s.features.add('grandparent-reads-port')
      src = nm(tw)
    if rng.random() < 0.5:
      cd.lines.append(f's.out //= {expr(src)}'); cd.facts.append(('edge', ('s', nm('out')), ('s', src)))
    else:
      b = f'up_out{cd.nblk}'; cd.nblk += 1
      cd.blk(b, 'up', [f's.out @= {expr(src)}'], [src], [nm('out')]); comb.append((b, {src}, {nm('out')}))
    # struct-typed output port of this component: driven from a child's struct port, whole or field by field
    cd.sig('so', 'OutPort', 'St')
    seg = rng.choice(cd.slots)[0]
    if rng.random() < 0.5:
      cd.lines.append(f's.so //= {expr(nm(seg))}.so'); cd.facts.append(('edge', ('s', nm('so')), ('s', nm(seg, 'so'))))
    else:
      for fld in [ST_FIELDS[0], ST_FIELDS[3]] + rng.sample(ST_FIELDS[1:3] + ST_FIELDS[4:], rng.randrange(0, 2)):
        src_f = rng.choice([f_ for f_ in ST_FIELDS if f_[1] == fld[1]])
        b = f'bso{cd.nblk}'; cd.nblk += 1
        cd.blk(b, 'up', [f'{expr(cd.touch(nm("so"), fld))} @= {expr(cd.touch(nm(seg, "so"), src_f))}'], [cd.touch(nm(seg, 'so'), src_f)], [cd.touch(nm('so'), fld)])
      s.features.add('parent-block-reads-child-struct-fields')
    for seg, c, k in cd.slots:
      r = rng.random()
      if r < 0.2:
        fs = rng.sample(ST_FIELDS, rng.randrange(1, 3))
        b = f'up_so{cd.nblk}'; cd.nblk += 1; cd.sig(f'u{cd.nblk}', 'Wire', 8)
        rhs = ' + '.join((expr(cd.touch(nm(seg, 'so'), f_)) if f_[1] == 8 else f'zext( {expr(cd.touch(nm(seg, "so"), f_))}, 8 )') for f_ in fs)
        cd.blk(b, 'up', [f's.u{cd.nblk} @= {rhs}'], [cd.touch(nm(seg, 'so'), f_) for f_ in fs], [nm(f'u{cd.nblk}')])
        s.features.add('parent-block-reads-child-struct-fields')
      elif r < 0.32:
        f_ = rng.choice([ST_FIELDS[0], ST_FIELDS[3]]); cd.sig(f'q{cd.nblk}', 'Wire', f_[1])
        cd.lines.append(f's.q{cd.nblk} //= {expr(cd.touch(nm(seg, "so"), f_))}')
        cd.facts.append(('edge', ('s', nm(f'q{cd.nblk}')), ('s', cd.touch(nm(seg, 'so'), f_)))); cd.nblk += 1
        s.features.add('parent-connects-child-struct-field')
    s.constraints(cd, comb, 0.3)
    cd.features |= {'inner'}
    return cd

  def build(s):
    s.top = s.gen_inner(0, top=True)
    # replacement classes: a few more leaves / inner components that are not used by the base design
    return s

  def source(s):
    order = []          # children before parents: classes were appended parent-last except for nested creation order
    return PRELUDE + '\n'.join(c.source() for c in s.classes) + f'\nTop = {s.top.name}\n'

# ------------------------------------------------------------------ instance hierarchy (for the model)
def instantiate(cd, table, pre=(), abs_pre=()):
  """list of (relative component name, facts) of an instance of class cd; table: absolute slot -> class override"""
  def lam(x):
    # a lambda connection creates an update block named after the full name of the driven signal of THIS instance
    if isinstance(x, str) and x.startswith('{LAM}'):
      return '_lambda__' + re.sub(r'[.\[\]:]', '_', expr(tuple(abs_pre) + pre + (x[5:],)))
    return x
  out = [(pre, [tuple(lam(x) for x in f) for f in cd.facts])]
  for seg, c, k in cd.slots:
    c2 = table.get(tuple(abs_pre) + pre + (seg,), c) if abs_pre else table.get(pre + (seg,), c)
    out += instantiate(c2, table, pre + (seg,), abs_pre)
  return out

def refs_of(f):
  k = f[0]
  if k in ('sig', 'meth', 'touch'): return [f[1]]
  if k in ('rd', 'wr', 'call'): return [f[2]]
  if k in ('RDU', 'WRU'): return [f[1]]
  if k == 'UUc': return [f[1], f[3]]
  if k in ('RDUc', 'WRUc'): return [f[1], f[3]]
  if k == 'M': return [m[1] for m in (f[1], f[2]) if m[0] == 'm']
  if k == 'edge': return [e[1] for e in (f[1], f[2]) if e[0] == 's']
  if k == 'medge': return [f[1], f[2]]
  return []

def coq_name(n): return coq_list([f'"{x}"' for x in n])
def coq_ep(e): return f'(ESig {coq_name(e[1])})' if e[0] == 's' else f'(EConst "{e[1]}")'
def coq_mref(m): return f'(MMeth {coq_name(m[1])})' if m[0] == 'm' else f'(MBlk "{m[1]}")'
def coq_fact(f):
  k = f[0]
  if k == 'comp': return 'FComp'
  if k == 'sig': return f'(FSig {coq_name(f[1])})'
  if k == 'touch': return f'(FTouch {coq_name(f[1])})'
  if k == 'meth': return f'(FMeth {coq_name(f[1])})'
  if k == 'blk': return f'(FBlk "{f[1]}" "{f[2]}")'
  if k in ('rd', 'wr', 'call'): return f'({ {"rd": "FRead", "wr": "FWrite", "call": "FCall"}[k] } "{f[1]}" {coq_name(f[2])})'
  if k == 'UU': return f'(FUU "{f[1]}" "{f[2]}")'
  if k in ('RDU', 'WRU'): return f'(F{k} {coq_name(f[1])} "{f[2]}" "{f[3]}")'
  if k == 'UUc': return f'(FUUc {coq_name(f[1])} "{f[2]}" {coq_name(f[3])} "{f[4]}")'
  if k in ('RDUc', 'WRUc'): return f'(F{k} {coq_name(f[1])} "{f[2]}" {coq_name(f[3])} "{f[4]}")'
  if k == 'M': return f'(FM {coq_mref(f[1])} {coq_mref(f[2])} "{f[3]}")'
  if k == 'edge': return f'(FEdge {coq_ep(f[1])} {coq_ep(f[2])})'
  if k == 'medge': return f'(FMEdge {coq_name(f[1])} {coq_name(f[2])})'
  raise ValueError(f)
def coq_hier(h):
  return coq_list([f'({coq_name(n)}, {coq_list([coq_fact(f) for f in facts])})' for n, facts in h])

# ------------------------------------------------------------------ canonical dump of a live design
def rep(x):
  from pymtl3.dsl.Connectable import Const
  return repr(x)

def fname(top, f):
  """name of a function-like object (update block / s.func function / bound method) qualified by its host when known"""
  host = top._dsl.all_upblk_hostobj.get(f) if hasattr(f, '__hash__') else None
  return (repr(host) if host is not None else '<no-host>'), getattr(f, '__name__', repr(f))

def dump(top):
  """name-keyed rows of everything the property lists; format identical to Replace.views"""
  from pymtl3.dsl.Connectable import Signal, MethodPort
  from pymtl3.dsl.NamedObject import NamedObject
  d = top._dsl
  rows = set()
  for c in top.get_all_components(): rows.add(('comp', repr(c)))
  for x in top.get_all_object_filter(lambda x: isinstance(x, Signal)): rows.add(('sig', repr(x)))
  for x in top.get_all_object_filter(lambda x: isinstance(x, MethodPort)): rows.add(('meth', repr(x)))
  ffs, once = top.get_all_update_ff(), top.get_all_update_once()
  for b in set(top.get_all_update_blocks()) | set(ffs) | set(once):
    h, n = fname(top, b)
    rows.add(('blk', h, n, 'ff' if b in ffs else 'once' if b in once else 'up'))
  rd, wr, ca = top.get_all_upblk_metadata()
  def callname(b, x):
    if isinstance(x, NamedObject): return repr(x)
    return fname(top, b)[0] + '.@' + getattr(x, '__name__', repr(x))
  for tag, tab in (('rd', rd), ('wr', wr)):
    for b, objs in tab.items():
      h, n = fname(top, b)
      for x in objs: rows.add((tag, h, n, repr(x)))
  for b, objs in ca.items():
    h, n = fname(top, b)
    for x in objs: rows.add(('call', h, n, callname(b, x)))
  uu, rdu, wru, mc = top.get_all_explicit_constraints()
  for a, b in uu:
    h, n = fname(top, a); rows.add(('UU', h, n, b.__name__))
  for tag, tab in (('RDU', rdu), ('WRU', wru)):
    for x, cs in tab.items():
      for sign, b in cs:
        h, n = fname(top, b); rows.add((tag, repr(x), '<' if sign == 1 else '>', h, n))
  def mname(x):
    if isinstance(x, NamedObject): return repr(x)
    h, n = fname(top, x); return h + ':' + n
  for a, b, eq in mc: rows.add(('M', mname(a), mname(b), str(eq)))
  for x, ys in top.get_signal_adjacency_dict().items():
    for y in ys: rows.add(('adj', repr(x), repr(y))); rows.add(('adj', repr(y), repr(x)))
  return rows

def dump_extra(top):
  """further name-keyed data compared only between the replaced and the scratch design"""
  from pymtl3.dsl.NamedObject import NamedObject
  rows = set()
  for w, net in top.get_all_value_nets(): rows.add(('net', repr(w), tuple(sorted(repr(x) for x in net))))
  for w, net in top.get_all_method_nets(): rows.add(('mnet', repr(w), tuple(sorted(repr(x) for x in net))))
  for x in top.get_all_object_filter(lambda x: True): rows.add(('obj', type(x).__name__, repr(x)))
  for x in top._dsl.all_signals:
    if x._dsl.needs_double_buffer: rows.add(('dbuf', repr(x)))            # written by an update_ff block: double-buffered in simulation
  for x in top._dsl.all_signals: rows.add(('sigset', repr(x)))             # the set _resolve_value_connections floods from
  for x in top._dsl.all_method_ports: rows.add(('mportset', repr(x)))      # the set _resolve_method_connections floods from
  for c in top.get_all_components():
    for x in c.get_child_components(): rows.add(('child', repr(c), repr(x)))
    rows.add(('level', repr(c), c.get_component_level()))
    rows.add(('params', repr(c), repr(tuple(c._dsl.args)), repr(sorted(c._dsl.kwargs.items()))))   # what construct() was called with
  return rows

# ------------------------------------------------------------------ residue scan
def removed_objects(foo):
  from pymtl3.dsl.NamedObject import NamedObject
  objs = foo._collect_all_single(lambda x: True)
  extra = set()
  for c in objs:
    d = getattr(c, '_dsl', None)
    for attr in ('upblks', 'consts'):
      for b in getattr(d, attr, ()) or (): extra.add(b)
    for f in (getattr(d, 'name_func', {}) or {}).values(): extra.add(f)
  return objs | extra

def scan_residue(top, removed_ids):
  """walk top._dsl and every live component's _dsl; report where an object of a removed subtree is still referenced"""
  from pymtl3.dsl.NamedObject import NamedObject
  hits = set()
  def walk(v, where, depth=0):
    if id(v) in removed_ids:
      hits.add(where); return
    if depth > 4: return
    if isinstance(v, dict):
      for k, x in v.items(): walk(k, where, depth + 1); walk(x, where, depth + 1)
    elif isinstance(v, (set, frozenset, list, tuple)):
      for x in v: walk(x, where, depth + 1)
  for attr, v in vars(top._dsl).items():
    if attr in ('all_value_nets', 'all_method_nets') : pass
    walk(v, 'top._dsl.' + attr)
  topattrs = set(vars(top._dsl))
  for c in top.get_all_components():
    for attr, v in vars(c._dsl).items():
      if c is top or attr in ('parent_obj', 'elaborate_top', 'args', 'kwargs', 'param_tree'): continue
      walk(v, 'component._dsl.' + attr)
  live = top._collect_all_single(lambda x: True)
  for o in live:
    if id(o) in removed_ids: hits.add('reachable-through-attributes')
    if '<deleted>' in repr(o): hits.add('deleted-object-reachable-through-attributes')
  return hits

# ------------------------------------------------------------------ one history
def drive(top, seed, pure, cycles=20):
  from pymtl3.passes.PassGroups import DefaultPassGroup
  from pymtl3.dsl.Connectable import MethodPort
  top.apply(DefaultPassGroup()); top.sim_reset()
  # the method ports of the top component and of its children are actually CALLED every cycle; what they return
  # (or the class of the exception) is part of the compared trace
  ports = sorted((p for p in top.get_all_object_filter(lambda x: isinstance(x, MethodPort)) if repr(p).count('.') <= 2), key=repr)
  r = random.Random(seed); tr = []
  for c in range(cycles):
    top.in_ @= r.getrandbits(8)
    calls = {}
    for p in ports:
      v = r.randrange(16)
      try: calls['<call>' + repr(p)] = p(v)
      except Exception as e: calls['<call>' + repr(p)] = 'raises ' + type(e).__name__
    if pure:
      top.sim_eval_combinational(); snap = sc.snapshot(top); snap.update(calls); tr.append(snap); top.sim_tick(); tr.append(sc.snapshot(top))
    else:
      # designs with method ports / update_once blocks have no sim_eval_combinational (PrepareSimPass): tick only
      top.sim_tick(); snap = sc.snapshot(top); snap.update(calls); tr.append(snap)
  return tr

VIEW_OF = {'comp': 'all_components', 'sig': 'signals', 'meth': 'all_method_ports', 'blk': 'update_blocks', 'rd': 'upblk_reads', 'wr': 'upblk_writes',
           'call': 'upblk_calls', 'UU': 'U_U_constraints', 'RDU': 'RD_U_constraints', 'WRU': 'WR_U_constraints', 'M': 'M_constraints', 'adj': 'adjacency',
           'net': 'value_nets', 'mnet': 'method_nets', 'obj': 'all_named_objects', 'sigset': 'dsl_all_signals', 'mportset': 'dsl_all_method_ports', 'child': 'child_components', 'level': 'component_level', 'params': 'construct_parameters', 'dbuf': 'double_buffer_flag'}

def row_owner(row):
  v = row[0]
  if v in ('blk', 'rd', 'wr', 'call', 'UU'): return row[1]
  if v in ('RDU', 'WRU'): return row[3]
  if v == 'M': return next((x.split(':')[0] for x in row[1:3] if ':' in x), row[1])
  return None

CONST_RE = re.compile(r'^(Bits\d+\(|int\()')
LAZY_RE = re.compile(r'\[\d+:\d+\]$')

def row_names(row):
  out = []
  for x in row[1:]:
    if isinstance(x, str): out.append(x.replace('<deleted>', ''))
    elif isinstance(x, tuple): out += [y.replace('<deleted>', '') for y in x if isinstance(y, str)]
  return out

def lazy_kind(name, design):
  """for a lazily created signal (slice / struct field / list-field element): which operation spawns it.
  'lazy-slice' / 'lazy-field': only referred to from OUTSIDE its host component (a connection or block of an ancestor);
  '...-own-block': (also) referred to by a block or connection of its own host component or below"""
  from pymtl3.dsl.Connectable import Signal
  try: o = eval(name, {'s': design})
  except Exception: return None
  if not isinstance(o, Signal) or o.is_top_level_signal(): return None
  kind = 'lazy-slice' if o._dsl.slice is not None else 'lazy-field'
  host = repr(o.get_host_component())
  def below(n): return n == name or n.startswith(name + '.') or n.startswith(name + '[')
  def inside(c): return c == host or c.startswith(host + '.')
  rd, wr, _ = design.get_all_upblk_metadata()
  for tab in (rd, wr):
    for b, objs in tab.items():
      h = design._dsl.all_upblk_hostobj.get(b)
      if h is not None and inside(repr(h)) and any(below(repr(x)) for x in objs): return kind + '-own-block'
  for c in design.get_all_components():
    if inside(repr(c)) and any(below(repr(x)) for x in c._dsl.adjacency): return kind + '-own-block'
  return kind

def scope(row, slots, design=None):
  """structural position of a divergent entry (part of the violation key; no design-specific names):
     owned entries   owner-removed  the owning block has no host any more (entry contributed by a removed component)
                     outside-slot   owned by a live component and referring INTO a replaced slot strictly below that component
                     in-slot        owned by a component inside a replaced slot (contribution of the new subtree)
                     unrelated      owned by a component outside every replaced slot, not referring into one
     unowned entries const          adjacency entry with a constant endpoint
                     lazy-slice     a lazily created slice signal (name ends in [lo:hi])
                     entry          anything else"""
  o = row_owner(row)
  names = row_names(row)
  if o is None:
    def slot_of(n): return next((s_ for s_ in slots if n == s_ or n.startswith(s_ + '.')), None)
    if row[0] == 'adj' and design is not None and not any(CONST_RE.match(x) for x in names) and len(names) == 2 \
       and slot_of(names[0]) is not None and slot_of(names[0]) == slot_of(names[1]):
      # both ends belong to one replaced slot: which component made the connection?
      sl = slot_of(names[0])
      for c in design.get_all_components():
        if any(repr(x) == names[0] and any(repr(y) == names[1] for y in ys) for x, ys in c._dsl.adjacency.items()):
          return ':loopback-made-by-ancestor' if not (repr(c) == sl or repr(c).startswith(sl + '.')) else ':within-slot'
    if row[0] in ('net', 'mnet') and names and slot_of(names[0]) is not None and all(slot_of(n) == slot_of(names[0]) for n in names):
      return ':all-members-in-one-slot'
    if row[0] == 'adj' and any(CONST_RE.match(x) for x in names): return ':const'
    if row[0] in ('sig', 'obj', 'sigset') and names:
      k = lazy_kind(names[-1], design) if design is not None else ('lazy-slice' if LAZY_RE.search(names[-1]) else None)
      if k: return ':' + k
    return ':entry'
  if '<no-host>' in o: return ':owner-removed'
  below = [s_ for s_ in slots if s_.startswith(o + '.')]
  if any(n == s_ or n.startswith(s_ + '.') for n in names for s_ in below): return ':outside-slot'
  if any(o == s_ or o.startswith(s_ + '.') for s_ in slots): return ':in-slot'
  return ':unrelated'

def frames(e):
  """innermost two frames of an exception: part of the key of a crash"""
  tb = [f for f in traceback.extract_tb(e.__traceback__) if os.path.basename(f.filename) != 'c15.py']
  return '>'.join(f.name for f in tb[-2:])

def classify(row, side):
  stale = any(isinstance(x, str) and ('<deleted>' in x or '<no-host>' in x) for x in row) or \
          any(isinstance(x, tuple) and any('<deleted>' in y for y in x) for x in row)
  if side == 'only-replaced': return 'stale' if stale else 'extra'
  return 'missing'

def run_history(ctx, tag, src, history, params, cases, meta, expect_hier=None, feats=()):
  """history: list of (slot name string 's.p.l[0]', mode 'cls'|'obj', class name, k or None); params: set_param calls"""
  cls, mod = sc.load_source(ctx, src, 'Top')
  replay = {'design_source': src, 'history': history, 'set_param': params}
  def fresh(table):
    mod.TABLE.clear(); mod.TABLE.update(table)
    t = cls()
    for p, kw in params: t.set_param(p, **kw)
    t.elaborate(); mod.TABLE.clear()
    return t
  try:
    top = fresh({})
  except Exception as e:
    ctx.violation(f'C15:generator:{type(e).__name__}', f'{tag}: base design does not elaborate: {type(e).__name__}: {str(e)[:300]}', dict(replay, traceback=traceback.format_exc()[-1500:]))
    return
  table = {}
  pnames = {k_ for _, kw in params for k_ in kw}
  removed = []       # keep the removed objects alive so that ids stay unique
  ok = True
  for (slot, mode, cname, k) in history:
    foo = eval(slot, {'s': top})
    removed.append(removed_objects(foo))
    newc = getattr(mod, cname)
    # replace_component( foo, cls ) is documented to build cls( *foo's args, **foo's kwargs )
    fargs, fkw = tuple(foo._dsl.args), {k_: v_ for k_, v_ in foo._dsl.kwargs.items() if k_ not in pnames}
    try:
      if mode == 'cls':
        top.replace_component(foo, newc)
        table = {s_: v for s_, v in table.items() if not (s_ == slot or s_.startswith(slot + '.'))}
        table[slot] = (lambda c_, a_, kw_: (lambda *a, **kw: c_(*a_, **kw_)))(newc, fargs, fkw)
      else:
        top.replace_component_with_obj(foo, newc(k))
        table = {s_: v for s_, v in table.items() if not (s_ == slot or s_.startswith(slot + '.'))}
        table[slot] = (lambda c_, k_: (lambda *a, **kw: c_(k_)))(newc, k)
    except Exception as e:
      tb = traceback.extract_tb(e.__traceback__)[-1]
      ctx.violation(f'C15:replace-raises-{type(e).__name__}:{frames(e)}',
                    f'{tag}: {"replace_component" if mode == "cls" else "replace_component_with_obj"}({slot}, {cname}) raises {type(e).__name__}: {str(e)[:200]} (in {tb.name}, {os.path.basename(tb.filename)}:{tb.lineno}); '
                    f'building the same design directly succeeds', dict(replay, failing_step=[slot, mode, cname, k], traceback=traceback.format_exc()[-1500:]))
      ok = False; break
  if not ok:
    try: fresh(table_after(history, mod))
    except Exception as e: ctx.note(f'{tag}: scratch build also fails: {e!r}')
    ctx.count((tag, 'crash'), True, cls='replace-raises')
    return
  try:
    scratch = fresh(table)
  except Exception as e:
    ctx.violation(f'C15:generator:scratch:{type(e).__name__}', f'{tag}: scratch design does not elaborate: {type(e).__name__}: {str(e)[:300]}', dict(replay, traceback=traceback.format_exc()[-1500:]))
    return
  rows_r, rows_s = dump(top), dump(scratch)
  ex_r, ex_s = dump_extra(top), dump_extra(scratch)
  diffs = [(r, 'only-replaced') for r in sorted((rows_r | ex_r) - (rows_s | ex_s), key=repr)] + \
          [(r, 'only-scratch') for r in sorted((rows_s | ex_s) - (rows_r | ex_r), key=repr)]
  seen = set()
  for row, side in diffs:
    key = f'C15:{classify(row, side)}-{VIEW_OF.get(row[0], row[0])}{scope(row, [h[0] for h in history], scratch if side == 'only-scratch' else top)}'
    if key in seen: continue
    seen.add(key)
    same = [r for r, s_ in diffs if s_ == side and r[0] == row[0]]
    ctx.violation(key, f'{tag}: after {len(history)} replacement(s) {VIEW_OF.get(row[0], row[0])} differs from the design built directly: '
                       f'{"present only after replace" if side == "only-replaced" else "present only in the direct build"}: {same[:3]}',
                  dict(replay, view=VIEW_OF.get(row[0], row[0]), rows_only_after_replace=[r for r, s_ in diffs if s_ == 'only-replaced' and r[0] == row[0]][:10],
                       rows_only_in_direct_build=[r for r, s_ in diffs if s_ == 'only-scratch' and r[0] == row[0]][:10]))
  # nothing of the removed subtrees reachable
  rid = set()
  for objs in removed: rid |= {id(x) for x in objs}
  # objects that were re-used (replace_component_with_obj keeps nothing of the old one) are not exempt: all removed objects count
  for where in sorted(scan_residue(top, rid)):
    ctx.violation(f'C15:residue-{where.split(".")[-1]}:{where}', f'{tag}: an object of a removed component is still referenced from {where} after the replacement',
                  dict(replay, location=where))
  # simulation
  seed = ctx.rng.randrange(1 << 30)
  from pymtl3.dsl.Connectable import MethodPort
  pure = not scratch.get_all_object_filter(lambda x: isinstance(x, MethodPort)) and not scratch.get_all_update_once()
  try:
    tr_s = drive(scratch, seed, pure)
  except Exception as e:
    ctx.note(f'{tag}: scratch design cannot be simulated: {type(e).__name__}: {str(e)[:120]}'); tr_s = None
  if tr_s is not None:
    try:
      tr_r = drive(top, seed, pure)
      d = sc.first_diff(tr_r, tr_s)
      if d or len(tr_r) != len(tr_s) or set(tr_r[0]) != set(tr_s[0]):
        cause = '+'.join(sorted({k.split(':')[1].split('-', 1)[1] for k in seen}))
        ctx.violation('C15:sim-trace:differs' + ('-with-' + cause if cause else ''), f'{tag}: the replaced design and the direct build simulate differently (metadata views that differ as well: {cause or "none"}): first difference {d}; signal sets differ: {sorted(set(tr_r[0]) ^ set(tr_s[0]))[:4]}',
                      dict(replay, first_difference=d, input_seed=seed))
    except Exception as e:
      tb = traceback.extract_tb(e.__traceback__)[-1]
      ctx.violation(f'C15:sim-crash-{type(e).__name__}:{frames(e)}', f'{tag}: the replaced design cannot be simulated ({type(e).__name__}: {str(e)[:150]} in {tb.name}, {os.path.basename(tb.filename)}:{tb.lineno}) while the direct build simulates',
                    dict(replay, traceback=traceback.format_exc()[-1500:]))
  for f in ('/tmp/upblk-dag.gv', '/tmp/upblk-dag.gv.pdf'):
    try: os.remove(f)
    except OSError: pass
  if expect_hier is not None:
    H, rs = expect_hier
    def case(rows, both):
      obs = coq_list([coq_list([f'"{x}"' for x in r]) for r in sorted(rows)])
      return f'({coq_hier(H)}, {coq_list([f"({coq_name(c)}, {coq_hier(h)})" for c, h in rs])}, {obs}, {both})'
    cases.append(case(rows_s, 'true')); meta.append((tag, replay, 'direct-build'))
    if rows_r != rows_s and sum(1 for m in meta if m[2] == 'replaced') < (12 if ctx.tier == 'quick' else 100):
      # (the Python diff above is what decides; the model is asked to confirm a bounded number of divergent cases)
      cases.append(case(rows_r, 'false')); meta.append((tag, replay, 'replaced'))
  ctx.count((tag, tuple(map(tuple, history))), True, cls=f'replacements:{len(history)}')
  for (slot, mode, cname, k) in history:
    ctx.hist['mode:' + mode] = ctx.hist.get('mode:' + mode, 0) + 1
    ctx.hist[f'slot-depth:{slot.count(".")}'] = ctx.hist.get(f'slot-depth:{slot.count(".")}', 0) + 1
    if '[' in slot.rsplit('.', 1)[-1]: ctx.hist['slot-in-list'] = ctx.hist.get('slot-in-list', 0) + 1
  if len(set(h[0] for h in history)) < len(history): ctx.hist['same-slot-repeated'] = ctx.hist.get('same-slot-repeated', 0) + 1
  for f in feats: ctx.hist['feature:' + f] = ctx.hist.get('feature:' + f, 0) + 1
  ctx.extra['rows_compared'] = ctx.extra.get('rows_compared', 0) + len(rows_r) + len(ex_r)
  if len(ctx.samples) < 3:
    ctx.sample({'design': tag, 'history': history, 'set_param': params, 'rows': len(rows_r), 'some_rows': sorted(rows_r, key=repr)[:6]})

def table_after(history, mod):
  table = {}
  for (slot, mode, cname, k) in history:
    table = {s_: v for s_, v in table.items() if not (s_ == slot or s_.startswith(slot + '.'))}
    c = getattr(mod, cname)
    table[slot] = c if mode == 'cls' else (lambda c_, k_: (lambda *a, **kw: c_(k_)))(c, k)
  return table

def gen_params(rng, history, H0, rs):
  """set_param calls made on the top before elaboration: exact (indexed) paths to slots that get replaced, to components
  BELOW such a slot (in the old or in the new subtree), to arbitrary components, and wildcard paths"""
  cands = []
  for (slot, mode, cname, k), (c, h) in zip(history, rs):
    cands.append(c)
    cands += [c + n for n, _ in h if n]                  # descendants of the new subtree
  cands += [n for n, _ in H0 if n]
  out = []
  for _ in range(rng.randrange(1, 4)):
    tgt = list(rng.choice(cands[:max(1, len(cands) // 2)] if rng.random() < 0.6 else cands))
    if rng.random() < 0.3:
      i = rng.randrange(len(tgt)); tgt[i] = re.match(r'[a-z]+[0-9]*', tgt[i]).group(0) + '*'   # wildcard (a regex for pymtl3): l0[1] -> l0*, a1 -> a1*; only matches slot names
    out.append(('top.' + '.'.join(tgt) + '.construct', {'p': rng.randrange(1, 9)}))
  return out

def slot_name(s): return tuple(s[2:].split('.'))      # 's.p.l[0]' -> ('p', 'l[0]')

def random_history(ctx, g, j):
  rng = g.rng
  by_name = {c.name: c for c in g.classes}
  table = {}          # absolute slot (tuple) -> class description
  history, rs = [], []
  H0 = instantiate(g.top, {})
  nrep = rng.choice([1, 1, 2, 2, 3, 4])
  for step in range(nrep):
    inst = instantiate(g.top, table)
    # a slot X is pinned while its parent refers to X.Y...: a replacement of X would have to expose the sub-slot Y as well
    pinned = {n + r[:1] for n, facts in inst for f in facts for r in refs_of(f) if len(r) >= 3 and not r[1].startswith('[')}
    # descendants whose update blocks are named in a constraint of an ancestor must keep exposing those blocks
    pinned |= {n + c[:i] for n, facts in inst for f in facts if f[0] in ('UUc', 'RDUc', 'WRUc') for c in ((f[1], f[3]) if f[0] == 'UUc' else (f[3],)) for i in range(1, len(c) + 1)}
    comps = [n for n, _ in inst if n and n not in pinned]
    if not comps: break
    if history and rng.random() < 0.3: slot = slot_name(history[-1][0])          # the same slot again
    elif history and rng.random() < 0.25:
      below = [n for n in comps if n[:len(slot_name(history[-1][0]))] == slot_name(history[-1][0]) and n != slot_name(history[-1][0])]
      slot = rng.choice(below) if below else rng.choice(comps)                     # inside what was just put in
    else: slot = rng.choice(comps)
    depth = len(slot)
    r = rng.random()
    if r < 0.2 and depth < 3: newc = g.gen_wrapper(depth)
    elif r < 0.5: newc = g.gen_leaf()
    elif r < 0.75 and depth < 3: newc = g.gen_inner(depth)
    else: newc = rng.choice(g.leaves)
    mode = rng.choice(['cls', 'cls', 'obj'])
    k = rng.randrange(1, 9) if mode == 'obj' else None
    history.append((expr(slot), mode, newc.name, k))
    table = {s_: v for s_, v in table.items() if s_[:len(slot)] != slot}
    table[slot] = newc
    rs.append((slot, instantiate(newc, {}, (), slot)))
  return history, (H0, rs)

# ------------------------------------------------------------------ directed minimal histories
DIRECTED_SRC = PRELUDE + '''
class A( Component ):
  def construct( s, k=1, p=0 ):
    s.in_ = InPort( 8 ); s.out = OutPort( 8 ); s.w = Wire( 8 )
    @update
    def up_a():
      s.w @= s.in_ + k
    @update
    def up_b():
      s.out @= s.w
    s.add_constraints( WR(s.w) < U(up_b) )
class B( Component ):
  def construct( s, k=1, p=0 ):
    s.in_ = InPort( 8 ); s.out = OutPort( 8 )
    @update
    def up_x():
      s.out @= s.in_ + 2
class Am( Component ):
  def construct( s, k=1, p=0 ):
    s.in_ = InPort( 8 ); s.out = OutPort( 8 ); s.recv = CalleePort( method=s.recv_ ); s.acc = 0
    @update
    def up_x():
      s.out @= s.in_ + 1
    @update_once
    def up_o():
      s.acc = s.acc + 1
    s.add_constraints( M(s.recv) < U(up_o) )
  def recv_( s, v ):
    s.acc = v
class Ac( Component ):
  def construct( s, k=1, p=0 ):
    s.in_ = InPort( 8 ); s.out = OutPort( 8 ); s.c = Wire( 8 )
    s.c //= 3
    @update
    def up_x():
      s.out @= s.in_ + s.c
class T1( Component ):
  def construct( s ):
    s.in_ = InPort( 8 ); s.out = OutPort( 8 )
    s.a = pick( s, "a", A )( 1 )
    s.a.in_ //= s.in_
    s.out //= s.a.out
class T2( Component ):
  def construct( s ):
    s.in_ = InPort( 8 ); s.out = OutPort( 8 ); s.o4 = OutPort( 4 )
    s.a = pick( s, "a", B )( 1 )
    s.a.in_ //= s.in_
    s.out //= s.a.out
    s.o4 //= s.a.out[0:4]
class T3( Component ):
  def construct( s ):
    s.in_ = InPort( 8 ); s.out = [ OutPort( 8 ) for _ in range(2) ]
    s.l = [ pick( s, f"l[{i}]", B )( i ) for i in range(2) ]
    for i in range(2):
      s.l[i].in_ //= s.in_
      s.out[i] //= s.l[i].out
class T1m( Component ):
  def construct( s ):
    s.in_ = InPort( 8 ); s.out = OutPort( 8 )
    s.a = pick( s, "a", Am )( 1 )
    s.a.in_ //= s.in_
    s.out //= s.a.out
class T1c( Component ):
  def construct( s ):
    s.in_ = InPort( 8 ); s.out = OutPort( 8 )
    s.a = pick( s, "a", Ac )( 1 )
    s.a.in_ //= s.in_
    s.out //= s.a.out
class Bm( Component ):
  def construct( s, k=1, p=0 ):
    s.in_ = InPort( 8 ); s.out = OutPort( 8 ); s.recv = CalleePort( method=s.recv_ ); s.acc = 0
    @update
    def up_y():
      s.out @= s.in_ + 2
  def recv_( s, v ):
    s.acc = v
class T4( Component ):
  def construct( s ):
    s.in_ = InPort( 8 ); s.out = OutPort( 8 )
    s.a = pick( s, "a", Bm )( 1 )
    s.a.in_ //= s.in_
    s.out //= s.a.out
    @update_once
    def up_call():
      s.a.recv( 1 )
    s.add_constraints( M(s.a.recv) < U(up_call) )
class T7( Component ):
  def construct( s ):
    s.in_ = InPort( 8 ); s.out = OutPort( 8 ); s.call = CallerPort()
    s.a = pick( s, "a", Bm )( 1 )
    s.a.in_ //= s.in_
    s.out //= s.a.out
    connect( s.call, s.a.recv )
    @update_once
    def up_c():
      s.call( 3 )
class T5( Component ):
  def construct( s ):
    s.in_ = InPort( 8 ); s.out = OutPort( 8 )
    s.a = pick( s, "a", B )( 1 )
    @update
    def up_wr():
      s.a.in_ @= s.in_
    s.out //= s.a.out
    s.add_constraints( U(up_wr) < RD(s.a.out) )
class T6( Component ):
  def construct( s ):
    s.in_ = InPort( 8 ); s.out = OutPort( 8 ); s.g = Wire( 8 )
    s.p = pick( s, "p", T1 )()
    s.p.in_ //= s.in_
    s.out //= s.p.out
    @update
    def up_g():
      s.g @= s.p.a.out
class As( Component ):
  def construct( s, k=1, p=0 ):
    s.in_ = InPort( 8 ); s.out = OutPort( 8 ); s.so = OutPort( St )
    @update
    def up_x():
      s.out @= s.in_ + 1
      s.so.a @= s.in_
class T8( Component ):
  def construct( s ):
    s.in_ = InPort( 8 ); s.out = OutPort( 8 ); s.w = Wire( 4 )
    s.a = pick( s, "a", As )( 1 )
    s.a.in_ //= s.in_
    s.out //= s.a.out
    @update
    def up_t():
      s.w @= s.a.so.p.x
class T9( Component ):
  def construct( s ):
    s.in_ = InPort( 8 ); s.out = OutPort( 8 )
    s.a = pick( s, "a", B )( 1 )
    @update_ff
    def up_f():
      s.a.in_ <<= s.in_
    s.out //= s.a.out
class T10( Component ):
  def construct( s ):
    s.in_ = InPort( 8 ); s.out = OutPort( 8 )
    s.a = pick( s, "a", Breg )( 1 )
    s.a.in_ //= s.a.out
    s.out //= s.in_
class Breg( Component ):
  def construct( s, k=1, p=0 ):
    s.in_ = InPort( 8 ); s.out = OutPort( 8 )
    @update_ff
    def up_r():
      s.out <<= s.in_ + 1
'''
DIRECTED = [
  # (tag, top class, history, set_param)
  ('D-WR_U-constraint-in-replaced-child', 'T1', [('s.a', 'cls', 'B', None)], []),
  ('D-M-constraint-and-update_once-in-replaced-child', 'T1m', [('s.a', 'cls', 'B', None)], []),
  ('D-const-connection-in-replaced-child', 'T1c', [('s.a', 'cls', 'B', None)], []),
  ('D-parent-connects-slice-of-child-port', 'T2', [('s.a', 'cls', 'B', None)], []),
  ('D-list-slot-with-set_param', 'T3', [('s.l[0]', 'cls', 'B', None)], [('top.l[0].construct', {'p': 3})]),
  ('D-list-slot', 'T3', [('s.l[1]', 'cls', 'B', None), ('s.l[1]', 'obj', 'B', 4)], []),
  ('D-parent-M-constraint-on-child-method', 'T4', [('s.a', 'cls', 'Bm', None)], []),
  ('D-parent-value-constraint-on-child-port', 'T5', [('s.a', 'cls', 'B', None)], []),
  ('D-grandparent-block-reads-grandchild-port', 'T6', [('s.p.a', 'cls', 'B', None)], []),
  ('D-parent-caller-port-connected-to-child-method', 'T7', [('s.a', 'cls', 'Bm', None), ('s.a', 'obj', 'Bm', 2)], []),
  ('D-parent-block-reads-struct-field-of-child-port', 'T8', [('s.a', 'cls', 'As', None)], []),
  ('D-parent-update_ff-writes-child-input-port', 'T9', [('s.a', 'cls', 'B', None)], []),
  ('D-parent-loopback-connection-on-child', 'T10', [('s.a', 'cls', 'Breg', None)], []),
  ('D-plain', 'T1', [('s.a', 'cls', 'B', None), ('s.a', 'cls', 'A', None)], []),
]

def run(ctx):
  setup_impl_path()
  t_py = time.time()
  quick = ctx.tier == 'quick'
  rng = ctx.rng
  cases, meta = [], []
  for tag, topc, hist, params in DIRECTED:
    run_history(ctx, tag, DIRECTED_SRC + f'\nTop = {topc}\n', hist, params, cases, meta, feats=('directed',))
  N = 64 if quick else 1000
  for j in range(N):
    while True:
      g = Gen(random.Random(rng.randrange(1 << 30)), f'R{j}').build()
      history, (H0, rs) = random_history(ctx, g, j)
      if history: break
    params = gen_params(rng, history, H0, rs) if rng.random() < 0.4 else []
    try:
      run_history(ctx, f'R{j}', g.source(), history, params, cases, meta, expect_hier=(H0, rs), feats=g.features | set().union(*[c.features for c in g.classes]) | ({'set_param'} if params else set()))
    except Exception as e:
      ctx.violation(f'C15:history-crash:{type(e).__name__}', f'R{j}: harness could not process the history: {e!r}',
                    {'design_source': g.source(), 'history': history, 'traceback': traceback.format_exc()[-1500:]}, found_input=False)
  ctx.extra['python_phase_s'] = round(time.time() - t_py, 1)
  bad = ctx.coq_bad_indices('meta', 'Base.Prelude Elab.Replace', 'From Coq Require Import String.\nLocal Open Scope string_scope.',
                            'hier * list (name * hier) * list row * bool', cases, 'case_ok c', shard=5 if quick else 20, jobs=14 if quick else 8)
  nmodel, confirmed = 0, 0
  badset = set(bad)
  for i, (tag, replay, kind) in enumerate(meta):
    if kind == 'replaced':
      # the Python diff already reported this history; the Coq model must reject the rows of the replaced design too
      if i in badset: confirmed += 1
      else:
        ctx.violation(f'C15:model-mismatch:accepts-divergent:{tag}', f'{tag}: the Coq model accepts rows that differ from the direct build', dict(replay), found_input=False)
      continue
    if i not in badset: continue
    nmodel += 1
    if nmodel > 5: continue
    why = ctx.coq_eval('why', 'Base.Prelude Elab.Replace', 'From Coq Require Import String.\nLocal Open Scope string_scope.',
                       [f"let '(H, rs, obs, _) := {cases[i]} in (rows_diff (views (meta (replace_seq_hier H rs))) obs, rows_diff obs (views (meta (replace_seq_hier H rs))))"])
    ctx.violation(f'C15:model-mismatch:{tag}', f'{tag}: the metadata of the design built directly disagrees with the Coq metadata model: (model only, implementation only) = {why[0][:400]}',
                  dict(replay, model_vs_observed=why[0][:3000]), found_input=False)
  ctx.extra.update({'histories': sum(1 for m in meta if m[2] == 'direct-build') + len(DIRECTED), 'coq_cases': len(cases),
                    'direct_builds_rejected_by_model': nmodel, 'divergent_replaced_designs_rejected_by_model_too': confirmed})

def main(ctx):
  ctx.trusted += ['harness/c15.py: generator emitting one source (slot table selects base / direct build) and the Coq hierarchy description; canonical dump; residue scan']
  ctx.assumptions += ['the Coq model is the name-keyed metadata algebra (what delete + add must achieve), not a line-by-line model of _delete_component/_add_component',
                      'value nets, method nets, all_named_objects, child lists, levels and 20-cycle simulation are compared differentially only (replaced vs direct build)',
                      'replacement classes expose the same interface names (in_, out, and recv in method designs): precondition `exposes` of C15_delete_add_eq_build_checked',
                      'empty adjacency / constraint entries are ignored by the row comparison; they are reported only by the reachability scan when keyed by an object of a removed component']
  ctx.build_props(extra_models=['theories/Elab/Replace.vo'])
  try: run(ctx)
  except Exception as e:
    ctx.violation('C15:harness-crash', f'correspondence could not run: {e!r}', {'traceback': traceback.format_exc()}, found_input=False)
  return ctx.finish(rule='14 directed minimal histories + random hierarchies (depth 1-3, single / list / 2-d list slots; children with wires, slices, constants, registers, '
                         'update / update_ff / update_once blocks, U_U / RD_U / WR_U / M constraints, method ports; parents that connect, write, read, slice, call into their children) x random '
                         'replacement sequences (1-4, same slot repeated, inside the previous replacement, replace_component and replace_component_with_obj, optional set_param); '
                         'distinct = (design, history)')

def replay(ctx, r):
  """./check C15 --replay <file>: re-run the stored history against the current /repo and report what still diverges"""
  setup_impl_path()
  rp = r['replay']
  run_history(ctx, 'replay', rp['design_source'], [tuple(h) for h in rp['history']], [(p, kw) for p, kw in rp.get('set_param', [])], [], [])
  for key, what, path, found in ctx.violations: print(f'STILL FAILS {key}: {what[:300]}')
  if not ctx.violations: print('history no longer diverges from the direct build')
  shutil.rmtree(ctx.scratch, ignore_errors=True)
  return 1 if ctx.violations else 0
