"""C14 — hierarchical names are unique and evaluate back to their objects.

theorems (Props/C14.v, model Elab/Names.v, proofs Elab/NamesProofs.v; all unbounded, induction over paths / trees):
  "every component, signal, interface, method port, struct-field signal, list element and slice signal has a full name
   distinct from every other object's"      C14_names_injective, C14_printed_names_injective, C14_enumerated_objects_distinct
                                             (+ C14_objects_enumeration: the enumeration is exactly the object predicate)
  "evaluating that name ... yields that very object"
                                             C14_eval_repr_is_object (parse(print(name_of p)) = name_of p and resolve = Some p),
                                             C14_print_tokenize, C14_eval_sound, C14_eval_canonical
  slices of slices / x[i]                    C14_slice_of_slice, C14_slice_of_slice_name, C14_index_is_unit_slice
  "Parent, host-component, level and top-level-signal metadata are consistent with the name"
                                             C14_parent_prefix / _parent_is_object / _parent_name_prefix, C14_level_is_dot_count,
                                             C14_level_parent, C14_host, C14_top_level_signal(_exists)
  "elaborating the same construction code again yields the same set of names"
                                             in the model the name set is a function of the tree (NamesProofs.names); on the
                                             implementation this is decided differentially (fresh instance, same names).
tie: T-diff.  Random hierarchies are generated as Python source AND as a Coq [node] term from one description.  After
     elaborate() every reachable object (get_all_object_filter + lazily created field/slice signals) is checked in Python
     (distinct reprs, eval(repr(o)) is o, parent/level/host/top-level-signal against the name) and the raw repr strings
     with the reported metadata are checked inside Coq by Names.design_ok (tokenizer + resolve + name_of + parent/level/
     host/top_level_signal of the model; C14_observation_checker_sound relates acceptance to the theorems).
partial: none of the sentences is left unproved in the model; what is NOT modelled: aliasing (one object assigned to two
     attributes), attributes that start with '_' and non-list containers (pymtl3 does not name those), name clashes
     between a struct field and a Signal method.
"""
from common import *
import sched_common as sc
import re

IDENTS = ['a', 'b', 'ab', 'a1', 'a10', 'x', 'x0', 'y', 'in_', 'out', 'msg', 'val', 'rdy', 'en', 'w', 'q', 'p', 'v', 's', 'ss',
          'data', 'sel', 'l', 'l0', 'A', 'Ab', 'a_b', 'a__', 'z9', 'inner', 'foo', 'bar', 'lst', 'mem', 'r', 'r_0', 'i', 'j', 'k']

class Gen:
  def __init__(s, rng, tag, size):
    s.rng, s.tag, s.size = rng, tag, size
    s.structs = {}          # name -> [(field, ftype)]
    s.classes = []          # source text of component / interface classes (children first)
    s.ncls = 0
    s.post = []             # absolute names evaluated after elaboration
    s.features = set()

  # ---------------------------------------------------------------- types
  def names(s, k):
    return s.rng.sample(IDENTS, k)

  def gen_struct(s, depth):
    name = f'S{s.tag}_{len(s.structs)}'
    s.structs[name] = None
    fields = []
    for fn in s.names(s.rng.randrange(1, 4)):
      fields.append((fn, s.gen_ftype(depth, 0)))
    s.structs[name] = fields
    return name

  def gen_ftype(s, depth, ldepth):
    r = s.rng.random()
    if r < 0.3 and ldepth == 0:
      # bitstruct list fields must be strict multidimensional arrays of one type
      dims = [s.rng.randrange(1, 4) for _ in range(s.rng.choice([1, 1, 2]))]
      e = s.gen_ftype(depth, 1); s.features.add('list-field' if len(dims) == 1 else 'list-field-2d')
      for k in reversed(dims): e = ('list', [e] * k)
      return e
    if r < 0.45 and depth < 2:
      s.features.add('nested-struct')
      return ('struct', s.gen_struct(depth + 1))
    return ('bits', s.rng.choice([1, 2, 3, 4, 8, 12, 16, 32]))

  def ftype_src(s, t):
    if t[0] == 'bits': return f'Bits{t[1]}'
    if t[0] == 'struct': return t[1]
    return '[ ' + ', '.join(s.ftype_src(e) for e in t[1]) + ' ]'

  def struct_src(s):
    out = []
    for name, fields in s.structs.items():      # inner structs are created later but must be defined earlier
      out.append((name, '@bitstruct\nclass %s:\n' % name + ''.join(f'  {fn}: {s.ftype_src(ft)}\n' for fn, ft in fields)))
    # order: a struct must come after the structs it uses
    done, res = set(), []
    def uses(t):
      if t[0] == 'struct': return {t[1]}
      if t[0] == 'list': return set().union(*[uses(e) for e in t[1]])
      return set()
    pending = list(out)
    while pending:
      for item in list(pending):
        name, src = item
        need = set().union(*[uses(ft) for _, ft in s.structs[name]]) if s.structs[name] else set()
        if need <= done:
          res.append(src); done.add(name); pending.remove(item)
    return '\n'.join(res)

  # ---------------------------------------------------------------- hierarchy
  def gen_sig(s, in_ifc=False):
    ctor = s.rng.choice(['Wire', 'InPort', 'OutPort'] if not in_ifc else ['InPort', 'OutPort'])
    if s.rng.random() < 0.3:
      s.features.add('struct-signal')
      return ('sig', ctor, ('struct', s.gen_struct(0)))
    return ('sig', ctor, ('bits', s.rng.choice([1, 2, 4, 8, 8, 16, 32, 64])))

  def gen_list(s, mk, ldepth=0):
    k = s.rng.randrange(1, 4)
    if ldepth < 2 and s.rng.random() < 0.35:
      s.features.add('nested-list')
      els = [s.gen_list(mk, ldepth + 1) for _ in range(k)]    # (rows are generated independently: ragged)
    elif s.rng.random() < 0.7:
      e = mk(); els = [e] * k                                   # [ X() for _ in range(k) ]
    else:
      els = [mk() for _ in range(k)]                            # heterogeneous literal list
    if s.rng.random() < 0.35:
      # entries that are not hardware objects: None holes and plain Python values, at the start / middle / end of a row.
      # (pymtl3 only names a list attribute whose FIRST entry is an object or a list: the outermost list keeps entry 0)
      for _ in range(s.rng.randrange(1, 3)):
        pos = s.rng.randrange(1 if ldepth == 0 else 0, len(els) + 1)
        els = els[:pos] + [('hole', s.rng.choice(['None', 'None', '7', '"x"', '0']), object())] + els[pos:]
      s.features.add('list-with-holes' if ldepth == 0 else 'inner-list-with-holes')
    return ('list', els)

  def gen_ifc(s, depth):
    kids = []
    for nm in s.names(s.rng.randrange(1, 5)):
      r = s.rng.random()
      if r < 0.45: kids.append((nm, s.gen_sig(True)))
      elif r < 0.65: kids.append((nm, ('meth', s.rng.choice(['CallerPort', 'CalleePort'])))); s.features.add('method-port')
      elif r < 0.8: kids.append((nm, s.gen_list(lambda: s.gen_sig(True)))); s.features.add('signal-list')
      elif r < 0.9 and depth < 1: kids.append((nm, s.gen_ifc(depth + 1))); s.features.add('nested-ifc')
      else: kids.append((nm, s.gen_list(lambda: ('meth', 'CallerPort'))))
    cname = f'I{s.tag}_{s.ncls}'; s.ncls += 1
    node = ('ifc', cname, kids)
    body = [f's.{nm} = {s.expr(c)}' for nm, c in kids]
    s.classes.append(f'class {cname}( Interface ):\n  def construct( s ):\n' + ''.join(f'    {l}\n' for l in body))
    return node

  def gen_comp(s, depth, budget):
    kids = [('clk', ('sig', 'InPort', ('bits', 1))), ('reset', ('sig', 'InPort', ('bits', 1)))]
    nk = s.rng.randrange(2, 7 if s.size == 'small' else 10)
    names = [n for n in s.names(min(nk + 2, len(IDENTS))) if n not in ('clk', 'reset')][:nk]
    for nm in names:
      r = s.rng.random()
      if r < 0.35: kids.append((nm, s.gen_sig()))
      elif r < 0.47: kids.append((nm, s.gen_list(s.gen_sig))); s.features.add('signal-list')
      elif r < 0.57: kids.append((nm, s.gen_ifc(0))); s.features.add('ifc')
      elif r < 0.67: kids.append((nm, s.gen_list(lambda: s.gen_ifc(0)))); s.features.add('ifc-list')
      elif r < 0.73: kids.append((nm, ('meth', s.rng.choice(['CallerPort', 'CalleePort'])))); s.features.add('method-port')
      elif depth < budget and r < 0.86: kids.append((nm, s.gen_comp(depth + 1, budget))); s.features.add('child')
      elif depth < budget: kids.append((nm, s.gen_list(lambda: s.gen_comp(depth + 1, budget)))); s.features.add('comp-list')
      else: kids.append((nm, s.gen_sig()))
    cname = f'C{s.tag}_{s.ncls}'; s.ncls += 1
    body = [f's.{nm} = {s.expr(c)}' for nm, c in kids[2:]]
    body += s.materialise(kids)
    s.classes.append(f'class {cname}( Component ):\n  def construct( s ):\n' + ''.join(f'    {l}\n' for l in body))
    return ('comp', cname, kids)

  def expr(s, n):
    k = n[0]
    if k in ('comp', 'ifc'): return f'{n[1]}()'
    if k == 'meth': return f'{n[1]}()'
    if k == 'sig': return f'{n[1]}( {n[2][1]} )'
    if k == 'hole': return n[1]
    els = n[1]
    if len(els) > 1 and all(e is els[0] for e in els) or (len(els) == 1 and s.rng.random() < 0.5):
      return f'[ {s.expr(els[0])} for _ in range({len(els)}) ]'
    return '[ ' + ', '.join(s.expr(e) for e in els) + ' ]'

  # ---------------------------------------------------------------- lazily created signals
  def own_signals(s, kids):
    """(expr, ctor, type, via_ifc) of the signals declared directly in a component (through its lists and interfaces)"""
    out = []
    def rec(pre, n, via_ifc):
      if n[0] == 'sig': out.append((pre, n[1], n[2], via_ifc))
      elif n[0] == 'list':
        for i, e in enumerate(n[1]): rec(f'{pre}[{i}]', e, via_ifc)
      elif n[0] == 'ifc':
        for nm, c in n[2]: rec(f'{pre}.{nm}', c, True)
    for nm, c in kids:
      if nm in ('clk', 'reset'): continue
      rec(f's.{nm}', c, False)
    return out

  def sub_expr(s, pre, typ, single_slice=False, allow_idx=True):
    """random (expression, width or None) of a sub-object of a signal"""
    rng = s.rng
    if typ[0] == 'struct':
      fields = s.structs[typ[1]]
      if rng.random() < 0.15: return pre, None
      fn, ft = rng.choice(fields)
      e = f'{pre}.{fn}'
      while ft[0] == 'list':
        i = rng.randrange(len(ft[1])); e += f'[{i}]'; ft = ft[1][i]
      s.features.add('field-signal')
      return s.sub_expr(e, ft, single_slice, allow_idx)
    n = typ[1]
    r = rng.random()
    if r < 0.2: return pre, n
    lo = rng.randrange(0, n); hi = rng.randrange(lo + 1, n + 1)
    if allow_idx and rng.random() < 0.15:
      s.features.add('bit-index'); return f'{pre}[{lo}]', 1
    e, w = f'{pre}[{lo}:{hi}]', hi - lo
    s.features.add('slice')
    depth = 0
    while not single_slice and w >= 1 and rng.random() < 0.5 and depth < 3:
      c = rng.randrange(0, w); d = rng.randrange(c + 1, w + 1)
      if allow_idx and rng.random() < 0.2: e += f'[{c}]'; w = 1
      else: e += f'[{c}:{d}]'; w = d - c
      depth += 1; s.features.add('slice-of-slice')
    return e, w

  def leaves(s, pre, typ):
    if typ[0] == 'bits': return [(pre, typ[1])]
    if typ[0] == 'list':
      out = []
      for i, e in enumerate(typ[1]): out += s.leaves(f'{pre}[{i}]', e)
      return out
    out = []
    for fn, ft in s.structs[typ[1]]: out += s.leaves(f'{pre}.{fn}', ft)
    return out

  def materialise(s, kids):
    rng = s.rng
    lines = []
    sigs = s.own_signals(kids)
    nblk = 0
    for (pre, ctor, typ, via_ifc) in sigs:
      r = rng.random()
      if r < 0.35: continue
      if r < 0.6:                                   # bare evaluation inside construct
        for _ in range(rng.randrange(1, 4)):
          lines.append(s.sub_expr(pre, typ)[0])
        s.features.add('bare')
      elif r < 0.8 and ctor == 'Wire' and not via_ifc:   # disjoint leaf regions connected to constants (each net: one writer)
        lv = s.leaves(pre, typ)
        for (le, w) in rng.sample(lv, min(len(lv), rng.randrange(1, 4))):
          cuts = sorted(set([0, w] + [rng.randrange(0, w + 1) for _ in range(rng.randrange(0, 3))]))
          for a, b in zip(cuts, cuts[1:]):
            if rng.random() < 0.6:
              e, ww = f'{le}[{a}:{b}]', b - a
              if ww >= 2 and rng.random() < 0.5:
                c = rng.randrange(0, ww); d = rng.randrange(c + 1, ww + 1)
                e += f'[{c}:{d}]'; s.features.add('slice-of-slice-connect')
              elif (a, b) == (0, w) and rng.random() < 0.5:
                e = le
              lines.append(f'connect( {e}, {rng.randrange(2)} )')
        s.features.add('const-connect')
      elif r < 0.95:                                 # an update block reads sub-objects (single slices only: AstHelper)
        reads = []
        for _ in range(rng.randrange(1, 3)):
          e, w = s.sub_expr(pre, typ, single_slice=True, allow_idx=True)
          if w is not None: reads.append((e, w))
        for e, w in reads:
          lines += [f's.sink{nblk}_ = Wire( {w} )', '@update', f'def blk{nblk}_():', f'  s.sink{nblk}_ @= {e}']
          nblk += 1
        s.features.add('upblk-read')
    # every lazily created object is produced through (at least) two independent accesses: the expressions used above are
    # evaluated once more, as bare expressions, at the end of construct (a connect / block read + a second evaluation)
    again = []
    for l in lines:
      m = re.match(r'connect\( (s\S*), \d+ \)$', l) or re.match(r'  s\.sink\d+_ @= (s\S*)$', l) or re.match(r'(s[.\[]\S*)$', l)
      if m and rng.random() < 0.7: again.append(m.group(1))
    if again: s.features.add('second-access-in-construct')
    return lines + again

  def build(s):
    budget = s.rng.choice([0, 1, 1, 2, 2, 3]) if s.size != 'small' else s.rng.choice([0, 1, 2])
    s.top = s.gen_comp(0, budget)
    return s

  def weight(s, n=None):
    """number of objects that exist right after construction"""
    n = s.top if n is None else n
    if n[0] in ('comp', 'ifc'): return 1 + sum(s.weight(c) for _, c in n[2])
    if n[0] == 'list': return sum(s.weight(e) for e in n[1])
    return 0 if n[0] == 'hole' else 1

  def source(s):
    return 'from pymtl3 import *\nfrom pymtl3.dsl import *\n' + s.struct_src() + '\n' + '\n'.join(s.classes) + f'\nTop = {s.top[1]}\n'

  # ---------------------------------------------------------------- Coq term
  def coq_ftype(s, t):
    if t[0] == 'bits': return f'(NBits {t[1]})'
    if t[0] == 'struct':
      return '(NStruct [' + '; '.join(f'("{fn}"%string, {s.coq_ftype(ft)})' for fn, ft in s.structs[t[1]]) + '])'
    return '(NList [' + '; '.join(s.coq_ftype(e) for e in t[1]) + '])'

  def coq_node(s, n, extra=()):
    k = n[0]
    if k == 'comp':
      kids = list(n[2]) + list(extra)
      return '(NComp [' + '; '.join(f'("{nm}"%string, {s.coq_node(c, s.sinks(c))})' for nm, c in kids) + '])'
    if k == 'ifc': return '(NIfc [' + '; '.join(f'("{nm}"%string, {s.coq_node(c)})' for nm, c in n[2]) + '])'
    if k == 'meth': return 'NMeth'
    if k == 'sig': return s.coq_ftype(n[2])
    if k == 'hole': return '(NList [])'          # not an object, nothing below it
    return '(NList [' + '; '.join(s.coq_node(e, s.sinks(e)) for e in n[1]) + '])'

  def sinks(s, n):
    return s._sinks.get(n[1], []) if n[0] == 'comp' else []

def sink_table(g):
  """update-block sink wires are declared inside the generated class bodies; recover them for the model tree"""
  tab = {}
  for src in g.classes:
    m = re.match(r'class (\w+)\( Component \)', src)
    if m:
      tab[m.group(1)] = [(nm, ('sig', 'Wire', ('bits', int(w)))) for nm, w in re.findall(r's\.(sink\d+_) = Wire\( (\d+) \)', src)]
  return tab

TOK = re.compile(r'\.([A-Za-z_][A-Za-z_0-9]*)|\[(\d+)\]|\[(\d+):(\d+)\]')

def prefixes(name):
  """all proper token-prefixes of a repr, longest first"""
  assert name[0] == 's'
  pos = [1]
  i = 1
  while i < len(name):
    m = TOK.match(name, i)
    if not m: return None
    i = m.end(); pos.append(i)
  return [name[:p] for p in pos[:-1]][::-1]

def reach(top):
  from pymtl3.dsl.NamedObject import NamedObject
  seen, out, stack = set(), [], [top]
  while stack:
    u = stack.pop()
    if isinstance(u, NamedObject):
      if id(u) in seen: continue
      seen.add(id(u)); out.append(u)
      for k, v in u.__dict__.items():
        if isinstance(k, str):
          if k[0] != '_': stack.append(v)
        elif isinstance(k, tuple): stack.append(v)
    elif isinstance(u, list): stack.extend(u)
  return out

def cstr(x): return 'None' if x is None else f'(Some "{x}"%string)'

def realias(g, top, objs):
  """second, independent access paths to every lazily created object: each must yield the identical object.
  returns list of (kind, what, name)"""
  from pymtl3.dsl.Connectable import Signal
  from pymtl3.datatypes import Bits
  rng = g.rng
  bad = []
  env = {'s': top}
  g.alias_exprs = []
  for o in sorted((x for x in objs if isinstance(x, Signal)), key=repr):
    n = repr(o)
    alts = [n]
    sl = o._dsl.slice
    if sl is not None:
      par = o.get_parent_object(); pn = repr(par); w = par._dsl.Type.nbits
      a, b = sl.start, sl.stop
      alts.append(f'{pn}[{a}:{b}]')
      a0 = rng.randrange(0, a + 1); b0 = rng.randrange(b, w + 1)
      alts.append(f'{pn}[{a0}:{b0}][{a - a0}:{b - a0}]')
      alts.append(f'{pn}[{a0}:{b0}][{a - a0}:{b - a0}]')            # the same nested expression twice
      if b - a0 > b - a: alts.append(f'{pn}[{a0}:{b}][{a - a0}:{b - a0}][0:{b - a}]')
      if b == a + 1: alts += [f'{pn}[{a}]', f'{pn}[{a0}:{b0}][{a - a0}]']
    elif not o.is_top_level_signal():
      par = o.get_parent_object()
      alts.append(repr(par) + '.' + o._dsl.my_name)
    elif issubclass(o._dsl.Type, Bits) and rng.random() < 0.3:
      w = o._dsl.Type.nbits
      alts.append(f'{n}[0:{w}][0:{w}]' if w > 1 else f'{n}[0:1]')
      alts.pop()                                                      # (whole-width slices are different objects than the signal)
    g.alias_exprs += alts
    for e in alts:
      try: r = eval(e, env)
      except Exception as ex:
        bad.append(('realias-raises', f'evaluating {e} (another spelling of {n}) raises {type(ex).__name__}: {ex}', n)); continue
      if r is not o:
        bad.append(('realias-identity', f'{e} evaluates to a different object than the existing {n} (named {r!r})', n))
  return bad

def metadata_objects(top):
  """every NamedObject referenced from the design's metadata structures: (where, object)"""
  from pymtl3.dsl.NamedObject import NamedObject
  from pymtl3.dsl.Connectable import Signal
  out = []
  def add(where, x):
    if isinstance(x, NamedObject): out.append((where, x))
  d = top._dsl
  for k, vs in top.get_signal_adjacency_dict().items():
    add('adjacency', k)
    for v in vs: add('adjacency', v)
  for w, net in top.get_all_value_nets():
    add('value-nets', w)
    for v in net: add('value-nets', v)
  for w, net in top.get_all_method_nets():
    add('method-nets', w)
    for v in net: add('method-nets', v)
  for tab, nm_ in zip(top.get_all_upblk_metadata(), ('upblk-reads', 'upblk-writes', 'upblk-calls')):
    for b, objs in tab.items():
      for x in objs: add(nm_, x)
  for x in d.all_signals: add('all_signals', x)
  for x in d.all_named_objects: add('all_named_objects', x)
  for c in top.get_all_components():
    for k, vs in c._dsl.adjacency.items():
      add('component-adjacency', k)
      for v in vs: add('component-adjacency', v)
    for a, b in c._dsl.connect_order: add('connect_order', a); add('connect_order', b)
  for x in list(d.all_signals):
    for key, v in x._dsl.slices.items(): add('slices-registry', v)
  return out

def kind_name(o):
  from pymtl3.dsl import Component, Interface
  from pymtl3.dsl.Connectable import Signal, MethodPort
  return 'Component' if isinstance(o, Component) else 'Interface' if isinstance(o, Interface) else 'MethodPort' if isinstance(o, MethodPort) else 'Signal' if isinstance(o, Signal) else type(o).__name__

def identity_checks(top, mobjs, reach_ids):
  """objects found in metadata must be reachable objects of the hierarchy, THE objects their names evaluate to, and
  registered slices of their parents.  returns (failed checks, ids of metadata objects that are not part of the hierarchy)"""
  from pymtl3.dsl.Connectable import Signal
  bad, seen, foreign = [], set(), set()
  env = {'s': top}
  for where, o in mobjs:
    if (where, id(o)) in seen: continue
    seen.add((where, id(o)))
    n = repr(o)
    if id(o) not in reach_ids:
      foreign.add(id(o))
      bad.append((f'unreachable-{where}-{kind_name(o)}', f'{kind_name(o)} object named {n} found in {where} is not reachable from top through attributes (not part of the hierarchy)', n))
      continue
    try: e = eval(n, env)
    except Exception as ex:
      bad.append((f'identity-{where}', f'object {n} found in {where}: eval of its name raises {type(ex).__name__}', n)); continue
    if e is not o:
      bad.append((f'identity-{where}', f'the object named {n} found in {where} is not the object eval({n!r}) returns', n)); continue
    if isinstance(o, Signal) and o._dsl.slice is not None:
      par = o.get_parent_object(); key = (o._dsl.slice.start, o._dsl.slice.stop)
      if par._dsl.slices.get(key) is not o or par.__dict__.get(key) is not o:
        bad.append((f'slice-registry-{where}', f'slice {n} found in {where} is not the registered slice {key} of its parent', n))
  return bad, foreign

def observe(top, objs):
  from pymtl3.dsl import Component, Interface
  from pymtl3.dsl.Connectable import Signal, MethodPort, Connectable
  obs = []
  for o in objs:
    kind = 0 if isinstance(o, Component) else 1 if isinstance(o, Interface) else 2 if isinstance(o, MethodPort) else 3 if isinstance(o, Signal) else 9
    par = o.get_parent_object()
    lvl = getattr(o._dsl, 'level', None)
    host = o.get_host_component() if isinstance(o, Connectable) else None
    tls = o.get_top_level_signal() if isinstance(o, Signal) else None
    obs.append({'name': repr(o), 'kind': kind, 'parent': None if par is None else repr(par), 'level': lvl,
                'host': None if host is None else repr(host), 'tls': None if tls is None else repr(tls), 'obj': o,
                'par_obj': par, 'host_obj': host, 'tls_obj': tls})
  return obs

def python_checks(ctx, gname, src, top, obs, post):
  """the property decided directly on the implementation; returns list of (key, what, detail)"""
  from pymtl3.dsl import Component
  from pymtl3.dsl.Connectable import Signal
  bad = []
  names = {}
  for ob in obs:
    n, o = ob['name'], ob['obj']
    if n in names and names[n] is not o: bad.append(('dup-name', f'two distinct objects are both named {n}', n)); continue
    names[n] = o
    try: e = eval(n, {'s': top})
    except Exception as ex: bad.append(('eval-raises', f'eval({n!r}) raises {type(ex).__name__}: {ex}', n)); continue
    if e is not o: bad.append(('eval-other', f'eval({n!r}) is {e!r} (a different object than the one named so)', n)); continue
    pf = prefixes(n)
    if pf is None: bad.append(('name-syntax', f'name {n!r} is not of the form s(.id|[i]|[lo:hi])*', n)); continue
    # parent
    if o is top:
      if ob['par_obj'] is not None: bad.append(('parent', 'top has a parent', n))
    else:
      pn = ob['parent']
      m = re.fullmatch(r'(\.[A-Za-z_][A-Za-z_0-9]*(\[\d+\])*|\[\d+:\d+\])', n[len(pn):]) if n.startswith(pn) else None
      if m is None or eval(pn, {'s': top}) is not ob['par_obj']:
        bad.append(('parent', f'parent of {n} is reported as {pn}: not the object named by the prefix', n))
      else:
        # the parent is the LONGEST proper prefix that evaluates to an object (lists are skipped)
        from pymtl3.dsl.NamedObject import NamedObject
        longest = next(p for p in pf if isinstance(eval(p, {'s': top}), NamedObject))
        if longest != pn: bad.append(('parent', f'parent of {n} is reported as {pn} but the enclosing object is {longest}', n))
    # field name (my_name / _my_name / _my_indices) = the last attribute hop of the name incl. its list indices
    # for EVERY object: repr(owner) + '.' + get_field_name() is the full name, where the owner of a slice / bit / slice of a
    # slice is the owner of the signal it was taken from (its field name = field name of that signal + '[lo:hi]')
    d_ = o._dsl
    if o is not top:
      is_slice = isinstance(o, Signal) and d_.slice is not None
      base = ob['par_obj'] if is_slice else o
      owner = base.get_parent_object()
      on = repr(owner)
      fn = o.get_field_name()
      exp = n[len(on) + 1:] if n.startswith(on + '.') else None
      built = None if is_slice else getattr(d_, '_my_name', None)
      if built is not None: built += ''.join(f'[{i}]' for i in (getattr(d_, '_my_indices', None) or ()))
      if fn != exp or (built is not None and built != exp) or (is_slice and fn != base.get_field_name() + f'[{d_.slice.start}:{d_.slice.stop}]'):
        bad.append(('field-name', f'field name metadata of {n}: get_field_name() = {fn!r}, _my_name+_my_indices = {built!r}, the name relative to its owner {on} says {exp!r}', n))
    # level
    if ob['level'] is not None and ob['level'] != n.count('.'):
      bad.append(('level', f'level of {n} is {ob["level"]}, name has {n.count(".")} attribute hops', n))
    if isinstance(o, Component) and o.get_component_level() != n.count('.'):
      bad.append(('level', f'get_component_level of {n} is {o.get_component_level()}', n))
    # host component = nearest enclosing component
    if ob['host_obj'] is not None:
      comps = [p for p in pf if isinstance(eval(p, {'s': top}), Component)]
      if not comps or comps[0] != ob['host'] or eval(comps[0], {'s': top}) is not ob['host_obj']:
        bad.append(('host', f'host component of {n} is reported as {ob["host"]}, nearest enclosing component is {comps[:1]}', n))
    # top-level signal = outermost signal on the path
    if ob['tls_obj'] is not None:
      sigs = [p for p in ([n] + pf) if isinstance(eval(p, {'s': top}), Signal)]
      t = ob['tls_obj']
      if not sigs or sigs[-1] != ob['tls'] or eval(sigs[-1], {'s': top}) is not t or not t.is_top_level_signal() \
         or (o.is_top_level_signal() != (o is t)):
        bad.append(('top-level-signal', f'top-level signal of {n} is reported as {ob["tls"]}, outermost signal on the path is {sigs[-1:]}', n))
  return bad

def survey(ctx, g, src, top, post, after_replace=False):
  """all objects of the (current) hierarchy + everything the metadata refers to; returns (observations, failed checks)"""
  objs = reach(top)
  bad = realias(g, top, objs)
  objs = reach(top)                      # (intermediate slices created by the alternative spellings are objects too)
  mobjs = metadata_objects(top)
  if after_replace:
    # whether anything of a REMOVED component is still referenced is property C15's question; here: the names of the living
    mobjs = [(w, x) for w, x in mobjs if '<deleted>' not in repr(x)]
  ids = {id(x) for x in objs}
  b2, foreign = identity_checks(top, mobjs, ids)
  bad += b2
  if after_replace:
    # objects that exist from construction on must all be known to get_all_object_filter
    known = {id(x) for x in top.get_all_object_filter(lambda x: True)}
    for x in objs:
      if getattr(x._dsl, 'level', None) is not None and id(x) not in known:
        bad.append((f'all-named-objects-missing-{kind_name(x)}', f'{kind_name(x)} {x!r} of the hierarchy is not in get_all_object_filter(True)', repr(x)))
  obs = observe(top, objs)
  bad += python_checks(ctx, g.tag, src, top, obs, post)
  return obs, bad

def replacement_steps(g, top):
  """positions (by name) at which components are replaced after elaboration, by a fresh instance of the SAME class (so the
  model tree stays the description of the hierarchy); elements of multi-dimensional lists are preferred"""
  rng = g.rng
  comps = sorted((c for c in top.get_all_components() if c is not top), key=repr)
  if not comps or rng.random() < 0.3: return []
  wts = [1 + 2 * min(c._dsl.my_name.count('['), 3) ** 2 for c in comps]
  steps = []
  for _ in range(rng.choice([1, 1, 2, 3])):
    if steps and rng.random() < 0.35: n = steps[-1][0]                       # the same position again
    else: n = repr(rng.choices(comps, wts)[0])
    if any(n != m and n.startswith(m + '.') for m, _ in steps) and rng.random() < 0.5: continue
    steps.append((n, rng.choice(['cls', 'obj'])))
  return steps

def one_design(ctx, g, cases, meta):
  src = g.source()
  try:
    cls, mod = sc.load_source(ctx, src, 'Top')
    top = cls(); top.elaborate()
  except Exception as e:
    ctx.violation(f'C14:elaborate:{type(e).__name__}', f'generated hierarchy {g.tag} does not elaborate: {type(e).__name__}: {str(e)[:300]}',
                  {'design_source': src, 'traceback': traceback.format_exc()[-1500:]})
    return
  # objects known to the design + post-elaboration materialisation of further lazily created signals
  known = top.get_all_object_filter(lambda x: True)
  r0 = reach(top)
  if {id(x) for x in known} != {id(x) for x in r0}:
    miss = sorted(repr(x) for x in r0 if id(x) not in {id(y) for y in known})[:5]
    ctx.violation(f'C14:all-named-objects', f'{g.tag}: get_all_object_filter(True) differs from the objects reachable from top: {miss}',
                  {'design_source': src, 'unlisted': miss})
  post = post_names(g, top, r0)
  for n in list(post):
    try: eval(n, {'s': top})
    except Exception as e:
      post.remove(n)
      ctx.violation('C14:post-eval', f'{g.tag}: accessing {n} after elaboration raises {type(e).__name__}: {e}', {'design_source': src, 'expression': n})
  obs, bad = survey(ctx, g, src, top, post)
  for kind, what, n in bad[:4]:
    ctx.violation(f'C14:{kind}', f'{g.tag}: {what}', {'design_source': src, 'object': n, 'post_elaboration_accesses': post})
  # second elaboration of a fresh instance (same code, same post-elaboration accesses): same name set
  top2 = cls(); top2.elaborate()
  for n in post + getattr(g, 'alias_exprs', []):
    try: eval(n, {'s': top2})
    except Exception: pass
  n1, n2 = sorted(o['name'] for o in obs), sorted(repr(x) for x in reach(top2))
  if n1 != n2:
    d = sorted(set(n1) ^ set(n2))[:6]
    ctx.violation('C14:re-elaborate', f'{g.tag}: a second elaboration of the same construction code gives a different name set: {d}',
                  {'design_source': src, 'difference': d})
  # replace components (replace_component / replace_component_with_obj) and check the names of the RESULTING hierarchy
  steps = replacement_steps(g, top) if hasattr(g, 'rng') else []
  done = []
  for n, mode in steps:
    try:
      foo = eval(n, {'s': top}); C = type(foo)
      if mode == 'cls': top.replace_component(foo, C)
      else: top.replace_component_with_obj(foo, C())
      done.append([n, mode])
    except Exception as e:
      ctx.violation(f'C14:replace-raises-{type(e).__name__}', f'{g.tag}: replacing {n} by a fresh instance of its own class ({mode}) raises {type(e).__name__}: {str(e)[:200]}',
                    {'design_source': src, 'replacements': done + [[n, mode]], 'traceback': traceback.format_exc()[-1200:]})
      break
  if done:
    obs, bad2 = survey(ctx, g, src, top, [], after_replace=True)
    seen_k = set()
    for kind, what, n in bad2:
      if kind in seen_k or len(seen_k) >= 6: continue
      seen_k.add(kind)
      ctx.violation(f'C14:{kind}-after-replace', f'{g.tag}: after replacing {done}: {what}', {'design_source': src, 'object': n, 'replacements': done, 'post_elaboration_accesses': post})
    ctx.hist['designs-with-replacement'] = ctx.hist.get('designs-with-replacement', 0) + 1
    for n, mode in done:
      d = n.rsplit('.', 1)[-1].count('[')
      ctx.hist[f'replaced-in-{d}d-list' if d else 'replaced-attribute'] = ctx.hist.get(f'replaced-in-{d}d-list' if d else 'replaced-attribute', 0) + 1
  tree = g.coq_node(g.top, g.sinks(g.top))
  ol = coq_list([f'(mkObs "{o["name"]}" {o["kind"]}%nat {cstr(o["parent"])} ' +
                 ('None' if o['level'] is None else f'(Some {o["level"]}%nat)') + f' {cstr(o["host"])} {cstr(o["tls"])})' for o in obs])
  cases.append(f'({tree}, {ol})')
  meta.append((g.tag, src, [{k: v for k, v in o.items() if not k.endswith('obj')} for o in obs], post))
  kinds = [o['kind'] for o in obs]
  lazy = sum(1 for o in obs if o['kind'] == 3 and o['level'] is None)
  ctx.count((g.tag, tuple(n1)), True, cls=f'objects:{min(len(obs) // 50 * 50, 400)}+')
  for f in g.features: ctx.hist['feature:' + f] = ctx.hist.get('feature:' + f, 0) + 1
  ctx.extra['objects_checked'] = ctx.extra.get('objects_checked', 0) + len(obs)
  ctx.extra['lazy_signals_checked'] = ctx.extra.get('lazy_signals_checked', 0) + lazy
  if len(ctx.samples) < 3:
    ctx.sample({'design': g.tag, 'objects': len(obs), 'lazily_created_signals': lazy, 'some_names': [o['name'] for o in obs if o['level'] is None][:12],
                'post_elaboration_accesses': post[:6]})

def post_names(g, top, objs):
  """names of further field / slice signals to touch AFTER elaboration (they are not in all_named_objects but are objects)"""
  from pymtl3.dsl.Connectable import Signal
  from pymtl3.datatypes import Bits, is_bitstruct_class
  rng = g.rng
  sigs = sorted((o for o in objs if isinstance(o, Signal) and o._dsl.slice is None), key=repr)
  out = []
  for o in rng.sample(sigs, min(len(sigs), rng.randrange(0, 6))):
    T = o._dsl.Type
    n = repr(o)
    if is_bitstruct_class(T):
      f = rng.choice(sorted(T.__bitstruct_fields__))
      e = f'{n}.{f}'
      v = getattr(T(), f)
      while isinstance(v, list):
        i = rng.randrange(len(v)); e += f'[{i}]'; v = v[i]
      if isinstance(v, Bits) and v.nbits > 1 and rng.random() < 0.5:
        a = rng.randrange(0, v.nbits); e += f'[{a}:{rng.randrange(a + 1, v.nbits + 1)}]'
      out.append(e)
    else:
      w = T.nbits
      a = rng.randrange(0, w); b = rng.randrange(a + 1, w + 1)
      e = f'{n}[{a}:{b}]'
      if b - a > 1 and rng.random() < 0.6:
        c = rng.randrange(0, b - a); d = rng.randrange(c + 1, b - a + 1); e += f'[{c}:{d}]'
        if rng.random() < 0.3: e += '[0]'
      elif rng.random() < 0.3: e = f'{n}[{a}]'
      out.append(e)
  return out

DIRECTED = [
  # (tag, source) — fixed shapes: every naming code path at least once, independent of the random generator
  ('D0', '''
from pymtl3 import *
from pymtl3.dsl import *
@bitstruct
class P:
  a: Bits8
  b: [ Bits4, Bits4 ]
@bitstruct
class Q:
  v: [ [ P, P ], [ P, P ] ]
  p: P
  t: Bits2
class I( Interface ):
  def construct( s ):
    s.msg = InPort( Q ); s.m = CallerPort(); s.c = CalleePort(); s.l = [ OutPort( 4 ) for _ in range(2) ]
class A( Component ):
  def construct( s ):
    s.q = Wire( Q ); s.w = Wire( 16 ); s.ifc = [ [ I() for _ in range(2) ] ]; s.a1 = Wire( 3 ); s.a = [ Wire( 3 ), Wire( 3 ) ]
    connect( s.q.v[1][0].b[1], 3 )
    connect( s.q.p.a[2:6][1:3], 1 )
    s.w[4:12][2:6][1]
    s.q.v[0][1].a[0:8][7]
    s.ifc[0][1].msg.v[1][1].b[0][0:4][1:3][0:1]
class Top( Component ):
  def construct( s ):
    s.a = [ [ A() ], [ A(), A() ] ]; s.s = A(); s.a1 = [ A() ]
'''),
]

def directed_tree():
  P = '(NStruct [("a"%string, NBits 8); ("b"%string, NList [NBits 4; NBits 4])])'
  Q = f'(NStruct [("v"%string, NList [NList [{P}; {P}]; NList [{P}; {P}]]); ("p"%string, {P}); ("t"%string, NBits 2)])'
  I = f'(NIfc [("msg"%string, {Q}); ("m"%string, NMeth); ("c"%string, NMeth); ("l"%string, NList [NBits 4; NBits 4])])'
  A = (f'(NComp [("clk"%string, NBits 1); ("reset"%string, NBits 1); ("q"%string, {Q}); ("w"%string, NBits 16); ("ifc"%string, NList [NList [{I}; {I}]]); '
       f'("a1"%string, NBits 3); ("a"%string, NList [NBits 3; NBits 3])])')
  return f'(NComp [("clk"%string, NBits 1); ("reset"%string, NBits 1); ("a"%string, NList [NList [{A}]; NList [{A}; {A}]]); ("s"%string, {A}); ("a1"%string, NList [{A}])])'

class DGen:
  """adapter so that a directed design goes through one_design"""
  def __init__(s, rng, tag, src, tree): s.rng, s.tag, s._src, s._tree, s.features, s.top = rng, tag, src, tree, {'directed'}, ('x',)
  def source(s): return s._src
  def coq_node(s, *_): return s._tree
  def sinks(s, *_): return []

def run(ctx):
  setup_impl_path()
  t_py = time.time()
  quick = ctx.tier == 'quick'
  rng = ctx.rng
  cases, meta = [], []
  one_design(ctx, DGen(random.Random(1), 'D0', DIRECTED[0][1], directed_tree()), cases, meta)
  N = 200 if quick else 1800
  for j in range(N):
    while True:
      g = Gen(random.Random(rng.randrange(1 << 30)), f'H{j}', rng.choice(['small', 'medium', 'medium', 'large']))
      g.build()
      if g.weight() <= (140 if quick else 220): break
    g._sinks = sink_table(g)
    one_design(ctx, g, cases, meta)
  ctx.extra['python_phase_s'] = round(time.time() - t_py, 1)
  bad = ctx.coq_bad_indices('names', 'Base.Prelude Elab.Names', 'From Coq Require Import String.', 'node * list obs', cases, 'design_ok c',
                            shard=10 if quick else 25)
  for i in bad[:5]:
    tag, src, obs, post = meta[i]
    why = ctx.coq_eval('why', 'Base.Prelude Elab.Names', 'From Coq Require Import String.',
                       [f"let '(t, os) := {cases[i]} in (is_comp t, wf t, bad_indices (obs_ok t) os, eager_seen t os, names_distinct os)"])
    idx = [int(x) for x in re.findall(r'\d+', why[0].split('[', 1)[1].split(']', 1)[0])] if '[' in why[0] else []
    culprits = [obs[k] for k in idx[:5]]
    ctx.violation(f'C14:model-mismatch:{culprits[0]["name"] if culprits else tag}',
                  f'{tag}: names / metadata reported by pymtl3 disagree with the Coq naming model: (is_comp, wf, bad observations, eager objects all seen, names distinct) = {why[0][:200]}; first bad observations {culprits[:2]}',
                  {'design_source': src, 'bad_observations': culprits, 'checker_result': why[0], 'post_elaboration_accesses': post})
  ctx.extra.update({'designs': len(cases)})

def main(ctx):
  ctx.trusted += ['harness/c14.py: generator emitting the same hierarchy as Python source and as a Coq node term; object traversal (reach)']
  ctx.assumptions += ['well-formedness (wf) of the hierarchy = Python attribute semantics: sibling attribute names are distinct (pymtl3 raises FieldReassignError otherwise) and are identifiers',
                      'not modelled: aliasing of one object under two attributes, attributes starting with "_" and non-list containers (not named by pymtl3 at all)',
                      '"same set of names on re-elaboration" is a determinism statement about the implementation: in the model the name set is a function of the tree; decided differentially']
  ctx.build_props(extra_models=['theories/Elab/Names.vo'])
  try: run(ctx)
  except Exception as e:
    ctx.violation('C14:harness-crash', f'correspondence could not run: {e!r}', {'traceback': traceback.format_exc()}, found_input=False)
  return ctx.finish(rule='random hierarchies (depth 0-3; nested lists of components / interfaces / signals / method ports; bitstruct signals with list fields and nested structs; '
                         'field / slice / slice-of-slice / bit-index signals materialised by bare evaluation, connect to constants, update-block reads and post-elaboration access) '
                         '+ one directed design; distinct = (design, its set of object names)')

def replay(ctx, r):
  """./check C14 --replay <file>: re-run the implementation-side checks on the stored design"""
  setup_impl_path()
  rp = r['replay']
  src = rp['design_source']
  cls, mod = sc.load_source(ctx, src, 'Top')
  top = cls(); top.elaborate()
  post = rp.get('post_elaboration_accesses', [])
  for n in post:
    try: eval(n, {'s': top})
    except Exception as e: print(f'STILL FAILS post-eval {n}: {e!r}')
  bad = python_checks(ctx, 'replay', src, top, observe(top, reach(top)), post)
  for kind, what, n in bad[:10]: print(f'STILL FAILS {kind}: {what}')
  if not bad: print('all implementation-side name checks pass on this design')
  shutil.rmtree(ctx.scratch, ignore_errors=True)
  return 1 if bad else 0
