"""C18 — magic memories act as one in-order memory whatever the timing parameters.

proof  : Props/C18.v over Lib/Mem.v (bytes, little-endian read/write, nine AMOs, MemMsg decoding of up_mem,
         sequential spec, history acceptor) and Lib/MemPipe.v (per port: stall -> request pipe -> service ->
         response pipe, driven by an ARBITRARY list of atomic actions = every latency / stall probability /
         seed / sink readiness / arbitration order; one MagicMemoryCL clock cycle is one such list).
   sentence of the property                                   theorem(s)
   "each port's responses come back in request order with     C18_service_in_request_order, C18_responses_are_spec_prefix,
    the request's type and opaque fields"                     C18_responses_echo_requests, C18_response_echoes_request,
                                                              C18_delay_pipe_order, C18_drained_port_complete
   "every read returns for each byte the data of the most     C18_read_returns_most_recent_write, C18_read_returns_initial_if_never_written,
    recent earlier-processed write to that byte"              C18_read_after_write_bytewise, C18_read_write_same/other, C18_write_frame
   "atomic operations return the old value and store the      C18_amo_returns_old_stores_result, C18_amo_request, C18_amo_returns_most_recent_write,
    operation's result"                                       C18_amo_min/max_signed, C18_amo_minu/maxu_unsigned, C18_amo_result_fits
   "the final memory image equals that of applying the        C18_memory_is_fold_of_log, C18_final_byte_is_most_recent_write
    processed requests one after another"
   "timing parameters change only when responses arrive,      C18_timing_irrelevant, C18_timing_irrelevant_drained, C18_single_port_deterministic,
    never what they contain"                                  C18_cycles_invariant
drivers: each MagicMemoryCL port is driven by TestSrcCL (fresh object per request), by a CL source that rewrites ONE
         request object in place after every send, or by an RTL en/rdy master (live req.msg signal) connected with plain
         `connect` through the stdlib adapters, with back-to-back requests and slow sinks; the judgement is always on the
         accepted request stream vs responses vs final image (latency 0..5 for CL, extra_latency 0..4 for the stream memory).
memory : mem_nbytes is drawn from powers of two, non-powers of two (0x3000, 0x6001, 1000, ...), small sizes and sizes
         tight around the address window; requests go to 1-3 regions spread over the whole memory (anywhere, a twin
         differing in one high address bit, the top incl. the very last byte, the bottom); every access stays inside
         the bytearray (out-of-range behaviour is not defined by the property); bytes outside the observed ranges must
         still be zero at the end.
widths : the data width is PER PORT (W : nat -> Z in the pipeline model, `list Z` in check_history; a processed request
         carries its port's width, `wreq`): one memory serving ports with different message types is covered.
tie    : T-acc/T-diff.  The REAL MagicMemoryCL and stream MagicMemoryRTL are simulated with random request streams
         (per-port message types mk_mem_msg(o,a,d) with mixed data/opaque/addr widths on one memory);
         MagicMemoryFL.read/write/amo are wrapped from here (no /repo change) to observe the order in which the
         memory actually services requests (servicing port = loop variable `i` of up_mem, read off the caller frame).
         (request streams, observed service order, observed responses, final read_mem image) + a proposed log go to
         Coq, where the certified acceptor `check_history` (C18_check_history_sound: accepted => per-port request
         order, responses == sequential-spec responses for that order, image == fold) decides by vm_compute.
partial: nothing is Admitted.  The cycle-accurate timing of the model (cycle_actions) is NOT compared with the
         implementation's timing: the property is about content, and the theorems hold for every oracle.  The model
         memory is unbounded (addresses stay inside the bytearray in all generated cases).
"""
import copy, struct
from random import Random as _PyRandom
from common import *

AMO_CODES = list(range(3, 12))
KNOWN_TYPES = {0, 1, 14, 15} | set(AMO_CODES)
IMPORTS = 'Base.Prelude Lib.Mem'
DEFS = '''
Definition R := req_of.
Definition P (c o t l d : Z) : resp := mkResp (match type_of_code c with Some x => x | None => TInv end) o t l d.
Definition N := Z.to_nat.
Definition hcase := (list Z * list (Z * Z) * list (list req) * list (nat * call) * list (list resp) * list (Z * Z) * bool * tlog)%type.
'''
CASE_T = 'hcase'
OK_BODY = "let '(Ws, ini, rq, ord, out, img, cpl, lg) := c in check_history Ws ini rq ord out img cpl lg"

# ----------------------------------------------------------------------------- python replica of the spec
# (used ONLY to propose the log, to word the diagnosis and to steer shrinking; Coq decides)
def _rd(mem, a, n): return sum(mem.get(a + i, 0) << (8 * i) for i in range(n))
def _wr(mem, a, n, d):
  for i in range(n): mem[a + i] = (d >> (8 * i)) & 255
def _sint(w, u): return u if u < (1 << (w - 1)) else u - (1 << w)
def _amo(t, w, m, a):
  if t == 3: return (m + a) % (1 << w)
  if t == 4: return m & a
  if t == 5: return m | a
  if t == 6: return a
  if t == 7: return m if _sint(w, m) < _sint(w, a) else a
  if t == 8: return min(m, a)
  if t == 9: return m if _sint(w, m) > _sint(w, a) else a
  if t == 10: return max(m, a)
  if t == 11: return m ^ a
def py_apply(W, r, mem):
  t, o, a, l, d = r
  n = W if l == 0 else l
  if t == 0: return (0, o, 0, l, _rd(mem, a, n))
  if t == 1: _wr(mem, a, n, d % (1 << (8 * n))); return (1, o, 0, 0, 0)
  if 3 <= t <= 11:
    old = _rd(mem, a, n); _wr(mem, a, n, _amo(t, 8 * n, old, d % (1 << (8 * n)))); return (t, o, 0, l, old)
  return (t, o, 0, 0, 0)
def py_call(W, r):
  t, o, a, l, d = r
  n = W if l == 0 else l
  if t == 0: return ('r', a, n)
  if t == 1: return ('w', a, n, d % (1 << (8 * n)))
  if 3 <= t <= 11: return ('a', t, a, n, d % (1 << (8 * n)))
  return None

def propose_log(Ws, reqs, order):
  """best-effort explanation of the observed service order: list of (port, request)"""
  cur = [0] * len(reqs); log = []
  def silent(p):
    while cur[p] < len(reqs[p]) and py_call(Ws[p], reqs[p][cur[p]]) is None:
      log.append((p, reqs[p][cur[p]])); cur[p] += 1
  for p, c in order:
    if not (0 <= p < len(reqs)): continue
    silent(p)
    if cur[p] < len(reqs[p]):
      log.append((p, reqs[p][cur[p]])); cur[p] += 1
  for p in range(len(reqs)): silent(p)
  return log

def py_check(h):
  """returns (ok, symptom, detail) — mirrors check_history"""
  Ws, reqs, order, out, log = h['Ws'], h['reqs'], h['order'], h['out'], h['log']
  if h.get('exception'): return False, 'exception', h['exception']
  cpl = True
  for p in range(len(reqs)):
    lp = [r for q, r in log if q == p]
    op = [c for q, c in order if q == p]
    want = [c for c in (py_call(Ws[p], r) for r in reqs[p]) if c is not None]
    if op != want[:len(op)]:
      k = next((i for i in range(len(op)) if i >= len(want) or op[i] != want[i]), len(op))
      dup = k > 0 and op[k] == op[k - 1]
      return False, ('reservice' if dup else 'service-order'), f'port {p}: service #{k} is {op[k]}, the port\'s next request asks for {want[k] if k < len(want) else None}'
    if cpl and lp != reqs[p]: return False, 'not-all-serviced', f'port {p}: {len(lp)} of {len(reqs[p])} serviced'
  calls = [(p, py_call(Ws[p], r)) for p, r in log if py_call(Ws[p], r) is not None]
  if calls != order: return False, 'service-order', 'observed calls differ from the calls of the proposed log'
  mem = dict(h['init']); spec = [[] for _ in reqs]
  for p, r in log: spec[p].append(py_apply(Ws[p], r, mem))
  for p in range(len(reqs)):
    if (out[p] != spec[p]) if cpl else (out[p] != spec[p][:len(out[p])]):
      k = next((i for i in range(len(out[p])) if i >= len(spec[p]) or out[p][i] != spec[p][i]), len(out[p]))
      return False, 'response', f'port {p}: response #{k} is {out[p][k] if k < len(out[p]) else None}, sequential spec for the observed service order gives {spec[p][k] if k < len(spec[p]) else None}'
  for a, b in h['img']:
    if mem.get(a, 0) != b: return False, 'image', f'byte at {a:#x} is {b:#x}, fold of the serviced requests gives {mem.get(a, 0):#x}'
  return True, '', ''

# ----------------------------------------------------------------------------- Coq terms
def req_t(r): return 'R ' + ' '.join(zlit(x) for x in r)
def resp_t(r): return 'P ' + ' '.join(zlit(x) for x in r)
def call_t(c):
  if c[0] == 'r': return f'CRead {zlit(c[1])} {zlit(c[2])}'
  if c[0] == 'w': return f'CWrite {zlit(c[1])} {zlit(c[2])} {zlit(c[3])}'
  return f'CAmo {zlit(c[1])} {zlit(c[2])} {zlit(c[3])} {zlit(c[4])}'
def case_term(h):
  pr = lambda l: coq_list([f'({zlit(a)}, {zlit(b)})' for a, b in l])
  return ('(' + ', '.join([
    coq_list([zlit(w) for w in h['Ws']]), pr(h['init']),
    coq_list([coq_list([req_t(r) for r in rs]) for rs in h['reqs']]),
    coq_list([f'(N {p}, {call_t(c)})' for p, c in h['order']]),
    coq_list([coq_list([resp_t(r) for r in rs]) for rs in h['out']]),
    pr(h['img']), 'true',      # complete: every request must have been serviced and answered (a lost request is a violation)
    coq_list([f'(N {p}, {req_t(r)})' for p, r in h['log']])]) + ')')

# ----------------------------------------------------------------------------- driving the real memories
class Impl:
  """imports of the implementation + instrumentation of MagicMemoryFL (harness side only)"""
  def __init__(s):
    setup_impl_path()
    import pymtl3
    from pymtl3.stdlib.mem.MemMsg import MemMsgType, mk_mem_msg
    from pymtl3.stdlib.mem.MagicMemoryFL import MagicMemoryFL
    from pymtl3.stdlib.mem.MagicMemoryCL import MagicMemoryCL
    from pymtl3.stdlib.test_utils import TestSrcCL, TestSinkCL
    import pymtl3.stdlib.stream.magic_memory as smm
    from pymtl3.stdlib.stream.SourceRTL import SourceRTL
    from pymtl3.stdlib.stream.SinkRTL import SinkRTL
    s.pymtl3, s.mk_mem_msg, s.FL, s.CL, s.smm = pymtl3, mk_mem_msg, MagicMemoryFL, MagicMemoryCL, smm
    s.TestSrcCL, s.TestSinkCL, s.SourceRTL, s.SinkRTL = TestSrcCL, TestSinkCL, SourceRTL, SinkRTL
    from pymtl3.stdlib.mem.mem_ifcs import MemMasterIfcRTL
    from pymtl3 import Component, CallerIfcCL, Wire, Bits16, update, update_ff, update_once

    # -- requesters that do NOT hand over a fresh object per request (both are legal users of the interfaces) --
    class ReuseSrcCL(Component):
      """CL source that owns ONE message object for the whole run: it is sent, and immediately rewritten in place
      with the next pending request (what a requester with a request register does)"""
      def construct(s, Type, msgs, initial_delay=0, interval_delay=0):
        s.send = CallerIfcCL(Type=Type)
        s.todo = [m for m in msgs]
        s.cur = Type()
        s.k = 0
        s.count, s.delay = initial_delay, interval_delay
        def load():
          src = s.todo[s.k] if s.k < len(s.todo) else Type()
          s.cur.type_ @= src.type_; s.cur.opaque @= src.opaque; s.cur.addr @= src.addr
          s.cur.len @= src.len; s.cur.data @= src.data
        load()
        @update_once
        def up_src_send():
          if s.count > 0: s.count -= 1
          elif not s.reset:
            if s.send.rdy() and s.k < len(s.todo):
              s.send(s.cur)
              s.k += 1
              load()                      # the same object now holds the next pending request
              s.count = s.delay
      def done(s): return s.k >= len(s.todo)
      def line_trace(s): return ''

    class RtlMaster(Component):
      """RTL en/rdy master (MemMasterIfcRTL) connected to the CL memory with plain `connect` (stdlib adapters).
      Its next pending request sits on req.msg all the time; req.en only when req.rdy; resp.rdy follows a
      back-pressure pattern (initial / interval delay, like the test sinks)."""
      def construct(s, Req, Resp, msgs, src_init, src_intv, sink_init, sink_intv, record):
        s.mem = MemMasterIfcRTL(Req, Resp)
        n = len(msgs)
        s.msgs = list(msgs) + [Req()]
        s.idx = Wire(Bits16); s.gap = Wire(Bits16); s.hold = Wire(Bits16)
        @update
        def up_req():
          s.mem.req.msg @= s.msgs[s.idx]
          s.mem.req.en  @= s.mem.req.rdy & (s.idx < n) & (s.gap == 0) & ~s.reset
        @update
        def up_resp_rdy():
          s.mem.resp.rdy @= (s.hold == 0) & ~s.reset
        @update_ff
        def up_ff():
          if s.reset:
            s.idx <<= 0; s.gap <<= src_init; s.hold <<= sink_init
          else:
            if s.mem.req.en:
              s.idx <<= s.idx + 1; s.gap <<= src_intv
            elif s.gap > 0:
              s.gap <<= s.gap - 1
            if s.mem.resp.en:
              record(s.mem.resp.msg); s.hold <<= sink_intv
            elif s.hold > 0:
              s.hold <<= s.hold - 1
      def line_trace(s): return ''
    s.ReuseSrcCL, s.RtlMaster = ReuseSrcCL, RtlMaster
    s.types = {}
    s.obs = None; s.depth = 0
    o_read, o_write, o_amo = MagicMemoryFL.read, MagicMemoryFL.write, MagicMemoryFL.amo
    me = s
    def port():
      f = sys._getframe(2)
      i = f.f_locals.get('i')
      if not isinstance(i, int): raise RuntimeError(f'cannot identify the servicing port: caller {f.f_code.co_name} has no loop variable i')
      return i
    def read(self, addr, nbytes):
      if me.obs is not None and me.depth == 0: me.obs.append((port(), ('r', int(addr), int(nbytes))))
      return o_read(self, addr, nbytes)
    def write(self, addr, nbytes, data):
      if me.obs is not None and me.depth == 0: me.obs.append((port(), ('w', int(addr), int(nbytes), int(data) % (1 << (8 * int(nbytes))))))
      return o_write(self, addr, nbytes, data)
    def amo(self, amo_, addr, nbytes, data):
      if me.obs is not None and me.depth == 0: me.obs.append((port(), ('a', int(amo_), int(addr), int(nbytes), int(data) % (1 << (8 * int(nbytes))))))
      me.depth += 1
      try: return o_amo(self, amo_, addr, nbytes, data)
      finally: me.depth -= 1
    MagicMemoryFL.read, MagicMemoryFL.write, MagicMemoryFL.amo = read, write, amo
  def msg_types(s, pt):
    W, obits, abits = pt
    if pt not in s.types: s.types[pt] = s.mk_mem_msg(obits, abits, 8 * W)
    return s.types[pt]

def fields(m): return (int(m.type_), int(m.opaque), int(m.test), int(m.len), int(m.data))

def simulate(I, impl, ptypes, reqs, init, tm, window):
  """run the real memory on `reqs` (per port list of (type, opaque, addr, len, data)) under timing tm.
  returns the history dict (order/out/img as observed)."""
  pm = I.pymtl3
  nports = len(reqs)
  if isinstance(ptypes, int): ptypes = [(ptypes, 8, 32)] * nports     # homogeneous mk_mem_msg(8,32,8W)
  ptypes = [tuple(pt) for pt in ptypes]                                # per port (data bytes W, opaque bits, addr bits)
  Ws = [pt[0] for pt in ptypes]
  T = [I.msg_types(pt) for pt in ptypes]                               # per port (Req, Resp) classes
  M = tm.get('mem_nbytes', 1 << 20)                                    # size of the backing bytearray (any size, not only 2^k)
  if window and isinstance(window[0], int): window = [tuple(window)]
  window = [(max(0, lo), min(M, hi)) for lo, hi in window]              # observed image ranges
  out = [[] for _ in range(nports)]
  msgs = [[T[i][0](t, o, a, l, d) for (t, o, a, l, d) in reqs[i]] for i in range(nports)]
  def rec(i): return lambda a, b: (out[i].append(fields(a)) or True)
  h = {'impl': impl, 'Ws': Ws, 'ptypes': ptypes, 'reqs': [list(map(tuple, rs)) for rs in reqs], 'init': list(init), 'timing': tm, 'window': list(window),
       'order': [], 'out': out, 'img': [], 'complete': False, 'exception': None}
  obs = []
  try:
    if impl == 'CL':
      drv = tm.get('drivers') or ['fresh'] * nports
      class TH(pm.Component):
        def construct(s):
          s.mem = I.CL(nports, list(T), tm['stall'], tm['latency'], M)
          s.srcs, s.sinks, s.masters = [], [], []
          for i in range(nports):
            if drv[i] == 'rtl':
              m = I.RtlMaster(T[i][0], T[i][1], msgs[i], tm['src_init'][i], tm['src_intv'][i], tm['sink_init'][i], tm['sink_intv'][i],
                              (lambda msg, i=i: out[i].append(fields(msg))))
              setattr(s, f'master{i}', m); s.masters.append(m)
              pm.connect(m.mem, s.mem.ifc[i])                     # stdlib RTL<->CL adapters are inserted by connect
            else:
              Src = I.ReuseSrcCL if drv[i] == 'reuse' else I.TestSrcCL
              src = Src(T[i][0], msgs[i], tm['src_init'][i], tm['src_intv'][i])
              snk = I.TestSinkCL(T[i][1], [None] * (len(msgs[i]) + 4), tm['sink_init'][i], tm['sink_intv'][i], cmp_fn=rec(i))
              setattr(s, f'src{i}', src); setattr(s, f'sink{i}', snk)
              pm.connect(src.send, s.mem.ifc[i].req)
              pm.connect(s.mem.ifc[i].resp, snk.recv)
      th = TH()
    else:
      real_random = I.smm.Random
      I.smm.Random = lambda seed: _PyRandom((seed * 7919) ^ tm['seed'])
      try:
        class TH(pm.Component):
          def construct(s):
            s.srcs = [I.SourceRTL(T[i][0], msgs[i], tm['src_init'][i], tm['src_intv'][i]) for i in range(nports)]
            s.mem = I.smm.MagicMemoryRTL(nports, list(T), tm['stall'], tm['latency'], M)
            s.sinks = [I.SinkRTL(T[i][1], [T[i][1]()] * (len(msgs[i]) + 4), tm['sink_init'][i], tm['sink_intv'][i], cmp_fn=rec(i)) for i in range(nports)]
            for i in range(nports):
              pm.connect(s.srcs[i].send, s.mem.ifc[i].req)
              pm.connect(s.mem.ifc[i].resp, s.sinks[i].recv)
        th = TH()
        th.elaborate()
      finally:
        I.smm.Random = real_random
    if impl == 'CL':
      th.elaborate()
      for i in range(nports):
        th.mem.req_stalls[i].stall_rgen = _PyRandom((i * 7919) ^ tm['seed'])
    for a, b in init: th.mem.write_mem(a, bytes([b]))
    th.apply(pm.DefaultPassGroup())
    I.obs = obs                       # observe from the very first cycle (with latency 0 a request can be serviced in the reset epilogue)
    th.sim_reset()
    total = sum(len(r) for r in reqs)
    idle, last, cycles = 0, -1, 0
    cap = 400 + 60 * total
    while cycles < cap:
      th.sim_tick(); cycles += 1
      got = sum(len(o) for o in out) + len(obs)
      if all(len(out[i]) >= len(reqs[i]) for i in range(nports)): break
      idle = idle + 1 if got == last else 0
      last = got
      if idle > 300: break
    for _ in range(8 + 2 * tm['latency']): th.sim_tick()     # nothing more may happen
    h['cycles'] = cycles
    h['complete'] = all(len(out[i]) == len(reqs[i]) for i in range(nports))
    whole = th.mem.mem.mem
    assert len(whole) == M, f'memory has {len(whole)} bytes, asked for {M}'
    img = {}
    for lo, hi in window:
      top = min(hi, M - 1)                                             # read_mem refuses a range that ends at the last byte
      image = bytes(th.mem.read_mem(lo, top - lo)) if top > lo else b''
      for k in range(len(image)): img[lo + k] = image[k]
      if hi == M: img[M - 1] = whole[M - 1]
    h['img'] = sorted(img.items())
    # bytes outside the observed ranges must still be zero; report a few offenders to Coq as image entries
    stray = _nonzero_outside(whole, window)[:8]
    h['img'] += [(a, whole[a]) for a in stray]
  except Exception as e:
    h['exception'] = f'{type(e).__name__}: {str(e)[:200]}'
  finally:
    I.obs = None; I.depth = 0
  h['order'] = [(p, c) for p, c in obs]
  bad_t = [r for o in out for r in o if r[0] not in KNOWN_TYPES]
  if bad_t and not h['exception']: h['exception'] = f'response with unknown type code {bad_t[0]}'
  h['log'] = propose_log(Ws, h['reqs'], h['order'])
  return h

def _nonzero_outside(arr, ranges):
  tmp = bytearray(arr)
  for lo, hi in ranges: tmp[lo:hi] = bytes(hi - lo)
  if tmp.count(0) == len(tmp): return []
  return [a for a, b in enumerate(tmp) if b]

# ----------------------------------------------------------------------------- generation
SPECIAL = [0, 1, 0x7f, 0x80, 0xff, 0x7fff, 0x8000, 0xffff, 0x7fffffff, 0x80000000, 0xffffffff]
def gen_data(rng, W):
  k = rng.random()
  top = (1 << (8 * W)) - 1
  if k < 0.25: return rng.choice(SPECIAL) & top
  if k < 0.35: return top - rng.randrange(0, 3)
  if k < 0.45: return (1 << (8 * W - 1)) + rng.randrange(-2, 3)
  return rng.getrandbits(8 * W)

def gen_ptypes(rng, nports):
  """per-port message types (data bytes W, opaque bits, addr bits): one memory may serve ports of different widths"""
  k = rng.random()
  if k < 0.4 or nports == 1 and k < 0.7: Ws = [4] * nports
  elif k < 0.55 or nports == 1:          Ws = [rng.choice([2, 8, 16])] * nports
  else:
    Ws = [rng.choice([2, 4, 4, 8, 16]) for _ in range(nports)]
    if len(set(Ws)) == 1: Ws[rng.randrange(nports)] = rng.choice([w for w in (2, 4, 8, 16) if w != Ws[0]])
  if rng.random() < 0.6: return [(w, 8, 32) for w in Ws]
  return [(w, rng.choice([1, 4, 8, 11]), rng.choice([20, 32, 48])) for w in Ws]

def gen_layout(rng, ptypes, hot):
  """memory size (powers of two, non-powers of two, small, tight around the window) and 1-3 address regions spread over
  the whole memory: anywhere, a twin that differs from another region only in one high address bit, the very top
  (accesses are clamped so that they end at the last byte), the very bottom"""
  maxW = max(pt[0] for pt in ptypes)
  if hot: span = rng.choice([1, 2, 3, 4, 6])
  else:   span = rng.choice([4, 6, 8, 12, 16]) if maxW <= 4 else rng.choice([8, 16, 24])
  need = span + 2 * maxW
  k = rng.random()
  if k < 0.3:    M = 1 << 20
  elif k < 0.45: M = rng.choice([1 << 16, 1 << 12, 1 << 10, 1 << 8])
  elif k < 0.8:  M = rng.choice([0x3000, 0x5000, 0x1800, 0xC0000, 0x18000, 0x10010, 0xFFFF0, 1000, 3000, 0x6001, 0xA0000, 768, 0x2400])
  else:          M = need + maxW + rng.randrange(8, 400)               # small / tight: the window is a large part of the memory
  M = max(M, 2 * need + 4 * maxW + 8)
  bases = [rng.randrange(maxW, M - need)]
  for _ in range(rng.choice([0, 0, 1, 1, 2])):
    c = rng.random()
    if c < 0.45:                                                        # same low bits, one high bit flipped
      b = rng.choice(bases); ks = [j for j in range(4, 20) if maxW <= (b ^ (1 << j)) < M - need]
      if ks: bases.append(b ^ (1 << rng.choice(ks)))
    elif c < 0.75: bases.append(M - span - rng.randrange(0, 2 * maxW))  # top of the memory, reaches the last byte
    elif c < 0.85: bases.append(rng.randrange(0, maxW))                 # bottom
    else:          bases.append(rng.randrange(maxW, M - need))
  if rng.random() < 0.15: bases[0] = M - span - rng.randrange(0, 2 * maxW)
  return M, bases, span

def _fit(a, n, M): return max(0, min(a, M - n))                         # keep the access inside the memory

def gen_reqs(rng, impl, ptypes, nreq, bases, span, M):
  reqs = []
  for p, (W, ob, ab) in enumerate(ptypes):
    rs = []
    for _ in range(nreq[p]):
      k = rng.random()
      base = rng.choice(bases)
      a = base + rng.randrange(0, span)
      o = rng.getrandbits(ob)
      l = rng.randrange(0, W); n = W if l == 0 else l
      if k < 0.33:   rs.append((0, o, _fit(a, n, M), l, rng.getrandbits(8 * W) if rng.random() < 0.3 else 0))
      elif k < 0.66: rs.append((1, o, _fit(a, n, M), l, gen_data(rng, W)))
      elif k < 0.95 or impl != 'CL':
        # AMOs on the port's full data width only (len field 0); aligned half of the time so that ports collide
        if rng.random() < 0.5: a = (a // W) * W
        rs.append((rng.choice(AMO_CODES), o, _fit(a, W, M), 0, gen_data(rng, W)))
      else:          rs.append((rng.choice([14, 15]), o, _fit(a, n, M), l, rng.getrandbits(8 * W)))
    reqs.append(rs)
  return reqs

def gen_reqs_hot(rng, impl, ptypes, nreq, bases, span, M):
  """tiny window, a small pool of (addr,nbytes) locations that are read again and again, separated by stores/AMOs of
  other sizes and alignments that overlap them from below / above / inside / covering (any caching, merging or
  partial-invalidation shortcut inside the memory shows up as a stale byte in a repeated read)"""
  maxW = max(pt[0] for pt in ptypes)
  pool = []
  for _ in range(rng.choice([1, 2, 2, 3])):
    n = rng.randrange(1, rng.choice([w for w, _, _ in ptypes]) + 1)
    pool.append((_fit(rng.choice(bases) + rng.randrange(0, span), n, M), n))
  p_rd = rng.choice([0.3, 0.4, 0.5]); p_amo = rng.choice([0, 0.05, 0.15])
  reqs = []
  for p, (W, ob, ab) in enumerate(ptypes):
    rs = []
    for _ in range(nreq[p]):
      k = rng.random(); o = rng.getrandbits(ob)
      a0, n0 = rng.choice(pool)
      if k < p_rd:
        if n0 <= W and rng.random() < 0.85: a, l = a0, (0 if n0 == W else n0)      # the hot location, if this port can express it
        else:
          l = rng.randrange(0, W); a = _fit(rng.choice(bases) + rng.randrange(0, span), W if l == 0 else l, M)
        rs.append((0, o, a, l, 0))
      else:
        # a store / AMO placed relative to one of the hot locations: starts up to W-1 bytes below it .. at its last byte
        a = a0 + rng.randrange(-(W - 1), n0)
        l = rng.randrange(0, W) if k < 1 - p_amo else 0
        a = _fit(a, W if l == 0 else l, M)
        if k < 1 - p_amo: rs.append((1, o, a, l, gen_data(rng, W)))
        else:             rs.append((rng.choice(AMO_CODES), o, a, 0, gen_data(rng, W)))
    reqs.append(rs)
  return reqs

def gen_timing(rng, impl, nports, latency=None, stall=None):
  dl = lambda hi: [rng.choice([0, 0, 0, 1, 2, rng.randrange(0, hi)]) for _ in range(nports)]
  if latency is None: latency = rng.choice([0, 1, 2, 3, 4, 5]) if impl == 'CL' else rng.choice([0, 1, 2, 3, 4])
  if stall is None: stall = rng.choice([0, 0.3, 0.7])
  tm = {'latency': latency, 'stall': stall, 'seed': rng.getrandbits(30),
        'src_init': dl(6), 'src_intv': dl(5), 'sink_init': dl(8), 'sink_intv': dl(6)}
  if impl == 'CL':
    # who drives each port: TestSrcCL (a fresh object per request), a CL source rewriting ONE object in place,
    # or an RTL en/rdy master behind the stdlib adapters (the request is a live signal)
    tm['drivers'] = [rng.choice(['fresh', 'fresh', 'reuse', 'reuse', 'rtl', 'rtl']) for _ in range(nports)]
  return tm

def nontrivial(h):
  """some read/AMO observes a byte an EARLIER serviced request of the log wrote, or two ports touch one byte"""
  seen = {}
  for p, r in h['log']:
    t, o, a, l, d = r
    n = h['Ws'][p] if l == 0 else l
    if t == 0 or 3 <= t <= 11:
      if any((a + k) in seen for k in range(n)): return True
    if t == 1 or 3 <= t <= 11:
      for k in range(n): seen[a + k] = p
  return False

def _reread_count(h):
  """how often the service log contains: read (X,n) ... only stores, at least one partially overlapping [X,X+n) ... read (X,n)"""
  last = None; hit = False; cnt = 0
  for p, r in h['log']:
    t, o, a, l, d = r; n = h['Ws'][p] if l == 0 else l
    if t == 0:
      if last == (a, n) and hit: cnt += 1
      last, hit = (a, n), False
    elif t == 1:
      if last and a < last[0] + last[1] and last[0] < a + n and (a, n) != last: hit = True
    elif 3 <= t <= 11:
      last, hit = None, False
  return cnt

# ----------------------------------------------------------------------------- shrinking + reporting
def shrink(I, h, budget=80):
  """delta-debug the request streams under the same timing; keeps the first failing symptom class"""
  ok, sym0, _ = py_check(h)
  def fails(reqs):
    g = simulate(I, h['impl'], h['ptypes'], reqs, h['init'], h['timing'], h['window'])
    ok, sym, _ = py_check(g)
    return (not ok and (sym == sym0 or sym0 == 'exception')), g
  best = h
  items = [(p, i) for p in range(len(h['reqs'])) for i in range(len(h['reqs'][p]))]
  n = 2
  while len(items) >= 2 and budget > 0:
    chunk = max(1, len(items) // n); reduced = False
    for s in range(0, len(items), chunk):
      keep = items[:s] + items[s + chunk:]
      reqs = [[h['reqs'][p][i] for (q, i) in keep if q == p] for p in range(len(h['reqs']))]
      budget -= 1
      f, g = fails(reqs)
      if f:
        items, best, reduced = keep, g, True; n = max(2, n - 1); break
      if budget <= 0: break
    if not reduced:
      if chunk == 1: break
      n = min(len(items), n * 2)
  return best

def replay_of(h):
  return {'impl': h['impl'], 'port_types (data bytes, opaque bits, addr bits)': h['ptypes'], 'init': h['init'], 'timing': h['timing'], 'window': h['window'],
          'requests_per_port (type,opaque,addr,len,data)': h['reqs'],
          'observed_service_order (port, MagicMemoryFL call)': h['order'],
          'observed_responses_per_port (type,opaque,test,len,data)': h['out'],
          'observed_image_nonzero': [(a, b) for a, b in h['img'] if b], 'complete': h['complete'], 'exception': h['exception'],
          'coq_case': case_term(h)}

def report(ctx, I, h, coq_says_bad=True):
  ok, sym, detail = py_check(h)
  small = shrink(I, h) if not ok else h
  ok2, sym2, detail2 = py_check(small)
  if ok2: small, sym2, detail2 = h, sym, detail
  name = 'MagicMemoryCL' if h['impl'] == 'CL' else 'MagicMemoryRTL'
  if not ok and sym2 == 'reservice':
    key = f'C18:{name}:reservice-under-backpressure'
  elif ok:
    key = f'C18:{name}:coq-only:' + hashlib.sha1(case_term(h).encode()).hexdigest()[:10]
    detail2 = 'the Coq acceptor rejects this history although the python replica accepts it (replica and model differ)'
  else:
    key = f'C18:{name}:{sym2}:' + hashlib.sha1(repr((small["ptypes"], small["reqs"], small["timing"])).encode()).hexdigest()[:10]
  # confirm the shrunk history with the Coq acceptor
  try:
    still = ctx.coq_bad_indices('shrunk', IMPORTS, DEFS, CASE_T, [case_term(small)], OK_BODY) if not small['exception'] else [0]
  except Exception as e:
    still = [0]; ctx.note(f'coq confirmation of shrunk case failed to run: {e!r}'[:300])
  if not still: small, detail2 = h, detail
  n = sum(len(r) for r in small['reqs'])
  ctx.violation(key, f'{name} ({len(small["reqs"])} port(s), latency {small["timing"]["latency"]}, stall {small["timing"]["stall"]}, '
                     f'{n} request(s)): {sym2 or "rejected"}: {detail2}', replay_of(small))

# ----------------------------------------------------------------------------- directed probes
def subword_amo_probe(ctx, I, impl):
  """AMO with len 1..3 on a 32-bit message: own small class, one key per implementation"""
  W = 4; failing = []; first = None
  cases, hs = [], []
  for t in AMO_CODES:
    for l in (1, 2, 3):
      reqs = [[(1, 1, 0x40, 0, 0xb3a29180), (t, 2, 0x40, l, 0x7f01fe05), (0, 3, 0x40, 0, 0)]]
      tm = {'latency': 1 if impl == 'CL' else 0, 'stall': 0, 'seed': 1, 'src_init': [0], 'src_intv': [0], 'sink_init': [0], 'sink_intv': [0]}
      h = simulate(I, impl, W, reqs, [], tm, (0x30, 0x60))
      ctx.count(('subword-amo', impl, t, l), True, cls=f'{impl}:subword-amo')
      if h['exception']:
        failing.append({'amo_type': t, 'len': l, 'exception': h['exception'], 'memory_after': [(a, b) for a, b in h['img'] if b]})
        first = first or h
      else:
        cases.append(case_term(h)); hs.append((t, l, h))
  if cases:
    for i in ctx.coq_bad_indices(f'sub{impl}', IMPORTS, DEFS, CASE_T, cases, OK_BODY):
      t, l, h = hs[i]
      failing.append({'amo_type': t, 'len': l, 'mismatch': py_check(h)[2]}); first = first or h
  if failing:
    name = 'MagicMemoryCL' if impl == 'CL' else 'MagicMemoryRTL'
    ctx.violation(f'C18:subword-amo:{impl}',
                  f'{name}: AMO with len 1..3 (sub-word) does not return the old value / store the result: '
                  f'{len(failing)} of 27 (op,len) combinations fail, e.g. type {failing[0]["amo_type"]} len {failing[0]["len"]}: '
                  f'{failing[0].get("exception") or failing[0].get("mismatch")}',
                  {'call_site': 'MagicMemoryFL.amo with nbytes < data width (ret is Bits(8*len), req.data is full width)',
                   'failing': failing, 'first': replay_of(first)})

def backpressure_probe(I, impl):
  """deterministic small history with a slow sink: 4 AMO adds to one word + a second port writing the same word"""
  reqs = [[(3, i, 0x100, 0, 1) for i in range(4)], [(1, 9, 0x100, 0, 0x50), (0, 10, 0x100, 0, 0)]]
  tm = {'latency': 1 if impl == 'CL' else 0, 'stall': 0, 'seed': 5, 'src_init': [0, 2], 'src_intv': [0, 0], 'sink_init': [3, 0], 'sink_intv': [5, 2]}
  return simulate(I, impl, 4, reqs, [], tm, (0xf0, 0x120))

# ----------------------------------------------------------------------------- main
def run(ctx):
  I = Impl()
  rng = ctx.rng
  quick = ctx.tier == 'quick'
  hists = []
  t_end = time.time() + (45 if quick else 420)

  for impl in ('CL', 'RTL'):
    hists.append(backpressure_probe(I, impl))

  # systematic sweep of the timing grid, then random fill
  grid = [(impl, np, lat, st) for impl in ('CL', 'RTL') for np in (1, 2, 3)
          for lat in ((0, 1, 2, 3, 4, 5) if impl == 'CL' else (0, 1, 2, 4)) for st in (0, 0.3, 0.7)]
  rounds = 1 if quick else 10
  plan = grid * rounds
  extra = 120 if quick else 2500
  for _ in range(extra):
    impl = rng.choice(['CL', 'RTL'])
    plan.append((impl, rng.choice([1, 2, 2, 3, 3] if quick else [1, 2, 2, 3, 3, 4]), None, None))
  for (impl, nports, lat, st) in plan:
    if time.time() > t_end: ctx.note('time budget reached; remaining planned cases skipped'); break
    ptypes = gen_ptypes(rng, nports)
    W = max(pt[0] for pt in ptypes)
    hi_n = 9 if quick else 16
    hot = rng.random() < 0.5
    M, bases, span = gen_layout(rng, ptypes, hot)
    if hot:
      nreq = [rng.randrange(6, 2 * hi_n) for _ in range(nports)]
      reqs = gen_reqs_hot(rng, impl, ptypes, nreq, bases, span, M)
    else:
      nreq = [rng.randrange(2, hi_n) for _ in range(nports)]
      reqs = gen_reqs(rng, impl, ptypes, nreq, bases, span, M)
    wins = [(b - 2 * W - 16, b + span + 2 * W + 16) for b in bases]
    init = []
    if rng.random() < 0.4:
      b = rng.choice(bases)
      init = [(a, rng.getrandbits(8)) for a in range(max(0, b - 2), min(M - 1, b + span + 2))]   # write_mem cannot reach the last byte
    ntim = 2 if nports == 1 else 1          # one-port streams are run under two timings: same content expected
    for k in range(ntim):
      tm = gen_timing(rng, impl, nports, lat if k == 0 else None, st if k == 0 else None)
      tm['mem_nbytes'] = M
      hists.append(simulate(I, impl, ptypes, reqs, init, tm, wins))
      hists[-1]['mode'] = 'hot' if hot else 'uniform'

  ctx.extra['build_and_sim_s'] = round(time.time() - ctx.t0, 1)
  # ---- Coq decides
  live = [h for h in hists if not h['exception']]
  cases = [case_term(h) for h in live]
  for h in hists:
    key = (h['impl'], h['ptypes'], h['reqs'], h['init'], h['order'])
    ctx.count(key, nontrivial(h) and not h['exception'],
              cls=f"{h['impl']}:p{len(h['reqs'])}:L{h['timing']['latency']}:s{h['timing']['stall']}")
  ctx.extra['non_pow2_memory_histories'] = sum(1 for h in hists if (lambda m: m & (m - 1))(h['timing'].get('mem_nbytes', 1 << 20)))
  ctx.extra['last_byte_touched_histories'] = sum(1 for h in hists if any((r[2] + (h['Ws'][p] if r[3] == 0 else r[3])) == h['timing'].get('mem_nbytes', 1 << 20) for p, r in h['log']))
  ctx.extra['mixed_width_histories'] = sum(1 for h in hists if len(set(h['Ws'])) > 1)
  ctx.extra['hot_window_histories'] = sum(1 for h in hists if h.get('mode') == 'hot')
  ctx.extra['repeated_read_after_overlapping_store'] = sum(_reread_count(h) for h in hists)
  for h in live[:3] + live[-2:]:
    ctx.sample({'impl': h['impl'], 'port_types': h['ptypes'], 'timing': h['timing'], 'requests': h['reqs'], 'service_order': h['order'],
                'responses': h['out'], 'cycles': h.get('cycles')})
  bad = ctx.coq_bad_indices('hist', IMPORTS, DEFS, CASE_T, cases, OK_BODY, shard=60) if cases else []
  badset = set(bad)
  ctx.extra['coq_judge_s'] = round(time.time() - ctx.t0 - ctx.extra['build_and_sim_s'], 1)
  # the python replica must agree with Coq on every case (guards the replica used for shrinking / diagnosis)
  for i, h in enumerate(live):
    if py_check(h)[0] != (i not in badset):
      ctx.note(f'python replica and Coq acceptor disagree on case {i} ({h["impl"]}); Coq is authoritative')
  reported = 0
  seen_sym = {}
  for h in [x for x in hists if x['exception']] + [live[i] for i in bad]:
    sym = (h['impl'], py_check(h)[1])
    seen_sym[sym] = seen_sym.get(sym, 0) + 1
    if seen_sym[sym] > 2 or reported >= 6: continue
    report(ctx, I, h); reported += 1
  ctx.extra['histories'] = len(hists); ctx.extra['rejected_by_coq'] = len(bad)
  ctx.extra['exceptions'] = sum(1 for h in hists if h['exception'])
  ctx.extra['incomplete'] = sum(1 for h in live if not h['complete'])
  ctx.extra['requests_serviced'] = sum(len(h['log']) for h in hists)
  ctx.extra['interleaved_multiport'] = sum(1 for h in live if len({p for p, _ in h['log']}) > 1)

  # ---- sub-word AMOs: their own class, kept out of the random streams
  for impl in ('CL', 'RTL'):
    subword_amo_probe(ctx, I, impl)

def replay(ctx, r):
  """./check C18 --replay file : re-run the recorded history on the current tree and let Coq judge it"""
  I = Impl()
  rp = r['replay']
  if 'first' in rp: rp = rp['first']
  reqs = [[tuple(x) for x in rs] for rs in rp['requests_per_port (type,opaque,addr,len,data)']]
  h = simulate(I, rp['impl'], rp.get('port_types (data bytes, opaque bits, addr bits)', rp.get('W', 4)), reqs, [tuple(x) for x in rp['init']], rp['timing'], rp['window'])
  ok, sym, detail = py_check(h)
  bad = [0] if h['exception'] else ctx.coq_bad_indices('replay', IMPORTS, DEFS, CASE_T, [case_term(h)], OK_BODY)
  print(json.dumps({'observed_service_order': h['order'], 'observed_responses': h['out'], 'exception': h['exception']}, default=str)[:3000])
  print('REPLAY:', 'still failing: ' + (sym + ': ' + detail if not ok else 'rejected by the Coq acceptor') if bad else 'history accepted on this tree')
  shutil.rmtree(ctx.scratch, ignore_errors=True)
  return 1 if bad else 0

def main(ctx):
  ctx.trusted += ['harness/c18.py instrumentation: MagicMemoryFL.read/write/amo wrapped at class level; the servicing port is the '
                  'loop variable `i` of up_mem read from the caller frame (a refactor that renames it makes the harness fail closed)',
                  'pymtl3 simulation kernel (DefaultPassGroup), TestSrcCL/TestSinkCL/SourceRTL/SinkRTL test drivers, the harness\'s own requesters (ReuseSrcCL: one request object rewritten in place; RtlMaster: en/rdy RTL master behind the stdlib RTL<->CL adapters), bitstruct field packing of MemMsg']
  ctx.assumptions += [
    'memory model is unbounded Z -> byte; generated accesses stay inside the bytearray of the configured size (any mem_nbytes, incl. non-powers of two; the last byte is used); behaviour of out-of-range addresses (IndexError) is outside C18',
    'AMOs in the random streams use the full data width (len field 0) — sub-word AMOs are probed separately (keys C18:subword-amo:CL / C18:subword-amo:RTL)',
    'INV/FLUSH (MagicMemoryCL only) make no MagicMemoryFL call; they are placed in the proposed log just before the next observable request of their port (they commute with everything)',
    'the cycle-accurate timing of Lib/MemPipe.cycle_actions is not compared with the implementation; theorems hold for every oracle, and the tie is through the observed service order',
    'stall seeds: MagicMemoryCL hard-codes seed = port index; the harness re-seeds req_stalls[i].stall_rgen (CL) / patches the Random name in stream.magic_memory while constructing (RTL) to vary seeds',
    'WRITE_INIT / LR / SC and unknown type codes are outside the model (the implementations assert on them)']
  ctx.build_props(extra_models=['theories/Lib/Mem.vo'])
  try:
    run(ctx)
  except Exception as e:
    ctx.note('correspondence crashed: ' + traceback.format_exc()[-1500:])
    ctx.violation('C18:harness-crash', f'correspondence could not run: {e!r}', {'traceback': traceback.format_exc()}, found_input=False)
  return ctx.finish(rule='history = (implementation CL|RTL, per-port message types (data width 2/4/8/16 bytes, opaque 1-11 bits, addr 20-48 bits; mixed widths on one memory), 1-4 ports, latency, stall prob, seed, src/sink delays, per-port random '
                         'request streams of reads/writes len 1..W / full-width AMOs (9 ops) / INV,FLUSH on 1-3 small shared address regions spread over a memory of random size (2^k and non-2^k, small, tight), optional preload); '
                         'distinct = distinct (impl, streams, preload, observed service order); non-trivial = some read/AMO observes a byte written by an '
                         'earlier serviced request; each history is judged by the certified Coq acceptor check_history (vm_compute)')
