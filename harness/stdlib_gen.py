"""stdlib_gen.py — wiring of the T-gen tie of C19 / C17 (translators/stdlib2coq.py) for the property harnesses.

The generated files coq/theories/Gen/ArbiterGen.v / QueueGen.v are re-emitted from /repo's CURRENT source by every
run of the check, and the proof files on top of them (Lib/ArbiterGenProofs*.v -> Props/C19_gen.v, ...) are re-checked:

    import stdlib_gen
    ctx.build_props(gen_cmds=stdlib_gen.gen_cmds('arbiters'), extra_models=['theories/Lib/Arbiter.vo'])

    ctx.build_props(gen_cmds=stdlib_gen.gen_cmds('queues'), extra_models=['theories/Lib/QueueCheck.vo'])     # c17.py

together with  `From PV Require Import Props.C19_gen.`  in Props/C19.v  (resp.  Props.C17_gen  in Props/C17.v), so that the
closure of the property file contains the generated model and its proofs.  What happens when the source changes:
  * a block leaves the RTL language            -> the translator exits 3 and writes a stub without definitions;
                                                   build_props reports 'translator refused: ... REFUSE: rr2: block ... is
                                                   outside the RTL language: <why>' and the proof build fails
                                                   ('The reference rr2_reset was not found');
  * the component no longer behaves like the hand model Lib.Arbiter.step
                                               -> Lib/ArbiterGenProofs*.v no longer compiles ('The term "eq_refl" has type
                                                   "true = true" while it is expected to have type "arb_all rr2 ... = true"');
  in both cases proof_ok is False and the T-diff correspondence of the harness supplies the concrete failing input.
The translator leaves the file untouched when the text is unchanged, so an unchanged /repo costs no rebuild."""
from common import *

TARGETS = {
  'arbiters': ('coq/theories/Gen/ArbiterGen.v', 'theories/Props/C19_gen.vo'),
  'queues':   ('coq/theories/Gen/QueueGen.v',   'theories/Props/C17_gen.vo'),
}

def gen_cmds(what):
  """argv lists for Ctx.build_props(gen_cmds=...)"""
  dst, _ = TARGETS[what]
  return [[PY, 'translators/stdlib2coq.py', str(REPO), what, dst]]

def build_gen(ctx, what):
  """stand-alone use (when Props/Cxx.v does not import the _gen file): regenerate, build Props/Cxx_gen.vo, return
  (ok, problems).  Nothing is reported through ctx; the caller decides."""
  refused = ctx.regen(gen_cmds(what))
  rc, out = ctx.make([TARGETS[what][1]])
  problems = [f'translator refused: {c}: {o}' for c, o in refused]
  if rc != 0:
    errs = re.findall(r'File "([^"]+)", line (\d+)[^\n]*\nError:\s*(.*?)(?=\n\s*\n|\nmake|\nFile |\Z)', out, flags=re.S)
    problems.append('coq build failed: ' + ('; '.join(f'{Path(a).name}:{b}: ' + re.sub(r'\s+', ' ', c.strip())[:300] for a, b, c in errs[:4]) if errs else out[-600:]))
  elif re.search(r'Axioms:', out):
    problems.append('unexpected axioms in ' + TARGETS[what][1])
  return (not problems), problems
