"""C03 — translated SystemVerilog behaves exactly like the PyMTL simulation; the text is syntactically valid and every
variable has exactly one driver.

Claim level: proof over the MODELLED SUBSET + translation validation of the real output (partial, see below).

theorems (Props/C03.v; models SV/SvSyntax.v SvSizing.v SvEval.v SvDrivers.v, proofs SV/SvProofs.v):
  sv_selfdet_eq_ctx        if every context-sensitive operator of an expression sees operands of one self-determined
                           width and the expression sits in a context of that width, IEEE-1800 context-determined
                           evaluation = the width-strict bottom-up evaluation PyMTL performs           ("cycle for cycle the
                           same value": why context sizing cannot change a result of type-checked code)
  sv_eval_range            every evaluation result lies in [0, 2^W)
  nonblocking_last_wins / nonblocking_defers / blocking_immediate     statement semantics used by the simulator
  sv_single_driver_sound   sv_single_driver F m = true -> every bit of every declared variable is driven by exactly one of
                           {input port, one assign, one always block, one instance output}   ("exactly one driver")
tie (T-acc + T-diff on the real output, every run): harness/svparse.py parses the file VerilogTranslationPass wrote
  (fail-closed), and INSIDE Coq (ctx.coq_bad_indices) SvEval.simulate runs the parsed module hierarchy cycle by cycle
  on the inputs the pymtl3 simulation received and compares EVERY output port at EVERY cycle; the same Coq run evaluates
  sv_wellformed (all identifiers declared, selects well typed, instances match their modules) and sv_single_driver on
  every module.  A parse failure on text generated from constructs of the subset is reported as "syntactically invalid".
partial / trusted: the IEEE-1800 semantics is OUR formalisation (nothing in the sandbox can cross-check it: no Verilog
  simulator exists here); `**`, signed arithmetic, imported Verilog (placeholders), parameters are counted as
  `unmodelled construct`; syntax validity is relative to our grammar of the emitted subset; one global clock.
"""
from common import *
import sv_common as sv, sv_engine as eng, svparse, sv_gen
import collections

BACKEND = 'sv'
PID = 'C03'

def designs_for(ctx):
  quick = ctx.tier == 'quick'
  return (eng.directed_designs(ctx) + sv.stdlib_designs(ctx.tier) + sv.testcase_designs() +
          eng.gen_designs(ctx, 110 if quick else 1500))

def summarize(ctx, results):
  feats = collections.Counter()
  for r in results:
    if r.status in ('ok', 'bad'):
      for f in r.d.features:
        if not f.startswith('tag:'): feats[f] += 1
  # static indicators over all parsed texts (information, not a verdict)
  over = [(r.d.name, svparse.overflowing_literals(r.f)[:2]) for r in results if r.f is not None and svparse.overflowing_literals(r.f)]
  ctx.extra['designs_with_truncated_literal'] = len(over)
  ctx.extra['truncated_literal_examples'] = [f"{n}: {h[0][1]}'d{h[0][2]}" for n, h in over[:6]]
  ctx.extra['feature_histogram'] = dict(feats.most_common(70))
  ctx.extra['designs'] = {k: sum(1 for r in results if r.d.kind == k) for k in ('directed', 'stdlib', 'case', 'gen')}
  ok = [r for r in results if r.status == 'ok']
  if ok:
    for r in (ok[len(ok) // 3], ok[-1]):
      ctx.sample({'design': r.d.name, 'kind': r.d.kind, 'backend': r.backend, 'cycles': len(r.trace),
                  'first_cycle': {'in': r.trace[0][0], 'out': r.trace[0][1]}, 'emitted_tail': r.text[-300:]})

def run(ctx):
  setup_impl_path()
  ncyc = 16 if ctx.tier == 'quick' else 40
  results = eng.run_backend(ctx, PID, BACKEND, designs_for(ctx), ncyc, {})
  summarize(ctx, results)
  return results

def main(ctx):
  ctx.trusted += [
    'IEEE 1800-2017 two-state semantics of the emitted subset is OUR formalisation (SV/SvSizing.v: sizing and context propagation, casts as "assigned to an N-bit variable", shifts/concat/replication/comparison boundaries; SV/SvEval.v: blocking/non-blocking, always_comb to a fixed point, posedge commit, instances); no Verilog simulator exists in the sandbox to cross-check it',
    'harness/svparse.py (tokenizer, grammar of the emitted subset, identifier interning, typedef expansion, folding of literal part-select bounds, += as = +, integer/int unsigned as 32-bit unsigned)',
    'harness/sv_common.py: mapping of pymtl3 ports to emitted port names (name mangling with __, list indices as unpacked dimensions), random stimulus; harness/sv_gen.py: design generator',
  ]
  ctx.assumptions += [
    'one global clock: every always_ff block fires once per simulated cycle (clk wiring itself is not evaluated)',
    'division / modulo by zero and out-of-range reads evaluate to 0 (two-state reading of X); out-of-range writes are ignored',
    'loop counters (int unsigned / integer) are 32-bit unsigned; the emitted loops never make them negative',
    'constructs outside the modelled subset (**, signed, parameters, imported Verilog/placeholders, case, functions) are counted as unmodelled, never skipped silently',
    'the proof part covers the semantics model and the acceptors; agreement with pymtl3 is established per design and per input sequence by replaying the real emitted text (translation validation), not for all designs at once',
  ]
  ctx.build_props(extra_models=['theories/SV/SvDrivers.vo'])
  try:
    run(ctx)
  except Exception as e:
    ctx.violation(f'{PID}:harness-crash', f'correspondence could not run: {e!r}', {'traceback': traceback.format_exc()}, found_input=False)
  return ctx.finish(rule='designs = directed minimal designs (constant-sub-expression shapes, sext/reduce of operator expressions, controls) + stdlib RTL components at several parameters (registers, mux/demux, arithmetic, register files, arbiters, encoder, crossbar, 3 queue families x 3 kinds, ChecksumRTL) + the DUTs of pymtl3\'s own translation test-case catalogue + random translatable designs (harness/sv_gen.py); each simulated with random inputs, translated, parsed, replayed inside Coq; distinct = (design, hash of emitted text)',
                    level='proof')
