"""C03 — translated SystemVerilog behaves exactly like the PyMTL simulation; the text is syntactically valid and every
variable has exactly one driver.

Claim level: proof over the MODELLED SUBSET + translation validation of the real output (partial, see below).

theorems (Props/C03.v; models SV/SvSyntax.v SvSizing.v SvEval.v SvDrivers.v, proofs SV/SvProofs.v):
  sv_selfdet_eq_ctx        if every context-sensitive operator of an expression sees operands of one self-determined
                           width and the expression sits in a context of that width, IEEE-1800 context-determined
                           evaluation = the width-strict bottom-up evaluation PyMTL performs           ("cycle for cycle the
                           same value": why context sizing cannot change a result of type-checked code)
  sv_eval_range            every evaluation result lies in [0, 2^W)
  nonblocking_last_wins / nonblocking_defers / blocking_immediate     statement semantics used by the simulator
  sv_single_driver_sound   sv_single_driver F m = true -> every bit of every declared variable is driven by exactly one of
                           {input port, one assign, one always block, one instance output}   ("exactly one driver")
tie (T-acc + T-diff on the real output, every run): harness/svparse.py parses the file VerilogTranslationPass wrote
  (fail-closed), and INSIDE Coq (ctx.coq_bad_indices) SvEval.simulate runs the parsed module hierarchy cycle by cycle
  on the inputs the pymtl3 simulation received and compares EVERY output port at EVERY cycle; the same Coq run evaluates
  sv_wellformed (all identifiers declared, selects well typed, instances match their modules) and sv_single_driver on
  every module.  A parse failure on text generated from constructs of the subset is reported as "syntactically invalid".
partial / trusted: the IEEE-1800 semantics is OUR formalisation (nothing in the sandbox can cross-check it: no Verilog
  simulator exists here); `**`, signed arithmetic, imported Verilog (placeholders), parameters are counted as
  `unmodelled construct`; syntax validity is relative to our grammar of the emitted subset; one global clock.
"""
from common import *
import sv_common as sv, sv_engine as eng, svparse, sv_gen
import collections

BACKEND = 'sv'
PID = 'C03'

def designs_for(ctx):
  quick = ctx.tier == 'quick'
  return (eng.directed_designs(ctx) + sv.stdlib_designs(ctx.tier) + sv.testcase_designs() +
          eng.gen_designs(ctx, 56 if quick else 800))

def summarize(ctx, results):
  feats = collections.Counter()
  for r in results:
    if r.status in ('ok', 'bad'):
      for f in r.d.features:
        if not f.startswith('tag:'): feats[f] += 1
  # static indicators over all parsed texts (information, not a verdict)
  over = [(r.d.name, svparse.overflowing_literals(r.f)[:2]) for r in results if r.f is not None and svparse.overflowing_literals(r.f)]
  ctx.extra['designs_with_truncated_literal'] = len(over)
  ctx.extra['truncated_literal_examples'] = [f"{n}: {h[0][1]}'d{h[0][2]}" for n, h in over[:6]]
  ctx.extra['feature_histogram'] = dict(feats.most_common(70))
  ctx.extra['designs'] = {k: sum(1 for r in results if r.d.kind == k) for k in ('directed', 'stdlib', 'case', 'gen')}
  ok = [r for r in results if r.status == 'ok']
  if ok:
    for r in (ok[len(ok) // 3], ok[-1]):
      ctx.sample({'design': r.d.name, 'kind': r.d.kind, 'backend': r.backend, 'cycles': len(r.trace),
                  'first_cycle': {'in': r.trace[0][0], 'out': r.trace[0][1]}, 'emitted_tail': r.text[-300:]})

def static_acceptors(ctx, results):
  """where theorem C03_selfdet_eq_ctx applies: the acceptor sv_uniform (every assignment: target as wide as the right-hand
  side, every context-sensitive operator with operands of one width) and sv_lits_fit (every sized literal fits its width)
  are evaluated by Coq on every parsed text; the counts go to the evidence (information, not a verdict)"""
  live = [r for r in results if r.status in ('ok', 'bad') and r.case]
  if not live: return
  nonuni = ctx.coq_bad_indices('uni', sv.SV_IMPORTS, sv.SV_DEFS, 'file * ident * list cyc', [r.case for r in live], "let '(F, _, _) := c in sv_uniform F", shard=12, jobs=14)
  nofit = ctx.coq_bad_indices('fit', sv.SV_IMPORTS, sv.SV_DEFS, 'file * ident * list cyc', [r.case for r in live], "let '(F, _, _) := c in sv_lits_fit F", shard=12, jobs=14)
  ctx.extra['sv_uniform'] = {'texts': len(live), 'all_assignments_uniform': len(live) - len(nonuni), 'not_uniform_examples': [live[i].d.name for i in nonuni[:8]],
                             'agreeing_but_not_uniform': sum(1 for i in nonuni if live[i].status == 'ok')}
  ctx.extra['sv_lits_fit'] = {'texts': len(live), 'all_literals_fit': len(live) - len(nofit), 'with_truncated_literal': [live[i].d.name for i in nofit[:8]],
                              'disagreeing_among_them': sum(1 for i in nofit if live[i].status == 'bad')}

def run(ctx):
  setup_impl_path()
  ncyc = 14 if ctx.tier == "quick" else 30
  results = eng.run_backend(ctx, PID, BACKEND, designs_for(ctx), ncyc, {})
  summarize(ctx, results)
  static_acceptors(ctx, results)
  # model of the translator (SV/Translate.v) vs the emitted always blocks; see harness/c03_tr.py
  try:
    import c03_tr
    c03_tr.run(ctx, results)
  except Exception as e:
    ctx.violation(f'{PID}:tr-harness-crash', f'translator-model tie could not run: {e!r}', {'traceback': traceback.format_exc()}, found_input=False)
  return results

def replay(ctx, rec, pid=PID, backend=BACKEND):
  """./check C03 --replay replays/C03-xxxx.json : rebuild the recorded design, run it through the same pipeline, print the verdict"""
  setup_impl_path()
  import sched_common as sc
  rp = rec.get('replay', {})
  name, src, kind = rp.get('design'), rp.get('design_source'), rp.get('kind')
  if kind in ('gen', 'directed', 'flat') and src:
    cls, _ = sc.load_source(ctx, src, name)
    d = sv.Design(name, cls, source=src, kind=kind, limits=[tuple(l) for l in rp.get('design_limits', [])])
  else:
    pool = {x.name: x for x in sv.stdlib_designs('thorough') + sv.testcase_designs()}
    if name not in pool:
      print(f'cannot rebuild design {name}'); return 2
    d = pool[name]
  cyc = rp.get('inputs_all_cycles')
  r = eng.prepare(ctx, d, rp.get('backend', backend), len(cyc) if cyc else 16, ctx.seed, {})
  print('status after translate/parse:', r.status, r.detail[:300])
  if r.syntax is not None: print('not SystemVerilog:', r.syntax)
  if r.status == 'ok':
    eng.evaluate(ctx, [r], 'replay')
    print('Coq replay of the emitted text against the pymtl3 trace:', 'agrees' if r.status == 'ok' else eng.parse_why(r))
  shutil.rmtree(ctx.scratch, ignore_errors=True)
  return 0 if r.status == 'ok' and r.syntax is None else 1

def main(ctx):
  ctx.trusted += [
    'IEEE 1800-2017 two-state semantics of the emitted subset is OUR formalisation (SV/SvSizing.v: sizing and context propagation, casts as "assigned to an N-bit variable", shifts/concat/replication/comparison boundaries; SV/SvEval.v: blocking/non-blocking, always_comb to a fixed point, posedge commit, instances); no Verilog simulator exists in the sandbox to cross-check it',
    'harness/svparse.py (tokenizer, grammar of the emitted subset, identifier interning, typedef expansion, folding of literal part-select bounds, += as = +, integer/int unsigned as 32-bit unsigned)',
    'harness/sv_common.py: mapping of pymtl3 ports to emitted port names (name mangling with __, list indices as unpacked dimensions), random stimulus; harness/sv_gen.py: design generator',
  ]
  ctx.assumptions += [
    'one global clock: every always_ff block fires once per simulated cycle (clk wiring itself is not evaluated)',
    'division / modulo by zero and out-of-range reads evaluate to 0 (two-state reading of X); out-of-range writes are ignored',
    'loop counters (int unsigned / integer) are 32-bit unsigned; the emitted loops never make them negative',
    'constructs outside the modelled subset (**, signed, parameters, imported Verilog/placeholders, case, functions) are counted as unmodelled, never skipped silently',
    'the proof part covers the semantics model and the acceptors; agreement with pymtl3 is established per design and per input sequence by replaying the real emitted text (translation validation), not for all designs at once',
  ]
  ctx.build_props(extra_models=['theories/SV/SvDrivers.vo'])
  try:
    run(ctx)
  except Exception as e:
    ctx.violation(f'{PID}:harness-crash', f'correspondence could not run: {e!r}', {'traceback': traceback.format_exc()}, found_input=False)
  return ctx.finish(rule='designs = directed minimal designs (constant-sub-expression shapes, sext/reduce of operator expressions, controls) + stdlib RTL components at several parameters (registers, mux/demux, arithmetic, register files, arbiters, encoder, crossbar, 3 queue families x 3 kinds, ChecksumRTL) + the DUTs of pymtl3\'s own translation test-case catalogue + random translatable designs (harness/sv_gen.py); each simulated with random inputs, translated, parsed, replayed inside Coq; distinct = (design, hash of emitted text)',
                    level='proof',
                    explanation='proof over the modelled SystemVerilog subset (our formalisation of IEEE 1800 sizing / assignment / always semantics and the certified single-driver acceptor) + translation validation of the real emitted text per design and input sequence; not a proof about the translator for all designs')
