"""C03 — translated SystemVerilog behaves exactly like the PyMTL simulation; the text is syntactically valid and every
variable has exactly one driver.

Claim level: proof over the MODELLED SUBSET + translation validation of the real output (partial, see below).

theorems (Props/C03.v; models SV/SvSyntax.v SvSizing.v SvEval.v SvDrivers.v, proofs SV/SvProofs.v):
  sv_selfdet_eq_ctx        if every context-sensitive operator of an expression sees operands of one self-determined
                           width and the expression sits in a context of that width, IEEE-1800 context-determined
                           evaluation = the width-strict bottom-up evaluation PyMTL performs           ("cycle for cycle the
                           same value": why context sizing cannot change a result of type-checked code)
  sv_eval_range            every evaluation result lies in [0, 2^W)
  nonblocking_last_wins / nonblocking_defers / blocking_immediate     statement semantics used by the simulator
  sv_single_driver_sound   sv_single_driver F m = true -> every bit of every declared variable is driven by exactly one of
                           {input port, one assign, one always block, one instance output}   ("exactly one driver")
tie (T-acc + T-diff on the real output, every run): harness/svparse.py parses the file VerilogTranslationPass wrote
  (fail-closed), and INSIDE Coq (ctx.coq_bad_indices) SvEval.simulate runs the parsed module hierarchy cycle by cycle
  on the inputs the pymtl3 simulation received and compares EVERY output port at EVERY cycle; the same Coq run evaluates
  sv_wellformed (all identifiers declared, selects well typed, instances match their modules) and sv_single_driver on
  every module.  A parse failure on text generated from constructs of the subset is reported as "syntactically invalid".
partial / trusted: the IEEE-1800 semantics is OUR formalisation (nothing in the sandbox can cross-check it: no Verilog
  simulator exists here); `**`, signed arithmetic, imported Verilog (placeholders), parameters are counted as
  `unmodelled construct`; syntax validity is relative to our grammar of the emitted subset; one global clock.
"""
from common import *
import sv_common as sv, sv_engine as eng, svparse, sv_gen
import collections

BACKEND = 'sv'
PID = 'C03'

def report(ctx, r, pid, backend):
  """turn one classified result into count / violation"""
  d = r.d
  tags = [f[4:] for f in d.features if f.startswith('tag:')]
  base = {'design': d.name, 'kind': d.kind, 'backend': backend, 'design_source': d.source if d.kind in ('gen', 'directed') else d.source}
  if r.status == 'rejected':
    ctx.hist['rejected:' + r.detail] = ctx.hist.get('rejected:' + r.detail, 0) + 1
    return
  if r.status == 'unmodelled':
    ctx.hist['unmodelled-construct'] = ctx.hist.get('unmodelled-construct', 0) + 1
    ctx.extra.setdefault('unmodelled', []).append(f'{d.name}: {r.detail[:120]}')
    if d.kind in ('gen', 'directed'):
      ctx.violation(f'{pid}:generator-outside-subset:{d.name}', f'generated design {d.name} uses a construct svparse does not model: {r.detail[:200]}', base, found_input=False)
    return
  if r.status == 'syntax':
    kind = getattr(r.exc, 'kind', 'grammar')
    if kind == 'select-on-expression':
      what = 'sext-of-trunc' if "size cast" in r.detail else ('sext-of-literal' if 'a literal' in r.detail else 'sext-of-parenthesised')
      key = f'{pid}:syntax:select-on-expression:{what}'
      ctx.violation(key, f'emitted text is not SystemVerilog: {r.detail[:260]} (design {d.name}; IEEE 1800-2017 A.8.4: a select may only follow an identifier or a concatenation)',
                    dict(base, emitted=eng.emitted_lines(r.text, '[', 0)[:0] or r.detail, parser_message=r.detail))
    elif d.kind == 'case' and 'placeholder' in (d.source or '').lower():
      ctx.hist['unmodelled-construct'] = ctx.hist.get('unmodelled-construct', 0) + 1
    else:
      ctx.violation(f'{pid}:syntax:{d.name}', f'emitted text of {d.name} does not fit the grammar of the emitted subset: {r.detail[:300]}', dict(base, parser_message=r.detail, emitted_text=r.text[-3000:]))
    return
  if r.status == 'portmap':
    ctx.violation(f'{pid}:portmap:{d.name}', f'{d.name}: emitted port list does not match the component: {r.detail[:300]}', dict(base, emitted_text=r.text[:3000]))
    return

def classify_bad(ctx, r, pid, backend):
  d = r.d
  w = eng.parse_why(r)
  tags = [f[4:] for f in d.features if f.startswith('tag:')]
  base = {'design': d.name, 'kind': d.kind, 'backend': backend, 'design_source': d.source, 'coq_says': w.get('raw')}
  if w['kind'] == 'unparsed' or w['wellformed'] is False:
    ctx.violation(f'{pid}:not-wellformed:{d.name}', f'{d.name}: emitted text fails sv_wellformed (undeclared identifier / ill-typed select / instance mismatch): {w.get("raw", "")[:200]}', dict(base, emitted_text=r.text[:4000]))
    return
  if w.get('collisions', '[]') != '[]':
    ctx.violation(f'{pid}:multi-driver:{d.name}', f'{d.name}: a variable bit has more than one driver: {w["collisions"][:300]}', dict(base, collisions=w['collisions'], emitted_text=r.text[:6000]))
  if w.get('undriven', '[]') != '[]':
    ctx.violation(f'{pid}:undriven:{d.name}', f'{d.name}: a declared variable has a bit without any driver: {w["undriven"][:300]}', dict(base, undriven=w['undriven'], emitted_text=r.text[:6000]))
  if w['kind'] == 'nofixpoint':
    ctx.violation(f'{pid}:no-fixpoint:{d.name}', f'{d.name}: the emitted module did not settle (cycle {w["cycle"]}, phase {w["phase"]})', dict(base, emitted_text=r.text[:6000]), found_input=False)
    return
  if w['kind'] != 'mismatch': return
  cyc, port = w['cycle'], w['port']
  obs = eng.observed_at(r, cyc, port, backend)
  ins = r.trace[cyc][0]
  replay = dict(base, cycle=cyc, port=port, pymtl_value=obs, emitted_text_value=w['model'], inputs_at_cycle=ins,
                inputs_all_cycles=[c[0] for c in r.trace[:cyc + 1]], emitted_lines=eng.emitted_lines(r.text, port.split('__')[0]))
  rep = eng.try_repair(ctx, r, 'x')
  if rep and rep[1]:
    hits = rep[0]
    ops, e, true_v = hits[0]
    op = ops[-1] if 'tag:const-subexpr' not in d.features else next((f[6:] for f in d.features if f.startswith('const:')), ops[-1])
    if len(ops) > 1 and 'tag:const-subexpr' not in d.features: op = 'nested'
    wdt = sv.const_tree(e, {})  # width only
    ctx.violation(f'{pid}:const-subexpr-narrowed:{op}',
                  f'{d.name}: constant sub-expression emitted unfolded with operands narrowed to the width of its folded value: `{sv.expr_text(e)}` '
                  f'(pymtl3 uses {true_v}); port {port} at cycle {cyc}: emitted text gives {w["model"]}, pymtl3 gives {obs}; folding the constant makes the text agree',
                  dict(replay, narrowed_subexpressions=[(o, sv.expr_text(x), v) for o, x, v in hits[:6]]))
    ctx.hist['explained-by-const-narrowing'] = ctx.hist.get('explained-by-const-narrowing', 0) + 1
    return
  tag = next((t for t in tags if t not in ('control', 'const-subexpr')), None)
  if tag is None and d.kind == 'gen':
    for t in ('sext-of-expr', 'reduce-of-expr'):
      if t in d.features: tag = 'suspect-' + t
  fam = {'sext-of-binop': 'precedence', 'sext-of-ifexp': 'precedence', 'reduce-of-binop': 'precedence'}.get(tag)
  key = f'{pid}:{fam}:{tag}' if fam else f'{pid}:mismatch:{d.name}'
  ctx.violation(key, f'{d.name}: output {port} at cycle {cyc}: emitted text gives {w["model"]}, pymtl3 gives {obs}' + (f' [{tag}]' if tag else '') +
                (f'; narrowed constants present but folding them does not repair it' if rep else ''), replay)

def run(ctx, pid=PID, backend=BACKEND):
  setup_impl_path()
  quick = ctx.tier == 'quick'
  ncyc = 16 if quick else 40
  designs = eng.directed_designs(ctx) + sv.stdlib_designs(ctx.tier) + sv.testcase_designs() + eng.gen_designs(ctx, 110 if quick else 1500)
  sim_cache = {}
  results = []
  for k, d in enumerate(designs):
    r = eng.prepare(ctx, d, backend, ncyc, ctx.seed + k, sim_cache)
    results.append(r)
  for lo in range(0, len(results), 300):
    eng.evaluate(ctx, results[lo:lo + 300], f'{backend}{lo}')
  feats = collections.Counter()
  for r in results:
    d = r.d
    if r.status in ('ok', 'bad'):
      ctx.count((d.name, sv.text_key(r.text)), True, cls=f'{d.kind}:{r.status}')
      for f in d.features:
        if not f.startswith('tag:'): feats[f] += 1
    else:
      ctx.count((d.name, r.status, r.detail[:40]), r.status in ('syntax', 'portmap'), cls=f'{d.kind}:{r.status}')
    report(ctx, r, pid, backend)
    if r.status == 'bad': classify_bad(ctx, r, pid, backend)
  # static indicators over all parsed texts (information, not a verdict): literals that do not fit their width
  over = [(r.d.name, svparse.overflowing_literals(r.f)[:2]) for r in results if r.f is not None and svparse.overflowing_literals(r.f)]
  ctx.extra['designs_with_truncated_literal'] = len(over)
  ctx.extra['truncated_literal_examples'] = [f"{n}: {h[0][1]}'d{h[0][2]}" for n, h in over[:6]]
  ctx.extra['feature_histogram'] = dict(feats.most_common(60))
  ctx.extra['designs'] = {k: sum(1 for r in results if r.d.kind == k) for k in ('directed', 'stdlib', 'case', 'gen')}
  ok = [r for r in results if r.status == 'ok']
  if ok:
    r = ok[len(ok) // 2]
    ctx.sample({'design': r.d.name, 'kind': r.d.kind, 'cycles': len(r.trace), 'first_cycle': {'in': r.trace[0][0], 'out': r.trace[0][1]},
                'emitted_tail': r.text[-400:]})
  return results

def main(ctx):
  ctx.trusted += [
    'IEEE 1800-2017 two-state semantics of the emitted subset is OUR formalisation (SV/SvSizing.v: sizing and context propagation, casts as "assigned to an N-bit variable", shifts/concat/replication/comparison boundaries; SV/SvEval.v: blocking/non-blocking, always_comb to a fixed point, posedge commit, instances); no Verilog simulator exists in the sandbox to cross-check it',
    'harness/svparse.py (tokenizer, grammar of the emitted subset, identifier interning, typedef expansion, folding of literal part-select bounds, += as = +, integer/int unsigned as 32-bit unsigned)',
    'harness/sv_common.py: mapping of pymtl3 ports to emitted port names (name mangling with __, list indices as unpacked dimensions), random stimulus; harness/sv_gen.py: design generator',
  ]
  ctx.assumptions += [
    'one global clock: every always_ff block fires once per simulated cycle (clk wiring itself is not evaluated)',
    'division / modulo by zero and out-of-range reads evaluate to 0 (two-state reading of X); out-of-range writes are ignored',
    'loop counters (int unsigned / integer) are 32-bit unsigned; the emitted loops never make them negative',
    'constructs outside the modelled subset (**, signed, parameters, imported Verilog/placeholders, case, functions) are counted as unmodelled, never skipped silently',
    'the proof part covers the semantics model and the acceptors; agreement with pymtl3 is established per design and per input sequence by replaying the real emitted text (translation validation), not for all designs at once',
  ]
  ctx.build_props(extra_models=['theories/SV/SvDrivers.vo'])
  try:
    run(ctx)
  except Exception as e:
    ctx.violation(f'{PID}:harness-crash', f'correspondence could not run: {e!r}', {'traceback': traceback.format_exc()}, found_input=False)
  return ctx.finish(rule='designs = directed minimal designs (constant-sub-expression shapes, sext/reduce of operator expressions, controls) + stdlib RTL components at several parameters (registers, mux/demux, arithmetic, register files, arbiters, encoder, crossbar, 3 queue families x 3 kinds, ChecksumRTL) + the DUTs of pymtl3\'s own translation test-case catalogue + random translatable designs (harness/sv_gen.py); each simulated with random inputs, translated, parsed, replayed inside Coq; distinct = (design, hash of emitted text)',
                    level='proof')
