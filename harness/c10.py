"""C10 — type-checker widths are the real widths; accepted code has no width errors.

proof  : Props/C10.v over RTL/Syntax.v (deep embedding of update blocks: 18 expression constructors, assignment / if / for),
         RTL/Eval.v (what the simulator computes, built on the Bits specification of C04/C05), RTL/Typing.v (model `tc` of
         BehavioralRTLIRTypeCheckL1-L3 returning the root type and the (width, explicit) annotation of EVERY RTLIR node),
         RTL/TypingSound.v, RTL/TypingMono.v.  Sentence by sentence:
           "an integer literal's inferred width is the least number of bits that holds it"      -> C10_lit_width
           "the width assigned to each sub-expression equals the width of the simulated value",
           "simulating an accepted block never raises a bitwidth / implicit-truncation error"   -> C10_tc_sound, C10_tc_sound_sub
                                                                                                     (all 18 constructors, any nesting),
                                                                                                     C10_tc_sound_assign (every kind of target)
           "a runtime width mismatch between explicitly sized operands is rejected"             -> C10_tc_complete_{bin,cmp,ifexp,assign} (for the
                                                                                                     model of the code), ..._runtime, ..._runtime_impl
         The soundness theorems are about `tc strict` = the model of the code (`tc impl`) + the extra checks S1..S13 of Typing.v;
         C10_strict_sub_impl proves strict only removes programs (same widths on every node).  For `tc impl` itself the statement is
         FALSE: C10_impl_unsound (machine-checked counterexamples) — and this harness finds each of them on the real passes.
         WHOLE BLOCKS: C10_block_sound / C10_stmt_sound (RTL/BlockSound.v) — a block with arbitrarily nested if/else, constant-bounded
         for loops and temporaries that `tc_block strict` accepts and that has no cast never raises a width error, on any inputs,
         and leaves temporaries / loop variables well typed (induction over statements with the block's final typing environment as
         invariant; loop bodies typed once, executed for every value of the range).  Not proved: strict => impl for if/for
         statements (proved for expressions and assignments; evaluated on every block here as ok_mono).
tie    : T-diff.  Literal blocks, 30 fixed blocks and random update blocks over random signal declarations are (a) type-checked by the
         real BehavioralRTLIRGenPass + BehavioralRTLIRTypeCheckPass (verdict; width and explicit flag of every RTLIR node, in tree order),
         (b) simulated by pymtl3 (DefaultPassGroup) on random inputs (exception class / final signal values) and executed once more
         with every sub-expression wrapped in a probe (runtime nbits / int value of every evaluated sub-expression),
         (c) printed as Coq terms: Coq computes `check_block impl` and `run_block` and compares verdict, per-node annotations, outcome,
         final values and per-sub-expression runtime shapes (coq_multi = ctx.coq_bad_indices for several checks in one coqc run).
         Independently of the model, the property is evaluated on the real observations: accepted & cast-free & shift amounts as wide as
         the shifted value => no ValueError;  checker width of a probed node == runtime nbits (ints: value fits).  Each failure is
         attributed to the extra check of Typing.v that would have rejected the block (key C10:S<k>:missing-check).
         Section "constants": free-variable constants — closure ints / Bits / bitstruct instances, component-attribute constants, lists of
         them with constant index (folded by the RTLIR generator: modelled as ELit / ESized) and with SIGNAL index (rt.Array of rt.Const),
         their (nested) fields, lists of signals — combined with explicitly sized signals of equal and different widths in arithmetic,
         bitwise, comparison, if-expression, concat, shift, assignment, temporaries.  Signal-indexed lists, their fields, closure Bits
         variables and signal lists have NO Coq constructor: those blocks are counted as unmodelled, but they are still type-checked by
         the real pass, simulated and probed, and the property is evaluated on those observations (key C10:unmodelled:<hash>, or the
         S-family when the failing node is python-int arithmetic (S3) / a folded BinOp of sized constants (S2)).
         Section "order": every binary / comparison / conditional operator with an implicit int (literal, closure int, attribute int) on
         the LEFT and on the RIGHT of an explicitly sized signal, at the largest value of the signal's width and just beyond it (in the Coq
         language: full comparison with the model).  Section "structinst" (outside the Coq language): bitstruct construction S( args )
         with literal / closure-int / sized-literal / signal / slice / field / extension arguments of equal, narrower and wider width,
         nested constructors and struct-typed arguments of the same or another type, assigned to struct and BitsN targets.
         Section "multi" (outside the Coq language): components with SEVERAL update blocks and several sub-components — one child class
         instantiated with different width parameters (single children, structurally wired or block-driven inputs, homogeneous lists of
         children) read / written from the parent's blocks; bitstruct types with ONE name and different field widths (two calls of a
         factory) constructed and read in one component; same-named closure constants of different widths in different blocks.  Every
         design is width-correct by construction except (half of them) for one deliberate mismatch: a correct design must be ACCEPTED
         (key C10:correct-design-rejected:<hash>), an accepted one must not raise a width error, probed widths = checker widths.
         Section "arrays" (all outside the Coq language, evaluated the same way): bitstructs with 1-D / 2-D / 3-D list fields
         (non-square, sum of dims != product) in whole-struct <-> BitsN assignments (right width, near misses, the width a wrong packing
         rule would give), struct copies, element / row / scalar-field reads; 2-D / 3-D arrays of InPorts, of Bits constants (attribute /
         closure) and of ints, homogeneous or with another bitwidth in a non-first row / plane / element, read with constant and signal
         indices in assignments, arithmetic and comparisons.  The index signals are driven through every combination of values so that
         every element is reached; an accepted block must never raise a width error (ValueError, or the bitstruct "N-bit <> M-bit"
         assertion) and every probed sub-expression must have the width the checker gave it.
"""
from common import *
from sched_common import load_source

# ------------------------------------------------------------------ declarations
STRUCT_SRC = '''
from pymtl3 import *
@bitstruct
class Pt:
  a: Bits8
  b: Bits4
@bitstruct
class Outer:
  p: Pt
  c: Bits4
@bitstruct
class Wd:
  x: Bits33
  y: Bits1
  z: Bits16
@bitstruct
class Pix:
  px: [ [ Bits4 ] * 3 ] * 2
  k: Bits8
@bitstruct
class Vol:
  t: Bits3
  v: [ [ [ Bits2 ] * 2 ] * 3 ] * 2
@bitstruct
class Row:
  r: [ Bits4 ] * 3
  k: Bits2
@bitstruct
class Sq:
  q: [ [ Bits5 ] * 2 ] * 2
  z: Bits1
@bitstruct
class Cfg:
  mask: Bits4
  base: Bits8
@bitstruct
class Cfg2:
  c: Cfg
  k: Bits16
'''
STRUCTS = {'Pt': [('a', 8), ('b', 4)], 'Outer': [('p', 'Pt'), ('c', 4)], 'Wd': [('x', 33), ('y', 1), ('z', 16)]}
STRUCT_ID = {'Pt': 0, 'Outer': 1, 'Wd': 2}
# bitstructs with (multi-dimensional) list fields: ('arr', dims, element width); not in the Coq language
ARR_STRUCTS = {'Pix': [('px', ('arr', (2, 3), 4)), ('k', 8)], 'Vol': [('t', 3), ('v', ('arr', (2, 3, 2), 2))],
               'Row': [('r', ('arr', (3,), 4)), ('k', 2)], 'Sq': [('q', ('arr', (2, 2), 5)), ('z', 1)]}
STRUCTS.update(ARR_STRUCTS)
CONST_STRUCTS = {'Cfg': [('mask', 4), ('base', 8)], 'Cfg2': [('c', 'Cfg'), ('k', 16)]}
STRUCTS.update(CONST_STRUCTS)          # signals of these types only occur in blocks evaluated outside the Coq language

STRUCTINST_KEY = 'C10:structinst-literal:missing-check'

class Unmodelled(Exception):
  """the block uses a construct that RTL/Syntax.v has no constructor for; it is still type-checked, simulated and probed, and
  the property is evaluated on those real observations"""

def type_width(t):
  if isinstance(t, int): return t
  if isinstance(t, tuple):           # ('arr', dims, element width): the packed width is element width * PRODUCT of the dimensions
    n = 1
    for d in t[1]: n *= d
    return n * t[2]
  return sum(type_width(ft) for _, ft in STRUCTS[t])

def type_paths(t, lo=0):
  """[(path, names, width, lo, struct-name-or-None)] for every attribute path of a value of type t"""
  out = [((), (), type_width(t), lo, None if isinstance(t, int) else t)]
  if not isinstance(t, int):
    fields = STRUCTS[t]
    off = lo + type_width(t)
    for i, (fn, ft) in enumerate(fields):
      off -= type_width(ft)
      if isinstance(ft, tuple): out.append(((i,), (fn,), type_width(ft), off, None)); continue      # list field: opaque here
      for p, ns, w, l, st in type_paths(ft, off):
        out.append(((i,) + p, (fn,) + ns, w, l, st))
  return out

class Design:
  """signal declarations of one generated component"""
  def __init__(s):
    s.sigs = []          # (name, ctor, type)
    s.extra = []         # further construct() lines: constants (closure / attribute), lists of constants, lists of signals
    s.siglists = []      # (name, count, width | [width of every leaf, row-major]) of (nested) InPort lists declared in s.extra
    s.force_unmodelled = False
    s.header = ''        # module-level source: classes of sub-components, bitstruct factories
    s.blocks = None      # [(block name, statements, closure lines)] when the component has several update blocks
  def add(s, ctor, t):
    name = {'InPort': 'i', 'OutPort': 'o', 'Wire': 'w'}[ctor] + str(len(s.sigs))
    s.sigs.append((name, ctor, t)); return len(s.sigs) - 1
  def paths(s, si):
    return type_paths(s.sigs[si][2])
  def info(s, si, path):
    for p, ns, w, l, st in s.paths(si):
      if p == tuple(path): return ns, w, l, st
    raise KeyError((si, path))
  def sig_src(s, si, path):
    return 's.' + '.'.join((s.sigs[si][0],) + s.info(si, path)[0])
  def decls_term(s):
    ents = []
    for si in range(len(s.sigs)):
      for p, ns, w, l, st in s.paths(si):
        ents.append(f'({si}%nat, {natlist(p)}, {{| fw := {w}; flo := {l}; fstruct := {"None" if st is None else f"Some {STRUCT_ID[st]}%nat"} |}})')
    return coq_list(ents)
  def decl_src(s):
    return [f's.{n} = {c}( {t if isinstance(t, str) else "Bits" + str(t)} )' for n, c, t in s.sigs] + list(s.extra)

def natlist(p):
  return '[' + '; '.join(f'{x}%nat' for x in p) + ']'

# ------------------------------------------------------------------ terms -> python source / Coq
PYBIN = {'Add': '+', 'Sub': '-', 'Mul': '*', 'And': '&', 'Or': '|', 'Xor': '^', 'LShift': '<<', 'RShift': '>>'}
PYCMP = {'CEq': '==', 'CNe': '!=', 'CLt': '<', 'CLe': '<=', 'CGt': '>', 'CGe': '>='}
PYRED = {'RAnd': 'reduce_and', 'ROr': 'reduce_or', 'RXor': 'reduce_xor'}

def children(e):
  k = e[0]
  if k in ('sig', 'lit', 'sized', 'free', 'tmp', 'loop', 'cbits', 'cint', 'fbits', 'carr'): return []
  if k == 'cidx': return [e[1], e[2]]
  if k == 'cfield': return [e[1]]
  if k == 'sinst': return list(e[2])
  if k in ('cast', 'zext', 'sext', 'trunc', 'red'): return [e[2]]
  if k == 'inv': return [e[1]]
  if k in ('bin', 'cmp'): return [e[2], e[3]]
  if k in ('slice', 'if'): return [e[1], e[2], e[3]]
  if k == 'index': return [e[1], e[2]]
  if k == 'concat': return list(e[1])
  raise ValueError(k)

def esize(e):
  return 1 + sum(esize(c) for c in children(e))

def expr_src(D, e, probe=None, k=0):
  """python source of e; probe=(label) wraps every sub-expression in __p(label, preorder index, .)"""
  kind = e[0]
  ks = []; kk = k + 1
  for c in children(e):
    ks.append(kk); kk += esize(c)
  sub = [expr_src(D, c, probe, ki) for c, ki in zip(children(e), ks)]
  if kind == 'sig': t = D.sig_src(e[1], e[2])
  elif kind == 'lit': t = str(e[1])
  elif kind in ('cbits', 'cint', 'fbits', 'carr'): t = e[1]          # constant folded by the generator / free variable / list
  elif kind == 'cidx': t = f'{sub[0]}[{sub[1]}]'
  elif kind == 'cfield': t = f'{sub[0]}.{e[2]}'
  elif kind == 'sinst': t = f'{e[1]}( ' + ', '.join(sub) + ' )'
  elif kind == 'sized': t = f'Bits{e[1]}( {e[2]} )'
  elif kind == 'free': t = f'K{e[2]}'
  elif kind == 'tmp': t = f't{e[1]}'
  elif kind == 'loop': t = f'i{e[1]}'
  elif kind == 'cast': t = f'Bits{e[1]}( {sub[0]} )'
  elif kind == 'bin': t = f'({sub[0]} {PYBIN[e[1]]} {sub[1]})'
  elif kind == 'cmp': t = f'({sub[0]} {PYCMP[e[1]]} {sub[1]})'
  elif kind == 'inv': t = f'(~{sub[0]})'
  elif kind == 'slice': t = f'{sub[0]}[{sub[1]}:{sub[2]}]'
  elif kind == 'index': t = f'{sub[0]}[{sub[1]}]'
  elif kind == 'concat': t = 'concat( ' + ', '.join(sub) + ' )'
  elif kind in ('zext', 'sext', 'trunc'): t = f'{kind}( {sub[0]}, {e[1]} )'
  elif kind == 'red': t = f'{PYRED[e[1]]}( {sub[0]} )'
  elif kind == 'if': t = f'({sub[1]} if {sub[0]} else {sub[2]})'
  else: raise ValueError(kind)
  if probe is not None: t = f'__p({probe}, {k}, {t})'
  return t

def expr_coq(e):
  k = e[0]
  if k == 'sig': return f'(ESig {e[1]}%nat {natlist(e[2])})'
  if k == 'lit': return f'(ELit {zlit(e[1])})'
  if k == 'cbits': return f'(ESized {e[2]} {zlit(e[3])})'     # s.C / cfg.mask / s.bl[1] / s.cfgs[0].mask: the generator folds it to SizeCast(Number)
  if k == 'cint': return f'(ELit {zlit(e[2])})'               # s.N / s.il[1]: folded to Number
  if k in ('fbits', 'carr', 'cidx', 'cfield', 'sinst'): raise Unmodelled(k)
  if k == 'sized': return f'(ESized {e[1]} {zlit(e[2])})'
  if k == 'free': return f'(EFree {zlit(e[1])})'
  if k == 'tmp': return f'(ETmp {e[1]}%nat)'
  if k == 'loop': return f'(ELoop {e[1]}%nat)'
  if k == 'cast': return f'(ECast {e[1]} {expr_coq(e[2])})'
  if k == 'bin': return f'(EBin {e[1]} {expr_coq(e[2])} {expr_coq(e[3])})'
  if k == 'cmp': return f'(ECmp {e[1]} {expr_coq(e[2])} {expr_coq(e[3])})'
  if k == 'inv': return f'(EInv {expr_coq(e[1])})'
  if k == 'slice': return f'(ESlice {expr_coq(e[1])} {expr_coq(e[2])} {expr_coq(e[3])})'
  if k == 'index': return f'(EIdx {expr_coq(e[1])} {expr_coq(e[2])})'
  if k == 'concat': return '(EConcat ' + coq_list([expr_coq(x) for x in e[1]]) + ')'
  if k in ('zext', 'sext', 'trunc'): return f'({ {"zext": "EZext", "sext": "ESext", "trunc": "ETrunc"}[k]} {e[1]} {expr_coq(e[2])})'
  if k == 'red': return f'(ERed {e[1]} {expr_coq(e[2])})'
  if k == 'if': return f'(EIf {expr_coq(e[1])} {expr_coq(e[2])} {expr_coq(e[3])})'
  raise ValueError(k)

def lhs_src(D, l):
  k = l[0]
  if k == 'ltmp': return f't{l[1]}'
  if k == 'lexpr': return expr_src(D, l[1])            # any other target (port of a sub-component): outside the Coq language
  base = D.sig_src(l[1], l[2])
  if k == 'lsig': return base
  if k == 'lslice': return f'{base}[{expr_src(D, l[3])}:{expr_src(D, l[4])}]'
  if k == 'lindex': return f'{base}[{expr_src(D, l[3])}]'
  raise ValueError(k)

def lhs_coq(l):
  k = l[0]
  if k == 'ltmp': return f'(LTmp {l[1]}%nat)'
  if k == 'lexpr': raise Unmodelled(k)
  if k == 'lsig': return f'(LSig {l[1]}%nat {natlist(l[2])})'
  if k == 'lslice': return f'(LSlice {l[1]}%nat {natlist(l[2])} {expr_coq(l[3])} {expr_coq(l[4])})'
  if k == 'lindex': return f'(LIndex {l[1]}%nat {natlist(l[2])} {expr_coq(l[3])})'
  raise ValueError(k)

# statements: ('assign', lbl, lhs, e, blocking) | ('if', lbl, c, [..], [..]) | ('for', id, lo, hi, step, [..], nargs)
def stmts_src(D, ss, ind, probe):
  out = []
  for s in ss:
    if s[0] == 'assign':
      _, lbl, l, e, blocking = s
      op = '=' if l[0] == 'ltmp' else ('@=' if blocking else '<<=')
      out.append(' ' * ind + f'{lhs_src(D, l)} {op} {expr_src(D, e, lbl if probe else None)}')
    elif s[0] == 'if':
      _, lbl, c, t, f = s
      out.append(' ' * ind + f'if {expr_src(D, c, lbl if probe else None)}:')
      out += stmts_src(D, t, ind + 2, probe)
      if f:
        out.append(' ' * ind + 'else:')
        out += stmts_src(D, f, ind + 2, probe)
    elif s[0] == 'for':
      _, i, lo, hi, step, body, nargs = s
      args = [hi] if nargs == 1 else ([lo, hi] if nargs == 2 else [lo, hi, step])
      out.append(' ' * ind + f'for i{i} in range( {", ".join(map(str, args))} ):')
      out += stmts_src(D, body, ind + 2, probe)
  return out

def stmt_coq(s):
  if s[0] == 'assign':
    _, lbl, l, e, blocking = s
    return f'(SAssign {lbl}%nat {lhs_coq(l)} {expr_coq(e)} {"true" if blocking else "false"})'
  if s[0] == 'if':
    _, lbl, c, t, f = s
    return f'(SIf {lbl}%nat {expr_coq(c)} {coq_list([stmt_coq(x) for x in t])} {coq_list([stmt_coq(x) for x in f])})'
  _, i, lo, hi, step, body, nargs = s
  return f'(SFor {i}%nat {zlit(lo)} {zlit(hi)} {zlit(step)} {coq_list([stmt_coq(x) for x in body])})'

def block_coq(ss):
  return coq_list([stmt_coq(s) for s in ss])

# description of every RTLIR node in the order Typing.v / the real-tree walk lists them:
# (what, (label, preorder index) of the probed sub-expression or None)
def expr_nodes(D, e, lbl, k=0, exempt=False):
  kind = e[0]
  key = None if lbl is None else (lbl, k)
  out = [(f'{kind}:{expr_src(D, e)[:60]}', key, exempt)]
  if kind == 'sig':
    p = list(e[2])
    while p:
      p = p[:-1]; out.append((f'sigprefix:{D.sig_src(e[1], p)}', None, exempt))
  elif kind == 'sized':
    out.append((f'number:{e[2]}', None, exempt))
  elif kind == 'cbits':
    out.append((f'number:{e[3]}', None, exempt))
  kk = k + 1
  for j, c in enumerate(children(e)):
    out += expr_nodes(D, c, lbl, kk, exempt or (kind == 'slice' and j == 2)); kk += esize(c)
  return out

def stmt_nodes(D, ss):
  out = []
  for s in ss:
    if s[0] == 'assign':
      _, lbl, l, e, blocking = s
      if l[0] == 'ltmp': out.append((f'tmptarget:t{l[1]}', None, False))
      elif l[0] == 'lexpr': out += expr_nodes(D, l[1], None)
      elif l[0] == 'lsig': out += expr_nodes(D, ('sig', l[1], l[2]), None)
      elif l[0] == 'lslice': out += expr_nodes(D, ('slice', ('sig', l[1], l[2]), l[3], l[4]), None)
      elif l[0] == 'lindex': out += expr_nodes(D, ('index', ('sig', l[1], l[2]), l[3]), None)
      out += expr_nodes(D, e, lbl)
    elif s[0] == 'if':
      _, lbl, c, t, f = s
      out += expr_nodes(D, c, lbl) + stmt_nodes(D, t) + stmt_nodes(D, f)
    else:
      _, i, lo, hi, step, body, nargs = s
      out += [(f'number:{lo}', None, False), (f'number:{hi}', None, False), (f'number:{step}', None, False)] + stmt_nodes(D, body)
  return out

def has_cast(e):
  if e[0] == 'cast': return True
  if e[0] == 'sized' and not (0 <= e[2] < (1 << e[1])): return True
  return any(has_cast(c) for c in children(e))

CONST_KINDS = ('lit', 'cint', 'free', 'sized', 'cbits', 'fbits')
def folded_binops(D, ss):
  """source text (as printed in node descriptions) of every BinOp all of whose leaves are constants with at least one sized one"""
  out = set()
  def leaves(e):
    cs = children(e)
    return [e[0]] if not cs else [k for c in cs for k in leaves(c)]
  def visit(e):
    if e[0] == 'bin':
      ls = leaves(e)
      if all(k in CONST_KINDS for k in ls) and any(k in ('sized', 'cbits', 'fbits') for k in ls): out.add(expr_src(D, e)[:60])
    for c in children(e): visit(c)
  def stm(ss):
    for s in ss:
      if s[0] == 'assign': visit(s[3])
      elif s[0] == 'if': visit(s[2]); stm(s[3]); stm(s[4])
      else: stm(s[5])
  stm(ss)
  return out

def sinst_int_args(D, ss):
  """node descriptions of the implicit int arguments of struct constructors"""
  out = set()
  def visit(e):
    if e[0] == 'sinst':
      for a in e[2]:
        if a[0] in ('lit', 'free', 'cint'): out.add(f'{a[0]}:{expr_src(D, a)[:60]}')
    for c in children(e): visit(c)
  def stm(ss):
    for s in ss:
      if s[0] == 'assign': visit(s[3])
      elif s[0] == 'if': visit(s[2]); stm(s[3]); stm(s[4])
      else: stm(s[5])
  stm(ss)
  return out

def block_has_cast(ss):
  for s in ss:
    if s[0] == 'assign':
      l = s[2]
      if has_cast(s[3]) or any(has_cast(x) for x in l[3:] if isinstance(x, tuple)): return True
    elif s[0] == 'if':
      if has_cast(s[2]) or block_has_cast(s[3]) or block_has_cast(s[4]): return True
    elif block_has_cast(s[5]): return True
  return False

# ------------------------------------------------------------------ component source
def component_src(D, ss, ff, frees, name='T', probe=False):
  lines = D.decl_src() + [f'K{j} = {v}' for j, v in enumerate(frees)]
  if D.blocks is None:
    lines += ['@update_ff' if ff else '@update', 'def up():'] + stmts_src(D, ss, 2, probe)
  else:
    for bn, bss, clos in D.blocks:
      blk = ['@update', f'def {bn}():'] + stmts_src(D, bss, 2, probe)
      if clos:       # a block with its own closure constants: defined inside a helper scope
        lines += [f'def _mk_{bn}():'] + ['  ' + l for l in clos + blk] + [f'_mk_{bn}()']
      else: lines += blk
  body = '\n'.join('    ' + l for l in lines)
  return STRUCT_SRC + D.header + f'\nclass {name}( Component ):\n  def construct( s ):\n{body}\n'

def probe_func_src(D, ss, frees):
  closure = [l for l in D.extra if re.match(r'[A-Za-z_]\w* = ', l)]       # closure constants of construct()
  lines = closure + [f'K{j} = {v}' for j, v in enumerate(frees)]
  if D.blocks is None: lines += ['def __blk( s, __p ):'] + stmts_src(D, ss, 2, True)
  else:
    for bn, bss, clos in D.blocks:
      lines += [f'def __blk_{bn}( s, __p ):'] + ['  ' + l for l in clos] + stmts_src(D, bss, 2, True)
  return '\n'.join(lines) + '\n'

# ------------------------------------------------------------------ the real passes
_OPS = None
def real_typecheck(cls, names=None):
  """returns ('accept', [(width, explicit)...]) | ('reject', msg) | ('elab', msg) | ('syntax', msg) | ('crash', msg)"""
  global _OPS
  from pymtl3.passes.rtlir import BehavioralRTLIRGenPass, BehavioralRTLIRTypeCheckPass
  from pymtl3.passes.rtlir.behavioral import BehavioralRTLIR as bir
  from pymtl3.passes.rtlir.behavioral.BehavioralRTLIRGenL1Pass import BehavioralRTLIRGenL1Pass
  from pymtl3.passes.rtlir.errors import PyMTLTypeError, PyMTLSyntaxError
  if _OPS is None:
    _OPS = tuple(getattr(bir, n) for n in ('Invert', 'UAdd', 'USub', 'Add', 'Sub', 'Mult', 'Div', 'Mod', 'Pow', 'ShiftLeft',
                                           'ShiftRightLogic', 'BitAnd', 'BitOr', 'BitXor', 'Eq', 'NotEq', 'Lt', 'LtE', 'Gt', 'GtE',
                                           'Base', 'LoopVarDecl'))
  try:
    m = cls(); m.elaborate()
  except Exception as e:
    return ('elab', f'{type(e).__name__}: {str(e)[-300:]}')
  try:
    m.apply(BehavioralRTLIRGenPass(m))
  except PyMTLSyntaxError as e:
    return ('syntax', str(e)[-300:])
  except Exception as e:
    return ('crash', f'gen: {type(e).__name__}: {str(e)[-300:]}')
  try:
    m.apply(BehavioralRTLIRTypeCheckPass(m))
  except PyMTLTypeError as e:
    return ('reject', str(e).strip().splitlines()[-1][:300])
  except Exception as e:
    return ('crash', f'{type(e).__name__}: {str(e)[-300:]}')
  ups = m.get_metadata(BehavioralRTLIRGenL1Pass.rtlir_upblks)
  byname = {blk.__name__: up for blk, up in ups.items()}
  order = [byname[n] for n in names] if names else list(byname.values())
  assert len(order) == len(byname)
  out = []
  shift_ok = [True]
  def width(node):
    try: return int(node.Type.get_dtype().get_length())
    except Exception: return None            # rt.Array (list of constants / signals), component
  def walk(node):
    if isinstance(node, _OPS): return
    if isinstance(node, bir.BinOp) and isinstance(node.op, (bir.ShiftLeft, bir.ShiftRightLogic)) and node.left._is_explicit:
      lw, rw = width(node.left), width(node.right)
      if not ((rw == lw) if node.right._is_explicit else (rw is not None and lw is not None and rw <= lw)): shift_ok[0] = False
    if not isinstance(node, (bir.Assign, bir.If, bir.For, bir.CombUpblk, bir.SeqUpblk)):
      out.append((width(node), bool(node._is_explicit)))
    for f, v in vars(node).items():
      if f in ('ast', 'Type', 'component', 'base', 'size'): continue
      if isinstance(v, bir.BaseBehavioralRTLIR): walk(v)
      elif isinstance(v, list):
        for x in v:
          if isinstance(x, bir.BaseBehavioralRTLIR): walk(x)
  for up in order: walk(up)
  return ('accept', out, shift_ok[0])

def set_inputs(m, D, inputs):
  from pymtl3 import Bits
  for si, (n, c, t) in enumerate(D.sigs):
    if c != 'InPort': continue
    obj = getattr(m, n)
    if isinstance(t, str):
      T = type(obj); obj @= T.from_bits(Bits(type_width(t), inputs[si]))
    else:
      obj @= inputs[si]

  k = len(D.sigs)
  def leaves(x):
    if isinstance(x, list):
      for y in x: yield from leaves(y)
    else: yield x
  for name, cnt, w in D.siglists:
    for port in leaves(getattr(m, name)):
      port @= inputs[k]; k += 1

def read_sigs(m, D):
  return [int(getattr(m, n).to_bits()) for n, c, t in D.sigs]

def real_simulate(cls, D, ff, inputs):
  """('ok', [final packed values]) | ('err', class, message)"""
  from pymtl3.passes.PassGroups import DefaultPassGroup
  m = cls(); m.elaborate(); m.apply(DefaultPassGroup())
  set_inputs(m, D, inputs)
  try:
    if ff: m.sim_tick()
    else: m.sim_eval_combinational()
  except Exception as e:
    return ('err', err_class(e), f'{type(e).__name__}: {str(e)[:200]}')
  return ('ok', read_sigs(m, D))

def real_probe(cls, D, ss, frees, inputs, mod):
  """execute the block once more, as plain python on the simulated component, with every sub-expression wrapped in a probe"""
  from pymtl3.passes.PassGroups import DefaultPassGroup
  m = cls(); m.elaborate(); m.apply(DefaultPassGroup())
  set_inputs(m, D, inputs)
  events = []
  def p(lbl, k, v):
    if hasattr(v, 'nbits'): events.append((lbl, k, (1, int(v.nbits))))
    elif isinstance(v, int): events.append((lbl, k, (0, int(v))))
    else: events.append((lbl, k, (3, 0)))           # a python list (constant / signal list): no width
    return v
  ns = dict(vars(mod))
  exec(compile(probe_func_src(D, ss, frees), '<probe>', 'exec'), ns)
  try:
    if D.blocks is None: ns['__blk'](m, p)
    else:
      # let the real simulator settle every block (sub-components included), then re-execute each block of this component with probes
      m.sim_eval_combinational()
      for bn, bss, clos in D.blocks: ns['__blk_' + bn](m, p)
  except Exception as e:
    return ('err', err_class(e), events)
  return ('ok', events)

# ------------------------------------------------------------------ random blocks
WIDTHS = [1, 2, 3, 4, 5, 7, 8, 8, 12, 16, 16, 31, 32, 33, 48, 49, 50, 64, 65, 100]

def boundary_lit(rng, kmax):
  k = rng.randrange(0, kmax + 1)
  return max(0, (1 << k) + rng.choice([-1, 0, 1]))

class BlockGen:
  """type-directed random generator; `wild` = probability of leaving the well-typed path on purpose"""
  def __init__(s, rng, wild=0.12, kmax=48, allow_cast=True):
    s.rng, s.wild, s.kmax, s.allow_cast = rng, wild, kmax, allow_cast
    s.D = Design()
    s.frees = []
    s.tmps = {}            # id -> ('bits', w) | ('int', maxbits)
    s.loops = {}           # id -> number of iterations' max value
    s.lbl = 0
    s.ntmp = 0; s.nloop = 0
    s.features = set()
    s.ff = False
    s.wslices = {}

  def label(s):
    s.lbl += 1; return s.lbl - 1

  def declare(s):
    rng = s.rng
    for _ in range(rng.randrange(2, 5)):
      t = rng.choice(['Pt', 'Outer', 'Wd']) if rng.random() < 0.25 else rng.choice(WIDTHS)
      s.D.add('InPort', t)
    for _ in range(rng.randrange(2, 5)):
      t = rng.choice(['Pt', 'Outer', 'Wd']) if rng.random() < 0.2 else rng.choice(WIDTHS)
      s.D.add(rng.choice(['OutPort', 'OutPort', 'Wire']), t)
    s.sources = []         # (expr, width) of readable Bits leaves
    s.struct_sources = []
    for si, (n, c, t) in enumerate(s.D.sigs):
      if c != 'InPort': continue
      for p, ns, w, l, st in s.D.paths(si):
        if st is None: s.sources.append((('sig', si, p), w))
        else: s.struct_sources.append((('sig', si, p), st))

  # ---- ints (implicit terms)
  def lit(s, maxbits=None):
    rng = s.rng
    r = rng.random()
    if maxbits is not None and r < 0.75:
      if rng.random() < 0.3: return ('lit', rng.choice([0, 1, (1 << maxbits) - 1, (1 << (maxbits - 1)) - (0 if maxbits <= s.kmax else 1)]))
      return ('lit', rng.getrandbits(rng.randrange(1, maxbits + 1)))
    if r < 0.9: return ('lit', boundary_lit(rng, s.kmax if maxbits is None else min(s.kmax, maxbits + 2)))
    return ('lit', rng.randrange(0, 10))

  def gen_int(s, maxbits, d):
    rng = s.rng
    r = rng.random()
    if d <= 0 or r < 0.55: return s.lit(maxbits)
    if r < 0.62:
      v = rng.getrandbits(rng.randrange(1, maxbits + 1))
      s.frees.append(v); s.features.add('freevar'); return ('free', v, len(s.frees) - 1)
    if r < 0.72 and s.loops:
      s.features.add('loopvar-arith'); return ('loop', rng.choice(list(s.loops)))
    its = [i for i, t in s.tmps.items() if t[0] == 'int']
    if r < 0.78 and its:
      s.features.add('int-tmp'); return ('tmp', rng.choice(its))
    if r < 0.92:
      s.features.add('int-binop')
      op = rng.choice(['Add', 'Sub', 'Mul', 'And', 'Or', 'Xor', 'LShift', 'RShift'])
      mb = min(maxbits, 20)      # folded constants stay far below 2^49 (the float-log2 literal-width defect is tested in its own section)
      a = s.gen_int(mb, d - 1)
      b = ('lit', rng.randrange(0, 6)) if op in ('LShift', 'RShift') else s.gen_int(mb, d - 1)
      return ('bin', op, a, b)
    if r < 0.97:
      s.features.add('int-ifexp')
      return ('if', s.gen_cond(d - 1), s.gen_int(maxbits, d - 1), s.gen_int(maxbits, d - 1))
    s.features.add('int-invert')
    return ('inv', s.gen_int(maxbits, d - 1))

  # ---- Bits-valued terms of a wanted width
  def fit(s, e, ew, w, sliceable):
    rng = s.rng
    if ew == w: return e
    if ew > w:
      if sliceable and rng.random() < 0.7:
        lo = rng.randrange(0, ew - w + 1); s.features.add('const-slice')
        return ('slice', e, ('lit', lo), ('lit', lo + w))
      s.features.add('trunc'); return ('trunc', w, e)
    k = rng.choice(['zext', 'zext', 'sext']); s.features.add(k)
    return (k, w, e)

  def leaf(s, w):
    rng = s.rng
    cands = list(s.sources) + [(('tmp', i), t[1]) for i, t in s.tmps.items() if t[0] == 'bits']
    same = [c for c in cands if c[1] == w]
    if same and rng.random() < 0.6: return rng.choice(same)[0]
    e, ew = rng.choice(cands)
    return s.fit(e, ew, w, True)

  def gen_bits(s, w, d):
    rng = s.rng
    if rng.random() < s.wild * 0.5:
      s.features.add('wild-width'); w = max(1, w + rng.choice([-1, 1, 1, 3]))
    r = rng.random()
    if d <= 0 or r < 0.22: return s.leaf(w)
    if r < 0.30:
      s.features.add('sized-literal')
      if rng.random() < s.wild * 0.5 and w < s.kmax: return ('sized', w, (1 << w) + rng.randrange(0, 3))
      return ('sized', w, rng.choice([0, (1 << w) - 1, rng.getrandbits(w)]))
    if r < 0.55:
      op = rng.choice(['Add', 'Sub', 'Mul', 'And', 'Or', 'Xor'])
      a = s.gen_bits(w, d - 1)
      b = s.gen_int(w if rng.random() > s.wild else w + 2, d - 1) if rng.random() < 0.4 else s.gen_bits(w, d - 1)
      if rng.random() < 0.5: a, b = b, a
      s.features.add('binop'); return ('bin', op, a, b)
    if r < 0.63:
      op = rng.choice(['LShift', 'RShift'])
      a = s.gen_bits(w, d - 1)
      q = rng.random()
      if q < 0.45: b = s.gen_bits(w, d - 1); s.features.add('shift-same-width')
      elif q < 0.8: b = ('lit', rng.randrange(0, w + 2)); s.features.add('shift-int')
      else: b = s.gen_bits(rng.choice(WIDTHS), 0); s.features.add('shift-other-width')
      return ('bin', op, a, b)
    if r < 0.68: s.features.add('invert'); return ('inv', s.gen_bits(w, d - 1))
    if r < 0.78:
      s.features.add('ifexp')
      a = s.gen_bits(w, d - 1)
      b = s.gen_int(w if rng.random() > s.wild else w + 1, d - 1) if rng.random() < 0.3 else s.gen_bits(w, d - 1)
      if rng.random() < 0.5: a, b = b, a
      return ('if', s.gen_cond(d - 1), a, b)
    if r < 0.84 and w >= 2:
      s.features.add('concat')
      k = rng.randrange(1, w); parts = [k, w - k]
      if parts[1] >= 2 and rng.random() < 0.4: j = rng.randrange(1, parts[1]); parts = [k, j, parts[1] - j]
      return ('concat', [s.gen_bits(p, d - 1) for p in parts])
    if r < 0.88:
      w0 = rng.choice(WIDTHS)
      return s.fit(s.gen_bits(w0, d - 1), w0, w, False)
    if r < 0.91 and s.allow_cast:
      s.features.add('cast')
      q = rng.random()
      if q < 0.4: return ('cast', w, s.gen_bits(w, d - 1))
      if q < 0.7: return ('cast', w, s.gen_int(w, d - 1))
      return ('cast', w, s.gen_bits(rng.choice(WIDTHS), 0))
    if w == 1:
      q = rng.random()
      if q < 0.45:
        s.features.add('compare')
        k = rng.choice(WIDTHS)
        a = s.gen_bits(k, d - 1)
        b = s.gen_int(k if rng.random() > s.wild else k + 1, d - 1) if rng.random() < 0.45 else s.gen_bits(k, d - 1)
        if rng.random() < 0.5: a, b = b, a
        return ('cmp', rng.choice(list(PYCMP)), a, b)
      if q < 0.6:
        s.features.add('reduce')
        k = rng.choice(WIDTHS); opnd = s.gen_bits(k, d - 1)
        if opnd[0] == 'if' and rng.random() < 0.7: opnd = ('if', opnd[1], s.leaf(k), ('lit', rng.randrange(0, 40)))   # reduce_or / reduce_xor of a (non-negative) python int
        elif opnd[0] == 'if': opnd = s.leaf(k)      # never a possibly negative int: helpers.reduce_xor would not terminate
        return ('red', rng.choice(list(PYRED)), opnd)
      if q < 0.9:
        return s.gen_index()
    return s.leaf(w)

  def gen_index(s):
    """bit select of a signal with a constant / loop-variable / signal index"""
    rng = s.rng
    cands = [c for c in s.sources] + [(('tmp', i), t[1]) for i, t in s.tmps.items() if t[0] == 'bits']
    e, ew = rng.choice(cands)
    iw = 1 if ew <= 1 else (ew - 1).bit_length()
    q = rng.random()
    if q < 0.45:
      s.features.add('const-index'); idx = ('lit', rng.randrange(0, ew) if rng.random() > s.wild else ew + rng.randrange(0, 2))
    elif q < 0.65 and s.loops:
      s.features.add('loop-index'); idx = ('loop', rng.choice(list(s.loops)))
    else:
      s.features.add('var-index')
      idx = s.gen_bits(iw if rng.random() > s.wild else iw + rng.choice([-1, 1]), 0)
    return ('index', e, idx)

  def gen_cond(s, d):
    rng = s.rng
    if rng.random() < 0.75: return s.gen_bits(1, d)
    return s.gen_bits(rng.choice(WIDTHS), 0)

  # ---- statements
  def targets(s):
    out = []
    for si, (n, c, t) in enumerate(s.D.sigs):
      if c == 'InPort': continue
      for p, ns, w, l, st in s.D.paths(si):
        out.append((si, p, w, st))
    return out

  def gen_assign(s, d):
    rng = s.rng
    si, p, w, st = rng.choice(s.targets())
    lbl = s.label()
    if st is not None:
      srcs = [e for e, t in s.struct_sources if t == st]
      if srcs and rng.random() < 0.8 and (not s.ff or p == ()):      # <<= of a whole bitstruct register is modelled too
        s.features.add('struct-copy' + ('-ff' if s.ff else '')); return ('assign', lbl, ('lsig', si, p), rng.choice(srcs), not s.ff)
      # otherwise assign one of its leaves
      leaves = [(q, qw) for q, ns, qw, l, qst in s.D.paths(si) if qst is None and q[:len(p)] == p]
      p, w = rng.choice(leaves); s.features.add('field-write')
    elif p: s.features.add('field-write')
    r = rng.random()
    if s.ff:
      if p or isinstance(s.D.sigs[si][2], str):
        # <<= is modelled for whole vector signals only
        vec = [(i, t) for i, (n, c, t) in enumerate(s.D.sigs) if c != 'InPort' and not isinstance(t, str)]
        if not vec: return None
        si, w = rng.choice(vec); p = ()
      l = ('lsig', si, p)
    elif r < 0.18 and w >= 2:
      lo = rng.randrange(0, w - 1); hi = rng.randrange(lo + 1, w + 1)
      used = s.wslices.setdefault((si, p), [])
      if any((a, b) != (lo, hi) and a < hi and lo < b for a, b in used): lo, hi = rng.choice(used)   # elaboration forbids overlapping sibling slices
      if (lo, hi) not in used: used.append((lo, hi))
      l = ('lslice', si, p, ('lit', lo), ('lit', hi)); w = hi - lo; s.features.add('slice-write')
    elif r < 0.28:
      iw = 1 if w <= 1 else (w - 1).bit_length()
      if s.loops and rng.random() < 0.5: idx = ('loop', rng.choice(list(s.loops))); s.features.add('loop-index-write')
      elif rng.random() < 0.6:
        k = rng.randrange(0, w); used = s.wslices.setdefault((si, p), [])
        if any((a, b) != (k, k + 1) and a < k + 1 and k < b for a, b in used):
          free = [j for j in range(w) if not any(a <= j < b for a, b in used)]
          one = [a for a, b in used if b == a + 1]
          k = rng.choice(free) if free else (rng.choice(one) if one else None)
        if k is None: idx = s.gen_bits(iw, 0); s.features.add('var-index-write')
        else:
          if (k, k + 1) not in used: used.append((k, k + 1))
          idx = ('lit', k); s.features.add('const-index-write')
      else: idx = s.gen_bits(iw, 0); s.features.add('var-index-write')
      l = ('lindex', si, p, idx); w = 1
    elif r < 0.36 and s.loops and w >= 3:
      i = rng.choice(list(s.loops)); k = rng.randrange(1, 3)
      l = ('lslice', si, p, ('loop', i), ('bin', 'Add', ('loop', i), ('lit', k))); w = k; s.features.add('stride-slice-write')
    else:
      l = ('lsig', si, p)
    q = rng.random()
    if q < 0.12: e = s.gen_int(w if rng.random() > s.wild else w + 1, d); s.features.add('assign-int')
    else: e = s.gen_bits(w, d)
    return ('assign', lbl, l, e, not s.ff)

  def gen_tmp(s, d):
    rng = s.rng
    lbl = s.label()
    if s.tmps and rng.random() < 0.2:
      i = rng.choice(list(s.tmps)); s.features.add('tmp-reassign')
      t = s.tmps[i]
      e = s.gen_bits(t[1], d) if t[0] == 'bits' else s.gen_int(t[1], 0)
      return ('assign', lbl, ('ltmp', i), e, True)
    i = s.ntmp; s.ntmp += 1
    if rng.random() < 0.25:
      mb = rng.choice([1, 2, 3, 4, 8]); e = s.lit(mb); s.tmps[i] = ('int', mb); s.features.add('tmp-int')
    else:
      w = rng.choice(WIDTHS); e = s.gen_bits(w, d); s.tmps[i] = ('bits', w); s.features.add('tmp-bits')
    return ('assign', lbl, ('ltmp', i), e, True)

  def gen_stmt(s, d, depth):
    rng = s.rng
    r = rng.random()
    if r < 0.14 and not s.ff and depth == 0:
      return s.gen_tmp(d)
    if r < 0.26 and depth < 2:
      s.features.add('if-stmt')
      lbl = s.label(); c = s.gen_cond(1)
      t = [x for x in (s.gen_stmt(d, depth + 1) for _ in range(rng.randrange(1, 3))) if x]
      f = [x for x in (s.gen_stmt(d, depth + 1) for _ in range(rng.randrange(0, 2))) if x]
      return ('if', lbl, c, t, f) if t else None
    if r < 0.38 and depth < 2 and not s.ff:
      s.features.add('for-stmt')
      i = s.nloop; s.nloop += 1
      nargs = rng.choice([1, 1, 2, 3])
      lo = 0 if nargs == 1 else rng.randrange(0, 3)
      step = 1 if nargs < 3 else rng.randrange(1, 4)
      hi = lo + rng.randrange(0 if rng.random() < 0.1 else 1, 5) * step - (rng.randrange(0, step) if step > 1 else 0)
      hi = max(hi, 0)
      s.loops[i] = True
      body = [x for x in (s.gen_stmt(d, depth + 1) for _ in range(rng.randrange(1, 3))) if x]
      del s.loops[i]
      return ('for', i, lo, hi, step, body, nargs) if body else None
    return s.gen_assign(d)

  def build(s):
    rng = s.rng
    s.declare()
    s.ff = rng.random() < 0.12 and any(c != 'InPort' and not isinstance(t, str) for n, c, t in s.D.sigs)
    ss = []
    for _ in range(rng.randrange(1, 5)):
      x = s.gen_stmt(rng.choice([1, 2, 2, 3]), 0)
      if x: ss.append(x)
    if not ss: ss.append(s.gen_assign(1))
    return ss

def rand_inputs(rng, D):
  out = []
  for n, c, t in D.sigs:
    w = type_width(t)
    if c != 'InPort': out.append(0)
    else: out.append(rng.choice([0, (1 << w) - 1, rng.getrandbits(w), rng.getrandbits(w), rng.getrandbits(w)]))
  for name, cnt, w in D.siglists:
    out += [rng.getrandbits(w if isinstance(w, int) else w[j]) for j in range(cnt)]
  return out

# ------------------------------------------------------------------ correspondence
IMPORTS = 'Base.Prelude Bits.BitsSpec RTL.Syntax RTL.Eval RTL.Typing'
DEFS = '''
Definition ev := (nat * nat * (Z * Z))%type.
Definition ev_le (a b : ev) : bool :=
  let '(la, ka, _) := a in let '(lb, kb, _) := b in (la <? lb)%nat || (Nat.eqb la lb && (ka <=? kb)%nat).
Fixpoint ins_ev (x : ev) (l : list ev) : list ev :=     (* stable: x goes after everything <= x *)
  match l with [] => [x] | y :: r => if ev_le y x then y :: ins_ev x r else x :: l end.
Definition sort_ev (l : list ev) : list ev := fold_left (fun acc x => ins_ev x acc) l [].
Definition ev_eqb (a b : ev) : bool :=
  let '(la, ka, sa) := a in let '(lb, kb, sb) := b in Nat.eqb la lb && Nat.eqb ka kb && pair_eqb sa sb.
Fixpoint list_eqb {A} (f : A -> A -> bool) (x y : list A) : bool :=
  match x, y with [] , [] => true | a :: x', b :: y' => f a b && list_eqb f x' y' | _, _ => false end.
Definition out_eqb (x y : list Z * list ev) : bool := list_eqb Z.eqb (fst x) (fst y) && list_eqb ev_eqb (snd x) (snd y).
Definition wn_eqb (a b : Z * bool) : bool := (fst a =? fst b) && eqb (snd a) (snd b).
Definition verdict_eqb (x y : option (list (Z * bool))) : bool :=
  match x, y with Some a, Some b => list_eqb wn_eqb a b | None, None => true | _, _ => false end.
Definition is_some {A} (x : option A) : bool := match x with Some _ => true | None => false end.
Definition is_evalue {A} (r : res A) : bool := match r with Err EValue => true | _ => false end.
Record case := { cG : decls; cn : nat; cb : list stmt; creal : option (list (Z * bool)); ccastfree : bool;
                 cruns : list (list Z * res (list Z * list ev)) }.
Definition model_run (c : case) (inp : list Z) :=
  bind (run_block (cG c) (cn c) (cb c) inp) (fun r => Ok (fst r, sort_ev (snd r))).
(* model ties *)
Definition ok_verdict (c : case) : bool := verdict_eqb (check_block impl (cG c) (cb c)) (creal c).
Definition ok_runtime (c : case) : bool := forallb (fun r => res_eqb out_eqb (model_run c (fst r)) (snd r)) (cruns c).
(* the property on the real observations: accepted, cast-free, shift amounts as wide as the shifted value => no ValueError *)
Definition ok_noerror (c : case) : bool :=
  negb (is_some (creal c) && ccastfree c && is_some (check_block (only 0) (cG c) (cb c)) && existsb (fun r => is_evalue (snd r)) (cruns c)).
(* strict is a restriction of impl: whatever it accepts, impl accepts with the same annotations *)
Definition ok_mono (c : case) : bool :=
  match check_block strict (cG c) (cb c) with Some ws => verdict_eqb (check_block impl (cG c) (cb c)) (Some ws) | None => true end.
(* consequence of the soundness theorem, evaluated: strict acceptance => the model raises no ValueError *)
Definition ok_strict (c : case) : bool :=
  negb (ccastfree c && is_some (check_block strict (cG c) (cb c)) && existsb (fun r => is_evalue (model_run c (fst r))) (cruns c)).
Definition ok_strict_acc (c : case) : bool := negb (ccastfree c && is_some (check_block strict (cG c) (cb c))).
Definition rule_rejects (k : nat) (c : case) : bool := negb (is_some (check_block (only k) (cG c) (cb c))).
Definition nr1 c := negb (rule_rejects 1 c).  Definition nr2 c := negb (rule_rejects 2 c).  Definition nr3 c := negb (rule_rejects 3 c).
Definition nr4 c := negb (rule_rejects 4 c).  Definition nr5 c := negb (rule_rejects 5 c).  Definition nr6 c := negb (rule_rejects 6 c).
Definition nr7 c := negb (rule_rejects 7 c).  Definition nr10 c := negb (rule_rejects 10 c).  Definition nr11 c := negb (rule_rejects 11 c).  Definition nr13 c := negb (rule_rejects 13 c).
'''


def coq_multi(ctx, name, terms, oks, shard=56, jobs=8):
  """like ctx.coq_bad_indices but evaluates several boolean checks over the same cases in ONE coqc run per shard
  (parsing the case terms dominates the cost); returns {check name: [bad indices]}"""
  d = COQ / 'cases'; d.mkdir(exist_ok=True)
  shards = [terms[i:i + shard] for i in range(0, len(terms), shard)]
  files = []
  for k, sc in enumerate(shards):
    f = d / f'{ctx.pid}_{name}_{os.getpid()}_{k}.v'
    body = [f'From PV Require Import {IMPORTS}.', 'Open Scope Z_scope.', DEFS, 'Definition cases : list case := [', ';\n'.join(sc), '].']
    body += [f'Eval vm_compute in (bad_indices {ok} cases).' for ok in oks]
    f.write_text('\n'.join(body) + '\n'); files.append(f)
  def run1(f):
    return sh(['timeout', '600', 'coqc', '-Q', 'theories', 'PV', str(f.relative_to(COQ))], cwd=COQ, timeout=660)
  with ThreadPoolExecutor(max_workers=jobs) as ex:
    results = list(ex.map(run1, files))
  out = {ok: [] for ok in oks}
  try:
    for k, (rc, txt) in enumerate(results):
      if rc != 0: raise RuntimeError(f'coqc failed on cases file {files[k]}:\n{txt[-1500:]}')
      ms = re.findall(r'=\s*\[(.*?)\]\s*:\s*list nat', txt, flags=re.S)
      if len(ms) != len(oks): raise RuntimeError(f'cannot parse coqc output: {txt[-500:]}')
      for ok, m in zip(oks, ms):
        out[ok] += [k * shard + int(n) for n in re.findall(r'(\d+)', m)]
  finally:
    for f in files:
      for ext in ('.v', '.vo', '.glob', '.vok', '.vos'):
        p = f.with_suffix(ext)
        if p.exists(): p.unlink()
      aux = f.parent / ('.' + f.stem + '.aux')
      if aux.exists(): aux.unlink()
  return out

class Case:
  pass

def process_block(ctx, D, ss, ff, frees, ninputs, tag, rng, feats=(), drive=None):
  # drive: optional function(run number, random inputs) -> inputs, to steer index signals through every element
  """run the real passes / simulator on one block; returns a Case or None when the block is outside the modelled language"""
  c = Case()
  c.D, c.ss, c.ff, c.frees, c.tag, c.feats = D, ss, ff, frees, tag, feats
  c.src = component_src(D, ss, ff, frees)
  c.body = c.src.split('class T( Component ):')[1]
  c.modelled = True
  cls, mod = load_source(ctx, c.src, 'T')
  c.tc = real_typecheck(cls, [b[0] for b in D.blocks] if D.blocks else None)
  if c.tc[0] in ('elab', 'syntax'):
    return c
  c.nodes = stmt_nodes(D, ss)
  try: block_coq(ss); c.modelled = not D.force_unmodelled
  except Unmodelled: c.modelled = False
  c.runs = []
  for k in range(ninputs):
    ins = rand_inputs(rng, D)
    if drive is not None: ins = drive(k, ins)
    sim = real_simulate(cls, D, ff, ins)
    pr = real_probe(cls, D, ss, frees, ins, mod)
    if (sim[0] == 'ok') != (pr[0] == 'ok') or (sim[0] == 'err' and sim[1] != pr[1]):
      ctx.violation(f'C10:probe-run:{hashlib.sha1(c.body.encode()).hexdigest()[:10]}',
                    f'the probed re-execution of the block behaves differently from the simulation: {sim[:2]} vs {pr[:2] if pr[0] == "err" else "ok"} block:{c.body[-300:]}',
                    {'component_source': c.src, 'inputs': ins}, found_input=False)
    c.runs.append((ins, sim, pr))
  return c

def case_term(c):
  D = c.D
  real = 'None'
  if c.tc[0] == 'accept':
    real = '(Some ' + coq_list([f'({w}, {"true" if e else "false"})' for w, e in c.tc[1]]) + ')'
  runs = []
  for ins, sim, pr in c.runs:
    if sim[0] == 'err': obs = f'(Err {sim[1]})'
    else:
      evs = sorted(pr[1], key=lambda e: (e[0], e[1])) if pr[0] == 'ok' else []
      obs = '(Ok (' + coq_list([zlit(v) for v in sim[1]]) + ', ' + coq_list([f'({l}%nat, {k}%nat, ({a}, {zlit(b)}))' for l, k, (a, b) in evs]) + '))'
    runs.append(f'({coq_list([zlit(v) for v in ins])}, {obs})')
  return (f'{{| cG := {D.decls_term()}; cn := {len(D.sigs)}%nat; cb := {block_coq(c.ss)}; creal := {real}; '
          f'ccastfree := {"false" if block_has_cast(c.ss) else "true"}; cruns := {coq_list(runs)} |}}')

def width_vs_runtime(c):
  """property clause 1 on the real observations only: for an accepted block, the checker's width of every probed node
  equals the nbits of the value python computed there (ints: the value fits the width).  Returns list of problems."""
  if c.tc[0] != 'accept': return []
  if len(c.tc[1]) != len(c.nodes): return [('(harness)', f'RTLIR tree has {len(c.tc[1])} expression nodes, the generated term describes {len(c.nodes)}', None)]
  pos = {key: i for i, (d, key, exempt) in enumerate(c.nodes) if key is not None and not exempt}
  bad = []
  for ins, sim, pr in c.runs:
    for l, k, (isbits, v) in pr[1 if pr[0] == 'ok' else 2]:
      i = pos.get((l, k))
      if i is None: continue
      w, ex = c.tc[1][i]
      if w is None or isbits == 3: continue
      if isbits and v != w: bad.append((c.nodes[i][0], f'checker width {w}, runtime Bits{v}', ins))
      elif not isbits and not (0 <= v < (1 << w)): bad.append((c.nodes[i][0], f'checker width {w}, runtime int {v}', ins))
    if bad: break
  return bad

def replay_of(c, extra=None):
  d = {'component_source': c.src, 'tag': c.tag, 'checker': list(c.tc[:1]) + [str(c.tc[1])[:600]],
       'runs': [{'inputs': ins, 'simulation': sim[:3] if sim[0] == 'err' else ['ok', sim[1]]} for ins, sim, pr in c.runs[:4]],
       'coq_case': case_term(c)[:6000] if c.modelled else '(construct without a Coq constructor: property evaluated on the real observations only)'}
  if extra: d.update(extra)
  return d

def check_cases(ctx, cases, section, lit_attr=None):
  """evaluate the four comparisons inside Coq and report.  lit_attr: function(case) -> key suffix used to attribute a
  verdict/width mismatch of a literal-width block to the function that computed the literal's width."""
  live = [c for c in cases if c.tc[0] in ('accept', 'reject', 'crash')]
  for c in cases:
    if c.tc[0] in ('elab', 'syntax'):
      ctx.extra['unmodelled_' + c.tc[0]] = ctx.extra.get('unmodelled_' + c.tc[0], 0) + 1
      ctx.note(f'{section}: block outside the front end ({c.tc[0]}): {c.tc[1][:160]}')
  # blocks outside RTL/Syntax.v: no Coq comparison, but the property is evaluated on the real observations
  for c in [c for c in live if not c.modelled]:
    ctx.extra['unmodelled_blocks_property_evaluated'] = ctx.extra.get('unmodelled_blocks_property_evaluated', 0) + 1
    h = hashlib.sha1(c.body.encode()).hexdigest()[:10]
    nerr = sum(1 for ins, sim, pr in c.runs if sim[0] == 'err')
    ctx.count((section, c.body), True, cls=f'{section}:unmodelled:{c.tc[0]}' + (':raises' if nerr else ''))
    for f in c.feats: ctx.hist['feature:' + f] = ctx.hist.get('feature:' + f, 0) + 1
    if getattr(c, 'expect_accept', False) and c.tc[0] != 'accept':
      # completeness side: every assignment of this design has explicitly sized operands of matching widths (by construction)
      ok_runs = all(sim[0] == 'ok' for ins, sim, pr in c.runs)
      ctx.violation(f'C10:correct-design-rejected:{h}',
                    f'every operation of this design has matching explicit widths (it simulates {"without error" if ok_runs else "?"}), but the RTLIR type checker rejects it: {str(c.tc[1])[:200]} design:{c.body[-500:]}',
                    replay_of(c, {'checker_message': str(c.tc[1])[:600]}))
    if c.tc[0] != 'accept' or block_has_cast(c.ss): continue
    msg = next((sim[2] for ins, sim, pr in c.runs if sim[0] == 'err' and (sim[1] == 'EValue' or (sim[1] == 'EAssert' and '-bit <>' in sim[2]))), None)
    if not c.tc[2]: msg = None                 # a shift amount narrower / wider than the shifted value: exempt from the no-error clause
    bad = width_vs_runtime(c)
    if msg is None and not bad: continue
    # attribution without the Coq model: python-int arithmetic whose result does not fit the assigned width is family S3
    cause = 'S3' if bad and bad[0][0].startswith('bin:') and 'runtime int' in bad[0][1] else None
    # a BinOp between two constants (each carries a _value) is folded and re-typed from the VALUE even when the operands are sized: family S2
    if bad and bad[0][0].startswith('bin:') and 'runtime Bits' in bad[0][1] and bad[0][0][4:] in folded_binops(c.D, c.ss): cause = 'S2'
    key = f'C10:{cause}:missing-check' if cause else f'C10:unmodelled:{h}'
    # an int literal / closure int passed to a bitstruct constructor is re-typed to the field width without the "does it fit" check
    if bad and 'runtime int' in bad[0][1] and bad[0][0] in sinst_int_args(c.D, c.ss): key = STRUCTINST_KEY; cause = 'structinst-literal'
    what = (f'accepted block: sub-expression {bad[0][0]}: {bad[0][1]}' if bad else 'the RTLIR type checker ACCEPTS this block') + \
           (f'; simulating it raises {msg[:160]}' if msg else '') + (f' [cause {cause}]' if cause else '') + f' block:{c.body[-300:]}'
    fail_in = next((ins for ins, sim, pr in c.runs if sim[0] == 'err' and sim[2] == msg), None) if msg else (bad[0][2] if bad else None)
    ctx.violation(key, what, replay_of(c, {'error': msg, 'node': bad[0][0] if bad else None, 'detail': bad[0][1] if bad else None, 'cause': cause,
                                           'failing_inputs': fail_in, 'signals_in_input_order': [n for n, _, _ in c.D.sigs] + [n + '[...]' for n, _, _ in c.D.siglists]}))
  live = [c for c in live if c.modelled]
  if not live: return
  terms = [case_term(c) for c in live]
  RULES = [1, 2, 3, 4, 5, 6, 7, 13, 10, 11]
  res = coq_multi(ctx, section, terms, ['ok_verdict', 'ok_runtime', 'ok_noerror', 'ok_strict', 'ok_mono', 'ok_strict_acc'] + [f'nr{k}' for k in RULES])
  rejecting = {i: [k for k in RULES if i in set(res[f'nr{k}'])] for i in range(len(live))}
  def cause_of(i):
    """the extra checks of Typing.v that (each on its own) would have rejected the block; the key uses the first"""
    return f'S{rejecting[i][0]}' if rejecting[i] else 'none'
  # --- property violations on real observations
  def lit_record(c):
    found = lit_attr(c)
    for fn, v, exp, obs in found: ctx.lit_failures.setdefault(fn, {}).setdefault(v, (exp, obs, c))
    return bool(found)
  for i in res['ok_noerror']:
    c = live[i]
    if lit_attr is not None and lit_record(c): continue
    cause = cause_of(i)
    msg = next((sim[2] for ins, sim, pr in c.runs if sim[0] == 'err' and sim[1] == 'EValue'), '')
    ctx.violation(f'C10:{cause}:missing-check',
                  f'the RTLIR type checker ACCEPTS this block (no cast, shift amounts as wide as the shifted value) but simulating it raises {msg[:160]} '
                  f'[missing check {cause}] block:{c.body[-300:]}', replay_of(c, {'cause': cause, 'all_rejecting_checks': rejecting[i], 'error': msg}))
  for i, c in enumerate(live):
    bad = width_vs_runtime(c)
    if bad and not block_has_cast(c.ss):
      if lit_attr is not None and lit_record(c): continue
      cause = cause_of(i)
      # python-int + * << used only as a slice bound / bit index is tolerated by the strict checker (it cannot cause a width error),
      # but its value still exceeds the max-width rule's width: same family as S3
      if cause == 'none' and bad[0][0].startswith('bin:') and 'runtime int' in bad[0][1]: cause = 'S3'
      ctx.violation(f'C10:{cause}:missing-check',
                    f'accepted block: sub-expression {bad[0][0]}: {bad[0][1]} [cause {cause}] block:{c.body[-300:]}',
                    replay_of(c, {'cause': cause, 'all_rejecting_checks': rejecting[i], 'node': bad[0][0], 'detail': bad[0][1], 'inputs': bad[0][2]}))
  # --- model ties
  ndiag = 0
  for i in res['ok_verdict']:
    c = live[i]
    if lit_attr is not None and lit_record(c): continue
    ndiag += 1
    if ndiag > 6: ctx.extra[f'{section}_more_verdict_mismatches'] = ndiag - 6; continue
    try: model = ctx.coq_eval(f'{section}_v', IMPORTS, DEFS, [f'check_block impl (cG {terms[i]}) (cb {terms[i]})'])[0]
    except Exception as e: model = repr(e)
    mw = [(int(a), b == 'true') for a, b in re.findall(r'\(\s*(\d+)\s*,\s*(true|false)\s*\)', model)] if model.startswith('Some') else None
    detail = f'real={c.tc[0]} {c.tc[1] if c.tc[0] != "accept" else ""} model={"accept" if mw is not None else "reject"}'
    if mw is not None and c.tc[0] == 'accept':
      diffs = [(c.nodes[j][0], c.tc[1][j], mw[j]) for j in range(min(len(mw), len(c.tc[1]))) if tuple(c.tc[1][j]) != tuple(mw[j])]
      detail = f'node annotations differ (node, real, model): {diffs[:4]} (lengths {len(c.tc[1])}/{len(mw)})'
    # the property on the real observations, independently of the model: the real checker accepted, no cast, shift amounts fine, ValueError
    fail = next(((ins, sim[2]) for ins, sim, pr in c.runs if sim[0] == 'err' and sim[1] == 'EValue'), None) \
           if c.tc[0] == 'accept' and c.tc[2] and not block_has_cast(c.ss) else None
    if fail: detail += f'; the real checker ACCEPTS the block and simulating it on inputs {fail[0]} raises {fail[1][:140]}'
    ctx.violation(f'C10:model-verdict:{hashlib.sha1(c.body.encode()).hexdigest()[:10]}',
                  f'type-checker model and real BehavioralRTLIRTypeCheckPass disagree: {detail} block:{c.body[-300:]}',
                  replay_of(c, {'model': model[:2000], 'detail': detail, 'failing_inputs': fail[0] if fail else None, 'error': fail[1] if fail else None}), found_input=True)
  for i in res['ok_runtime'][:6]:
    c = live[i]
    try: model = ctx.coq_eval(f'{section}_r', IMPORTS, DEFS, [f'map (fun r => model_run {terms[i]} (fst r)) (cruns {terms[i]})'])[0]
    except Exception as e: model = repr(e)
    ctx.violation(f'C10:model-runtime:{hashlib.sha1(c.body.encode()).hexdigest()[:10]}',
                  f'evaluator model and the pymtl3 simulation disagree on block:{c.body[-300:]}',
                  replay_of(c, {'model_runs': model[:3000]}), found_input=True)
  for i in res['ok_strict']:
    c = live[i]
    ctx.violation(f'C10:soundness-instance:{hashlib.sha1(c.body.encode()).hexdigest()[:10]}',
                  f'instance of theorem tc_sound fails when evaluated (strict checker accepts, model evaluation raises ValueError): {c.body[-300:]}',
                  replay_of(c), found_input=True)
  for i in res['ok_mono']:
    c = live[i]
    ctx.violation(f'C10:model-mono:{hashlib.sha1(c.body.encode()).hexdigest()[:10]}',
                  f'check_block strict accepts but check_block impl does not give the same annotations: {c.body[-300:]}', replay_of(c), found_input=True)
  for i, c in enumerate(live):
    ok = i not in res['ok_verdict'] and i not in res['ok_runtime']
    nerr = sum(1 for ins, sim, pr in c.runs if sim[0] == 'err')
    cls = f'{section}:{c.tc[0]}:' + ('ff' if c.ff else 'comb') + (':raises' if nerr else '')
    ctx.count((section, c.body), True, cls=cls)
    for f in c.feats: ctx.hist['feature:' + f] = ctx.hist.get('feature:' + f, 0) + 1
  ctx.extra[f'{section}_blocks'] = len(live)
  ctx.extra[f'{section}_accepted'] = sum(1 for c in live if c.tc[0] == 'accept')
  ctx.extra[f'{section}_runs'] = sum(len(c.runs) for c in live)
  ctx.extra[f'{section}_probe_events'] = sum(len(pr[1]) for c in live for ins, sim, pr in c.runs if pr[0] == 'ok')
  ctx.extra[f'{section}_nodes_compared'] = sum(len(c.tc[1]) for c in live if c.tc[0] == 'accept')
  ctx.extra[f'{section}_strict_accepted_castfree'] = len(res['ok_strict_acc'])
  return live, res

# ------------------------------------------------------------------ sections
def mkD(sigs):
  D = Design()
  for c, t in sigs: D.add(c, t)
  return D

def S(si, *p): return ('sig', si, tuple(p))
def A(lbl, l, e): return ('assign', lbl, l, e, True)

def literal_cases(ctx, kmax):
  """literal width: 2^k-1, 2^k, 2^k+1 through (A1) get_rtlir/RTLIRDataType (a Number node), (A2) the loop-variable width
  computed by BehavioralRTLIRTypeCheckL1Pass._get_nbits_from_value, (A3) acceptance of `signal < literal`"""
  cases = []
  F1 = 'pymtl3/passes/rtlir/rtype/RTLIRDataType.py:_get_nbits_from_value'
  F2 = 'pymtl3/passes/rtlir/behavioral/BehavioralRTLIRTypeCheckL1Pass.py:_get_nbits_from_value'
  vals = sorted({max(0, (1 << k) + d) for k in range(0, kmax + 1) for d in (-1, 0, 1)})
  for v in vals:
    exact = max(1, v.bit_length())
    D = mkD([('InPort', 8), ('OutPort', 8)])
    c = process_block(ctx, D, [A(0, ('ltmp', 0), ('lit', v))], False, [], 1, f'A1:{v}', ctx.rng)
    c.lit = [('tmptarget', F1, v), ('lit', F1, v)]; cases.append(c)
    if v >= 1:
      D = mkD([('InPort', 8), ('OutPort', 8)])
      c = process_block(ctx, D, [('for', 0, 0, v + 1, v, [A(0, ('ltmp', 0), ('loop', 0))], 3)], False, [], 1, f'A2:{v}', ctx.rng)
      c.lit = [('number', F1, 0), ('number', F1, v + 1), ('number', F1, v), ('tmptarget', F2, v), ('loop', F2, v)]; cases.append(c)
    for W in sorted({max(1, exact - 1), exact}):
      if W > 1023: continue
      D = mkD([('InPort', W), ('OutPort', 1), ('OutPort', W)])
      c = process_block(ctx, D, [A(0, ('lsig', 1, ()), ('cmp', 'CLt', S(0), ('lit', v))), A(1, ('lsig', 2, ()), ('bin', 'Add', S(0), ('lit', v)))],
                        False, [], 2, f'A3:{W}:{v}', ctx.rng)
      c.lit = ('verdict', F1, v, W); cases.append(c)
  ctx.lit_failures = {}
  def attr(c):
    """which function mis-sized which literal (python-side attribution; that there IS a disagreement was decided in Coq)"""
    ex = lambda v: max(1, v.bit_length())
    out = []
    if isinstance(c.lit, tuple):
      _, fn, v, W = c.lit
      if c.tc[0] == 'accept' and ex(v) > W: out.append((fn, v, ex(v), f'accepted as fitting the {W}-bit operand'))
    elif c.tc[0] == 'accept':
      for (kind, fn, v), (w, e) in zip(c.lit, c.tc[1]):
        if w != ex(v): out.append((fn, v, ex(v), w))
    return out
  check_cases(ctx, cases, 'literals', lit_attr=attr)
  for fn, fails in sorted(ctx.lit_failures.items()):
    v = min(fails); exp, obs, c = fails[v]
    k = v.bit_length() - 1
    ctx.violation(f'C10:litwidth:{fn.split("/")[-1]}:{v}',
                  f'integer literal {v} (2^{k}{"" if v == 1 << k else "+" + str(v - (1 << k))}) needs {exp} bits but {fn} gives {obs} '
                  f'(float ceil(log2(v+1))); {len(fails)} of the boundary literals 2^k-1, 2^k, 2^k+1 (k<={kmax}) are mis-sized, smallest shown',
                  replay_of(c, {'function': fn, 'literal': v, 'expected_width': exp, 'observed': str(obs),
                                'all_failing_literals': sorted(fails)[:120],
                                'suggested_patch': 'value >= 0: return max(1, int(value).bit_length());  value < 0: return max(1, (abs(int(value)) - 1).bit_length())  (same results as now wherever the float formula is exact, incl. -1..1 -> 1)'}))
  ctx.sample({'section': 'literals', 'block': cases[5].body, 'checker': str(cases[5].tc)[:200]})

def directed_cases(ctx):
  """small fixed blocks: one per rule of the checker and one per missing check (S1..S10 of Typing.v)"""
  I8 = [('InPort', 8), ('InPort', 8), ('InPort', 4), ('OutPort', 8), ('OutPort', 2), ('OutPort', 3), ('OutPort', 1), ('InPort', 2), ('OutPort', 16)]
  a, b, c4, o, o2, o3, o1, a2, o16 = range(9)
  L = lambda z: ('lit', z)
  bit0 = ('index', S(a), L(0))
  blocks = [
    ('S1 literal wider than target',            [A(0, ('lsig', o, ()), L(300))]),
    ('S1 literal fits',                         [A(0, ('lsig', o, ()), L(255))]),
    ('S2 folding sized operands',               [A(0, ('lsig', o3, ()), ('bin', 'Add', ('sized', 8, 3), ('sized', 8, 4)))]),
    ('S2 folding sized operand and literal',    [A(0, ('lsig', o3, ()), ('bin', 'Add', ('sized', 8, 3), L(1)))]),
    ('S3 loop variable arithmetic',             [('for', 0, 0, 4, 1, [A(0, ('lsig', o2, ()), ('bin', 'Add', ('loop', 0), L(1)))], 1)]),
    ('S3 loop variable shift',                  [('for', 0, 0, 4, 1, [A(0, ('lsig', o2, ()), ('bin', 'LShift', ('loop', 0), L(1)))], 1)]),
    ('S3 mixed int/Bits if-expressions added',  [A(0, ('lsig', o, ()), ('bin', 'Add', ('if', bit0, L(255), S(a)), ('if', bit0, L(255), S(b))))]),
    ('S4 negative constant',                    [A(0, ('lsig', o, ()), ('bin', 'Add', S(a), ('bin', 'Sub', L(1), L(2))))]),
    ('S4 inverted literal',                     [A(0, ('lsig', o, ()), ('bin', 'And', S(a), ('inv', L(3))))]),
    ('S5 if-expression of two literals',        [A(0, ('lsig', o, ()), ('bin', 'Add', S(a), ('if', bit0, L(3), L(300))))]),
    ('S5 same, wider first',                    [A(0, ('lsig', o, ()), ('bin', 'Add', S(a), ('if', bit0, L(300), L(3))))]),
    ('S6 zext to 1024 bits',                    [A(0, ('lsig', o1, ()), ('red', 'ROr', ('zext', 1024, S(a))))]),
    ('S7 temporary explicit then int',          [('if', 0, bit0, [A(1, ('ltmp', 0), S(a2))], [A(2, ('ltmp', 0), L(3))]), A(3, ('lsig', o, ()), ('tmp', 0))]),
    ('S10 stale implicit branch',               [A(0, ('lsig', o2, ()), ('if', bit0, ('bin', 'Add', L(1), L(2)), S(a)))]),
    ('S13 comparison result in an if-expression',  [A(0, ('lsig', o1, ()), ('if', ('index', S(a), L(1)), ('cmp', 'CEq', S(a), S(b)), L(5)))]),
    ('S11 literal re-enforced below its width',  [A(0, ('lsig', o1, ()), ('bin', 'Add', L(1), ('bin', 'Sub', L(0), ('bin', 'And', L(0), L(5)))))]),
    ('shift by narrower signal (exempt)',       [A(0, ('lsig', o, ()), ('bin', 'LShift', S(a), S(c4)))]),
    ('shift by too large literal (exempt)',     [A(0, ('lsig', o, ()), ('bin', 'LShift', S(a), L(300)))]),
    ('cast of narrower signal (exempt)',        [A(0, ('lsig', o, ()), ('cast', 8, S(c4)))]),
    ('explicit width mismatch add',             [A(0, ('lsig', o, ()), ('bin', 'Add', S(a), S(c4)))]),
    ('explicit width mismatch compare',         [A(0, ('lsig', o1, ()), ('cmp', 'CEq', S(a), S(c4)))]),
    ('explicit width mismatch ifexp',           [A(0, ('lsig', o, ()), ('if', bit0, S(a), S(c4)))]),
    ('explicit width mismatch assign',          [A(0, ('lsig', o, ()), S(c4))]),
    ('literal too wide for operand',            [A(0, ('lsig', o, ()), ('bin', 'Add', S(a), L(256)))]),
    ('literal too wide for compare',            [A(0, ('lsig', o1, ()), ('cmp', 'CLt', S(a), L(300)))]),
    ('index width rule',                        [A(0, ('lsig', o1, ()), ('index', S(a), S(c4)))]),
    ('index by 3-bit signal',                   [A(0, ('lsig', o1, ()), ('index', S(a), ('slice', S(c4), L(0), L(3))))]),
    ('slice x:x+k',                             [('for', 0, 0, 3, 1, [A(0, ('lslice', o, (), ('loop', 0), ('bin', 'Add', ('loop', 0), L(2))), ('slice', S(a), ('loop', 0), ('bin', 'Add', ('loop', 0), L(2))))], 1)]),
    ('temporaries',                             [A(0, ('ltmp', 0), ('bin', 'Add', S(a), L(1))), A(1, ('ltmp', 1), L(3)), A(2, ('lsig', o, ()), ('bin', 'Xor', ('tmp', 0), ('tmp', 1))), A(3, ('lsig', o2, ()), ('slice', ('tmp', 0), L(2), L(4)))]),
    ('concat / ext / reduce',                   [A(0, ('lsig', o16, ()), ('concat', [S(a), ('zext', 4, S(a2)), ('sext', 4, S(a2))])), A(1, ('lsig', o1, ()), ('red', 'RXor', ('trunc', 3, S(a))))]),
  ]
  cases = []
  for tag, ss in blocks:
    c = process_block(ctx, mkD(I8), ss, False, [], 6, 'directed:' + tag, ctx.rng, feats=('directed',))
    cases.append(c)
  out = check_cases(ctx, cases, 'directed')
  ctx.sample({'section': 'directed', 'tag': cases[0].tag, 'block': cases[0].body, 'checker': str(cases[0].tc)[:200], 'simulation': str(cases[0].runs[0][1])[:200]})
  ctx.extra['directed_verdicts'] = {c.tag.split(':', 1)[1]: c.tc[0] + ('/raises' if any(s[0] == 'err' and s[1] == 'EValue' for _, s, _ in c.runs) else '') for c in cases}


class ConstGen:
  """blocks over free-variable constants: closure ints / Bits / bitstruct instances, component-attribute constants, lists of
  them (constant index: folded by the RTLIR generator; signal index: rt.Array of rt.Const), their (nested) fields, and lists of
  signals — combined with explicitly sized signals of equal and of different width."""
  def __init__(s, rng):
    s.rng = rng
    D = s.D = Design()
    r = rng
    s.sig = {}
    for w in (1, 2, 3, 4, 8, 16): s.sig[w] = D.add('InPort', w)
    n = s.n = r.choice([2, 3, 4])
    s.selw = 1 if n <= 2 else 2
    s.sel = D.add('InPort', s.selw)
    s.bw = r.choice([3, 4, 8])
    s.kbits = r.choice([2, 3, 4])
    vals = lambda w: [r.getrandbits(w) for _ in range(n)]
    s.bl, s.cm, s.cb, s.ck = vals(s.bw), vals(4), vals(8), vals(16)
    s.ks = [(1 << (s.kbits - 1)) | r.getrandbits(s.kbits - 1) for _ in range(n)]      # all of the same bit length
    s.K, s.Bv, s.N = r.getrandbits(3), r.getrandbits(s.bw), r.getrandbits(4)
    cfg = lambda i: f'Cfg( {s.cm[i]}, {s.cb[i]} )'
    D.extra += [f'K0 = {s.K}', f'B0 = Bits{s.bw}( {s.Bv} )', f'cfg0 = {cfg(0)}',
                'cfgl = [ ' + ', '.join(cfg(i) for i in range(n)) + ' ]',
                'kl = [ ' + ', '.join(map(str, s.ks)) + ' ]',
                f's.N0 = {s.N}', f's.C0 = Bits{s.bw}( {s.Bv} )', f's.cfg = {cfg(1)}', f's.cfg2 = Cfg2( {cfg(0)}, {s.ck[0]} )',
                's.cfgs = [ ' + ', '.join(cfg(i) for i in range(n)) + ' ]',
                's.cfg2s = [ ' + ', '.join(f'Cfg2( {cfg(i)}, {s.ck[i]} )' for i in range(n)) + ' ]',
                's.ks = [ ' + ', '.join(map(str, s.ks)) + ' ]',
                's.bl = [ ' + ', '.join(f'Bits{s.bw}( {v} )' for v in s.bl) + ' ]',
                f's.ins = [ InPort( Bits{s.bw} ) for _ in range({n}) ]']
    D.siglists.append(('ins', n, s.bw))
    s.frees = []
    s.feats = set()

  def operands(s):
    """(term, width, runtime kind) of every explicitly sized constant-derived operand"""
    r = s.rng; n = s.n; j = r.randrange(n)
    sel = ('sig', s.sel, ())
    out = [
      (('cbits', 's.C0', s.bw, s.Bv), s.bw, 'attr-bits'),
      (('fbits', 'B0', s.bw, s.Bv), s.bw, 'closure-bits'),
      (('cbits', 'cfg0.mask', 4, s.cm[0]), 4, 'closure-struct-field'),
      (('cbits', 's.cfg.base', 8, s.cb[1]), 8, 'attr-struct-field'),
      (('cbits', 's.cfg2.c.mask', 4, s.cm[0]), 4, 'attr-nested-field'),
      (('cbits', 's.cfg2.k', 16, s.ck[0]), 16, 'attr-nested-field'),
      (('cbits', f's.bl[{j}]', s.bw, s.bl[j]), s.bw, 'bits-list-const-index'),
      (('cbits', f's.cfgs[{j}].mask', 4, s.cm[j]), 4, 'struct-list-const-index'),
      (('cbits', f'cfgl[{j}].base', 8, s.cb[j]), 8, 'closure-struct-list-const-index'),
      (('cbits', f's.cfg2s[{j}].c.base', 8, s.cb[j]), 8, 'struct-list-const-index'),
      (('cidx', ('carr', 's.bl'), sel), s.bw, 'bits-list-signal-index'),
      (('cfield', ('cidx', ('carr', 's.cfgs'), sel), 'mask'), 4, 'struct-list-signal-index'),
      (('cfield', ('cidx', ('carr', 's.cfgs'), sel), 'base'), 8, 'struct-list-signal-index'),
      (('cfield', ('cidx', ('carr', 'cfgl'), sel), 'mask'), 4, 'closure-struct-list-signal-index'),
      (('cfield', ('cfield', ('cidx', ('carr', 's.cfg2s'), sel), 'c'), 'mask'), 4, 'struct-list-signal-index-nested'),
      (('cfield', ('cidx', ('carr', 's.cfg2s'), sel), 'k'), 16, 'struct-list-signal-index-nested'),
      (('cidx', ('carr', 's.ks'), sel), s.kbits, 'int-list-signal-index'),
      (('cidx', ('carr', 'kl'), sel), s.kbits, 'closure-int-list-signal-index'),
      (('cidx', ('carr', 's.ins'), ('lit', j)), s.bw, 'signal-list-const-index'),
      (('cidx', ('carr', 's.ins'), sel), s.bw, 'signal-list-signal-index'),
    ]
    return out

  def ints(s):
    r = s.rng; j = r.randrange(s.n)
    s.frees = [s.K]
    return [(('cint', 's.N0', s.N), 'attr-int'), (('cint', f's.ks[{j}]', s.ks[j]), 'int-list-const-index'),
            (('cint', f'kl[{j}]', s.ks[j]), 'closure-int-list-const-index'), (('lit', s.N), 'literal')]

  def sig_of(s, w):
    """an explicitly sized signal expression of width w"""
    r = s.rng
    if w in s.sig and r.random() < 0.7: return ('sig', s.sig[w], ())
    big = [x for x in s.sig if x > w]
    if big and r.random() < 0.6:
      b = r.choice(big); lo = r.randrange(0, b - w + 1)
      return ('slice', ('sig', s.sig[b], ()), ('lit', lo), ('lit', lo + w))
    small = [x for x in s.sig if x < w]
    if small: return ('zext', w, ('sig', s.sig[r.choice(small)], ()))
    return ('trunc', w, ('sig', s.sig[16], ()))

  def build(s):
    r = s.rng
    x, xw, kind = r.choice(s.operands()); s.feats.add(kind)
    same = r.random() < 0.6
    ow = xw if same else r.choice([w for w in (1, 2, 3, 4, 5, 8, 9, 16) if w != xw])
    q = r.random()
    if q < 0.25:
      y, yw, k2 = r.choice(s.operands()); s.feats.add(k2)
      if same and yw != xw: y, yw = s.sig_of(xw), xw
    else:
      y, yw = s.sig_of(ow), ow
    if r.random() < 0.5: x, xw, y, yw = y, yw, x, xw
    form = r.choice(['arith', 'arith', 'bitwise', 'compare', 'ifexp', 'assign', 'int-operand', 'int-compare', 'concat', 'shift'])
    s.feats.add('form:' + form + (':same-width' if same else ':other-width'))
    resw = xw
    if form == 'arith': e = ('bin', r.choice(['Add', 'Sub', 'Mul']), x, y)
    elif form == 'bitwise': e = ('bin', r.choice(['And', 'Or', 'Xor']), x, y)
    elif form == 'compare': e = ('cmp', r.choice(list(PYCMP)), x, y); resw = 1
    elif form == 'ifexp': e = ('if', ('index', ('sig', s.sig[8], ()), ('lit', r.randrange(8))), x, y)
    elif form == 'assign': e = x if r.random() < 0.5 else y; resw = xw if e is x else yw
    elif form == 'int-operand':
      i, ik = r.choice(s.ints()); s.feats.add(ik)
      v = i[2] if i[0] == 'cint' else i[1]
      if v >= (1 << xw): e = x          # keep implicit operands inside the operand width (the too-wide case is finding S-families)
      else: e = ('bin', r.choice(['Add', 'And', 'Xor']), x, i) if r.random() < 0.5 else ('bin', r.choice(['Add', 'Or']), i, x)
    elif form == 'int-compare':
      i, ik = r.choice(s.ints()); s.feats.add(ik)
      v = i[2] if i[0] == 'cint' else i[1]
      e = ('cmp', r.choice(list(PYCMP)), x, i) if v < (1 << xw) else ('cmp', 'CEq', x, s.sig_of(xw)); resw = 1
    elif form == 'concat': e = ('concat', [x, y]); resw = xw + yw
    else: e = ('bin', r.choice(['LShift', 'RShift']), x, y)
    tw = resw if r.random() < 0.8 else max(1, resw + r.choice([-1, 1, 4]))
    o = s.D.add('OutPort', tw)
    ss = [('assign', 0, ('lsig', o, ()), e, True)]
    if r.random() < 0.3:       # the same operand also through a temporary and inside an if statement
      s.feats.add('tmp+if')
      o2 = s.D.add('OutPort', resw)
      ss = [('assign', 0, ('ltmp', 0), e, True),
            ('if', 1, ('index', ('sig', s.sig[8], ()), ('lit', 0)), [('assign', 2, ('lsig', o2, ()), ('tmp', 0), True)], []),
            ('assign', 3, ('lsig', o, ()), ('tmp', 0), True)]
    return ss

def constant_cases(ctx, n, ninputs):
  cases = []
  for i in range(n):
    g = ConstGen(ctx.rng)
    ss = g.build()
    c = process_block(ctx, g.D, ss, False, g.frees, ninputs, f'constants:{i}', ctx.rng, feats=sorted(g.feats))
    cases.append(c)
  # the shape of mutation-prone code paths, always present: a Bits field of a constant struct list element selected by a signal
  g = ConstGen(ctx.rng); sel = ('sig', g.sel, ())
  for k, (fld, fw) in enumerate((('mask', 4), ('base', 8))):
    for w in (4, 8):
      D = ConstGen(ctx.rng); D.D.extra = list(g.D.extra); D.D.siglists = list(g.D.siglists)
      o = D.D.add('OutPort', w)
      ss = [('assign', 0, ('lsig', o, ()), ('bin', 'And', ('sig', D.sig[w], ()), ('cfield', ('cidx', ('carr', 's.cfgs'), ('sig', D.sel, ())), fld)), True)]
      D.selw = g.selw
      if D.selw != g.selw: continue
      cases.append(process_block(ctx, D.D, ss, False, [], ninputs, f'constants:fixed:{fld}:{w}', ctx.rng, feats=('struct-list-signal-index',)))
  check_cases(ctx, cases, 'constants')
  for c in cases[:2]:
    ctx.sample({'section': 'constants', 'modelled_in_coq': c.modelled, 'block': c.body[-500:], 'checker': str(c.tc)[:200],
                'simulation': str(c.runs[0][1])[:160] if c.tc[0] not in ('elab', 'syntax') else None})

class LoopGen:
  """nested for loops (2-3 deep) whose bodies slice / index signals with bounds built from the loop variables: the same variable on
  both bounds (x[e : e+K], accepted as a K-bit part select), and the near misses the checker must reject — different loop variables,
  different offsets or scales, a constant against a variable, non-Add upper bounds — on the read and on the written side."""
  def __init__(s, rng):
    s.rng = rng
    D = s.D = Design()
    s.ins = [D.add('InPort', w) for w in (16, 32, 8)]
    s.outs = [D.add('OutPort', w) for w in (16, 32, 8)]
    s.one = D.add('OutPort', 1)
    s.small = {k: D.add('OutPort', k) for k in (1, 2, 3, 4)}
    s.feats = set()
    s.lbl = 0

  def label(s):
    s.lbl += 1; return s.lbl - 1

  def affine(s, v, form=None):
    """an int expression over loop variable v"""
    r = s.rng
    form = form or r.choice(['v', 'v', 'v', 'v+c', 'v*c', 'c+v', '(v+c)', 'v-c'])
    V = ('loop', v)
    if form == 'v': return V
    c = r.choice([1, 2, 3])
    if form == 'v+c' or form == '(v+c)': return ('bin', 'Add', V, ('lit', c))
    if form == 'c+v': return ('bin', 'Add', ('lit', c), V)
    if form == 'v*c': return ('bin', 'Mul', V, ('lit', r.choice([2, 2, 4])))
    return ('bin', 'Sub', V, ('lit', 1))

  def bounds(s, vars_):
    """(lo, hi, K, kind): kind 'same' is the accepted x[e:e+K] shape, everything else is a near miss"""
    r = s.rng
    K = r.choice([1, 2, 2, 3, 4])
    v = r.choice(vars_)
    lo = s.affine(v)
    q = r.random()
    if q < 0.45:
      kind, e2 = 'same', lo
    elif q < 0.65 and len(vars_) > 1:
      w = r.choice([x for x in vars_ if x != v])
      # the same expression over a DIFFERENT loop variable
      def subst(e):
        if e[0] == 'loop': return ('loop', w)
        if e[0] == 'bin': return ('bin', e[1], subst(e[2]), subst(e[3]))
        return e
      kind, e2 = 'other-var', subst(lo)
    elif q < 0.78:
      kind, e2 = 'other-form', s.affine(v)
    elif q < 0.86:
      kind, e2 = 'const-lower', lo; lo = ('lit', r.randrange(0, 4))
    elif q < 0.93:
      kind = 'const-upper'
      s.feats.add('slice:' + kind)
      return lo, ('lit', r.randrange(4, 9)), K, kind
    else:
      kind = 'non-add-upper'
      s.feats.add('slice:' + kind)
      return lo, ('bin', r.choice(['Or', 'Mul', 'Sub']), lo, ('lit', K)), K, kind
    if kind == 'other-form' and e2 == lo: kind = 'same'
    hi = ('bin', 'Add', e2, ('lit', K)) if r.random() < 0.9 else ('bin', 'Add', ('lit', K), e2)      # K + e is not the recognised shape
    if hi[2][0] == 'lit' and kind == 'same': kind = 'swapped-add'
    s.feats.add('slice:' + kind)
    return lo, hi, K, kind

  def stmt(s, vars_):
    r = s.rng
    q = r.random()
    src = r.choice(s.ins); dst = r.choice(s.outs)
    if q < 0.35:        # read side
      lo, hi, K, kind = s.bounds(vars_)
      tgtw = K if r.random() < 0.85 else r.choice([k for k in (1, 2, 3, 4) if k != K])
      return ('assign', s.label(), ('lsig', s.small[tgtw], ()), ('slice', ('sig', src, ()), lo, hi), True)
    if q < 0.6:         # written side
      lo, hi, K, kind = s.bounds(vars_)
      w = K if r.random() < 0.85 else K + 1
      rhs = ('sized', w, r.getrandbits(w)) if r.random() < 0.4 else ('slice', ('sig', src, ()), ('lit', 1), ('lit', 1 + w))
      s.feats.add('slice-write')
      return ('assign', s.label(), ('lslice', dst, (), lo, hi), rhs, True)
    if q < 0.75:        # both sides
      lo, hi, K, kind = s.bounds(vars_)
      lo2, hi2, K2, kind2 = s.bounds(vars_)
      if r.random() < 0.7: hi2 = ('bin', 'Add', hi2[2] if hi2[0] == 'bin' and hi2[1] == 'Add' and hi2[3][0] == 'lit' else lo2, ('lit', K))
      s.feats.add('slice-both')
      return ('assign', s.label(), ('lslice', dst, (), lo, hi), ('slice', ('sig', src, ()), lo2, hi2), True)
    if q < 0.9:         # bit index by loop-variable expressions on both sides
      s.feats.add('index')
      return ('assign', s.label(), ('lindex', dst, (), s.affine(r.choice(vars_))), ('index', ('sig', src, ()), s.affine(r.choice(vars_))), True)
    s.feats.add('loopvar-compare')
    a, b = r.choice(vars_), r.choice(vars_)
    return ('assign', s.label(), ('lsig', s.one, ()), ('cmp', r.choice(list(PYCMP)), s.affine(a), s.affine(b)), True)

  def build(s):
    r = s.rng
    depth = r.choice([2, 2, 3])
    s.feats.add(f'depth:{depth}')
    def loop(level, vars_):
      lo = r.choice([0, 0, 1]); n = r.choice([2, 3, 4]); step = r.choice([1, 1, 2])
      nargs = 3 if step > 1 else (2 if lo else r.choice([1, 2]))
      vs = vars_ + [level]
      body = []
      if level + 1 < depth:
        if r.random() < 0.4: body.append(s.stmt(vs))
        body.append(loop(level + 1, vs))
        if r.random() < 0.2: body.append(s.stmt(vs))
      else:
        body += [s.stmt(vs) for _ in range(r.choice([1, 1, 2]))]
      return ('for', level, lo, lo + n * step, step, body, nargs)
    return [loop(0, [])]

def loop_cases(ctx, n, ninputs):
  cases = []
  for i in range(n):
    g = LoopGen(ctx.rng)
    ss = g.build()
    cases.append(process_block(ctx, g.D, ss, False, [], ninputs, f'loops:{i}', ctx.rng, feats=sorted(g.feats)))
  # fixed near misses: bounds over two different loop variables (must be rejected), and the accepted same-variable forms
  L = lambda v: ('loop', v); N = lambda z: ('lit', z)
  add = lambda a, b: ('bin', 'Add', a, b); mul = lambda a, b: ('bin', 'Mul', a, b)
  for tag, lo, hi in (('i:i+4', L(0), add(L(0), N(4))), ('i:j+4', L(0), add(L(1), N(4))), ('j:i+4', L(1), add(L(0), N(4))),
                      ('i*2:i*2+4', mul(L(0), N(2)), add(mul(L(0), N(2)), N(4))), ('i*2:j*2+4', mul(L(0), N(2)), add(mul(L(1), N(2)), N(4))),
                      ('i+1:i+1+4', add(L(0), N(1)), add(add(L(0), N(1)), N(4))), ('i+1:j+1+4', add(L(0), N(1)), add(add(L(1), N(1)), N(4))),
                      ('i+1:i+2+4', add(L(0), N(1)), add(add(L(0), N(2)), N(4)))):
    for side in ('read', 'write'):
      g = LoopGen(ctx.rng)
      if side == 'read': st = ('assign', 0, ('lsig', g.small[4], ()), ('slice', ('sig', g.ins[0], ()), lo, hi), True)
      else: st = ('assign', 0, ('lslice', g.outs[0], (), lo, hi), ('slice', ('sig', g.ins[0], ()), N(0), N(4)), True)
      ss = [('for', 0, 0, 3, 1, [('for', 1, 0, 3, 1, [st], 1)], 1)]
      cases.append(process_block(ctx, g.D, ss, False, [], ninputs, f'loops:fixed:{side}:{tag}', ctx.rng, feats=('fixed:' + tag,)))
  check_cases(ctx, cases, 'loops')
  ctx.extra['loops_fixed_verdicts'] = {c.tag.split(':', 2)[2]: c.tc[0] for c in cases if c.tag.startswith('loops:fixed')}
  for c in cases[:2]:
    ctx.sample({'section': 'loops', 'block': c.body[-400:], 'checker': str(c.tc)[:200]})

def nested(dims, leaf, idx=()):
  """python source of a nested list literal of shape dims; leaf(index tuple) -> source of the element"""
  if not dims: return leaf(idx)
  return '[ ' + ', '.join(nested(dims[1:], leaf, idx + (j,)) for j in range(dims[0])) + ' ]'

def all_indices(dims):
  out = [()]
  for d in dims: out = [p + (j,) for p in out for j in range(d)]
  return out

def idx_width(n): return 1 if n <= 1 else (n - 1).bit_length()

class ArrayGen:
  """bitstructs with (multi-dimensional) list fields and 2-D / 3-D arrays of signals and of constants — homogeneous, or with a different
  bitwidth in a non-first row / plane.  None of this is in the Coq language: the blocks are type-checked by the real pass, simulated with the
  index signals driven through EVERY element, probed, and the property is evaluated on those observations: an accepted block never raises
  a width error; the width the checker gives a sub-expression is the width of the value computed there."""
  def __init__(s, rng):
    s.rng = rng
    D = s.D = Design(); D.force_unmodelled = True
    s.feats = set()
    s.idxsigs = []         # (signal id, width) of the index signals, in the order they were created
    s.bits_in = {}

  def bits(s, w):
    if w not in s.bits_in: s.bits_in[w] = s.D.add('InPort', w)
    return ('sig', s.bits_in[w], ())

  def index(s, n, const_ok=True):
    """an index expression into a dimension of n elements: a literal or a signal of exactly the index width"""
    r = s.rng
    if const_ok and r.random() < 0.4: return ('lit', r.randrange(n))
    si = s.D.add('InPort', idx_width(n)); s.idxsigs.append((si, idx_width(n)))
    return ('sig', si, ())

  def chain(s, base, dims, upto=None, const_ok=True):
    e = base
    for n in dims[:upto]: e = ('cidx', e, s.index(n, const_ok))
    return e

  def near(s, w):
    """the right width most of the time, otherwise a near miss"""
    r = s.rng
    if r.random() < 0.5: return w
    return max(1, w + r.choice([-8, -4, -2, -1, 1, 2, 4, 8]))

  def struct_block(s):
    r = s.rng
    S = r.choice(['Pix', 'Vol', 'Row', 'Sq', 'Pix', 'Vol', 'Pt', 'Outer'])
    W = type_width(S)
    form = r.choice(['to-bits', 'from-bits', 'element', 'element', 'scalar-field', 'copy', 'row']) if S in ARR_STRUCTS else r.choice(['to-bits', 'from-bits'])
    s.feats.add(f'struct:{S}:{form}')
    D = s.D
    if form == 'to-bits':
      i = D.add('InPort', S); n = s.near(W)
      if r.random() < 0.3 and S in ARR_STRUCTS:        # a width a wrong packing rule would compute
        f = next(ft for _, ft in ARR_STRUCTS[S] if isinstance(ft, tuple))
        n = W - type_width(f) + f[2] * sum(f[1])
      o = D.add('OutPort', n)
      return [('assign', 0, ('lsig', o, ()), ('sig', i, ()), True)]
    if form == 'from-bits':
      o = D.add('OutPort', S); n = s.near(W)
      return [('assign', 0, ('lsig', o, ()), s.bits(n), True)]
    if form == 'copy':
      i = D.add('InPort', S); o = D.add('OutPort', S if r.random() < 0.8 else r.choice([x for x in ARR_STRUCTS if x != S]))
      return [('assign', 0, ('lsig', o, ()), ('sig', i, ()), True)]
    i = D.add('InPort', S)
    fields = ARR_STRUCTS[S]
    if form == 'scalar-field':
      k = next(j for j, (_, ft) in enumerate(fields) if not isinstance(ft, tuple)); w = fields[k][1]
      o = D.add('OutPort', s.near(w))
      return [('assign', 0, ('lsig', o, ()), ('sig', i, (k,)), True)]
    k = next(j for j, (_, ft) in enumerate(fields) if isinstance(ft, tuple)); _, dims, ew = fields[k][1]
    if form == 'row' and len(dims) > 1:
      e = s.chain(('sig', i, (k,)), dims, upto=len(dims) - 1)
      o = D.add('OutPort', dims[-1] * ew)
      return [('assign', 0, ('lsig', o, ()), e, True)]
    e = s.chain(('sig', i, (k,)), dims)
    o = D.add('OutPort', s.near(ew) if r.random() < 0.6 else ew)
    if r.random() < 0.4: e = ('bin', r.choice(['Add', 'And', 'Xor']), e, s.bits(ew))
    return [('assign', 0, ('lsig', o, ()), e, True)]

  def array_block(s):
    r = s.rng
    D = s.D
    dims = r.choice([(2, 2), (3, 2), (2, 3), (4, 2), (2, 2, 2), (2, 3, 2), (3, 2, 2)])
    kind = r.choice(['inport', 'inport', 'attr-bits', 'closure-bits', 'attr-int'])
    w0 = r.choice([3, 4, 8]); w1 = r.choice([w for w in (2, 4, 5, 8, 12) if w != w0])
    hetero = r.random() < 0.5
    # heterogeneous: one non-first row (or plane, or a single element not in row 0) has another bitwidth
    if hetero:
      level = r.randrange(len(dims) - 1) if r.random() < 0.8 else len(dims) - 1
      pre = tuple(r.randrange(1 if j == 0 else 0, dims[j]) for j in range(level + 1))
      if level == len(dims) - 1 and all(x == 0 for x in pre[:-1]): pre = (1,) + pre[1:]
      odd = lambda ix: ix[:len(pre)] == pre
    else: odd = lambda ix: False
    wof = lambda ix: w1 if odd(ix) else w0
    s.feats.add(f'array:{kind}:{len(dims)}d:' + ('heterogeneous' if hetero else 'homogeneous'))
    name = {'inport': 's.arr', 'attr-bits': 's.carr', 'closure-bits': 'carr', 'attr-int': 's.iarr'}[kind]
    if kind == 'inport':
      D.extra.append(f'{name} = ' + nested(dims, lambda ix: f'InPort( Bits{wof(ix)} )'))
      D.siglists.append(('arr', len(all_indices(dims)), [wof(ix) for ix in all_indices(dims)]))
    elif kind == 'attr-int':
      vals = {ix: (1 << (wof(ix) - 1)) | r.getrandbits(wof(ix) - 1) for ix in all_indices(dims)}
      D.extra.append(f'{name} = ' + nested(dims, lambda ix: str(vals[ix])))
    else:
      vals = {ix: r.getrandbits(wof(ix)) for ix in all_indices(dims)}
      D.extra.append(f'{name} = ' + nested(dims, lambda ix: f'Bits{wof(ix)}( {vals[ix]} )'))
    e = s.chain(('carr', name), dims, const_ok=(r.random() < 0.5))
    lits = []; x = e
    while x[0] == 'cidx': lits.append(x[2]); x = x[1]
    if kind != 'inport' and all(l[0] == 'lit' for l in lits):
      # a constant element selected by constant indices is folded by the RTLIR generator (SizeCast(Number) / Number)
      ix = tuple(l[1] for l in reversed(lits)); src = name + ''.join(f'[{j}]' for j in ix)
      e = ('cint', src, vals[ix]) if kind == 'attr-int' else ('cbits', src, wof(ix), vals[ix])
      s.feats.add('array:folded-element')
    tw = w0 if r.random() < 0.75 else s.near(w0)
    o = D.add('OutPort', tw)
    q = r.random()
    if q < 0.35: e = ('bin', r.choice(['Add', 'Sub', 'And', 'Or']), e, s.bits(w0))
    elif q < 0.5:
      o = D.add('OutPort', 1); e = ('cmp', r.choice(list(PYCMP)), e, s.bits(w0))
    return [('assign', 0, ('lsig', o, ()), e, True)]

  def build(s):
    ss = s.struct_block() if s.rng.random() < 0.5 else s.array_block()
    return ss

  def drive(s):
    """run k drives the index signals with the k-th combination (mixed radix over their value ranges)"""
    sigs = list(s.idxsigs)
    def f(k, ins):
      ins = list(ins)
      for si, w in sigs:
        ins[si] = k % (1 << w); k //= (1 << w)
      return ins
    combos = 1
    for _, w in sigs: combos *= (1 << w)
    return f, combos

def array_cases(ctx, n, maxruns):
  cases = []
  for i in range(n):
    g = ArrayGen(ctx.rng)
    ss = g.build()
    f, combos = g.drive()
    cases.append(process_block(ctx, g.D, ss, False, [], max(2, min(combos, maxruns)), f'arrays:{i}', ctx.rng, feats=sorted(g.feats), drive=f))
  check_cases(ctx, cases, 'arrays')
  v = {}
  for c in cases:
    for f in c.feats:
      if f.startswith('array:') and f.count(':') >= 3:
        k = f.split(':')[-1] + ':' + c.tc[0]; v[k] = v.get(k, 0) + 1
  ctx.extra['arrays_verdicts'] = v
  for c in cases[:2]:
    ctx.sample({'section': 'arrays', 'block': c.body[-500:], 'checker': str(c.tc)[:200], 'simulation': str(c.runs[0][1])[:160] if c.tc[0] not in ('elab', 'syntax') else None})

def operand_order_cases(ctx, full):
  """every binary, comparison and conditional operator with an implicit int (literal / closure int / attribute int) on the LEFT and
  on the RIGHT of an explicitly sized signal, the int being the largest value of the signal's width, the first value beyond it, and the
  next one.  All of it is in the Coq language: the real verdict and node widths are compared with the model, and the property is
  evaluated on the real run."""
  rng = ctx.rng
  cases = []
  ops = [('bin', o) for o in ('Add', 'Sub', 'Mul', 'And', 'Or', 'Xor', 'LShift', 'RShift')] + [('cmp', o) for o in PYCMP] + [('if', None)]
  n = 0
  for w in ((1, 4, 8, 13) if full else (4, 8)):
    for kind, op in ops:
      for dv in ((-1, 0, 1) if full else (-1, 0)):
        v = (1 << w) + dv
        for side in ('left', 'right'):
          for ik in (('lit', 'free', 'cint') if full else (('lit', 'free', 'cint')[n % 3],)):
            n += 1
            D = mkD([('InPort', w), ('InPort', 8), ('OutPort', 1 if kind == 'cmp' else w)])
            frees = []
            if ik == 'lit': c = ('lit', v)
            elif ik == 'free': c = ('free', v, 0); frees = [v]
            else: c = ('cint', 's.N0', v); D.extra.append(f's.N0 = {v}')
            x = S(0)
            a, b = (c, x) if side == 'left' else (x, c)
            e = ('if', ('index', S(1), ('lit', n % 8)), a, b) if kind == 'if' else (kind, op, a, b)
            cases.append(process_block(ctx, D, [A(0, ('lsig', 2, ()), e)], False, frees, 2, f'order:{kind}:{op}:{side}:{ik}:{w}:{dv}', rng,
                                       feats=(f'order:{kind}:{side}', f'order:value:{["max", "max+1", "max+2"][dv + 1]}')))
  check_cases(ctx, cases, 'order')
  v = {}
  for c in cases:
    t = c.tag.split(':'); k = f'{t[1]}:{t[3]}:{"fits" if t[6] == "-1" else "too-wide"}:{c.tc[0]}'; v[k] = v.get(k, 0) + 1
  ctx.extra['order_verdicts'] = v


class StructInstGen:
  """bitstruct construction inside an update block:  S( arg, ... )  with, per field, a literal / closure int that fits, a sized literal,
  an explicitly sized signal, slice, struct field or extension of equal, narrower or wider width, and for struct-typed fields a nested
  constructor or a struct signal of the same / another type.  Outside the Coq language: type-checked by the real pass, simulated, probed,
  property evaluated on the observations (accepted => no width error; widths of probed sub-expressions = checker widths)."""
  CT = {'Pt': STRUCTS['Pt'], 'Outer': STRUCTS['Outer'], 'Wd': STRUCTS['Wd'], 'Cfg': CONST_STRUCTS['Cfg'], 'Cfg2': CONST_STRUCTS['Cfg2']}
  def __init__(s, rng, wide_literals):
    s.rng = rng; s.wide_literals = wide_literals
    D = s.D = Design(); D.force_unmodelled = True
    s.feats = set(); s.frees = []
    s.bits_in = {}; s.struct_in = {}

  def width(s, t):
    return t if isinstance(t, int) else sum(s.width(ft) for _, ft in s.CT[t])

  def bits(s, w):
    r = s.rng
    q = r.random()
    if q < 0.5:
      if w not in s.bits_in: s.bits_in[w] = s.D.add('InPort', w)
      return ('sig', s.bits_in[w], ())
    if q < 0.7:
      b = w + r.choice([1, 3, 8]); lo = r.randrange(0, b - w + 1)
      if b not in s.bits_in: s.bits_in[b] = s.D.add('InPort', b)
      return ('slice', ('sig', s.bits_in[b], ()), ('lit', lo), ('lit', lo + w))
    if q < 0.8 and w in (4, 8):      # a field of a struct-typed input
      if 'Pt' not in s.struct_in: s.struct_in['Pt'] = s.D.add('InPort', 'Pt')
      return ('sig', s.struct_in['Pt'], (0,) if w == 8 else (1,))
    if q < 0.9 and w > 1:
      n = r.randrange(1, w)
      if n not in s.bits_in: s.bits_in[n] = s.D.add('InPort', n)
      return (r.choice(['zext', 'sext']), w, ('sig', s.bits_in[n], ()))
    return ('sized', w, r.getrandbits(w))

  def arg(s, ft, depth):
    r = s.rng
    if isinstance(ft, str):      # struct-typed field
      q = r.random()
      if q < 0.6 and depth < 2: s.feats.add('arg:nested-constructor'); return s.inst(ft, depth + 1)
      T = ft if q < 0.85 else r.choice([x for x in ('Pt', 'Outer', 'Cfg') if x != ft])
      s.feats.add('arg:struct-signal' + ('' if T == ft else ':other-type'))
      if T not in s.struct_in: s.struct_in[T] = s.D.add('InPort', T)
      return ('sig', s.struct_in[T], ())
    w = ft
    q = r.random()
    if q < 0.25:
      v = r.choice([0, 1, (1 << w) - 1, r.getrandbits(w)])
      if s.wide_literals and r.random() < 0.3: v = (1 << w) + r.randrange(0, 2); s.feats.add('arg:literal-too-wide')
      else: s.feats.add('arg:literal')
      return ('lit', v)
    if q < 0.32:
      v = r.getrandbits(w); s.frees.append(v); s.feats.add('arg:closure-int'); return ('free', v, len(s.frees) - 1)
    if q < 0.75: s.feats.add('arg:same-width'); return s.bits(w)
    ow = max(1, w + r.choice([-4, -1, 1, 4]))
    s.feats.add('arg:narrower' if ow < w else ('arg:wider' if ow > w else 'arg:same-width'))
    return s.bits(ow)

  def inst(s, S_, depth=0):
    return ('sinst', S_, [s.arg(ft, depth) for _, ft in s.CT[S_]])

  def build(s):
    r = s.rng
    S_ = r.choice(['Pt', 'Pt', 'Outer', 'Outer', 'Wd', 'Cfg', 'Cfg2'])
    e = s.inst(S_)
    W = s.width(S_)
    q = r.random()
    if q < 0.6 and S_ in STRUCTS: o = s.D.add('OutPort', S_); s.feats.add('target:struct')
    elif q < 0.7 and S_ in STRUCTS: o = s.D.add('OutPort', r.choice([x for x in ('Pt', 'Outer', 'Wd') if x != S_])); s.feats.add('target:other-struct')
    else: o = s.D.add('OutPort', W if r.random() < 0.7 else W + r.choice([-1, 1, 4])); s.feats.add('target:bits')
    return [('assign', 0, ('lsig', o, ()), e, True)]

def structinst_cases(ctx, n, ninputs):
  wide = any(k.get('key') == STRUCTINST_KEY for k in ctx.known)
  if not wide: ctx.extra['structinst_too_wide_literal_arguments'] = f'withheld until {STRUCTINST_KEY} is a registered finding (reported to the coordinator)'
  cases = []
  for i in range(n):
    g = StructInstGen(ctx.rng, wide)
    ss = g.build()
    cases.append(process_block(ctx, g.D, ss, False, g.frees, ninputs, f'structinst:{i}', ctx.rng, feats=sorted(g.feats)))
  check_cases(ctx, cases, 'structinst')
  v = {}
  for c in cases:
    mism = any(f in ('arg:narrower', 'arg:wider', 'arg:struct-signal:other-type') for f in c.feats)
    k = ('explicit-mismatch' if mism else 'widths-match') + ':' + c.tc[0]; v[k] = v.get(k, 0) + 1
  ctx.extra['structinst_verdicts'] = v
  for c in cases[:2]:
    ctx.sample({'section': 'structinst', 'block': c.body[-400:], 'checker': str(c.tc)[:200], 'simulation': str(c.runs[0][1])[:160] if c.tc[0] not in ('elab', 'syntax') else None})

MULTI_HEADER = """
class Inc( Component ):
  def construct( s, T ):
    s.in_ = InPort( T )
    s.out = OutPort( T )
    @update
    def up_inc():
      s.out @= s.in_ + 1
class Join( Component ):
  def construct( s, nbits ):
    s.x = InPort( nbits )
    s.y = InPort( nbits )
    s.z = OutPort( nbits )
    @update
    def up_join():
      s.z @= s.x ^ s.y
def mk_msg( w ):
  return mk_bitstruct( 'Msg', { 'hdr': mk_bits( w ), 'val': mk_bits( w ) } )
def mk_pair( w ):
  @bitstruct
  class Pair:
    lo: mk_bits( w )
    hi: mk_bits( 2 * w )
  return Pair
"""

class MultiGen:
  """components with SEVERAL update blocks and several sub-components: one child class instantiated with different width parameters
  (single children and a list of children) whose ports are written / read in the parent's blocks; bitstruct types with ONE name but
  different field widths (two calls of a factory) constructed and read in one component; same-named closure constants of different
  widths in different blocks.  Every statement is built with matching explicit widths, except (in about half of the designs) one
  deliberately mismatching one.  Outside the Coq language: real checker + real simulation + probes; a design without mismatch must be
  accepted; an accepted design must not raise a width error and probed widths must be the checker's."""
  def __init__(s, rng):
    s.rng = rng
    D = s.D = Design(); D.force_unmodelled = True; D.header = MULTI_HEADER
    s.feats = set()
    s.lbl = 0
    s.ins = {}; s.nout = 0
    s.correct = True

  def label(s):
    s.lbl += 1; return s.lbl - 1
  def inp(s, w):
    """a fresh explicitly sized source of width w (its own input port: no write conflicts, every child input has one driver)"""
    r = s.rng
    if r.random() < 0.7 or w not in s.ins:
      si = s.D.add('InPort', w); s.ins[w] = si
    return ('sig', s.ins[w], ())
  def out(s, w):
    return ('lsig', s.D.add('OutPort', w), ())
  def assign(s, l, e):
    return ('assign', s.label(), l, e, True)

  def build(s):
    r = s.rng
    D = s.D
    ws = r.sample([4, 8, 16, 5], 2) if r.random() < 0.8 else [8, 8]
    wa, wb = ws
    bad = None if r.random() < 0.5 else r.choice(['child-read', 'child-write', 'list-child', 'struct-inst', 'struct-read', 'closure'])
    if wa == wb: bad = None
    other = lambda w: wb if w == wa else wa
    blocks = []
    order = r.random() < 0.5            # which of the two same-named things is met first
    pairs = [(wa, 'a'), (wb, 'b')] if order else [(wb, 'b'), (wa, 'a')]
    kinds = r.sample(['children', 'list-children', 'structs', 'closures', 'join'], r.choice([2, 3, 3, 4]))
    if bad in ('child-read', 'child-write') and 'children' not in kinds: kinds.append('children')
    if bad == 'list-child' and 'list-children' not in kinds: kinds.append('list-children')
    if bad in ('struct-inst', 'struct-read') and 'structs' not in kinds: kinds.append('structs')
    if bad == 'closure' and 'closures' not in kinds: kinds.append('closures')
    for k in kinds: s.feats.add('multi:' + k)
    if bad: s.feats.add('multi:mismatch:' + bad); s.correct = False
    if 'children' in kinds:
      D.extra += [f's.a = Inc( Bits{wa} )', f's.b = Inc( Bits{wb} )']
      port = lambda c, p: ('cfield', ('carr', f's.{c}'), p)
      drive = []; collect = []
      wired = bad != 'child-write' and r.random() < 0.5        # the children's inputs are connected structurally: the blocks only read
      if wired: s.feats.add('multi:children-inputs-connected')
      for w, c in pairs:
        if wired:
          src = s.D.add('InPort', w); D.extra.append(f'connect( s.{c}.in_, s.{D.sigs[src][0]} )')
        else:
          drive.append(s.assign(('lexpr', port(c, 'in_')), s.inp(other(w) if bad == 'child-write' and c == pairs[1][1] else w)))
        collect.append(s.assign(s.out(other(w) if bad == 'child-read' and c == pairs[1][1] else w), port(c, 'out')))
      if wired: blocks += [('collect', collect, [])]
      elif r.random() < 0.5: blocks += [('drive', drive, []), ('collect', collect, [])]
      else: blocks += [('drive_' + c, [d], []) for (w, c), d in zip(pairs, drive)] + [('collect', collect, [])]
    if 'list-children' in kinds:
      # RTLIR wants the elements of ONE list to have the same interface: two homogeneous lists of the same child class, different widths
      st = []
      for w, c in pairs:
        D.extra.append(f's.ch{c} = [ ' + ', '.join(f'Inc( Bits{w} )' for _ in range(2)) + ' ]')
        el = lambda j, p, c=c: ('cfield', ('cidx', ('carr', f's.ch{c}'), ('lit', j)), p)
        for j in range(2): st.append(s.assign(('lexpr', el(j, 'in_')), s.inp(w)))
        for j in range(2):
          st.append(s.assign(s.out(other(w) if bad == 'list-child' and c == pairs[1][1] and j == 1 else w), el(j, 'out')))
      blocks.append(('kids', st, []))
    if 'join' in kinds:
      D.extra += [f's.ja = Join( {wa} )', f's.jb = Join( {wb} )']
      port = lambda c, p: ('cfield', ('carr', f's.{c}'), p)
      st = []
      for w, c in pairs:
        st += [s.assign(('lexpr', port('j' + c, 'x')), s.inp(w)), s.assign(('lexpr', port('j' + c, 'y')), ('bin', 'Add', s.inp(w), ('lit', 1)))]
      blocks.append(('jdrive', st, []))
      blocks.append(('jcollect', [s.assign(s.out(w), ('bin', 'And', port('j' + c, 'z'), s.inp(w))) for w, c in pairs], []))
    if 'structs' in kinds:
      fac = r.choice(['mk_msg', 'mk_pair'])
      flds = (lambda w: [('hdr', w), ('val', w)]) if fac == 'mk_msg' else (lambda w: [('lo', w), ('hi', 2 * w)])
      for w, c in pairs:
        T = f'M{c}'
        D.header += f'{T} = {fac}( {w} )\n'
        STRUCTS[T] = flds(w)
      st1, st2 = [], []
      for w, c in pairs:
        T = f'M{c}'
        aw = other(w) if bad == 'struct-inst' and c == pairs[1][1] else w
        args = [s.inp(fw if aw == w else (aw if fn in ('hdr', 'val', 'lo') else 2 * aw)) for fn, fw in flds(w)]
        tot = lambda x: sum(fw for _, fw in flds(x))
        q = r.random()
        # target: a port of that struct type, or a BitsN port as wide as the struct (for a mismatching constructor: as wide as its arguments)
        tgt = s.out(T) if (q < 0.4 and aw == w) else s.out(tot(aw))
        st1.append(s.assign(tgt, ('sinst', T, args)))
        # read a field of a struct-typed input of that type
        i = D.add('InPort', T)
        fw = flds(w)[0][1]
        st2.append(s.assign(s.out(flds(other(w))[0][1] if bad == 'struct-read' and c == pairs[1][1] else fw), ('sig', i, (0,))))
      blocks.append(('build_msgs', st1, []))
      blocks.append(('read_msgs', st2, []))
    if 'closures' in kinds:
      for w, c in pairs:
        cw = other(w) if bad == 'closure' and c == pairs[1][1] else w
        v = r.getrandbits(cw)
        e = ('bin', r.choice(['Add', 'Xor', 'Or']), s.inp(w), ('fbits', 'C', cw, v))
        blocks.append((f'clos_{c}', [s.assign(s.out(w), e)], [f'C = Bits{cw}( {v} )']))
    if r.random() < 0.5: r.shuffle(blocks)
    D.blocks = blocks
    return [st for _, bss, _ in blocks for st in bss]

def multi_cases(ctx, n, ninputs):
  cases = []
  saved = dict(STRUCTS)
  for i in range(n):
    g = MultiGen(ctx.rng)
    ss = g.build()
    c = process_block(ctx, g.D, ss, False, [], ninputs, f'multi:{i}', ctx.rng, feats=sorted(g.feats))
    c.expect_accept = g.correct
    cases.append(c)
  check_cases(ctx, cases, 'multi')
  STRUCTS.clear(); STRUCTS.update(saved)
  v = {}
  for c in cases:
    k = ('all-widths-match' if c.expect_accept else 'one-mismatch') + ':' + c.tc[0]; v[k] = v.get(k, 0) + 1
  ctx.extra['multi_verdicts'] = v
  for c in cases[:2]:
    ctx.sample({'section': 'multi', 'design': c.body[-700:], 'checker': str(c.tc)[:200], 'simulation': str(c.runs[0][1])[:160] if c.tc[0] not in ('elab', 'syntax') else None})

def random_cases(ctx, n, ninputs):
  cases = []
  for i in range(n):
    wild = [0.0, 0.05, 0.12, 0.25][i % 4]
    g = BlockGen(ctx.rng, wild=wild, allow_cast=(i % 3 != 0))
    ss = g.build()
    c = process_block(ctx, g.D, ss, g.ff, g.frees, ninputs, f'random:{i}', ctx.rng, feats=sorted(g.features))
    cases.append(c)
  check_cases(ctx, cases, 'random')
  for c in cases[:3]:
    ctx.sample({'section': 'random', 'block': c.body, 'checker': str(c.tc)[:300], 'simulation': str(c.runs[0][1])[:200] if c.tc[0] not in ('elab', 'syntax') else None})

def run(ctx):
  setup_impl_path()
  quick = ctx.tier == 'quick'
  literal_cases(ctx, 70 if quick else 80)
  directed_cases(ctx)
  constant_cases(ctx, 160 if quick else 1000, 4 if quick else 6)
  loop_cases(ctx, 70 if quick else 600, 2 if quick else 4)
  array_cases(ctx, 100 if quick else 800, 8 if quick else 16)
  operand_order_cases(ctx, not quick)
  structinst_cases(ctx, 100 if quick else 800, 3 if quick else 5)
  multi_cases(ctx, 60 if quick else 500, 2 if quick else 4)
  random_cases(ctx, 260 if quick else 1800, 6 if quick else 8)

def main(ctx):
  ctx.trusted += ['harness/c10.py prints the same block as Python source and as a Coq term (cross-checked on every block: the number and order of RTLIR nodes of the real tree must match the term)',
                  'Bits/BitsSpec.v and Bits/Helpers.v as the meaning of Bits operators (proved equal to the generated model of PythonBits.py in C04/C05)']
  ctx.assumptions += [
    'language modelled: signals of Bits / nested bitstruct type, int literals, BitsN(k), closure ints, + - * & | ^ << >>, comparisons, ~, slices (constant or x:x+k), bit index, concat, zext/sext/trunc (int width form), reduce_*, BitsN(e), IfExp, temporaries, constant-bounded for loops, @= / <<= (whole vector or bitstruct signals), if/else. Not modelled in Coq: / % ** unary -, signal lists / arrays, bitstructs with list fields, struct instantiation, struct<->vector assignment, signal-indexed constant lists and their fields, closure Bits variables, struct instantiation, struct<->vector assignment, interfaces, sub-components, negative literals; blocks of the constants section that use them are evaluated against the property on the real observations only (coverage.unmodelled_blocks_property_evaluated).',
    'generated blocks read only InPorts/temporaries and write only OutPorts/Wires (no aliasing between a temporary and a signal written later)',
    'tc_sound is proved for `tc strict` = the model of the code plus checks S1..S13 (Typing.v); tc_mono proves strict is a restriction of impl; for the code as it is the statement is false (machine-checked counterexamples; the harness finds them on the real code)',
    'soundness is proved for expressions, sub-expressions, assignments and whole blocks with nested if/else, constant-bounded for loops and temporaries (C10_block_sound); the anti-monotonicity strict => impl is proved for expressions and assignments and evaluated per block (ok_mono) for if/for',
    'a probe run executes the block body as plain python on the simulated component (same statements, same Bits objects as the scheduled update block)',
    'a checker crash (non-PyMTLTypeError exception) counts as rejection',
  ]
  ctx.build_props(extra_models=['theories/RTL/Syntax.vo', 'theories/RTL/Eval.vo', 'theories/RTL/Typing.vo'])
  try:
    run(ctx)
  except Exception as e:
    ctx.note('correspondence crashed: ' + traceback.format_exc()[-1500:])
    ctx.violation('C10:harness-crash', f'correspondence could not run: {e!r}', {'traceback': traceback.format_exc()}, found_input=False)
  return ctx.finish(rule='(1) literals 2^k-1,2^k,2^k+1 (k<=70/80) as a Number node, as a loop bound and against a k-bit signal; (2) 30 fixed blocks, one per checker rule / missing check; (2g) 60/500 multi-block designs with sub-components of one class and different widths, same-named bitstruct types and closure constants; (2f) 120/864 operand-order blocks (implicit int left/right of every operator at and beyond the signal width); (2e) 100/800 bitstruct constructor blocks; (2d) 100/800 blocks over bitstructs with multi-dimensional list fields (struct <-> BitsN, element reads) and 2-D/3-D arrays of signals / constants, homogeneous and heterogeneous, index signals driven through every element; (2c) 70/600 blocks of 2-3 nested for loops whose slices / indices mix loop variables, offsets, scales and constants on the read and the written side (accepted x[e:e+K] forms and the near misses the checker must reject) + 16 fixed ones; (2b) 160/1000 blocks over free-variable constants (ints, Bits, bitstructs, lists of them with constant and signal index, fields, signal lists) against signals of equal / different width; '
                         '(3) random type-directed update blocks (1-4 statements, depth<=3, 2-4 inputs and 2-4 outputs of Bits/bitstruct type, wildness 0-25%) each run on 6-8 random inputs; '
                         'distinct = distinct block texts; all non-trivial (every block is type-checked by the real passes, simulated and probed)')
